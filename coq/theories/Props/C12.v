(* C12 -- Forward models act identically on every representation of their input.
   Property theorems only: each is closed by `exact <lemma>` and followed by Print Assumptions.
   Model: Model/C12_Model.v (cuqi.model.Model._2fun/_2par/_apply_func/forward/gradient, the Jacobian
   wrapper, PDEModel._gradient_func, forward on a distribution).  `q : quirks` selects today's behaviour
   (q_today) or the repaired one (q_fixed) of three sites; theorems hold for every q under the stated guards.

   Vocabulary: core F rg fv = fun2par_range (F fv); out_of arr rg v = v as ndarray / as
   CUQIarray(is_par=True, geometry=rg), with the 0-d flag of the range geometry;
   eq_confused q a b = the geometry comparison `a == b` misbehaves (IndexError for Discrete geometries of
   different size; KeyError when only the left object has a `gradient` attribute attached; "equal" for a
   default 1-d geometry against a StepExpansion / user Continuous1D subclass on the same grid) -- all
   only under q_today. *)
From CV Require Import Base.Tac Base.LinAlg Base.QcLin Base.Cmp Model.C12_Model Proofs.C12_Model Proofs.C12_Chain.
From Coq Require Import QArith Qcanon.

(* Parameter vector, function values flagged as such, CUQIarray carrying the domain geometry as parameters
   and as function values (whatever the is_par keyword says): the same values fun2par_range(F(par2fun p)),
   wrapped like the input.  Guard: the exact complement of the two geometry-comparison classes (only
   needed when the forward callable hands the CUQIarray subclass on to its output). *)
Theorem C12_representations_agree : forall q F rg dg p fv,
  g_par2fun dg p = Ok fv ->
  (f_keeps_tag F = true -> eq_confused q dg rg = false) ->
  forward q F rg dg (InVec p) true = rmap (out_of false rg) (core F rg fv) /\
  forward q F rg dg (InVec fv) false = rmap (out_of false rg) (core F rg fv) /\
  (forall flag, forward q F rg dg (InArr dg true p) flag = rmap (out_of true rg) (core F rg fv)) /\
  (forall flag, forward q F rg dg (InArr dg false fv) flag = rmap (out_of true rg) (core F rg fv)).
Proof. exact forward_representations_agree. Qed.
Print Assumptions C12_representations_agree.

(* with the repaired comparisons the guard is void *)
Theorem C12_representations_agree_fixed : forall F rg dg p fv,
  g_par2fun dg p = Ok fv ->
  forward q_fixed F rg dg (InVec p) true = rmap (out_of false rg) (core F rg fv) /\
  forward q_fixed F rg dg (InVec fv) false = rmap (out_of false rg) (core F rg fv) /\
  (forall flag, forward q_fixed F rg dg (InArr dg true p) flag = rmap (out_of true rg) (core F rg fv)) /\
  (forall flag, forward q_fixed F rg dg (InArr dg false fv) flag = rmap (out_of true rg) (core F rg fv)).
Proof. intros F rg dg p fv H. apply forward_representations_agree; [exact H | intros _; apply eq_confused_fixed]. Qed.
Print Assumptions C12_representations_agree_fixed.

(* a sample collection of parameters: the output collection carries the range geometry and its k-th
   column is what the k-th column gives as a single parameter vector; refused iff some column is *)
Theorem C12_samples_columnwise : forall q F rg dg cols flag outs,
  (if q_samples_par q then true else flag) = true ->
  (forward q F rg dg (InSamples false cols) flag = Ok (OutSamples rg outs) <->
   Forall2 (fun c o => forward q F rg dg (InVec c) true = Ok (out_of false rg o)) cols outs).
Proof. exact forward_samples_columnwise. Qed.
Print Assumptions C12_samples_columnwise.

(* a sample collection of function values flagged is_par=False -- only when the keyword is honoured *)
Theorem C12_samples_funvals_columnwise : forall q F rg dg s2d cols outs,
  q_samples_par q = false ->
  (forward q F rg dg (InSamples s2d cols) false = Ok (OutSamples rg outs) <->
   Forall2 (fun c o => forward q F rg dg (InVec c) false = Ok (out_of false rg o)) cols outs).
Proof. exact forward_samples_fun_columnwise. Qed.
Print Assumptions C12_samples_funvals_columnwise.

(* today's code ignores the keyword: function values [1;9;25] of a squaring geometry, F = 3x:
   single input gives [3;27;75], the same column inside Samples(is_par=False) gives [3;243;1875] *)
Theorem C12_samples_funvals_refuted :
  q_samples_par q_today = true /\
  check_out (forward q_today w3_F (g_default1d 3) w3_dg (InVec w3_f) false) (ObsVal 0 [[3#1; 27#1; 75#1]]) = true /\
  check_out (forward q_today w3_F (g_default1d 3) w3_dg (InSamples false [w3_f]) false) (ObsVal 2 [[3#1; 243#1; 1875#1]]) = true.
Proof. exact witness_samples. Qed.
Print Assumptions C12_samples_funvals_refuted.

(* inside the first excluded class: default 1-d domain, StepExpansion(6 nodes, 3 steps, max) range, F = 2x:
   the vector gives the 3 parameters [4;8;12], the CUQIarray of the same vector gives 6 values *)
Theorem C12_representations_agree_refuted_default_eq :
  eq_confused q_today w1_dg w1_rg = true /\
  check_out (forward q_today w1_F w1_rg w1_dg (InVec w1_p) true) (ObsVal 0 [[4#1; 8#1; 12#1]]) = true /\
  check_out (forward q_today w1_F w1_rg w1_dg (InArr w1_dg true w1_p) true)
            (ObsVal 1 [[2#1; 4#1; 6#1; 8#1; 10#1; 12#1]]) = true.
Proof. exact witness_defeq. Qed.
Print Assumptions C12_representations_agree_refuted_default_eq.

(* inside the second excluded class: Discrete(4) -> Discrete(3): the vector gives [0;0;7], the CUQIarray
   of the same vector raises IndexError *)
Theorem C12_representations_agree_refuted_discrete_eq :
  eq_confused q_today (g_discrete 4) (g_discrete 3) = true /\
  check_out (forward q_today w2_F (g_discrete 3) (g_discrete 4) (InVec w2_p) true) (ObsVal 0 [[0#1; 0#1; 7#1]]) = true /\
  check_out (forward q_today w2_F (g_discrete 3) (g_discrete 4) (InArr (g_discrete 4) true w2_p) true) (ObsErr EIndex) = true.
Proof. exact witness_eqidx. Qed.
Print Assumptions C12_representations_agree_refuted_discrete_eq.

(* inside the third excluded class: the same StepExpansion on both sides, `gradient` attached to the domain
   object only: the vector gives [1;2], the CUQIarray of the same vector raises KeyError *)
Theorem C12_representations_agree_refuted_attribute_eq :
  eq_confused q_today w6_dg w6_rg = true /\
  check_out (forward q_today w6_F w6_rg w6_dg (InVec (zq [1;2]%Z)) true) (ObsVal 0 [[1#1; 2#1]]) = true /\
  check_out (forward q_today w6_F w6_rg w6_dg (InArr w6_dg true (zq [1;2]%Z)) true) (ObsErr EKey) = true.
Proof. exact witness_eqkey. Qed.
Print Assumptions C12_representations_agree_refuted_attribute_eq.

(* "always expressed as parameters of the range geometry": the value is fun2par_range(...) by the theorems
   above, the wrapper carries the range geometry; its SHAPE is the parameter shape except for a
   single-step StepExpansion range (0-d array, kind 3 instead of 0), whichever state the tree is in *)
Theorem C12_output_is_range_par_refuted_0d :
  g_f2p_0d w4_rg = true /\ g_pdim w4_rg = 1%nat /\
  check_out (forward q_today w4_F w4_rg (g_default1d 3) (InVec (zq [1;2;3]%Z)) true) (ObsVal 3 [[11#2]]) = true /\
  check_out (forward q_fixed w4_F w4_rg (g_default1d 3) (InVec (zq [1;2;3]%Z)) true) (ObsVal 3 [[11#2]]) = true.
Proof. exact witness_0d. Qed.
Print Assumptions C12_output_is_range_par_refuted_0d.

(* the Jacobian wrapper: direction @ J(wrt) = J(wrt)^T direction (Model(jacobian=...), PDEModel) *)
Theorem C12_jacobian_wrapper : forall n J jt d w,
  wf_mat n (J w) -> length d = length (J w) ->
  run_gfun (GJac n J jt) false d w = Ok (qmattvec n (J w) d, true, jac_sel jt) /\
  run_gfun (GPde None (Some (n, J, jt))) false d w = Ok (qmattvec n (J w) d, true, jac_sel jt).
Proof. exact jacobian_wrapper. Qed.
Print Assumptions C12_jacobian_wrapper.

(* chain rule through a domain geometry that provides `gradient`: with JF the Jacobian of the forward map
   at par2fun(wrt) (law of the model's gradient callable) and JG the Jacobian of par2fun at wrt (law of the
   geometry's gradient), the result is (JF JG)^T direction *)
Theorem C12_gradient_chain : forall q gf rg dg gg d w wf n m (JF JG : mat) flat sel,
  has_gradient_func gf = true -> plain1d (g_cls rg) = true ->
  g_grad dg = Some gg -> g_par2fun dg w = Ok wf ->
  run_gfun gf false d wf = Ok (qmattvec n JF d, flat, sel) ->
  (forall v, length v = n -> ggrad_apply gg v w = qmattvec m JG v) ->
  wf_mat n JF -> wf_mat m JG -> length JG = n ->
  gradient q gf rg dg (GiVec d) (GiVec w) true true = Ok (OutVec (qmattvec m (qmatmul m JF JG) d) false).
Proof. exact gradient_chain. Qed.
Print Assumptions C12_gradient_chain.

(* identity-like domain geometry (no `gradient`): JF^T direction read as parameters *)
Theorem C12_gradient_identity_domain : forall q gf rg dg d w wf n (JF : mat) flat sel,
  has_gradient_func gf = true -> plain1d (g_cls rg) = true ->
  g_grad dg = None -> identity_class (g_cls dg) = true -> g_par2fun dg w = Ok wf ->
  run_gfun gf false d wf = Ok (qmattvec n JF d, flat, sel) ->
  gradient q gf rg dg (GiVec d) (GiVec w) true true =
  rmap (fun v => OutVec v (g_f2p_0d dg)) (g_fun2par_gen dg flat (qmattvec n JF d)).
Proof. exact gradient_identity_domain. Qed.
Print Assumptions C12_gradient_identity_domain.

(* the linearisation point given as a CUQIarray carrying the domain geometry (as parameters or as function
   values) gives the same gradient values as the plain parameter vector.  Guard: the exact complement of
   the tag-leak class (the gradient callable hands on wrt's subclass AND the geometry's gradient hands on
   its first argument's subclass). *)
Theorem C12_gradient_wrt_representations_agree : forall q gf rg dg d (ap : bool) x w wpflag,
  has_gradient_func gf = true -> identity_class (g_cls rg) = true ->
  (has_grad dg = true \/ identity_class (g_cls dg) = true) ->
  (if ap then Ok x else g_fun2par dg x) = Ok w ->
  (if ap then g_par2fun dg x else Ok x) = g_par2fun dg w ->
  (forall gg df wf gv flat sel, g_grad dg = Some gg -> run_gfun gf (fun_is_2d rg) df wf = Ok (gv, flat, sel) ->
     tag_leaks sel (ggrad_sel gg) = false) ->
  out_values (gradient q gf rg dg (GiVec d) (GiArr dg ap x) true wpflag) =
  out_values (gradient q gf rg dg (GiVec d) (GiVec w) true true).
Proof. exact gradient_wrt_array_agrees. Qed.
Print Assumptions C12_gradient_wrt_representations_agree.

(* inside the excluded class (today; with the tag stripped -- q_fixed -- the right values come back): domain f = 2p+1 with imap and
   gradient = direction*2, F(f) = A f^2 with gradient callable 2 wrt (A^T d): wrt = [1;2;3] as ndarray gives
   [12;20;-84], as CUQIarray gives imap of it *)
Theorem C12_gradient_wrt_representations_refuted :
  tag_leaks SelWrtDir SelDirWrt = true /\
  check_out (gradient q_today w5_gf (g_default1d 2) w5_dg (GiVec w5_d) (GiVec w5_w) true true)
            (ObsVal 0 [[12#1; 20#1; -84#1]]) = true /\
  check_out (gradient q_today w5_gf (g_default1d 2) w5_dg (GiVec w5_d) (GiArr w5_dg true w5_w) true true)
            (ObsVal 1 [[11#2; 19#2; -85#2]]) = true /\
  check_out (gradient q_fixed w5_gf (g_default1d 2) w5_dg (GiVec w5_d) (GiArr w5_dg true w5_w) true true)
            (ObsVal 1 [[12#1; 20#1; -84#1]]) = true.
Proof. exact witness_tagleak. Qed.
Print Assumptions C12_gradient_wrt_representations_refuted.

(* the gradient is refused unless it can be formed *)
Theorem C12_gradient_guard : forall q gf rg dg d w dp wp,
  (forall out, gradient q gf rg dg d w dp wp = Ok out ->
     has_gradient_func gf = true /\ gi_samples d = false /\ gi_samples w = false /\
     identity_class (g_cls rg) = true /\ (has_grad dg = true \/ identity_class (g_cls dg) = true)) /\
  (has_gradient_func gf = false \/ gi_samples d = true \/ gi_samples w = true \/
   identity_class (g_cls rg) = false \/ (has_grad dg = false /\ identity_class (g_cls dg) = false) ->
   exists e, gradient q gf rg dg d w dp wp = Err e).
Proof. intros. split; [intros out; apply gradient_guard | apply gradient_refused]. Qed.
Print Assumptions C12_gradient_guard.

(* applying a model to a distribution: a model with every attribute shared and only the argument name
   replaced (the original is a value, hence untouched); refused iff the dimensions differ; the copy
   answers to the new name only *)
Theorem C12_rename_only : forall m name dim,
  (dim = m_domain_dim m ->
   exists m', forward_dist m name dim = Ok m' /\
     m_forward_func m' = m_forward_func m /\ m_gradient_func m' = m_gradient_func m /\
     m_range m' = m_range m /\ m_domain m' = m_domain m /\ m_domain_dim m' = m_domain_dim m /\
     m_extra m' = m_extra m /\ m_args m' = [name]) /\
  (dim <> m_domain_dim m -> forward_dist m name dim = Err EValue).
Proof. exact rename_only. Qed.
Print Assumptions C12_rename_only.

Theorem C12_rename_binding : forall m name dim m',
  forward_dist m name dim = Ok m' ->
  bind_args m' 1 [] = Ok name /\ bind_args m' 0 [name] = Ok name /\
  (forall k, k <> name -> bind_args m' 0 [k] = Err EValue).
Proof. exact rename_binding. Qed.
Print Assumptions C12_rename_binding.

(* non-vacuity: a mapped domain geometry (f = 2p+1, with imap and gradient), default range, F = A f:
   the hypotheses of the agreement theorems hold and the representations give [13;26]; a gradient with a
   CUQIarray linearisation point outside the leak class *)
Example C12_example :
  g_par2fun ex_dg (zq [1;2;3]%Z) = Ok (zq [3;5;7]%Z) /\
  eq_confused q_today ex_dg (g_default1d 2) = false /\
  check_out (forward q_today ex_F (g_default1d 2) ex_dg (InVec (zq [1;2;3]%Z)) true) (ObsVal 0 [[13#1; 26#1]]) = true /\
  check_out (forward q_today ex_F (g_default1d 2) ex_dg (InArr ex_dg false (zq [3;5;7]%Z)) true) (ObsVal 1 [[13#1; 26#1]]) = true /\
  check_out (gradient q_today (GAdjMat 3 w5_A) (g_default1d 2) ex_dg (GiVec w5_d) (GiArr ex_dg true w5_w) true true)
            (ObsVal 1 [[2#1; 2#1; -6#1]]) = true.
Proof. exact example_nonvacuous. Qed.

(* ---------------------------------------------------------------------------------------------------
   Deepening round: the Jacobian laws are PROVED for the polynomial model family F(x) = A phi_F(x) + b and
   element-wise geometry maps phi_G that the correspondence runs, so the chain rule needs no assumed law.
   --------------------------------------------------------------------------------------------------- *)

(* pderiv (computed by the model, not handed over by the harness) is the derivative: exact Taylor form *)
Theorem C12_pderiv_is_derivative : forall cs x h,
  exists r, peval cs (x + h) = peval cs x + h * peval (pderiv cs) x + h * h * r.
Proof. exact pderiv_taylor. Qed.
Print Assumptions C12_pderiv_is_derivative.

(* the direction-Jacobian product written by a user, phi'(w) * (A^T d), is the transposed Jacobian
   A diag(phi'(w)) applied to d (all sizes) *)
Theorem C12_gradient_callable_is_transposed_jacobian : forall n A dcs d w,
  wf_mat n A -> length w = n -> poly_dir n A dcs d w = qmattvec n (poly_jac A dcs w) d.
Proof. exact poly_dir_is_transposed_jacobian. Qed.
Print Assumptions C12_gradient_callable_is_transposed_jacobian.

(* par2out_jac A csF csG p = A diag(phi_F'(phi_G p)) diag(phi_G'(p)) IS the Jacobian of the
   parameter-to-output map p |-> A phi_F(phi_G(p)) + b: first-order expansion with a quadratic remainder *)
Theorem C12_par2out_jacobian_law : forall n A csF csG b p h,
  wf_mat n A -> length p = n -> length h = n ->
  exists r, length r = n /\
    poly_forward A csF b (pmap csG (qvadd p h)) =
    qvadd (qvadd (qvadd (qmatvec A (pmap csF (pmap csG p))) (qmatvec (par2out_jac A csF csG p) h))
                 (qmatvec A (vmul (vmul h h) r))) b.
Proof. exact par2out_jacobian_law. Qed.
Print Assumptions C12_par2out_jacobian_law.

(* FULL chain rule (no assumed law): for every model of the polynomial family given by Jacobian, by
   direction-Jacobian product or as a PDE model (either attribute), every element-wise domain geometry with
   its `gradient`, every plain 1-d range geometry, all sizes: gradient = (Jacobian of the parameter-to-output
   map at wrt)^T direction *)
Theorem C12_gradient_chain_full : forall q gf rg dg n A csF csG gsel d w,
  poly_gfun gf n A csF -> elementwise_geo dg csG gsel -> plain1d (g_cls rg) = true ->
  wf_mat n A -> length w = n -> length d = length A ->
  gradient q gf rg dg (GiVec d) (GiVec w) true true =
  Ok (OutVec (qmattvec n (par2out_jac A csF csG w) d) false).
Proof. exact gradient_chain_poly. Qed.
Print Assumptions C12_gradient_chain_full.

(* the direction given as a CUQIarray carrying the range geometry (as parameters or function values, either
   flag), or as plain function values, gives the values of the plain parameter direction; together with
   C12_gradient_wrt_representations_agree the chain rule extends to these representations.  Guard: the
   geometry comparison range == domain does not misbehave (void in the repaired state). *)
Theorem C12_gradient_direction_representations_agree : forall q gf rg dg d (ap dflag : bool) w,
  has_gradient_func gf = true -> plain1d (g_cls rg) = true ->
  (has_grad dg = true \/ identity_class (g_cls dg) = true) ->
  eq_confused q rg dg = false ->
  out_values (gradient q gf rg dg (GiArr rg ap d) (GiVec w) dflag true) =
    out_values (gradient q gf rg dg (GiVec d) (GiVec w) true true) /\
  gradient q gf rg dg (GiVec d) (GiVec w) false true = gradient q gf rg dg (GiVec d) (GiVec w) true true.
Proof. exact gradient_direction_forms_agree. Qed.
Print Assumptions C12_gradient_direction_representations_agree.

(* direction AND wrt both given as CUQIarrays (each as parameters or function values, any flags), or only wrt:
   the values of the plain-vector call.  The guard is needed only while gradient hands wrt.funvals on with its
   CUQIarray tag (q_tagleak): with the tag stripped (fixes/C12_gradient_tag_strip.diff) it is void. *)
Theorem C12_gradient_array_forms_agree : forall q gf rg dg (dplain : bool) d (apd dflag : bool) x (apw wflag : bool) w,
  has_gradient_func gf = true -> plain1d (g_cls rg) = true ->
  (has_grad dg = true \/ identity_class (g_cls dg) = true) ->
  eq_confused q rg dg = false ->
  (if apw then Ok x else g_fun2par dg x) = Ok w ->
  (if apw then g_par2fun dg x else Ok x) = g_par2fun dg w ->
  (q_tagleak q = true ->
   forall gg df wf gv flat sel, g_grad dg = Some gg -> run_gfun gf (fun_is_2d rg) df wf = Ok (gv, flat, sel) ->
     (if dplain then tag_leaks sel (ggrad_sel gg) else tag_leaks_both sel (ggrad_sel gg)) = false) ->
  out_values (gradient q gf rg dg (if dplain then GiVec d else GiArr rg apd d) (GiArr dg apw x) (if dplain then true else dflag) wflag) =
  out_values (gradient q gf rg dg (GiVec d) (GiVec w) true true).
Proof. exact gradient_array_forms_agree. Qed.
Print Assumptions C12_gradient_array_forms_agree.

Theorem C12_gradient_array_forms_agree_fixed : forall gf rg dg (dplain : bool) d (apd dflag : bool) x (apw wflag : bool) w,
  has_gradient_func gf = true -> plain1d (g_cls rg) = true ->
  (has_grad dg = true \/ identity_class (g_cls dg) = true) ->
  (if apw then Ok x else g_fun2par dg x) = Ok w ->
  (if apw then g_par2fun dg x else Ok x) = g_par2fun dg w ->
  out_values (gradient q_fixed gf rg dg (if dplain then GiVec d else GiArr rg apd d) (GiArr dg apw x) (if dplain then true else dflag) wflag) =
  out_values (gradient q_fixed gf rg dg (GiVec d) (GiVec w) true true).
Proof.
  intros. apply gradient_array_forms_agree; try assumption; [apply eq_confused_fixed | intros Q; discriminate Q].
Qed.
Print Assumptions C12_gradient_array_forms_agree_fixed.

(* StepExpansion: par2fun is the linear map of the 0/1 matrix S = step_jac (node k takes the parameter of the step
   that owns it) and the step-sum gradient used with it is S^T -- for every index family that is the partition by
   `owner` (step_wf; checked by vm_compute for every StepExpansion the correspondence runs) *)
Theorem C12_step_par2fun_is_linear : forall nfun idx p, length p = length idx ->
  step_par2fun nfun idx p = qmatvec (step_jac nfun idx) p.
Proof. exact step_par2fun_is_matvec. Qed.
Print Assumptions C12_step_par2fun_is_linear.

Theorem C12_step_gradient_is_transpose : forall nfun idx v w, step_wf nfun idx = true -> length v = nfun ->
  ggrad_apply (GGStepSum idx) v w = qmattvec (length idx) (step_jac nfun idx) v.
Proof. exact step_gradient_is_transpose. Qed.
Print Assumptions C12_step_gradient_is_transpose.

(* chain rule through a StepExpansion domain with that gradient, no assumed law: (J_F(S w) S)^T direction *)
Theorem C12_gradient_chain_step : forall q gf rg dg n A csF idx pj sq d w,
  poly_gfun gf n A csF -> step_geo dg n idx pj sq -> plain1d (g_cls rg) = true ->
  step_wf n idx = true -> wf_mat n A -> length w = length idx -> length d = length A ->
  gradient q gf rg dg (GiVec d) (GiVec w) true true =
  Ok (OutVec (qmattvec (length idx)
                (qmatmul (length idx) (poly_jac A (pderiv csF) (step_par2fun n idx w)) (step_jac n idx)) d) false).
Proof. exact gradient_chain_step. Qed.
Print Assumptions C12_gradient_chain_step.

(* non-vacuity: the index family of StepExpansion(4 nodes, 2 steps) is well formed; a step geometry and a user
   geometry derived from Geometry (class KUser, own inverse) satisfy the hypotheses of the two full chain rules *)
Example C12_chain_geometries_example :
  step_wf 4 [[0;1];[2;3]]%nat = true /\
  step_geo (mkGeo KStep 2 4 (CvStep 4 [[0;1];[2;3]]%nat PMax true) None F2Base (Some (GGStepSum [[0;1];[2;3]]%nat)) 0) 4 [[0;1];[2;3]]%nat PMax true /\
  elementwise_geo (mkGeo KUser 3 3 CvId (Some (zq [1;2]%Z)) (F2Imap [qc (-1#2); qc (1#2)]) (Some (GGDiag (pderiv (zq [1;2]%Z)) SelDirWrt)) 0)
                  (zq [1;2]%Z) SelDirWrt.
Proof. repeat split. Qed.

(* an instance of a user subclass of CUQIarray carrying the domain geometry: like a CUQIarray, once the
   re-wrapping decision is made by isinstance (q_typeis = false) *)
Theorem C12_subclass_input_agrees : forall q F rg dg g ap v flag,
  q_typeis q = false -> forward q F rg dg (InSub g ap v) flag = forward q F rg dg (InArr g ap v) flag.
Proof. exact forward_subclass_agrees. Qed.
Print Assumptions C12_subclass_input_agrees.

(* today (`type(x) is CUQIarray`): right numbers [2; 7/2], but a subclass instance labelled is_par=False with the
   DOMAIN geometry where a CUQIarray input gives CUQIarray(is_par=True, range geometry) *)
Theorem C12_subclass_input_refuted :
  q_typeis q_today = true /\
  check_out (forward q_today w7_F w7_rg w7_dg (InArr w7_dg true (zq [1;2;3]%Z)) true) (ObsVal 1 [[2#1; 7#2]]) = true /\
  check_out (forward q_today w7_F w7_rg w7_dg (InSub w7_dg true (zq [1;2;3]%Z)) true) (ObsVal 7 [[2#1; 7#2]]) = true /\
  match forward q_today w7_F w7_rg w7_dg (InSub w7_dg true (zq [1;2;3]%Z)) true with
  | Ok (OutSub g ip _ _) => fields_eqb g w7_dg && negb ip | _ => false end = true.
Proof. exact witness_subclass. Qed.
Print Assumptions C12_subclass_input_refuted.

(* non-vacuity of C12_gradient_chain_full: MappedGeometry f = 2p+1 with gradient, F(f) = A f^2 *)
Example C12_chain_example :
  elementwise_geo (g_mapped 3 [1;2]%Z F2NoImap (Some (GGDiag (pderiv (zq [1;2]%Z)) SelWrtDir))) (zq [1;2]%Z) SelWrtDir /\
  poly_gfun (GDir (poly_dir 3 w5_A (pderiv (zq [0;0;1]%Z))) false SelWrtDir) 3 w5_A (zq [0;0;1]%Z) /\
  wf_mat 3 w5_A /\
  qcl_eqb (qmattvec 3 (par2out_jac w5_A (zq [0;0;1]%Z) (zq [1;2]%Z) w5_w) w5_d) (zq [12;20;-84]%Z) = true.
Proof.
  split; [repeat split|]. split; [right; left; exists SelWrtDir; reflexivity|].
  split; [repeat constructor | vm_compute; reflexivity].
Qed.
