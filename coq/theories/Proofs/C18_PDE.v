(* C18 -- proofs about the model of cuqi.pde / PDEModel (Model/C18_PDE.v):
   steady residual, forward/backward Euler recurrences on arbitrary (non-uniform) time grids, info of the last
   solve, grid bookkeeping invariant, restriction vs interpolation branch, pipeline and gradient dispatch. *)
From CV Require Import Base.Tac Base.LinAlg Base.Cmp Base.QcLin Model.C18_PDE Proofs.C18_Alg.
From Coq Require Import QArith Qcanon.

Local Open Scope Qc_scope.

Lemma sret_sol_plain {I} x : @sret_sol I (SPlain x) = x. Proof. reflexivity. Qed.
Lemma sret_sol_tuple {I} x (i : list I) : sret_sol (STuple x i) = x. Proof. reflexivity. Qed.
Lemma split_ret_sol {I} (r : sret I) : fst (split_ret r) = sret_sol r. Proof. reflexivity. Qed.

Section Thm.
Variable P : Type.
Variable I : Type.
Variable solver : nat -> qm -> qv -> sret I.

(* ================= steady state ================= *)
Section SteadyThm.
Variable sform : P -> qm * qv.

(* after assemble(p), solve() returns what the solver answered for the system assembled for p -- whatever state the
   object was in before --, `info` is exactly the extra return values; if the answer satisfies the solver's law,
   the returned solution satisfies A(p) u = b(p) *)
Theorem ss_residual (s : sstate) (p : P) :
  let A := fst (sform p) in let b := snd (sform p) in
  exists u info,
    ss_solve I solver (ss_assemble P sform s p) = Ok (u, info) /\
    u = sret_sol (solver 0%nat A b) /\
    info = snd (split_ret (solver 0%nat A b)) /\
    (qmatvec A (sret_sol (solver 0%nat A b)) = b -> qmatvec A u = b).
Proof.
  intros A b. unfold ss_solve, ss_assemble; simpl.
  destruct (sform p) as [A' b'] eqn:E. subst A b; simpl.
  unfold solve_linear_system.
  destruct (split_ret (solver 0%nat A' b')) as [u info] eqn:Es.
  exists u, info. split; [reflexivity|].
  assert (Hu : u = sret_sol (solver 0%nat A' b')) by (unfold sret_sol; rewrite Es; reflexivity).
  split; [exact Hu|]. split; [reflexivity|]. intros H; rewrite Hu; exact H.
Qed.

(* extra return values never change the solution *)
Lemma ss_info_irrelevant (x : qv) (i : list I) :
  fst (split_ret (STuple x i)) = fst (split_ret (@SPlain I x)).
Proof. reflexivity. Qed.

Theorem ss_solve_needs_assemble : ss_solve I solver (mkSS None) = Er ENotAssembled.
Proof. reflexivity. Qed.
End SteadyThm.

(* ================= time dependent ================= *)
Section TDThm.
Variable form : P -> Qc -> qm * qv * qv.
Definition fA (p : P) (t : Qc) : qm := fst (fst (form p t)).
Definition fb (p : P) (t : Qc) : qv := snd (fst (form p t)).
Definition fic (p : P) (t : Qc) : qv := snd (form p t).
(* the source as it enters a step on n nodes: a scalar / one-element source is broadcast *)
Definition fbn (p : P) (t : Qc) (n : nat) : qv := bc n (fb p t).

(* the documented explicit step *)
Definition euler_fwd (A : qm) (b u : qv) (dt : Qc) : qv := qvadd u (qvscale dt (qvadd (qmatvec A u) b)).

Lemma fe_loop_spec p : forall rest t u ls,
  fe_loop P form p t rest u = Ok ls ->
  length ls = length rest /\
  forall k, (k < length rest)%nat ->
    length (nth k (u :: ls) []) = length u /\
    length (nth k ls []) = length u /\
    wf_sys (length u) (fA p (nth k (t :: rest) 0)) (fbn p (nth k (t :: rest) 0) (length u)) = true /\
    nth k ls [] = euler_fwd (fA p (nth k (t :: rest) 0)) (fbn p (nth k (t :: rest) 0) (length u)) (nth k (u :: ls) [])
                            (nth k rest 0 - nth k (t :: rest) 0).
Proof.
  induction rest as [|t' rest IH]; intros t u ls H; simpl in H.
  - inversion H; subst. split; [reflexivity|]. intros k Hk; simpl in Hk; lia.
  - unfold fbn, fA, fb. destruct (form p t) as [[A b0] c] eqn:Ef. cbn zeta in H.
    set (b := bc (length u) b0) in *.
    destruct (wf_sys (length u) A b) eqn:Ew; [|discriminate].
    destruct (fe_loop P form p t' rest (fe_step A b u (t' - t))) as [ls'|e] eqn:El; [|discriminate].
    inversion H; subst ls. clear H.
    destruct (fe_step_spec A b u (t' - t) Ew) as [Es Elen].
    destruct (IH _ _ _ El) as [IHl IHk].
    split; [simpl; lia|].
    intros [|k] Hk.
    + cbn [nth]. rewrite Ef. cbn [fst snd]. repeat split; auto.
    + simpl in Hk. specialize (IHk k ltac:(lia)). rewrite Elen in IHk.
      cbn [nth]. unfold fbn, fA, fb in IHk. exact IHk.
Qed.

(* forward Euler: every stored level satisfies u_{k+1} = u_k + (t_{k+1}-t_k) (A(p,t_k) u_k + b(p,t_k)),
   level 0 is the initial condition assembled at t_0, one level per time step, no info *)
Theorem forward_euler Q p times levels info :
  td_solve P I solver form Q MFwd (Some p) times = Ok (levels, info) ->
  info = None /\ length levels = length times /\
  nth 0 levels [] = fic p (nth 0 times 0) /\
  forall k, (S k < length times)%nat ->
    length (nth k levels []) = length (nth 0 levels []) /\
    nth (S k) levels [] =
      euler_fwd (fA p (nth k times 0)) (fbn p (nth k times 0) (length (nth 0 levels []))) (nth k levels [])
                (nth (S k) times 0 - nth k times 0).
Proof.
  unfold td_solve. destruct times as [|t0 rest]; [discriminate|].
  destruct (form p t0) as [[A0 b0] ic] eqn:E0. cbn [effective_method].
  destruct (fe_loop P form p t0 rest ic) as [ls|e] eqn:El; [|discriminate].
  intros H; inversion H; subst. clear H.
  destruct (fe_loop_spec _ _ _ _ _ El) as [Hl Hk].
  split; [reflexivity|]. split; [simpl; lia|]. split.
  - cbn [nth]. unfold fic. rewrite E0. reflexivity.
  - intros k Hlt. simpl in Hlt. destruct (Hk k ltac:(lia)) as [Hl0 [_ [_ Hs]]].
    cbn [nth]. split; [exact Hl0 | exact Hs].
Qed.

(* it is defined whenever the time grid is non-empty and every assembled system has the size of the initial condition *)
Lemma fe_loop_defined p : forall rest t u,
  (forall s, wf_sys (length u) (fA p s) (fbn p s (length u)) = true) -> exists ls, fe_loop P form p t rest u = Ok ls.
Proof.
  induction rest as [|t' rest IH]; intros t u Hw; simpl; [eexists; reflexivity|].
  pose proof (Hw t) as Hwt. unfold fbn, fA, fb in Hwt. destruct (form p t) as [[A b0] c]. cbn [fst snd] in Hwt. cbn zeta. rewrite Hwt.
  destruct (fe_step_spec A (bc (length u) b0) u (t' - t) Hwt) as [_ El].
  destruct (IH t' (fe_step A (bc (length u) b0) u (t' - t))) as [ls Hls]; [rewrite El; exact Hw|].
  rewrite Hls. eexists; reflexivity.
Qed.

Theorem forward_euler_defined Q p t0 rest :
  (forall s, wf_sys (length (fic p t0)) (fA p s) (fbn p s (length (fic p t0))) = true) ->
  exists levels, td_solve P I solver form Q MFwd (Some p) (t0 :: rest) = Ok (levels, None).
Proof.
  intros Hw. unfold td_solve. unfold fic in Hw. destruct (form p t0) as [[A0 b0] ic] eqn:E0. cbn [snd] in Hw.
  cbn [effective_method]. destruct (fe_loop_defined p rest t0 ic Hw) as [ls Hls]. rewrite Hls. eexists; reflexivity.
Qed.

(* ---- backward Euler ---- *)
Definition be_M (p : P) (t1 : Qc) (u : qv) (dt : Qc) : qm := fst (be_system (fA p t1) (fbn p t1 (length u)) u dt).
Definition be_r (p : P) (t1 : Qc) (u : qv) (dt : Qc) : qv := snd (be_system (fA p t1) (fbn p t1 (length u)) u dt).

Lemma be_loop_spec p : forall rest k0 t u info0 ls infoE,
  be_loop P I solver form p k0 t rest u info0 = Ok (ls, infoE) ->
  length ls = length rest /\
  (rest = [] -> infoE = info0) /\
  forall k, (k < length rest)%nat ->
    let tk := nth k (t :: rest) 0 in let tk1 := nth k rest 0 in let uk := nth k (u :: ls) [] in
    length uk = length u /\ length (nth k ls []) = length u /\
    wf_sys (length u) (fA p tk1) (fbn p tk1 (length u)) = true /\
    nth k ls [] = sret_sol (solver (k0 + k)%nat (be_M p tk1 uk (tk1 - tk)) (be_r p tk1 uk (tk1 - tk))) /\
    (S k = length rest -> infoE = snd (split_ret (solver (k0 + k)%nat (be_M p tk1 uk (tk1 - tk)) (be_r p tk1 uk (tk1 - tk))))).
Proof.
  induction rest as [|t' rest IH]; intros k0 t u info0 ls infoE H; simpl in H.
  - inversion H; subst. split; [reflexivity|]. split; [reflexivity|]. intros k Hk; simpl in Hk; lia.
  - destruct (form p t') as [[A b0] c] eqn:Ef. cbn zeta in H.
    set (b := bc (length u) b0) in *.
    destruct (wf_sys (length u) A b) eqn:Ew; [|discriminate].
    unfold solve_linear_system in H.
    destruct (split_ret (solver k0 (msub (eye (length u)) (mscale (t' - t) A)) (qvadd u (qvscale (t' - t) b)))) as [u' i'] eqn:Es.
    destruct (length u' =? length u)%nat eqn:El; [|discriminate]. apply Nat.eqb_eq in El.
    destruct (be_loop P I solver form p (S k0) t' rest u' i') as [[ls' ie]|e] eqn:Eb; [|discriminate].
    inversion H; subst ls infoE. clear H.
    destruct (IH _ _ _ _ _ _ Eb) as [IHl [IHnil IHk]].
    split; [simpl; lia|]. split; [discriminate|].
    assert (HM : be_M p t' u (t' - t) = msub (eye (length u)) (mscale (t' - t) A)).
    { unfold be_M, be_system, fbn, fA, fb. rewrite Ef. reflexivity. }
    assert (Hr : be_r p t' u (t' - t) = qvadd u (qvscale (t' - t) b)).
    { unfold be_r, be_system, fbn, fA, fb. rewrite Ef. reflexivity. }
    intros [|k] Hk.
    + cbn [nth]. rewrite HM, Hr. replace (k0 + 0)%nat with k0 by lia.
      unfold fbn, fA, fb. rewrite Ef. cbn [fst snd]. fold b.
      split; [reflexivity|]. split; [exact El|]. split; [exact Ew|]. split.
      * unfold sret_sol. rewrite Es. reflexivity.
      * intros Hlast. simpl in Hlast. assert (rest = []) by (destruct rest; simpl in *; [reflexivity | lia]).
        rewrite (IHnil H). rewrite Es. reflexivity.
    + simpl in Hk. specialize (IHk k ltac:(lia)). cbn zeta in IHk. rewrite El in IHk.
      cbn [nth]. cbn zeta. replace (k0 + S k)%nat with (S k0 + k)%nat by lia.
      destruct IHk as [I1 [I2 [I3 [I4 I5]]]].
      split; [exact I1|]. split; [exact I2|]. split; [exact I3|]. split; [exact I4|].
      intros Hlast. apply I5. simpl in Hlast. lia.
Qed.

(* backward Euler: every stored level is what the solver answered for the system
     (I - dt A(p,t_{k+1})) x = u_k + dt b(p,t_{k+1}),   dt = t_{k+1} - t_k,
   assembled at the NEW time; whenever that answer satisfies the solver's law the level satisfies the implicit
   recurrence  u_{k+1} - dt A u_{k+1} = u_k + dt b ; `info` is the extra return values of the last solve *)
Theorem backward_euler Q p times levels info :
  td_solve P I solver form Q MBwd (Some p) times = Ok (levels, info) ->
  length levels = length times /\
  nth 0 levels [] = fic p (nth 0 times 0) /\
  forall k, (S k < length times)%nat ->
    let tk := nth k times 0 in let tk1 := nth (S k) times 0 in let dt := tk1 - tk in
    let uk := nth k levels [] in let uk1 := nth (S k) levels [] in
    let M := be_M p tk1 uk dt in let r := be_r p tk1 uk dt in
    let n := length (nth 0 levels []) in
    length uk = n /\ length uk1 = n /\ wf_sys n (fA p tk1) (fbn p tk1 n) = true /\
    uk1 = sret_sol (solver k M r) /\
    (S (S k) = length times -> info = snd (split_ret (solver k M r))) /\
    (qmatvec M (sret_sol (solver k M r)) = r ->
       qvsub uk1 (qvscale dt (qmatvec (fA p tk1) uk1)) = qvadd uk (qvscale dt (fbn p tk1 n))).
Proof.
  unfold td_solve. destruct times as [|t0 rest]; [discriminate|].
  destruct (form p t0) as [[A0 b0] ic] eqn:E0. cbn [effective_method].
  destruct rest as [|t1 rest'].
  - destruct (q_be_single Q); [discriminate|]. intros H; inversion H; subst.
    split; [reflexivity|]. split; [cbn [nth]; unfold fic; rewrite E0; reflexivity|].
    intros k Hk; simpl in Hk; lia.
  - set (rest := t1 :: rest').
    destruct (be_loop P I solver form p 0 t0 rest ic None) as [[ls ie]|e] eqn:Eb; [|discriminate].
    intros H; inversion H; subst. clear H.
    destruct (be_loop_spec _ _ _ _ _ _ _ _ Eb) as [Hl [_ Hk]].
    split; [simpl; simpl in Hl; lia|]. split; [cbn [nth]; unfold fic; rewrite E0; reflexivity|].
    intros k Hlt. assert (Hk' : (k < length rest)%nat) by (simpl in *; lia).
    specialize (Hk k Hk'). cbn zeta in Hk. destruct Hk as [K1 [K2 [K3 [K4 K5]]]].
    cbn zeta. change (nth (S k) (t0 :: rest) 0) with (nth k rest 0).
    change (nth (S k) (ic :: ls) []) with (nth k ls []).
    replace (0 + k)%nat with k in * by lia.
    change (nth 0 (ic :: ls) []) with ic.
    split; [exact K1|]. split; [exact K2|]. split; [exact K3|].
    split; [exact K4|]. split.
    + intros Hlast. apply K5. simpl in Hlast. simpl. lia.
    + intros Hlaw. rewrite <- K4 in Hlaw. rewrite <- K1.
      destruct (be_system_spec (fA p (nth k rest 0)) (fbn p (nth k rest 0) (length (nth k (ic :: ls) []))) (nth k (ic :: ls) [])
                               (nth k rest 0 - nth k (t0 :: rest) 0) (nth k ls [])) as [S1 S2].
      * rewrite K1. exact K3.
      * rewrite K1, K2. reflexivity.
      * unfold be_M, be_r in Hlaw. rewrite S1, S2 in Hlaw. exact Hlaw.
Qed.

(* method strings: what the constructor refuses, what solve() does with what it accepted *)
Theorem method_dispatch Q par times :
  td_init MBad times TOFinal = Er EValue /\
  (q_method_case Q = false ->
     td_solve P I solver form Q MCaseFwd par times = td_solve P I solver form Q MFwd par times /\
     td_solve P I solver form Q MCaseBwd par times = td_solve P I solver form Q MBwd par times).
Proof.
  split; [reflexivity|]. intros Hq. unfold td_solve, effective_method. rewrite Hq. split; reflexivity.
Qed.

(* the two solve() defects of today's code, as the faithful model has them *)
Theorem method_case_refuted p t0 rest :
  td_solve P I solver form quirks_code MCaseFwd (Some p) (t0 :: rest) = Er EUnbound /\
  td_solve P I solver form quirks_code MCaseBwd (Some p) (t0 :: rest) = Er EUnbound.
Proof. unfold td_solve. destruct (form p t0) as [[A b] c]. split; reflexivity. Qed.

Theorem be_single_level_refuted p t0 :
  td_solve P I solver form quirks_code MBwd (Some p) [t0] = Er EUnbound /\
  td_solve P I solver form quirks_fixed MBwd (Some p) [t0] = Ok ([fic p t0], None) /\
  (forall Q, td_solve P I solver form Q MFwd (Some p) [t0] = Ok ([fic p t0], None)).
Proof. unfold td_solve, fic. destruct (form p t0) as [[A b] c]. repeat split; reflexivity. Qed.

(* ---- time_obs parsing ---- *)
Theorem time_obs_parse m times :
  m <> MBad ->
  td_init m times TOFinal = Ok (last1 times) /\
  td_init m times TOAll = Ok times /\
  (forall l, td_init m times (TOArr l) = Ok l) /\
  td_init m times TONone = Er EValue /\ td_init m times TOBadStr = Er EValue.
Proof. intros H. destruct m; try congruence; repeat split; reflexivity. Qed.

Lemma last1_spec {A} (l : list A) (x : A) : last1 (l ++ [x]) = [x].
Proof.
  unfold last1. assert (H : last_opt (l ++ [x]) = Some x).
  { induction l as [|a l IH]; [reflexivity|]. simpl. destruct (l ++ [x]) eqn:E; [destruct l; discriminate|]. exact IH. }
  rewrite H. reflexivity.
Qed.

(* ---- observe ---- *)
Section ObserveThm.
Variable Q : quirks.
Variable obsmap : option (arr -> res arr).
Variable interp2 : qv -> qv -> list qv -> qv -> qv -> res qm.

Lemma qc_eqb_refl a : qc_eqb a a = true.
Proof. apply qc_eqb_eq. reflexivity. Qed.
Lemma qcl_eqb_eq x y : qcl_eqb x y = true <-> x = y.
Proof. apply list_eqb_spec. apply qc_eqb_eq. Qed.

Lemma time_test_final times T : last_opt times = Some T -> time_test Q times [T] = true.
Proof.
  intros H. unfold time_test. rewrite H. destruct (q_tobs_all Q).
  - cbn [forallb]. rewrite qc_eqb_refl. reflexivity.
  - apply qcl_eqb_eq. reflexivity.
Qed.

(* equal grids and the final time: the last stored level itself (no interpolation), then the observation map;
   nothing is squeezed -- `solution[..., -1]` has no time axis left (one observed node stays a 1-vector) *)
Theorem observe_restriction G times T levels u :
  g_eq G = true -> last_opt times = Some T -> last_opt levels = Some u ->
  td_observe Q obsmap interp2 G times [T] levels =
    match apply_obsmap obsmap (A1 u) with Ok b => Ok (false, b) | Er e => Er e end.
Proof.
  intros Hg HT Hu. unfold td_observe. rewrite Hg, (time_test_final _ _ HT), Hu. cbn [andb orb negb length Nat.eqb].
  destruct (apply_obsmap obsmap (A1 u)); reflexivity.
Qed.

Lemma observe_restriction_none G times T levels :
  g_eq G = true -> last_opt times = Some T -> last_opt levels = None ->
  td_observe Q obsmap interp2 G times [T] levels = Er EIndex.
Proof.
  intros Hg HT Hu. unfold td_observe. rewrite Hg, (time_test_final _ _ HT), Hu. reflexivity.
Qed.

(* which requests take the restriction route *)
Theorem observe_branch_fixed G times tobs T :
  q_tobs_all Q = false -> last_opt times = Some T ->
  (g_eq G && time_test Q times tobs = true <-> g_eq G = true /\ tobs = [T]).
Proof.
  intros Hq HT. unfold time_test. rewrite HT, Hq. rewrite andb_true_iff, qcl_eqb_eq.
  split; intros [H1 H2]; split; auto.
Qed.

Theorem observe_branch_code G times tobs T :
  q_tobs_all Q = true -> last_opt times = Some T ->
  (g_eq G && time_test Q times tobs = true <-> g_eq G = true /\ Forall (fun t => t = T) tobs).
Proof.
  intros Hq HT. unfold time_test. rewrite HT, Hq. rewrite andb_true_iff, forallb_forall, Forall_forall.
  split; intros [H1 H2]; split; auto; intros t Ht.
  - symmetry. apply qc_eqb_eq. apply H2. exact Ht.
  - apply qc_eqb_eq. symmetry. apply H2. exact Ht.
Qed.

Lemma coincide_none_code G times tobs levels :
  q_spline_route Q = true -> coincide_restriction Q G times tobs levels = None.
Proof. intros H. unfold coincide_restriction. rewrite H. reflexivity. Qed.

(* otherwise, unless the (repaired) code restricts a fully coinciding request: the interpolation routine on
   (grid_sol, time_steps, solution) at (grid_obs, time_obs), then the observation map, squeezed only for a single
   observation time *)
Theorem observe_interp_general G gs go times tobs levels :
  g_eq G && time_test Q times tobs = false -> coincide_restriction Q G times tobs levels = None ->
  g_sol G = Some gs -> g_obs G = Some go ->
  td_observe Q obsmap interp2 G times tobs levels =
    match interp2 gs times levels go tobs with
    | Er e => Er e
    | Ok m => match apply_obsmap obsmap (A2 m) with
              | Er e => Er e
              | Ok b => Ok (true, if (length tobs =? 1)%nat then squeeze b else b)
              end
    end.
Proof.
  intros Hb Hc Hs Ho. unfold td_observe. rewrite Hb, Hc, Hs, Ho. cbn [orb negb].
  destruct (interp2 gs times levels go tobs); reflexivity.
Qed.

Theorem observe_interp G gs go times tobs levels :
  q_spline_route Q = true ->
  g_eq G && time_test Q times tobs = false -> g_sol G = Some gs -> g_obs G = Some go ->
  td_observe Q obsmap interp2 G times tobs levels =
    match interp2 gs times levels go tobs with
    | Er e => Er e
    | Ok m => match apply_obsmap obsmap (A2 m) with
              | Er e => Er e
              | Ok b => Ok (true, if (length tobs =? 1)%nat then squeeze b else b)
              end
    end.
Proof. intros Hq Hb. apply observe_interp_general; [exact Hb | apply coincide_none_code; exact Hq]. Qed.

(* the repaired route: a request all of whose nodes and times are stored ones is answered by the stored values, no
   interpolation routine involved *)
Theorem observe_coinciding G times tobs levels m :
  g_eq G && time_test Q times tobs = false -> coincide_restriction Q G times tobs levels = Some m ->
  td_observe Q obsmap interp2 G times tobs levels =
    match apply_obsmap obsmap (A2 m) with
    | Er e => Er e
    | Ok b => Ok (false, if (length tobs =? 1)%nat then squeeze b else b)
    end.
Proof.
  intros Hb Hc. unfold td_observe. rewrite Hb, Hc. cbn [orb negb].
  destruct (apply_obsmap obsmap (A2 m)); reflexivity.
Qed.
End ObserveThm.

Lemma nth_map_seq_gen {A} (f : nat -> A) n i d : (i < n)%nat -> nth i (map f (seq 0 n)) d = f i.
Proof.
  intros H. rewrite (nth_indep _ d (f 0%nat)) by (rewrite map_length, seq_length; exact H).
  rewrite (map_nth f (seq 0 n) 0%nat i). rewrite seq_nth by exact H. reflexivity.
Qed.

(* ---- what the restriction of a coinciding request contains ---- *)
Lemma index_of_spec x l a : index_of x l = Some a -> nth_error l a = Some x.
Proof.
  revert a; induction l as [|y l IH]; intros a H; simpl in H; [discriminate|].
  destruct (qc_eqb x y) eqn:E.
  - inversion H; subst. apply qc_eqb_eq in E. subst. reflexivity.
  - destruct (index_of x l) as [a'|] eqn:E'; [|discriminate]. inversion H; subst. simpl. apply IH. reflexivity.
Qed.

Lemma index_of_complete x l : In x l -> exists a, index_of x l = Some a.
Proof.
  induction l as [|y l IH]; intros H; simpl in *; [contradiction|].
  destruct (qc_eqb x y) eqn:E; [eexists; reflexivity|].
  destruct H as [H|H].
  - subst. assert (qc_eqb x x = true) by (apply qc_eqb_eq; reflexivity). congruence.
  - destruct (IH H) as [a Ha]. rewrite Ha. eexists; reflexivity.
Qed.

Lemma opt_all_spec {A B} (f : A -> option B) (l : list A) (r : list B) :
  opt_all (map f l) = Some r ->
  length r = length l /\ forall i x, nth_error l i = Some x -> exists y, nth_error r i = Some y /\ f x = Some y.
Proof.
  revert r; induction l as [|a l IH]; intros r H; simpl in H.
  - inversion H; subst. split; [reflexivity|]. intros i x Hx. destruct i; discriminate.
  - destruct (f a) as [b|] eqn:Ea; [|discriminate].
    destruct (opt_all (map f l)) as [r'|] eqn:Er; [|discriminate]. inversion H; subst.
    destruct (IH r' eq_refl) as [Hl Hi]. split; [simpl; lia|].
    intros [|i] x Hx; simpl in Hx.
    + inversion Hx; subst. exists b. split; [reflexivity | exact Ea].
    + apply Hi. exact Hx.
Qed.

Lemma nth_error_nth_qc (l : qv) i x : nth_error l i = Some x -> nth i l 0 = x.
Proof. revert i; induction l as [|y l IH]; intros [|i] H; simpl in *; try discriminate; [congruence | apply IH; exact H]. Qed.

(* unequal grids, every observation node a solution node, every observation time a time step: entry (i, j) of the
   observation is the stored value of node a_i at time level b_j, where grid_sol[a_i] = grid_obs[i] and
   time_steps[b_j] = time_obs[j] -- exactly, whatever the interpolation routine would do *)
Theorem coinciding_entries Q G gs go times tobs levels m :
  g_eq G = false -> g_sol G = Some gs -> g_obs G = Some go ->
  coincide_restriction Q G times tobs levels = Some m ->
  length m = length go /\
  forall i j x t, nth_error go i = Some x -> nth_error tobs j = Some t ->
    exists a b, nth_error gs a = Some x /\ nth_error times b = Some t /\
                nth j (nth i m []) 0 = nth a (nth b levels []) 0.
Proof.
  intros Hg Hs Ho Hc. unfold coincide_restriction in Hc. destruct (q_spline_route Q); [discriminate|].
  unfold coincide_rows in Hc. rewrite Hg in Hc. destruct (q_subgrid_route Q); [discriminate|]. rewrite Hs, Ho in Hc.
  destruct (opt_all (map (fun x => index_of x gs) go)) as [rows|] eqn:Er; [|discriminate].
  unfold coincide_cols in Hc. destruct (opt_all (map (fun t => index_of t times) tobs)) as [cols|] eqn:Ec; [|discriminate].
  inversion Hc; subst m. clear Hc.
  destruct (opt_all_spec _ _ _ Er) as [Lr Hr]. destruct (opt_all_spec _ _ _ Ec) as [Lc Hcs].
  split; [unfold restrict_to; rewrite map_length; exact Lr|].
  intros i j x t Hx Ht.
  destruct (Hr i x Hx) as [a [Ha Hia]]. destruct (Hcs j t Ht) as [b [Hb Hjb]].
  exists a, b. split; [apply index_of_spec; exact Hia|]. split; [apply index_of_spec; exact Hjb|].
  unfold restrict_to.
  assert (E1 : nth i (map (fun a0 => map (fun b0 => nth a0 (nth b0 levels []) 0) cols) rows) []
               = map (fun b0 => nth a (nth b0 levels []) 0) cols).
  { clear - Ha. revert i Ha; induction rows as [|r rows IH]; intros [|i] H; simpl in *; try discriminate.
    - inversion H; subst. reflexivity.
    - apply IH. exact H. }
  rewrite E1. clear - Hb.
  revert j Hb; induction cols as [|c cols IH]; intros [|j] H; simpl in *; try discriminate.
  - inversion H; subst. reflexivity.
  - apply IH. exact H.
Qed.

(* the repaired route is taken exactly when it can be: every node found, every time found *)
Theorem coinciding_defined Q G gs go times tobs levels :
  q_spline_route Q = false -> q_subgrid_route Q = false -> g_eq G = false -> g_sol G = Some gs -> g_obs G = Some go ->
  (forall x, In x go -> In x gs) -> (forall t, In t tobs -> In t times) ->
  exists m, coincide_restriction Q G times tobs levels = Some m.
Proof.
  intros Hq Hq2 Hg Hs Ho Hx Ht. unfold coincide_restriction, coincide_rows, coincide_cols. rewrite Hq, Hg, Hq2, Hs, Ho.
  assert (A1 : forall (l ref : qv), (forall x, In x l -> In x ref) -> exists r, opt_all (map (fun x => index_of x ref) l) = Some r).
  { induction l as [|x l IH]; intros ref H; simpl; [eexists; reflexivity|].
    destruct (index_of_complete x ref (H x (or_introl eq_refl))) as [a Ha]. rewrite Ha.
    destruct (IH ref (fun y Hy => H y (or_intror Hy))) as [r Hr]. rewrite Hr. eexists; reflexivity. }
  destruct (A1 go gs Hx) as [rows Hr]. destruct (A1 tobs times Ht) as [cols Hc]. rewrite Hr, Hc. eexists; reflexivity.
Qed.

(* equal grids (the minimal repair already covers this): every stored time asked for is answered by the stored level; the
   rows are all nodes *)
Theorem coinciding_entries_equal Q G times tobs levels m :
  g_eq G = true -> coincide_restriction Q G times tobs levels = Some m ->
  length m = length (hd [] levels) /\
  forall a j t, (a < length (hd [] levels))%nat -> nth_error tobs j = Some t ->
    exists b, nth_error times b = Some t /\ nth j (nth a m []) 0 = nth a (nth b levels []) 0.
Proof.
  intros Hg Hc. unfold coincide_restriction in Hc. destruct (q_spline_route Q); [discriminate|].
  unfold coincide_rows in Hc. rewrite Hg in Hc.
  unfold coincide_cols in Hc. destruct (opt_all (map (fun t => index_of t times) tobs)) as [cols|] eqn:Ec; [|discriminate].
  inversion Hc; subst m. clear Hc. destruct (opt_all_spec _ _ _ Ec) as [Lc Hcs].
  split; [unfold restrict_to; rewrite map_length, seq_length; reflexivity|].
  intros a j t Ha Ht. destruct (Hcs j t Ht) as [b [Hb Hjb]]. exists b. split; [apply index_of_spec; exact Hjb|].
  unfold restrict_to.
  rewrite (nth_map_seq_gen (fun a0 => map (fun b0 => nth a0 (nth b0 levels []) 0) cols) _ a [] Ha).
  clear - Hb. revert j Hb; induction cols as [|c cols IH]; intros [|j] H; simpl in *; try discriminate.
  - inversion H; subst. reflexivity.
  - apply IH. exact H.
Qed.

Theorem coinciding_defined_equal Q G times tobs levels :
  q_spline_route Q = false -> g_eq G = true -> (forall t, In t tobs -> In t times) ->
  exists m, coincide_restriction Q G times tobs levels = Some m.
Proof.
  intros Hq Hg Ht. unfold coincide_restriction, coincide_rows, coincide_cols. rewrite Hq, Hg.
  assert (A1 : forall (l ref : qv), (forall x, In x l -> In x ref) -> exists r, opt_all (map (fun x => index_of x ref) l) = Some r).
  { induction l as [|x l IH]; intros ref H; simpl; [eexists; reflexivity|].
    destruct (index_of_complete x ref (H x (or_introl eq_refl))) as [a Ha]. rewrite Ha.
    destruct (IH ref (fun y Hy => H y (or_intror Hy))) as [r Hr]. rewrite Hr. eexists; reflexivity. }
  destruct (A1 tobs times Ht) as [cols Hc]. rewrite Hc. eexists; reflexivity.
Qed.

(* ---- the law assumed of RectBivariateSpline: a tensor product of two one-dimensional interpolants, each exact at
   its nodes.  Consequences on each axis and in the mixed case. ---- *)
Definition exact1 (ix : qv -> qv -> qv -> qv) : Prop :=
  forall g v pts, length v = length g ->
    length (ix g v pts) = length pts /\
    forall i a x, nth_error pts i = Some x -> nth_error g a = Some x -> nth i (ix g v pts) 0 = nth a v 0.

(* first along space (every time level at the observation nodes), then along time (every observation node's series) *)
Definition tensor_interp (ix it : qv -> qv -> qv -> qv) (gs ts : qv) (sol : list qv) (go to : qv) : qm :=
  map (fun i => it ts (map (fun level => nth i (ix gs level go) 0) sol) to) (seq 0 (length go)).

Lemma nth_map_seq {A} (f : nat -> A) n i d : (i < n)%nat -> nth i (map f (seq 0 n)) d = f i.
Proof.
  intros H. rewrite (nth_indep _ d (f 0%nat)) by (rewrite map_length, seq_length; exact H).
  rewrite (map_nth f (seq 0 n) 0%nat i). rewrite seq_nth by exact H. reflexivity.
Qed.

Lemma nth_error_lt {A} (l : list A) i x : nth_error l i = Some x -> (i < length l)%nat.
Proof. intros H. apply nth_error_Some. congruence. Qed.

Theorem tensor_interp_nodes ix it gs ts sol go to :
  exact1 ix -> exact1 it -> length sol = length ts -> Forall (fun level => length level = length gs) sol ->
  let m := tensor_interp ix it gs ts sol go to in
  length m = length go /\
  (* a coinciding space node: the row is the time interpolation of that node's stored series *)
  (forall i a x, nth_error go i = Some x -> nth_error gs a = Some x ->
     nth i m [] = it ts (map (fun level => nth a level 0) sol) to) /\
  (* a coinciding time: the column is the space interpolation of that stored level *)
  (forall i j b t, (i < length go)%nat -> nth_error to j = Some t -> nth_error ts b = Some t ->
     nth j (nth i m []) 0 = nth i (ix gs (nth b sol []) go) 0) /\
  (* both: the stored value *)
  (forall i j a b x t, nth_error go i = Some x -> nth_error gs a = Some x ->
     nth_error to j = Some t -> nth_error ts b = Some t ->
     nth j (nth i m []) 0 = nth a (nth b sol []) 0).
Proof.
  intros Hx Ht Hl Hw m.
  assert (Lser : forall f : qv -> Qc, length (map f sol) = length ts) by (intros f; rewrite map_length; exact Hl).
  assert (Row : forall i, (i < length go)%nat ->
            nth i m [] = it ts (map (fun level => nth i (ix gs level go) 0) sol) to).
  { intros i Hi. unfold m, tensor_interp. apply (nth_map_seq (fun i0 => it ts (map (fun level => nth i0 (ix gs level go) 0) sol) to)). exact Hi. }
  assert (Ser : forall i a x, nth_error go i = Some x -> nth_error gs a = Some x ->
            map (fun level => nth i (ix gs level go) 0) sol = map (fun level => nth a level 0) sol).
  { intros i a x Hi Ha. apply map_ext_in. intros level Hin. rewrite Forall_forall in Hw.
    destruct (Hx gs level go (Hw level Hin)) as [_ Hn]. apply (Hn i a x Hi Ha). }
  assert (Col : forall i j b t, (i < length go)%nat -> nth_error to j = Some t -> nth_error ts b = Some t ->
            nth j (nth i m []) 0 = nth i (ix gs (nth b sol []) go) 0).
  { intros i j b t Hi Hj Hb. rewrite (Row i Hi).
    destruct (Ht ts (map (fun level => nth i (ix gs level go) 0) sol) to (Lser _)) as [_ Hn].
    rewrite (Hn j b t Hj Hb).
    assert (Hbl : (b < length sol)%nat) by (rewrite Hl; apply (nth_error_lt _ _ _ Hb)).
    rewrite (nth_indep _ 0 ((fun level => nth i (ix gs level go) 0) [])) by (rewrite map_length; exact Hbl).
    rewrite (map_nth (fun level => nth i (ix gs level go) 0) sol [] b). reflexivity. }
  split; [unfold m, tensor_interp; rewrite map_length, seq_length; reflexivity|].
  split; [|split; [exact Col|]].
  - intros i a x Hi Ha. rewrite (Row i (nth_error_lt _ _ _ Hi)). rewrite (Ser i a x Hi Ha). reflexivity.
  - intros i j a b x t Hi Ha Hj Hb. rewrite (Col i j b t (nth_error_lt _ _ _ Hi) Hj Hb).
    assert (Hbl : (b < length sol)%nat) by (rewrite Hl; apply (nth_error_lt _ _ _ Hb)).
    assert (Hin : In (nth b sol []) sol) by (apply nth_In; exact Hbl).
    rewrite Forall_forall in Hw. destruct (Hx gs (nth b sol []) go (Hw _ Hin)) as [_ Hn]. apply (Hn i a x Hi Ha).
Qed.

(* an interpolant that is exact at the nodes returns, at coinciding nodes and times, the stored values *)
Definition exact_at_nodes (interp2 : qv -> qv -> list qv -> qv -> qv -> res qm) : Prop :=
  forall gs ts sol go to m, interp2 gs ts sol go to = Ok m ->
    forall i j a b, nth_error go i = nth_error gs a -> nth_error go i <> None ->
                    nth_error to j = nth_error ts b -> nth_error to j <> None ->
                    nth j (nth i m []) 0 = nth a (nth b sol []) 0.

Theorem observe_interp_nodes Q interp2 G gs go times tobs levels m :
  exact_at_nodes interp2 ->
  g_eq G && time_test Q times tobs = false -> coincide_restriction Q G times tobs levels = None ->
  g_sol G = Some gs -> g_obs G = Some go ->
  interp2 gs times levels go tobs = Ok m -> (length tobs <> 1)%nat ->
  td_observe Q None interp2 G times tobs levels = Ok (true, A2 m) /\
  forall i j a b, nth_error go i = nth_error gs a -> nth_error go i <> None ->
                  nth_error tobs j = nth_error times b -> nth_error tobs j <> None ->
                  nth j (nth i m []) 0 = nth a (nth b levels []) 0.
Proof.
  intros Hex Hb Hc Hs Ho Hm Hl. split.
  - rewrite (observe_interp_general Q None interp2 G gs go times tobs levels Hb Hc Hs Ho). rewrite Hm. simpl.
    destruct (length tobs =? 1)%nat eqn:E; [apply Nat.eqb_eq in E; contradiction | reflexivity].
  - intros i j a b. apply (Hex _ _ _ _ _ _ Hm).
Qed.

(* the tensor-product interpolant is exact at the nodes in that sense *)
Theorem tensor_exact_at_nodes ix it :
  exact1 ix -> exact1 it ->
  forall gs ts sol go to, length sol = length ts -> Forall (fun level => length level = length gs) sol ->
  forall i j a b, nth_error go i = nth_error gs a -> nth_error go i <> None ->
                  nth_error to j = nth_error ts b -> nth_error to j <> None ->
                  nth j (nth i (tensor_interp ix it gs ts sol go to) []) 0 = nth a (nth b sol []) 0.
Proof.
  intros Hx Ht gs ts sol go to Hl Hw i j a b Hi Hin Hj Hjn.
  destruct (nth_error go i) as [x|] eqn:Ex; [|congruence]. destruct (nth_error to j) as [t|] eqn:Et; [|congruence].
  destruct (tensor_interp_nodes ix it gs ts sol go to Hx Ht Hl Hw) as [_ [_ [_ H]]].
  apply (H i j a b x t Ex (eq_sym Hi) Et (eq_sym Hj)).
Qed.

(* the pipeline PDEModel._forward_func = observe o solve o assemble; the parameter left in the object by an
   earlier call plays no role *)
Theorem td_pipeline Q obsmap interp2 G m times tobs prev p :
  td_forward P I solver form Q obsmap interp2 G m times tobs prev p =
    match td_solve P I solver form Q m (Some p) times with
    | Er e => Er e
    | Ok (levels, _) => match td_observe Q obsmap interp2 G times tobs levels with Er e => Er e | Ok (_, a) => Ok a end
    end
  /\ td_forward P I solver form Q obsmap interp2 G m times tobs prev p =
     td_forward P I solver form Q obsmap interp2 G m times tobs None p.
Proof. split; reflexivity. Qed.

Theorem td_solve_needs_assemble Q m times : td_solve P I solver form Q m None times = Er EAttr.
Proof. reflexivity. Qed.
End TDThm.

(* steady pipeline *)
Theorem ss_pipeline sform obsmap interp1 G s p :
  ss_forward P I solver sform obsmap interp1 G s p =
    match ss_observe obsmap interp1 G (sret_sol (solver 0%nat (fst (sform p)) (snd (sform p)))) with
    | Er e => Er e | Ok (_, a) => Ok a end.
Proof.
  unfold ss_forward, ss_solve, ss_assemble; simpl. destruct (sform p) as [A b]; simpl.
  unfold solve_linear_system, sret_sol. destruct (split_ret (solver 0%nat A b)) as [u i]; simpl. reflexivity.
Qed.

Theorem ss_observe_restriction obsmap interp1 G sol :
  g_eq G = true ->
  ss_observe obsmap interp1 G sol = match apply_obsmap obsmap (A1 sol) with Ok a => Ok (false, a) | Er e => Er e end.
Proof. intros H. unfold ss_observe. rewrite H. simpl. destruct (apply_obsmap obsmap (A1 sol)); reflexivity. Qed.

Theorem ss_observe_interp obsmap interp1 G gs go sol :
  g_eq G = false -> g_sol G = Some gs -> g_obs G = Some go ->
  ss_observe obsmap interp1 G sol =
    match interp1 gs sol go with
    | Er e => Er e
    | Ok v => match apply_obsmap obsmap (A1 v) with Ok a => Ok (true, a) | Er e => Er e end
    end.
Proof.
  intros H Hs Ho. unfold ss_observe. rewrite H, Hs, Ho. simpl. destruct (interp1 gs sol go); [|reflexivity].
  destruct (apply_obsmap obsmap (A1 a)); reflexivity.
Qed.

(* ---- gradient dispatch ---- *)
Theorem gradient_dispatch (gwp : option (qv -> P -> qv)) (jwp : option (P -> qm)) npar d w :
  (forall g, gwp = Some g -> gradient_func P gwp jwp npar d w = Ok (g d w)) /\
  (forall J, gwp = None -> jwp = Some J -> gradient_func P gwp jwp npar d w = Ok (qmattvec npar (J w) d)) /\
  (gwp = None -> jwp = None -> gradient_func P gwp jwp npar d w = Er ENotImpl).
Proof.
  repeat split.
  - intros g ->. reflexivity.
  - intros J -> ->. reflexivity.
  - intros -> ->. reflexivity.
Qed.

(* direction @ J is the vector-Jacobian product: <direction @ J, v> = <direction, J v> for every v *)
Theorem gradient_is_vjp (J : qm) npar d v :
  wf_mat npar J -> length v = npar -> qdot (qmattvec npar J d) v = qdot d (qmatvec J v).
Proof.
  intros HJ Hv. pose proof (qc_adjoint npar J v d HJ Hv) as H.
  unfold qdot in *.
  rewrite (dot_comm Qc 0 1 Qcplus Qcmult Qcminus Qcopp Qcth (qmattvec npar J d) v).
  rewrite <- H. apply (dot_comm Qc 0 1 Qcplus Qcmult Qcminus Qcopp Qcth).
Qed.
End Thm.

(* ================= grids bookkeeping ================= *)
Lemma qc_eqb_sym a b : qc_eqb a b = qc_eqb b a.
Proof.
  destruct (qc_eqb a b) eqn:E.
  - apply qc_eqb_eq in E. subst. symmetry. apply qc_eqb_eq. reflexivity.
  - destruct (qc_eqb b a) eqn:E2; [|reflexivity]. apply qc_eqb_eq in E2. subst.
    assert (qc_eqb a a = true) by (apply qc_eqb_eq; reflexivity). congruence.
Qed.
Lemma qcl_eqb_sym x y : qcl_eqb x y = qcl_eqb y x.
Proof.
  revert y; induction x as [|a x IH]; intros [|b y]; simpl; try reflexivity.
  unfold qcl_eqb in *. simpl. rewrite qc_eqb_sym, IH. reflexivity.
Qed.
Lemma compare_grid_sym g1 g2 : compare_grid g1 g2 = compare_grid g2 g1.
Proof. destruct g1, g2; simpl; try reflexivity. apply qcl_eqb_sym. Qed.

Definition grids_ok (G : grids) : Prop := g_eq G = compare_grid (g_sol G) (g_obs G).

Lemma grid_step_ok G o : grids_ok (grid_step G o).
Proof.
  destruct o as [v|v]; unfold grids_ok, grid_step, set_grid_sol, set_grid_obs; simpl; [reflexivity|].
  apply compare_grid_sym.
Qed.

(* after __init__ and after any sequence of grid_sol / grid_obs assignments, grids_equal is the comparison of the
   two grids the object currently holds *)
Theorem grids_invariant gs go ops :
  grids_ok (fold_left grid_step ops (init_grids gs go)).
Proof.
  assert (H0 : grids_ok (init_grids gs go)).
  { unfold init_grids. apply (grid_step_ok _ (SetObs go)). }
  revert H0. generalize (init_grids gs go) as G.
  induction ops as [|o ops IH]; intros G HG; simpl; [exact HG|].
  apply IH. apply grid_step_ok.
Qed.

(* grid_obs=None means: observe on the solution grid *)
Theorem grid_obs_default gs : g_obs (init_grids gs None) = gs /\ g_eq (init_grids gs None) = true.
Proof.
  unfold init_grids, set_grid_obs, set_grid_sol; simpl. split; [reflexivity|].
  destruct gs as [g|]; simpl; [|reflexivity]. apply (proj2 (list_eqb_spec qc_eqb qc_eqb_eq g g)). reflexivity.
Qed.

(* ================= squeeze ================= *)
Theorem squeeze_column (v : qv) : (2 <= length v)%nat -> squeeze (A2 (map (fun x => [x]) v)) = A1 v.
Proof.
  intros H. destruct v as [|a [|b v]]; simpl in H; try lia.
  assert (F : forallb (fun r : list Qc => (length r =? 1)%nat) (map (fun x => [x]) v) = true).
  { apply forallb_forall. intros r Hr. apply in_map_iff in Hr as [x [<- _]]. reflexivity. }
  cbn [map squeeze forallb length Nat.eqb andb]. rewrite F. cbn [map hd]. rewrite map_map. cbn [hd]. rewrite map_id. reflexivity.
Qed.

(* ================= witnesses of the degenerate-configuration defects (faithful model, today's code) ================= *)

(* an interpolant for the witness below: at every requested node the final level, for every requested time *)
Definition const_interp2 (gs ts : qv) (sol : list qv) (go to : qv) : res qm :=
  match last_opt sol with Some u => Ok (map (fun x => map (fun _ => x) to) u) | None => Er EOther end.

(* time_obs = [T, T] with equal grids: today's code returns ONE column (rank 1); the same request with the repaired
   test goes to the interpolation route and returns the two requested columns *)
Theorem observe_final_twice_refuted :
  exists G times tobs levels,
    g_eq G = true /\ last_opt times = Some (qc (1 # 1)) /\ tobs = [qc (1 # 1); qc (1 # 1)] /\
    td_observe quirks_code None const_interp2 G times tobs levels = Ok (false, A1 [qc (5 # 1); qc (7 # 1)]) /\
    td_observe quirks_fixed None const_interp2 G times tobs levels
      = Ok (true, A2 [[qc (5 # 1); qc (5 # 1)]; [qc (7 # 1); qc (7 # 1)]]).
Proof.
  exists (init_grids (Some [qc (0 # 1); qc (1 # 2)]) None), [qc (0 # 1); qc (1 # 1)], [qc (1 # 1); qc (1 # 1)],
         [[qc (1 # 1); qc (2 # 1)]; [qc (5 # 1); qc (7 # 1)]].
  vm_compute. repeat split; reflexivity.
Qed.

(* a request whose nodes and times all coincide with solution nodes and time steps, but which is not (equal grids,
   final time), is answered by the interpolation routine -- and scipy's refuses grids with fewer than 4 points *)
Theorem observe_coinciding_refuted Q (interp2 : qv -> qv -> list qv -> qv -> qv -> res qm) g t0 t1 t2 levels :
  q_spline_route Q = true ->
  (forall gs ts sol go to, (length ts < 4)%nat -> interp2 gs ts sol go to = Er EOther) ->
  t0 <> t2 \/ t1 <> t2 ->
  td_observe Q None interp2 (init_grids (Some g) None) [t0; t1; t2] [t0; t1; t2] levels = Er EOther.
Proof.
  intros Hq Hi Hne. unfold td_observe. rewrite (coincide_none_code Q _ _ _ _ Hq).
  assert (Ht : time_test Q [t0; t1; t2] [t0; t1; t2] = false).
  { unfold time_test. cbn [last_opt]. destruct (q_tobs_all Q).
    - cbn [forallb]. destruct (qc_eqb t2 t0) eqn:E0; [|reflexivity]. destruct (qc_eqb t2 t1) eqn:E1; [|reflexivity].
      apply qc_eqb_eq in E0, E1. subst. destruct Hne as [H|H]; congruence.
    - unfold qcl_eqb. cbn [list_eqb]. apply andb_false_r. }
  rewrite Ht, andb_false_r. cbn [init_grids set_grid_obs set_grid_sol g_sol g_obs grids0].
  rewrite Hi by (simpl; lia). reflexivity.
Qed.

(* ================= non-vacuity: a concrete 2-node heat problem ================= *)
Definition ex_form (p : qv) (t : Qc) : qm * qv * qv :=
  ([[qc (-2 # 1); qc (1 # 1)]; [qc (1 # 1); qc (-2 # 1)]], [t; qc (0 # 1)], p).
(* exact 2x2 solver by Cramer's rule *)
Definition ex_solver (k : nat) (A : qm) (b : qv) : sret Z :=
  match A, b with
  | [[a11; a12]; [a21; a22]], [b1; b2] =>
      let det := (a11 * a22 - a12 * a21)%Qc in
      STuple [((b1 * a22 - a12 * b2) / det)%Qc; ((a11 * b2 - a21 * b1) / det)%Qc] [Z.of_nat k]
  | _, _ => SPlain []
  end.
Lemma qcll_eqb_eq x y : qcll_eqb x y = true <-> x = y.
Proof. apply list_eqb_spec. apply list_eqb_spec. apply qc_eqb_eq. Qed.

Example ex_heat :
  let times := [qc (0 # 1); qc (1 # 4); qc (3 # 4)] in
  let p := [qc (4 # 1); qc (8 # 1)] in
  (exists levels, td_solve qv Z ex_solver ex_form quirks_code MFwd (Some p) times = Ok (levels, None) /\
     levels = [[qc (4 # 1); qc (8 # 1)]; [qc (4 # 1); qc (5 # 1)]; [qc (21 # 8); qc (2 # 1)]]) /\
  exists levels, td_solve qv Z ex_solver ex_form quirks_code MBwd (Some p) times = Ok (levels, Some [1%Z]) /\
    forall k, (k < 2)%nat ->
      let dt := (nth (S k) times 0 - nth k times 0)%Qc in
      let M := fst (be_system (fst (fst (ex_form p (nth (S k) times 0)))) (snd (fst (ex_form p (nth (S k) times 0)))) (nth k levels []) dt) in
      let r := snd (be_system (fst (fst (ex_form p (nth (S k) times 0)))) (snd (fst (ex_form p (nth (S k) times 0)))) (nth k levels []) dt) in
      qmatvec M (sret_sol (ex_solver k M r)) = r.
Proof.
  cbn zeta. split.
  - eexists. split; [vm_compute; reflexivity|]. apply qcll_eqb_eq. vm_compute. reflexivity.
  - eexists. split; [vm_compute; reflexivity|].
    intros k Hk. apply (proj1 (list_eqb_spec qc_eqb qc_eqb_eq _ _)).
    destruct k as [|[|k]]; [vm_compute; reflexivity | vm_compute; reflexivity | lia].
Qed.

Theorem ss_observe_both (obsmap : option (arr -> res arr)) (interp1 : qv -> qv -> qv -> res qv) (G : grids) (sol : qv) :
  (g_eq G = true ->
     ss_observe obsmap interp1 G sol = match apply_obsmap obsmap (A1 sol) with Ok a => Ok (false, a) | Er e => Er e end) /\
  (forall gs go, g_eq G = false -> g_sol G = Some gs -> g_obs G = Some go ->
     ss_observe obsmap interp1 G sol =
       match interp1 gs sol go with
       | Er e => Er e
       | Ok v => match apply_obsmap obsmap (A1 v) with Ok a => Ok (true, a) | Er e => Er e end
       end).
Proof.
  split.
  - exact (ss_observe_restriction obsmap interp1 G sol).
  - intros gs go. exact (ss_observe_interp obsmap interp1 G gs go sol).
Qed.

(* corollary: if the solver's answer obeys its law on every call that is actually made, all levels satisfy the implicit
   recurrence (the hypothesis speaks about the calls of this run only: it is satisfiable whenever the step operators
   are invertible -- see C18_example) *)
Definition be_law_on_calls (P I : Type) (solver : nat -> qm -> qv -> sret I) (form : P -> Qc -> qm * qv * qv)
           (p : P) (times : qv) (levels : list qv) : Prop :=
  forall k, (S k < length times)%nat ->
    let dt := (nth (S k) times 0 - nth k times 0)%Qc in
    let M := be_M P form p (nth (S k) times 0) (nth k levels []) dt in
    let r := be_r P form p (nth (S k) times 0) (nth k levels []) dt in
    qmatvec M (sret_sol (solver k M r)) = r.

Theorem backward_euler_exact_solver (P I : Type) (solver : nat -> qm -> qv -> sret I) (form : P -> Qc -> qm * qv * qv)
        (Q : quirks) (p : P) (times : qv) (levels : list qv) (info : option (list I)) :
  td_solve P I solver form Q MBwd (Some p) times = Ok (levels, info) ->
  be_law_on_calls P I solver form p times levels ->
  forall k, (S k < length times)%nat ->
    let dt := (nth (S k) times 0 - nth k times 0)%Qc in
    qvsub (nth (S k) levels []) (qvscale dt (qmatvec (fA P form p (nth (S k) times 0)) (nth (S k) levels [])))
      = qvadd (nth k levels []) (qvscale dt (fbn P form p (nth (S k) times 0) (length (nth 0 levels [])))).
Proof.
  intros H Hex k Hk.
  destruct (backward_euler P I solver form Q p times levels info H) as [_ [_ Hall]].
  specialize (Hall k Hk). cbn zeta in Hall. destruct Hall as [_ [_ [_ [_ [_ Hrec]]]]]. cbn zeta. apply Hrec. apply (Hex k Hk).
Qed.

(* a single observation time through the interpolation route: the (n_obs, 1) array is squeezed to the vector *)
Theorem squeeze_single_time (v : qv) : (2 <= length v)%nat -> squeeze (A2 (map (fun x => [x]) v)) = A1 v.
Proof. exact (squeeze_column v). Qed.
