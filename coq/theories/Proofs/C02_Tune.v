(* C02 -- facts about the scale adaptation: the adapted scale is positive and at most 1, the adaptation is a
   multiplicative update whose log-increment is bounded by 1/sqrt(k) (vanishing adaptation), monotone in the
   observed acceptance rate. *)
From CV Require Import Model.C02_Tune.
From Coq Require Import Reals Lra Lia List ZArith.
Import ListNotations.
Local Open Scope R_scope.

Lemma tune_temp_pos lam k h star : 0 < tune_temp lam k h star.
Proof. unfold tune_temp. apply exp_pos. Qed.

Lemma tune_scale_bounds lam k h star : 0 < tune_scale lam k h star <= 1.
Proof.
  unfold tune_scale. pose proof (tune_temp_pos lam k h star) as P. split.
  - apply Rmin_glb_lt; lra.
  - apply Rmin_r.
Qed.

Lemma tune_temp_mult lam k h star : 0 < lam -> tune_temp lam k h star = lam * exp (zeta k * (h - star)).
Proof. intro H. unfold tune_temp. rewrite exp_plus, exp_ln by exact H. reflexivity. Qed.

Lemma zeta_pos k : (1 <= k)%Z -> 0 < zeta k <= 1.
Proof.
  intro H. unfold zeta. assert (1 <= IZR k) by (apply IZR_le in H; exact H).
  assert (S1 : 1 <= sqrt (IZR k)). { rewrite <- sqrt_1. apply sqrt_le_1_alt. exact H0. }
  split.
  - apply Rdiv_lt_0_compat; lra.
  - apply (Rmult_le_reg_r (sqrt (IZR k))); [lra|]. unfold Rdiv. rewrite Rmult_assoc, Rinv_l by lra. lra.
Qed.

(* |log(new) - log(old)| <= zeta(k) = 1/sqrt(k): the variation of the adapted parameter vanishes *)
Lemma tune_log_step lam k h star :
  0 < lam -> (1 <= k)%Z -> 0 <= h <= 1 -> 0 <= star <= 1 ->
  Rabs (ln (tune_temp lam k h star) - ln lam) <= zeta k.
Proof.
  intros Hl Hk Hh Hs. unfold tune_temp. rewrite ln_exp.
  replace (ln lam + zeta k * (h - star) - ln lam) with (zeta k * (h - star)) by ring.
  pose proof (zeta_pos k Hk) as [Z0 Z1].
  rewrite Rabs_mult, (Rabs_pos_eq (zeta k)) by lra.
  assert (Rabs (h - star) <= 1) by (apply Rabs_le; lra).
  rewrite <- (Rmult_1_r (zeta k)) at 2. apply Rmult_le_compat_l; lra.
Qed.

(* accepting more often than the target rate never shrinks the scale, less often never enlarges it *)
Lemma tune_monotone lam k h star :
  0 < lam -> (1 <= k)%Z ->
  (star <= h -> lam <= tune_temp lam k h star) /\ (h <= star -> tune_temp lam k h star <= lam).
Proof.
  intros Hl Hk. rewrite tune_temp_mult by exact Hl. pose proof (zeta_pos k Hk) as [Z0 _].
  split; intro H.
  - assert (0 <= zeta k * (h - star)) by (apply Rmult_le_pos; lra).
    assert (1 <= exp (zeta k * (h - star))).
    { rewrite <- exp_0. destruct H0 as [H0|H0]; [left; apply exp_increasing; exact H0 | right; rewrite <- H0; reflexivity]. }
    rewrite <- (Rmult_1_r lam) at 1. apply Rmult_le_compat_l; lra.
  - assert (zeta k * (h - star) <= 0).
    { replace 0 with (zeta k * 0) by ring. apply Rmult_le_compat_l; lra. }
    assert (exp (zeta k * (h - star)) <= 1).
    { rewrite <- exp_0. destruct H0 as [H0|H0]; [left; apply exp_increasing; exact H0 | right; rewrite H0; reflexivity]. }
    rewrite <- (Rmult_1_r lam) at 2. apply Rmult_le_compat_l; lra.
Qed.

(* every scale produced by any run of adaptation steps lies in (0, 1] *)
Lemma tune_seq_bounds windows : forall lam k star, Forall (fun s => 0 < s <= 1) (tune_seq lam k star windows).
Proof.
  induction windows as [|[a n] r IH]; intros lam k star; cbn [tune_seq]; constructor.
  - pose proof (tune_temp_pos lam k (hat_acc a n) star). split; [apply Rmin_glb_lt; lra | apply Rmin_r].
  - apply IH.
Qed.

Lemma tune_seq_length windows : forall lam k star, length (tune_seq lam k star windows) = length windows.
Proof. induction windows as [|[a n] r IH]; intros; cbn; [reflexivity | f_equal; apply IH]. Qed.

(* non-vacuity: the hypotheses of the adaptation theorems hold for the constants the samplers use *)
Lemma tune_example :
  0 < 1 / 2 /\ (1 <= 3)%Z /\ 0 <= hat_acc 1 2 <= 1 /\ 0 <= star_mh <= 1 /\ 0 <= star_pcn <= 1 /\ 0 <= star_cw 2 <= 1.
Proof. unfold hat_acc, star_mh, star_pcn, star_cw. repeat split; try lra; try lia. Qed.

(* ---- round 5: monotonicity in the acceptance rate, for every tuning window and every run of windows -------------- *)
(* the observed rate of a window of n > 0 flags of which a are set lies in [0,1] and is monotone in a *)
Lemma hat_acc_range a n : (0 <= a <= n)%Z -> (0 < n)%Z -> 0 <= hat_acc a n <= 1.
Proof.
  intros [Ha Han] Hn. unfold hat_acc.
  assert (N : 0 < IZR n) by (apply IZR_lt in Hn; exact Hn).
  assert (A : 0 <= IZR a) by (apply IZR_le in Ha; exact Ha).
  assert (AN : IZR a <= IZR n) by (apply IZR_le; exact Han).
  split.
  - apply Rmult_le_pos; [exact A | left; apply Rinv_0_lt_compat; exact N].
  - apply (Rmult_le_reg_r (IZR n)); [exact N|]. unfold Rdiv. rewrite Rmult_assoc, Rinv_l; lra.
Qed.

Lemma hat_acc_mono a1 a2 n : (0 < n)%Z -> (a1 <= a2)%Z -> hat_acc a1 n <= hat_acc a2 n.
Proof.
  intros Hn Ha. unfold hat_acc, Rdiv. apply Rmult_le_compat_r.
  - left. apply Rinv_0_lt_compat. apply IZR_lt in Hn. exact Hn.
  - apply IZR_le. exact Ha.
Qed.

Lemma star_cw_range d : (1 <= d)%Z -> 0 <= star_cw d <= 1.
Proof.
  intro H. unfold star_cw. assert (D : 1 <= IZR d) by (apply IZR_le in H; exact H).
  assert (I : 0 < / IZR d <= 1).
  { split; [apply Rinv_0_lt_compat; lra|]. rewrite <- Rinv_1. apply Rinv_le_contravar; lra. }
  unfold Rdiv. nra.
Qed.

(* the update is monotone in the observed acceptance rate (strictly, before clipping) and in the previous parameter *)
Lemma tune_temp_mono_h lam k h1 h2 star : (1 <= k)%Z -> h1 <= h2 -> tune_temp lam k h1 star <= tune_temp lam k h2 star.
Proof.
  intros Hk H. unfold tune_temp. pose proof (zeta_pos k Hk) as [Z0 _].
  assert (E : ln lam + zeta k * (h1 - star) <= ln lam + zeta k * (h2 - star)).
  { apply Rplus_le_compat_l. apply Rmult_le_compat_l; lra. }
  destruct E as [E|E]; [left; apply exp_increasing; exact E | right; rewrite E; reflexivity].
Qed.

Lemma tune_temp_strict_h lam k h1 h2 star : (1 <= k)%Z -> h1 < h2 -> tune_temp lam k h1 star < tune_temp lam k h2 star.
Proof.
  intros Hk H. unfold tune_temp. pose proof (zeta_pos k Hk) as [Z0 _]. apply exp_increasing.
  apply Rplus_lt_compat_l. apply Rmult_lt_compat_l; lra.
Qed.

Lemma tune_temp_mono_lam lam1 lam2 k h star : 0 < lam1 -> lam1 <= lam2 -> tune_temp lam1 k h star <= tune_temp lam2 k h star.
Proof.
  intros H1 H. unfold tune_temp.
  assert (E : ln lam1 <= ln lam2) by (destruct H as [H|H]; [left; apply ln_increasing; assumption | right; rewrite H; reflexivity]).
  assert (E2 : ln lam1 + zeta k * (h - star) <= ln lam2 + zeta k * (h - star)) by lra.
  destruct E2 as [E2|E2]; [left; apply exp_increasing; exact E2 | right; rewrite E2; reflexivity].
Qed.

Lemma tune_scale_mono_h lam k h1 h2 star : (1 <= k)%Z -> h1 <= h2 -> tune_scale lam k h1 star <= tune_scale lam k h2 star.
Proof. intros Hk H. unfold tune_scale. apply Rle_min_compat_r. apply tune_temp_mono_h; assumption. Qed.

(* one window: more accepted flags in a window of the same length never give a smaller scale; the adapted scale stays in (0,1] *)
Lemma tune_window_mono lam k star a1 a2 n :
  (1 <= k)%Z -> (0 < n)%Z -> (a1 <= a2)%Z ->
  tune_scale lam k (hat_acc a1 n) star <= tune_scale lam k (hat_acc a2 n) star /\
  0 < tune_scale lam k (hat_acc a1 n) star <= 1.
Proof.
  intros Hk Hn Ha. split; [apply tune_scale_mono_h; [exact Hk | apply hat_acc_mono; assumption] | apply tune_scale_bounds].
Qed.

(* the scales of a run are the clipped parameters; every parameter of a run is positive *)
Lemma tune_seq_clip windows : forall lam k star, tune_seq lam k star windows = map (fun t => Rmin t 1) (tune_temps lam k star windows).
Proof. induction windows as [|[a n] r IH]; intros; cbn [tune_seq tune_temps map]; [reflexivity | f_equal; apply IH]. Qed.

Lemma tune_temps_pos windows : forall lam k star, Forall (fun t => 0 < t) (tune_temps lam k star windows).
Proof. induction windows as [|[a n] r IH]; intros; cbn [tune_temps]; constructor; [apply tune_temp_pos | apply IH]. Qed.

(* two runs whose windows have pointwise ordered acceptance rates (and ordered starting parameters): the parameters and the
   scales are ordered after EVERY adaptation step *)
Definition win_le (w1 w2 : Z * Z) : Prop := hat_acc (fst w1) (snd w1) <= hat_acc (fst w2) (snd w2).

Lemma tune_temps_mono w1 : forall w2 lam1 lam2 k star,
  Forall2 win_le w1 w2 -> 0 < lam1 -> lam1 <= lam2 -> (1 <= k)%Z ->
  Forall2 Rle (tune_temps lam1 k star w1) (tune_temps lam2 k star w2).
Proof.
  induction w1 as [|[a1 n1] r1 IH]; intros w2 lam1 lam2 k star HW H1 H12 Hk; inversion HW as [|? [a2 n2] ? r2 Hw Hr]; subst.
  - constructor.
  - cbn [tune_temps]. unfold win_le in Hw. cbn [fst snd] in Hw.
    assert (S1 : tune_temp lam1 k (hat_acc a1 n1) star <= tune_temp lam2 k (hat_acc a2 n2) star).
    { eapply Rle_trans; [apply tune_temp_mono_h; [exact Hk | exact Hw] | apply tune_temp_mono_lam; assumption]. }
    constructor; [exact S1|].
    apply IH; [exact Hr | apply tune_temp_pos | exact S1 | lia].
Qed.

Lemma Forall2_map_Rmin l1 : forall l2, Forall2 Rle l1 l2 -> Forall2 Rle (map (fun t => Rmin t 1) l1) (map (fun t => Rmin t 1) l2).
Proof.
  induction l1 as [|a r IH]; intros l2 H; inversion H; subst; cbn [map]; constructor.
  - apply Rle_min_compat_r. assumption.
  - apply IH. assumption.
Qed.

Lemma tune_seq_mono w1 w2 lam1 lam2 k star :
  Forall2 win_le w1 w2 -> 0 < lam1 -> lam1 <= lam2 -> (1 <= k)%Z ->
  Forall2 Rle (tune_seq lam1 k star w1) (tune_seq lam2 k star w2).
Proof. intros. rewrite !tune_seq_clip. apply Forall2_map_Rmin. apply tune_temps_mono; assumption. Qed.

(* the hypotheses of tune_log_step hold for every window the samplers form and for the three target rates they use *)
Lemma tune_window_vanishing lam k a n star :
  0 < lam -> (1 <= k)%Z -> (0 <= a <= n)%Z -> (0 < n)%Z ->
  (star = star_mh \/ star = star_pcn \/ exists d, (1 <= d)%Z /\ star = star_cw d) ->
  Rabs (ln (tune_temp lam k (hat_acc a n) star) - ln lam) <= zeta k.
Proof.
  intros Hl Hk Ha Hn Hs. apply tune_log_step; [exact Hl | exact Hk | apply hat_acc_range; assumption |].
  destruct Hs as [->|[->|[d [Hd ->]]]]; [unfold star_mh; lra | unfold star_pcn; lra | apply star_cw_range; exact Hd].
Qed.

Lemma tune_mono_example :
  Forall2 win_le [(1, 4); (0, 4)]%Z [(3, 4); (2, 4)]%Z /\ 0 < 1 / 4 /\ 1 / 4 <= 1 / 2 /\ (1 <= 1)%Z /\ (0 <= 3 <= 4)%Z /\ (0 < 4)%Z.
Proof.
  repeat split; try lra; try lia.
  repeat constructor; unfold win_le, hat_acc; cbn [fst snd]; lra.
Qed.

(* ---- the windows tune() reads: flags are 0/1, so the rate of every non-empty window is in [0,1]; under the call pattern of
        warmup() (the i-th call sees a history of (i+1)*T entries) both window conventions select the same T flags -------------- *)
Definition flags (w : list Z) : Prop := Forall (fun b => (0 <= b <= 1)%Z) w.

Lemma zsum_flags w : flags w -> (0 <= zsum w <= Z.of_nat (length w))%Z.
Proof.
  induction w as [|b r IH]; intro H; [cbn; lia|]. inversion H; subst. specialize (IH H3).
  cbn [zsum fold_right length]. fold (zsum r). lia.
Qed.

Lemma flags_skipn n w : flags w -> flags (skipn n w).
Proof. revert w. induction n as [|n IH]; intros w H; [exact H|]. destruct w as [|b r]; [exact H|]. inversion H; subst. cbn. apply IH. assumption. Qed.

Lemma flags_firstn n w : flags w -> flags (firstn n w).
Proof. revert w. induction n as [|n IH]; intros w H; [constructor|]. destruct w as [|b r]; [constructor|]. inversion H; subst. cbn. constructor; [assumption | apply IH; assumption]. Qed.

Lemma win_rate_range w : flags w -> w <> nil -> 0 <= win_rate w <= 1.
Proof.
  intros H Hn. unfold win_rate. apply hat_acc_range; [apply zsum_flags; exact H|].
  destruct w; [congruence | cbn [length]; lia].
Qed.

Lemma win_last_length T acc : length (win_last T acc) = Nat.min T (length acc).
Proof. unfold win_last. rewrite skipn_length. lia. Qed.

Lemma win_slice_length T i acc : length (win_slice T i acc) = Nat.min T (length acc - i * T).
Proof. unfold win_slice. rewrite firstn_length, skipn_length. reflexivity. Qed.

(* warmup(): tune(T, i) is called when the history holds exactly (i+1)*T entries *)
Lemma windows_coincide T i acc : length acc = ((i + 1) * T)%nat -> win_last T acc = win_slice T i acc /\ length (win_last T acc) = T.
Proof.
  intro H. unfold win_last, win_slice.
  assert (E : (length acc - T = i * T)%nat) by lia. rewrite E. split.
  - symmetry. apply firstn_all2. rewrite skipn_length. lia.
  - rewrite skipn_length. lia.
Qed.

(* every tune() call on a 0/1 history with a non-empty window: positive parameter, scale in (0,1], vanishing log-step -- with NO
   hypothesis on the observed rate left *)
Lemma tune_call_sound (cw : bool) T i acc lam star :
  0 < lam -> flags acc -> (if cw then win_slice T i acc else win_last T acc) <> nil ->
  (star = star_mh \/ star = star_pcn \/ exists d, (1 <= d)%Z /\ star = star_cw d) ->
  0 < tune_call cw T i acc lam star /\ 0 < Rmin (tune_call cw T i acc lam star) 1 <= 1 /\
  Rabs (ln (tune_call cw T i acc lam star) - ln lam) <= zeta (Z.of_nat i + 1).
Proof.
  intros Hl Hf Hn Hs. unfold tune_call. set (w := if cw then win_slice T i acc else win_last T acc) in *.
  assert (Fw : flags w) by (unfold w; destruct cw; [apply flags_firstn, flags_skipn; exact Hf | apply flags_skipn; exact Hf]).
  split; [apply tune_temp_pos|]. split; [apply (tune_scale_bounds lam (Z.of_nat i + 1) (win_rate w) star)|].
  apply tune_log_step; [exact Hl | lia | apply win_rate_range; assumption |].
  destruct Hs as [->|[->|[d [Hd ->]]]]; [unfold star_mh; lra | unfold star_pcn; lra | apply star_cw_range; exact Hd].
Qed.

(* monotone in the flags: a window that is pointwise larger gives a larger-or-equal parameter and scale *)
Lemma zsum_mono w1 : forall w2, Forall2 Z.le w1 w2 -> (zsum w1 <= zsum w2)%Z /\ length w1 = length w2.
Proof.
  induction w1 as [|a r IH]; intros w2 H; inversion H; subst; [split; [cbn; lia | reflexivity]|].
  destruct (IH _ H4) as [I1 I2]. cbn [zsum fold_right length]. fold (zsum r). fold (zsum l'). split; [lia | congruence].
Qed.

Lemma win_rate_mono w1 w2 : Forall2 Z.le w1 w2 -> w1 <> nil -> win_rate w1 <= win_rate w2.
Proof.
  intros H Hn. destruct (zsum_mono w1 w2 H) as [S L]. unfold win_rate. rewrite <- L.
  apply hat_acc_mono; [destruct w1; [congruence | cbn [length]; lia] | exact S].
Qed.

Lemma tune_flags_mono lam i star w1 w2 :
  Forall2 Z.le w1 w2 -> w1 <> nil ->
  tune_temp lam (Z.of_nat i + 1) (win_rate w1) star <= tune_temp lam (Z.of_nat i + 1) (win_rate w2) star /\
  tune_scale lam (Z.of_nat i + 1) (win_rate w1) star <= tune_scale lam (Z.of_nat i + 1) (win_rate w2) star.
Proof.
  intros H Hn. pose proof (win_rate_mono w1 w2 H Hn) as M.
  split; [apply tune_temp_mono_h | apply tune_scale_mono_h]; try exact M; lia.
Qed.

Lemma window_example :
  flags [1; 0; 1; 1; 0; 1]%Z /\ length [1; 0; 1; 1; 0; 1]%Z = ((1 + 1) * 3)%nat /\ win_last 3 [1; 0; 1; 1; 0; 1]%Z = [1; 0; 1]%Z /\
  win_slice 3 1 [1; 0; 1; 1; 0; 1]%Z = [1; 0; 1]%Z /\ Forall2 Z.le [0; 0; 1]%Z [1; 0; 1]%Z.
Proof. repeat split; repeat constructor; lia. Qed.

(* warmup(Nb, tune_freq): in iteration idx (0-based) tune(T, idx / T) is called when (idx + 1) mod T = 0, and at that moment the
   history holds the initial 1 and the flags of the idx completed iterations: exactly (idx / T + 1) * T entries -- the hypothesis of
   windows_coincide is a fact about that loop *)
Lemma warmup_call_pattern (T idx : nat) : (1 <= T)%nat -> ((idx + 1) mod T = 0)%nat -> (1 + idx = (idx / T + 1) * T)%nat.
Proof.
  intros HT Hm.
  assert (T <> 0)%nat as NT by lia.
  pose proof (Nat.div_mod (idx + 1) T NT) as D. rewrite Hm in D.
  assert (E : ((idx + 1) / T = idx / T + 1)%nat).
  { destruct (Nat.eq_dec T 1) as [->|N1].
    - rewrite !Nat.div_1_r. reflexivity.
    - pose proof (Nat.div_mod idx T NT) as D2. pose proof (Nat.mod_upper_bound idx T NT) as B.
      assert (Hq : (idx mod T = T - 1)%nat).
      { assert (M : ((idx + 1) mod T = (idx mod T + 1) mod T)%nat) by (rewrite Nat.add_mod_idemp_l by exact NT; reflexivity).
        rewrite Hm in M. destruct (Nat.eq_dec (idx mod T + 1) T) as [Eq|Ne]; [lia|].
        rewrite Nat.mod_small in M by lia. lia. }
      apply (Nat.mul_cancel_l _ _ T NT). nia. }
  rewrite <- E. nia.
Qed.

Lemma warmup_windows_coincide (T idx : nat) (acc : list Z) :
  (1 <= T)%nat -> ((idx + 1) mod T = 0)%nat -> length acc = (1 + idx)%nat ->
  win_last T acc = win_slice T (idx / T) acc /\ length (win_last T acc) = T.
Proof. intros HT Hm HL. apply windows_coincide. rewrite HL. apply warmup_call_pattern; assumption. Qed.

(* closed form of a run: the parameter after the j-th adaptation is the starting value times the exponential of the accumulated
   Robbins-Monro drift  sum_{i <= j} (hat_i - star) / sqrt(k + i) *)
Fixpoint drifts (k : Z) (star : R) (windows : list (Z * Z)) (acc : R) : list R :=
  match windows with
  | [] => []
  | (a, n) :: r => let d := acc + zeta k * (hat_acc a n - star) in d :: drifts (k + 1) star r d
  end.

Lemma tune_temps_closed_gen windows : forall lam k star acc, 0 < lam ->
  tune_temps (lam * exp acc) k star windows = map (fun d => lam * exp d) (drifts k star windows acc).
Proof.
  induction windows as [|[a n] r IH]; intros lam k star acc Hl; [reflexivity|].
  cbn [tune_temps drifts map].
  assert (P : 0 < lam * exp acc) by (apply Rmult_lt_0_compat; [exact Hl | apply exp_pos]).
  assert (E : tune_temp (lam * exp acc) k (hat_acc a n) star = lam * exp (acc + zeta k * (hat_acc a n - star))).
  { rewrite tune_temp_mult by exact P. rewrite exp_plus. ring. }
  rewrite E. f_equal. apply IH. exact Hl.
Qed.

Lemma tune_temps_closed windows lam k star : 0 < lam ->
  tune_temps lam k star windows = map (fun d => lam * exp d) (drifts k star windows 0).
Proof.
  intro Hl. rewrite <- (tune_temps_closed_gen windows lam k star 0 Hl). rewrite exp_0, Rmult_1_r. reflexivity.
Qed.
