(* C02 -- Fubini for a (jointly) continuous integrand on a rectangle, for Coquelicot's Riemann integral, and with it the
   discharge of the four integrability hypotheses of Proofs/C02_Continuous.v (invariance_RInt) for CONTINUOUS target density,
   proposal density and test function.
   Proof of Fubini: both iterated integrals, as functions of the upper bound t of the x-range, have the derivative
   G(t) = int_c^d h(t,y) dy at every t (fundamental theorem for one, differentiation under the integral sign for the other),
   and both vanish at t = a; a function with zero derivative is constant (mean value theorem). *)
From Coq Require Import Reals Lra.
From Coquelicot Require Import Coquelicot.
From CV Require Import Proofs.C02_Countable Proofs.C02_Continuous.
Local Open Scope R_scope.

Definition cont2 (k : R -> R -> R) : Prop := forall x y, continuity_2d_pt k x y.

Lemma cont2_swap k : cont2 k -> cont2 (fun y x => k x y).
Proof.
  intros Hk y x eps. destruct (Hk x y eps) as [delta Hd]. exists delta. intros u v Hu Hv. apply Hd; assumption.
Qed.

(* slices of a jointly continuous function are continuous *)
Lemma cont2_slice k x : cont2 k -> forall y, continuous (fun v => k x v) y.
Proof.
  intros Hk y. apply filterlim_locally. intro eps. destruct (Hk x y eps) as [delta Hd].
  exists delta. intros v Hv. change (Rabs (k x v - k x y) < eps). apply Hd.
  - replace (x - x) with 0 by ring. rewrite Rabs_R0. apply cond_pos.
  - exact Hv.
Qed.

Lemma cont2_ex_RInt k x c d : cont2 k -> ex_RInt (fun v => k x v) c d.
Proof. intro Hk. apply (@ex_RInt_continuous R_CompleteNormedModule). intros z _. apply cont2_slice. exact Hk. Qed.

(* the parametric integral x |-> int_c^d k(x,y) dy is continuous *)
Lemma param_cont_le k c d x0 : cont2 k -> c <= d -> continuous (fun x => RInt (fun y => k x y) c d) x0.
Proof.
  intros Hk Hcd. apply filterlim_locally. intro eps.
  assert (Hw : 0 < d - c + 1) by lra.
  assert (He' : 0 < eps / (d - c + 1)) by (apply Rdiv_lt_0_compat; [apply cond_pos | exact Hw]).
  destruct (uniform_continuity_2d k (x0 - 1) (x0 + 1) c d (fun x y _ _ => Hk x y) (mkposreal _ He')) as [delta Hd].
  simpl in Hd.
  assert (Hm : 0 < Rmin delta 1) by (apply Rmin_glb_lt; [apply cond_pos | lra]).
  exists (mkposreal _ Hm). intros x Hx.
  change (Rabs (x - x0) < Rmin delta 1) in Hx.
  assert (Hx1 : Rabs (x - x0) < 1) by (eapply Rlt_le_trans; [exact Hx | apply Rmin_r]).
  assert (Hx2 : Rabs (x - x0) < delta) by (eapply Rlt_le_trans; [exact Hx | apply Rmin_l]).
  apply Rabs_def2 in Hx1.
  change (Rabs (RInt (fun y => k x y) c d - RInt (fun y => k x0 y) c d) < eps).
  assert (E : RInt (fun y => k x y) c d - RInt (fun y => k x0 y) c d = RInt (fun y => minus (k x y) (k x0 y)) c d).
  { symmetry. apply (@RInt_minus R_CompleteNormedModule (fun y => k x y) (fun y => k x0 y) c d); apply cont2_ex_RInt; exact Hk. }
  rewrite E.
  eapply Rle_lt_trans.
  - apply (abs_RInt_le_const (fun y => minus (k x y) (k x0 y)) c d (eps / (d - c + 1)) Hcd).
    + apply (@ex_RInt_minus R_NormedModule (fun y => k x y) (fun y => k x0 y) c d); apply cont2_ex_RInt; exact Hk.
    + intros y Hy. left. change (Rabs (k x y - k x0 y) < eps / (d - c + 1)).
      apply Hd; try lra; try exact Hx2.
      replace (y - y) with 0 by ring. rewrite Rabs_R0. apply cond_pos.
  - pose proof (cond_pos eps) as Pe.
    apply (Rmult_lt_reg_r (d - c + 1)); [exact Hw|].
    replace ((d - c) * (eps / (d - c + 1)) * (d - c + 1)) with ((d - c) * eps) by (field; lra).
    nra.
Qed.

Lemma param_cont k c d x0 : cont2 k -> continuous (fun x => RInt (fun y => k x y) c d) x0.
Proof.
  intro Hk. destruct (Rle_dec c d) as [H|H]; [apply param_cont_le; assumption|].
  apply (continuous_ext (fun x => opp (RInt (fun y => k x y) d c))).
  - intro x. apply (@opp_RInt_swap R_CompleteNormedModule (fun y => k x y) d c). apply cont2_ex_RInt. exact Hk.
  - apply (@continuous_opp R_UniformSpace R_AbsRing R_NormedModule). apply param_cont_le; [exact Hk | lra].
Qed.

Lemma param_ex_RInt k c d a b : cont2 k -> ex_RInt (fun x => RInt (fun y => k x y) c d) a b.
Proof. intro Hk. apply (@ex_RInt_continuous R_CompleteNormedModule). intros z _. apply param_cont. exact Hk. Qed.

Section Fubini.
Variable h : R -> R -> R.
Hypothesis Hh : cont2 h.
Variables a c d : R.

Definition Gx (t : R) : R := RInt (fun y => h t y) c d.
Definition Phi (t : R) : R := RInt Gx a t.
Definition Fxy (t y : R) : R := RInt (fun x => h x y) a t.
Definition Psi (t : R) : R := RInt (fun y => Fxy t y) c d.

Lemma Phi_derive t : is_derive Phi t (Gx t).
Proof.
  apply (@is_derive_RInt R_NormedModule Gx Phi a t).
  - apply filter_forall. intro u. apply (@RInt_correct R_CompleteNormedModule). apply param_ex_RInt. exact Hh.
  - apply param_cont. exact Hh.
Qed.

Lemma Fxy_derive y t : is_derive (fun u => Fxy u y) t (h t y).
Proof.
  apply (@is_derive_RInt R_NormedModule (fun x => h x y) (fun u => Fxy u y) a t).
  - apply filter_forall. intro u. apply (@RInt_correct R_CompleteNormedModule).
    apply (cont2_ex_RInt (fun y x => h x y) y a u). apply cont2_swap. exact Hh.
  - apply (cont2_slice (fun y x => h x y) y (cont2_swap h Hh) t).
Qed.

Lemma Psi_derive t : is_derive Psi t (Gx t).
Proof.
  assert (D : is_derive (fun x => RInt (fun y => Fxy x y) c d) t (RInt (fun y => Derive (fun u => Fxy u y) t) c d)).
  { apply is_derive_RInt_param.
    - apply filter_forall. intros t' y _. exists (h t' y). apply Fxy_derive.
    - intros y _. apply (continuity_2d_pt_ext h); [|apply Hh].
      intros u v. symmetry. apply is_derive_unique. apply Fxy_derive.
    - apply filter_forall. intro t'. apply (param_ex_RInt (fun y x => h x y) a t' c d). apply cont2_swap. exact Hh. }
  assert (E : RInt (fun y => Derive (fun u => Fxy u y) t) c d = Gx t).
  { unfold Gx. apply RInt_ext. intros y _. apply is_derive_unique. apply Fxy_derive. }
  rewrite E in D. exact D.
Qed.

Lemma Phi_a : Phi a = 0.
Proof. unfold Phi. apply (@RInt_point R_CompleteNormedModule). Qed.

Lemma Psi_a : Psi a = 0.
Proof.
  unfold Psi. rewrite (RInt_ext _ (fun _ => 0)).
  - rewrite RInt_const. unfold scal; simpl. unfold mult; simpl. ring.
  - intros y _. unfold Fxy. apply (@RInt_point R_CompleteNormedModule).
Qed.

Theorem fubini_continuous b :
  RInt (fun x => RInt (fun y => h x y) c d) a b = RInt (fun y => RInt (fun x => h x y) a b) c d.
Proof.
  change (Phi b = Psi b).
  set (D := fun t => minus (Phi t) (Psi t)).
  assert (HD : forall t, is_derive D t 0).
  { intro t.
    assert (T : forall l, is_derive D t l -> l = 0 -> is_derive D t 0) by (intros l H ->; exact H).
    apply (T (minus (Gx t) (Gx t))).
    - apply (@is_derive_minus R_AbsRing R_NormedModule Phi Psi t); [apply Phi_derive | apply Psi_derive].
    - unfold minus, plus, opp; simpl. ring. }
  destruct (MVT_gen D a b (fun _ => 0)) as [xi [_ Hxi]].
  - intros x _. apply HD.
  - intros x _. apply continuity_pt_filterlim. apply (ex_derive_continuous D x). exists 0. apply HD.
  - unfold D, minus, plus, opp in Hxi; simpl in Hxi. rewrite Phi_a, Psi_a in Hxi. lra.
Qed.
End Fubini.

(* ---- continuity of the net-flow integrand h(x,y) = min(pi(x)q(x,y), pi(y)q(y,x)) (f(y) - f(x)) ------------------------- *)
Lemma Rmin_formula u v : Rmin u v = (u + v - Rabs (u - v)) / 2.
Proof.
  unfold Rmin. destruct (Rle_dec u v) as [H|H].
  - rewrite Rabs_left1 by lra. field.
  - rewrite Rabs_pos_eq by lra. field.
Qed.

Lemma cont2_fst (g : R -> R) : (forall x, continuity_pt g x) -> cont2 (fun x _ => g x).
Proof. intros Hg x y. apply (continuity_1d_2d_pt_comp g (fun u _ => u)); [apply Hg | apply continuity_2d_pt_id1]. Qed.

Lemma cont2_snd (g : R -> R) : (forall x, continuity_pt g x) -> cont2 (fun _ y => g y).
Proof. intros Hg x y. apply (continuity_1d_2d_pt_comp g (fun _ v => v)); [apply Hg | apply continuity_2d_pt_id2]. Qed.

Lemma cont2_Rmin k1 k2 : cont2 k1 -> cont2 k2 -> cont2 (fun x y => Rmin (k1 x y) (k2 x y)).
Proof.
  intros H1 H2 x y.
  apply (continuity_2d_pt_ext (fun x y => (k1 x y + k2 x y - Rabs (k1 x y - k2 x y)) * / 2)).
  - intros u v. rewrite Rmin_formula. reflexivity.
  - apply continuity_2d_pt_mult; [|apply continuity_2d_pt_const].
    apply continuity_2d_pt_minus; [apply continuity_2d_pt_plus; [apply H1 | apply H2]|].
    apply (continuity_1d_2d_pt_comp Rabs (fun x y => k1 x y - k2 x y)); [apply Rcontinuity_abs|].
    apply continuity_2d_pt_minus; [apply H1 | apply H2].
Qed.

Section Discharge.
Variable pi : R -> R.
Variable q : R -> R -> R.
Variable f : R -> R.
Hypothesis pi_nonneg : forall x, 0 <= pi x.
Hypothesis q_nonneg : forall x y, 0 <= q x y.
Hypothesis pi_cont : forall x, continuity_pt pi x.
Hypothesis q_cont : cont2 q.
Hypothesis f_cont : forall x, continuity_pt f x.

Lemma hflow_cont2 : cont2 (hflow pi q f).
Proof.
  unfold hflow, gflow. intros x y.
  apply continuity_2d_pt_mult.
  - apply cont2_Rmin.
    + intros u v. apply continuity_2d_pt_mult; [apply cont2_fst; exact pi_cont | apply q_cont].
    + intros u v. apply continuity_2d_pt_mult; [apply cont2_snd; exact pi_cont | apply (cont2_swap q q_cont)].
  - apply continuity_2d_pt_minus; [apply cont2_snd; exact f_cont | apply cont2_fst; exact f_cont].
Qed.

Lemma moveint_ex a b x : ex_RInt (moveint pi q f x) a b.
Proof.
  destruct (Req_EM_T (pi x) 0) as [E|E].
  - (* pi(x) = 0: every proposal is accepted, the integrand is q(x,y) (f(y) - f(x)) *)
    apply ex_RInt_ext with (fun y => q x y * (f y - f x)).
    + intros y _. unfold moveint, alphaC, acc0. rewrite E, Rmult_0_l.
      destruct (Req_EM_T 0 0) as [_|N]; [rewrite Rmult_1_r; reflexivity | exfalso; apply N; reflexivity].
    + apply (@ex_RInt_continuous R_CompleteNormedModule). intros z _.
      apply (continuous_mult (fun y => q x y) (fun y => f y - f x)).
      * apply (cont2_slice q x q_cont).
      * apply (continuous_minus (fun y => f y) (fun _ => f x)); [apply continuity_pt_filterlim; apply f_cont | apply continuous_const].
  - (* pi(x) > 0: the integrand is h(x,y) / pi(x) *)
    apply ex_RInt_ext with (fun y => scal (/ pi x) (hflow pi q f x y)).
    + intros y _. rewrite <- (hflow_move pi q pi_nonneg q_nonneg f x y). unfold scal; simpl. unfold mult; simpl. field. exact E.
    + apply (@ex_RInt_scal R_NormedModule (hflow pi q f x)). apply (cont2_ex_RInt (hflow pi q f) x a b hflow_cont2).
Qed.

Lemma pif_ex a b : ex_RInt (fun x => pi x * f x) a b.
Proof.
  apply (@ex_RInt_continuous R_CompleteNormedModule). intros z _.
  apply (continuous_mult pi f); apply continuity_pt_filterlim; [apply pi_cont | apply f_cont].
Qed.

(* invariance on a compact interval with every integrability hypothesis PROVED from continuity of pi, q, f *)
Theorem invariance_RInt_continuous a b :
  RInt (fun x => pi x * Kf a b pi q f x) a b = RInt (fun x => pi x * f x) a b.
Proof.
  apply (invariance_RInt a b pi q pi_nonneg q_nonneg f).
  - intro x. apply moveint_ex.
  - apply pif_ex.
  - apply (param_ex_RInt (hflow pi q f) a b a b hflow_cont2).
  - apply (fubini_continuous (hflow pi q f) hflow_cont2 a a b b).
Qed.
End Discharge.

(* compact support: where the target vanishes there is no flow in either direction, so for a target supported in [A,B] the
   statement on any [a,b] containing [A,B] is the statement on the support (and on the whole line with proposals that leave
   the support being rejected) *)
Lemma hflow_outside (pi : R -> R) (q : R -> R -> R) (f : R -> R) :
  (forall x, 0 <= pi x) -> (forall x y, 0 <= q x y) ->
  forall x y, pi y = 0 -> hflow pi q f x y = 0 /\ hflow pi q f y x = 0.
Proof.
  intros Hp Hq x y E. unfold hflow, gflow. rewrite E, !Rmult_0_l.
  assert (N : 0 <= pi x * q x y) by (apply Rmult_le_pos; auto).
  rewrite (Rmin_right (pi x * q x y) 0), (Rmin_left 0 (pi x * q x y)) by exact N. split; ring.
Qed.

(* non-vacuity: a triangular ("tent") target density on [0,1] that vanishes at both ends, a uniform proposal, f(x) = x *)
Lemma tent_hyps :
  let pi := fun x : R => Rmin x (1 - x) + Rabs (Rmin x (1 - x)) in let q := fun _ _ : R => 1 in let f := fun x : R => x in
  (forall x, 0 <= pi x) /\ (forall x y, 0 <= q x y) /\ (forall x, continuity_pt pi x) /\ cont2 q /\ (forall x, continuity_pt f x) /\
  pi 0 = 0 /\ pi 1 = 0 /\ pi (1 / 2) = 1.
Proof.
  intros pi q f. repeat split.
  - intro x. unfold pi. pose proof (Rle_abs (- Rmin x (1 - x))). rewrite Rabs_Ropp in H. lra.
  - intros; unfold q; lra.
  - intro x. unfold pi.
    assert (C : continuity_pt (fun x => Rmin x (1 - x)) x).
    { apply continuity_pt_ext with (fun x => (x + (1 - x) - Rabs (x - (1 - x))) / 2); [intro t; symmetry; apply Rmin_formula|].
      unfold Rdiv. apply continuity_pt_mult; [|apply continuity_pt_const; intros u v; reflexivity].
      apply continuity_pt_minus.
      - apply continuity_pt_plus; [apply continuity_pt_id | apply continuity_pt_minus; [apply continuity_pt_const; intros u v; reflexivity | apply continuity_pt_id]].
      - apply (continuity_pt_comp (fun x => x - (1 - x)) Rabs); [|apply Rcontinuity_abs].
        apply continuity_pt_minus; [apply continuity_pt_id | apply continuity_pt_minus; [apply continuity_pt_const; intros u v; reflexivity | apply continuity_pt_id]]. }
    apply continuity_pt_plus; [exact C|]. apply (continuity_pt_comp (fun x => Rmin x (1 - x)) Rabs); [exact C | apply Rcontinuity_abs].
  - intros x y. apply continuity_2d_pt_const.
  - intro x. apply continuity_pt_id.
  - unfold pi. rewrite Rmin_left by lra. rewrite Rabs_R0. ring.
  - unfold pi. rewrite Rmin_right by lra. replace (1 - 1) with 0 by ring. rewrite Rabs_R0. ring.
  - unfold pi. rewrite Rmin_left by lra. rewrite Rabs_pos_eq by lra. field.
Qed.

(* ---- unbounded supports, as far as proved: for continuous pi, q, f on the whole line the net flow
        int_a^b int_a^b min(pi(x)q(x,y), pi(y)q(y,x)) (f(y) - f(x)) dy dx  vanishes over EVERY square [a,b]^2, hence so does its limit
        along the squares [-n,n]^2 (the improper double integral of the net flow of the TRUE whole-line kernel, taken along squares).
        Passing from the squares to the kernel integrated over all of R (dominated convergence) is not formalised. ---------------- *)
Section WholeLine.
Variable pi : R -> R.
Variable q : R -> R -> R.
Variable f : R -> R.
Hypothesis pi_nonneg : forall x, 0 <= pi x.
Hypothesis q_nonneg : forall x y, 0 <= q x y.
Hypothesis pi_cont : forall x, continuity_pt pi x.
Hypothesis q_cont : cont2 q.
Hypothesis f_cont : forall x, continuity_pt f x.

Theorem net_flow_zero_every_box a b : RInt (fun x => RInt (hflow pi q f x) a b) a b = 0.
Proof.
  apply (net_flow_zero a b pi q pi_nonneg q_nonneg f).
  - intro x. apply (moveint_ex pi q f pi_nonneg q_nonneg pi_cont q_cont f_cont).
  - apply (param_ex_RInt (hflow pi q f) a b a b (hflow_cont2 pi q f pi_cont q_cont f_cont)).
  - apply (fubini_continuous (hflow pi q f) (hflow_cont2 pi q f pi_cont q_cont f_cont) a a b b).
Qed.

Corollary net_flow_limit_along_squares :
  is_lim_seq (fun n : nat => RInt (fun x => RInt (hflow pi q f x) (- INR n) (INR n)) (- INR n) (INR n)) 0.
Proof.
  apply is_lim_seq_ext with (fun _ : nat => 0); [intro n; symmetry; apply net_flow_zero_every_box | apply is_lim_seq_const].
Qed.
End WholeLine.

(* ---- R^2, one COORDINATE update (CWMH updates coordinate 1 with coordinate 2 held fixed; the other coordinate and R^n with more
        parameters are the same statement): the kernel acts on f by an MH move in x1 for the conditional density pi(., x2); if for every
        fixed x2 the slices are continuous and non-negative, the joint density is invariant on the rectangle [a,b] x [c,d] as an
        iterated Riemann integral.  (The composition of the coordinate kernels into a sweep on a continuous space is not formalised.) -- *)
Theorem coordinate_kernel_invariant_2d (pi2 : R -> R -> R) (q2 : R -> R -> R -> R) (f2 : R -> R -> R) (a b c d : R) :
  (forall x2 x1, 0 <= pi2 x1 x2) -> (forall x2 x1 y1, 0 <= q2 x2 x1 y1) ->
  (forall x2 x1, continuity_pt (fun t => pi2 t x2) x1) -> (forall x2, cont2 (q2 x2)) -> (forall x2 x1, continuity_pt (fun t => f2 t x2) x1) ->
  RInt (fun x2 => RInt (fun x1 => pi2 x1 x2 * Kf a b (fun t => pi2 t x2) (q2 x2) (fun t => f2 t x2) x1) a b) c d =
  RInt (fun x2 => RInt (fun x1 => pi2 x1 x2 * f2 x1 x2) a b) c d.
Proof.
  intros Hp Hq Cp Cq Cf. apply RInt_ext. intros x2 _.
  apply (invariance_RInt_continuous (fun t => pi2 t x2) (q2 x2) (fun t => f2 t x2) (Hp x2) (Hq x2) (Cp x2) (Cq x2) (Cf x2) a b).
Qed.

(* ---- the proposals the samplers use, in one dimension: Gaussian N(m(x), sigma^2) with a continuous mean map m --
        random walk m(x) = x, MALA m(x) = x + (s/2) grad(x) (sigma^2 = s), pCN m(x) = sqrt(1-s^2) x (sigma = s) -- have a jointly
        continuous density, so the interval theorem applies to them with NO analytic hypothesis left beyond continuity of the target
        (and of its gradient for MALA) ------------------------------------------------------------------------------------------ *)
Definition gauss_q (c sigma : R) (m : R -> R) (x y : R) : R := c * exp (- ((y - m x) * (y - m x)) / (2 * (sigma * sigma))).

Lemma gauss_q_nonneg c sigma m : 0 <= c -> forall x y, 0 <= gauss_q c sigma m x y.
Proof. intros Hc x y. unfold gauss_q. apply Rmult_le_pos; [exact Hc | left; apply exp_pos]. Qed.

Lemma gauss_q_cont2 c sigma m : (forall x, continuity_pt m x) -> cont2 (gauss_q c sigma m).
Proof.
  intros Hm x y. unfold gauss_q.
  apply continuity_2d_pt_mult; [apply continuity_2d_pt_const|].
  apply (continuity_1d_2d_pt_comp exp (fun x y => - ((y - m x) * (y - m x)) / (2 * (sigma * sigma)))).
  - apply derivable_continuous_pt. apply derivable_pt_exp.
  - unfold Rdiv. apply continuity_2d_pt_mult; [|apply continuity_2d_pt_const].
    apply continuity_2d_pt_opp.
    assert (D : continuity_2d_pt (fun x y => y - m x) x y).
    { apply continuity_2d_pt_minus; [apply continuity_2d_pt_id2 | apply (cont2_fst m Hm)]. }
    apply continuity_2d_pt_mult; exact D.
Qed.

(* symmetric proposal value on both sides: the acceptance probability is the target ratio alone (the rule of MH / CWMH / pCN) *)
Lemma acc0_symmetric px py c : 0 < px -> 0 <= py -> 0 < c -> acc0 (px * c) (py * c) = Rmin 1 (py / px).
Proof.
  intros Hx Hy Hc. unfold acc0. assert (P : 0 < px * c) by (apply Rmult_lt_0_compat; assumption).
  destruct (Req_EM_T (px * c) 0) as [Z|_]; [lra|]. f_equal. field. split; lra.
Qed.

Theorem gaussian_proposal_invariant (pi : R -> R) (m : R -> R) (f : R -> R) (c sigma a b : R) :
  (forall x, 0 <= pi x) -> (forall x, continuity_pt pi x) -> (forall x, continuity_pt m x) -> (forall x, continuity_pt f x) -> 0 <= c ->
  RInt (fun x => pi x * Kf a b pi (gauss_q c sigma m) f x) a b = RInt (fun x => pi x * f x) a b.
Proof.
  intros Hp Cp Cm Cf Hc.
  apply (invariance_RInt_continuous pi (gauss_q c sigma m) f Hp (gauss_q_nonneg c sigma m Hc) Cp (gauss_q_cont2 c sigma m Cm) Cf a b).
Qed.

(* for the random walk m(x) = x the proposal density is symmetric, so the kernel's acceptance probability is min(1, pi(y)/pi(x)) *)
Lemma rw_gauss_symmetric c sigma x y : gauss_q c sigma (fun t => t) x y = gauss_q c sigma (fun t => t) y x.
Proof. unfold gauss_q. replace ((x - y) * (x - y)) with ((y - x) * (y - x)) by ring. reflexivity. Qed.

Lemma rw_gauss_alpha (pi : R -> R) c sigma x y : (forall t, 0 <= pi t) -> 0 < pi x -> 0 < c ->
  alphaC pi (gauss_q c sigma (fun t => t)) x y = Rmin 1 (pi y / pi x).
Proof.
  intros Hp Hx Hc. unfold alphaC. rewrite (rw_gauss_symmetric c sigma y x).
  apply acc0_symmetric; [exact Hx | apply Hp |]. unfold gauss_q. apply Rmult_lt_0_compat; [exact Hc | apply exp_pos].
Qed.

(* ---- a proposal with BOUNDED support: the triangular random walk q(x,y) = max(0, w - |y - x|) (zero for |y - x| >= w, symmetric).
        It is jointly continuous, so the interval theorem applies: a compactly supported target AND a bounded-support proposal ------- *)
Definition tent_q (w x y : R) : R := Rmax 0 (w - Rabs (y - x)).

Lemma Rmax_formula u v : Rmax u v = (u + v + Rabs (u - v)) / 2.
Proof.
  unfold Rmax. destruct (Rle_dec u v) as [H|H].
  - rewrite Rabs_left1 by lra. field.
  - rewrite Rabs_pos_eq by lra. field.
Qed.

Lemma tent_q_facts w : (forall x y, 0 <= tent_q w x y) /\ (forall x y, w <= Rabs (y - x) -> tent_q w x y = 0) /\
  (forall x y, tent_q w x y = tent_q w y x) /\ cont2 (tent_q w).
Proof.
  split; [intros; unfold tent_q; apply Rmax_l|]. split; [intros x y H; unfold tent_q; rewrite Rmax_left; lra|].
  split; [intros x y; unfold tent_q; rewrite (Rabs_minus_sym y x); reflexivity|].
  intros x y.
  apply (continuity_2d_pt_ext (fun x y => (0 + (w - Rabs (y - x)) + Rabs (0 - (w - Rabs (y - x)))) * / 2)).
  - intros u v. unfold tent_q. rewrite Rmax_formula. reflexivity.
  - assert (D : continuity_2d_pt (fun x y => w - Rabs (y - x)) x y).
    { apply continuity_2d_pt_minus; [apply continuity_2d_pt_const|].
      apply (continuity_1d_2d_pt_comp Rabs (fun x y => y - x)); [apply Rcontinuity_abs|].
      apply continuity_2d_pt_minus; [apply continuity_2d_pt_id2 | apply continuity_2d_pt_id1]. }
    apply continuity_2d_pt_mult; [|apply continuity_2d_pt_const].
    apply continuity_2d_pt_plus; [apply continuity_2d_pt_plus; [apply continuity_2d_pt_const | exact D]|].
    apply (continuity_1d_2d_pt_comp Rabs (fun x y => 0 - (w - Rabs (y - x)))); [apply Rcontinuity_abs|].
    apply continuity_2d_pt_minus; [apply continuity_2d_pt_const | exact D].
Qed.

Theorem bounded_support_proposal_invariant (pi f : R -> R) (w a b : R) :
  (forall x, 0 <= pi x) -> (forall x, continuity_pt pi x) -> (forall x, continuity_pt f x) ->
  RInt (fun x => pi x * Kf a b pi (tent_q w) f x) a b = RInt (fun x => pi x * f x) a b.
Proof.
  intros Hp Cp Cf. destruct (tent_q_facts w) as [Q0 [_ [_ QC]]].
  apply (invariance_RInt_continuous pi (tent_q w) f Hp Q0 Cp QC Cf a b).
Qed.
