(* C13 -- Geometry maps are mutually inverse and act column-wise on batches.
   Property theorems only: each is closed by `exact <lemma>` and followed by Print Assumptions.

   Arrays are `arr A` = shape + data flattened in C order (Model/C13_Geom.v).  `vb_shape m k` is the shape of k
   columns of length m as the maps return it: [m] for k = 1 (a single vector), [m; k] otherwise (a batch).
   `col_of d rows k j x` is column j of the row-major (rows x k) matrix x -- also the C-order data of the
   slice [..., j] of an array of shape s ++ [k] with prodn s = rows.  `obind x f` chains refusals (None).

   Guards are the exact complements of the refuted classes; each refuted class has its `_refuted` witness
   (known_findings.tsv: squeeze-singleton, Image2D.fun2par|batch, StepExpansion float boundaries). *)
From CV Require Import Base.Tac Base.Cmp Base.LinAlg Base.QcLin Model.C13_Geom Model.C13_Float Model.C13_Eq Model.C13_Fixed
     Proofs.C13_Lists Proofs.C13_Index Proofs.C13_Geom Proofs.C13_Step Proofs.C13_StepQ Proofs.C13_All Proofs.C13_FloatW Proofs.C13_Vector Proofs.C13_KLW Proofs.C13_MatMap Proofs.C13_Fun2par Proofs.C13_Eq Proofs.C13_Fixed Proofs.C13_Colwise Proofs.C13_History.
From Coq Require Import QArith Qcanon.
From Coq Require PrimFloat.   (* not imported: Print Assumptions then shows the primitives with their full names *)

(* ============ round trips fun2par(par2fun(p)) = p ============ *)

(* every geometry of the model (Continuous1D, Discrete, defaults, Continuous2D, Image2D C/F/visual_only,
   MappedGeometry with ANY elementwise map/imap pair such that imap (map x) = x, or with a matrix map M (acting on the
   whole array, possibly changing its size) and a left inverse R @ (M @ x) = x (nested too), KLExpansion with any number m >= 2 of modes, StepExpansion on any
   index family that is a partition into non-empty steps), every size, a single parameter vector (k = 1) and,
   for the geometries whose two maps are column-wise, every batch of k columns *)
Theorem C13_roundtrip : forall (g : geom) (k : nat) (a : arr Qc),
  g_ok g -> (k = 1%nat \/ g_colwise g = true) ->
  shp a = vb_shape (g_par_dim g) k -> length (dat a) = (g_par_dim g * k)%nat ->
  obind (g_par2fun g a) (g_fun2par g) = Some a.
Proof. exact g_roundtrip. Qed.
Print Assumptions C13_roundtrip.

(* MappedGeometry, one layer over any geometry, ANY pair of functions that is inverse on the function values that
   actually occur (rational maps are inverse only away from their pole) *)
Theorem C13_roundtrip_mapped_pointwise : forall (g : geom) (fm f' : Qc -> Qc) (a b : arr Qc),
  g_par2fun g a = Some b -> Forall (fun v => f' (fm v) = v) (dat b) -> g_fun2par g b = Some a ->
  obind (g_par2fun (GMapped g fm (Some f')) a) (g_fun2par (GMapped g fm (Some f'))) = Some a.
Proof. exact mapped_roundtrip_pointwise. Qed.
Print Assumptions C13_roundtrip_mapped_pointwise.

(* the instances run by the harness: affine maps with non-zero slope (everywhere), Moebius maps (away from the pole) *)
Theorem C13_mapped_instances :
  (forall ma mb x : Qc, ma <> 0%Qc -> ((ma * x + mb - mb) / ma)%Qc = x) /\
  (forall a b c d x : Qc, (a * d - b * c)%Qc <> 0%Qc -> (c * x + d)%Qc <> 0%Qc ->
     let y := ((a * x + b) / (c * x + d))%Qc in ((d * y - b) / (- c * y + a))%Qc = x).
Proof. split; [exact affine_inverse | exact moebius_inverse]. Qed.
Print Assumptions C13_mapped_instances.

(* a matrix map with a left inverse (prolongation/injection, permutation, cumulative sum/difference ...): every vector and
   every batch of columns comes back *)
Theorem C13_roundtrip_matrix_map : forall (M R : list (list Qc)) (n k : nat) (a : arr Qc),
  n = mat_cols M -> mat_cols R = length M -> length R = n ->
  (forall x, length x = n -> qmatvec R (qmatvec M x) = x) ->
  shp a = vb_shape n k -> length (dat a) = (n * k)%nat ->
  obind (matmap M a) (matmap R) = Some a.
Proof. exact matmap_left_inverse. Qed.
Print Assumptions C13_roundtrip_matrix_map.

(* Continuous2D, any element type, any grid sizes except the single point, vectors and batches *)
Theorem C13_roundtrip_continuous2d : forall (A : Type) (d : A) (n1 n2 k : nat) (a : arr A),
  (2 <= n1 * n2)%nat -> shp a = vb_shape (n1 * n2) k ->
  obind (cont2d_par2fun d n1 n2 a) (cont2d_fun2par d n1 n2) = Some a.
Proof. exact @cont2d_roundtrip. Qed.
Print Assumptions C13_roundtrip_continuous2d.

(* ... and function values back and forth (the maps are bijections) *)
Theorem C13_roundtrip_continuous2d_fun : forall (A : Type) (d : A) (n1 n2 k : nat) (a : arr A),
  (2 <= n1)%nat -> (2 <= n2)%nat -> shp a = (if (k =? 1)%nat then [n1; n2] else [n1; n2; k]) ->
  obind (cont2d_fun2par d n1 n2 a) (cont2d_par2fun d n1 n2) = Some a.
Proof. exact @cont2d_roundtrip_fun. Qed.
Print Assumptions C13_roundtrip_continuous2d_fun.

Theorem C13_roundtrip_continuous2d_refuted : exists n1 n2 (a : arr nat),
  shp a = [(n1 * n2)%nat] /\ length (dat a) = (n1 * n2)%nat /\
  obind (cont2d_par2fun 0%nat n1 n2 a) (cont2d_fun2par 0%nat n1 n2) <> Some a.
Proof. exact cont2d_roundtrip_refuted. Qed.
Print Assumptions C13_roundtrip_continuous2d_refuted.

(* Image2D, both orders, visual_only or not, all image sizes: parameter vector -> image -> parameter vector,
   and image -> vector -> image *)
Theorem C13_roundtrip_image2d : forall (A : Type) (d : A) (r c : nat) (o : C13_Geom.order) (v : bool) (a : arr A),
  (0 < r * c)%nat -> shp a = [(r * c)%nat] -> length (dat a) = (r * c)%nat ->
  obind (image_par2fun d r c o v a) (image_fun2par d o v) = Some a.
Proof. exact @image_roundtrip_par. Qed.
Print Assumptions C13_roundtrip_image2d.

Theorem C13_roundtrip_image2d_fun : forall (A : Type) (d : A) (r c : nat) (o : C13_Geom.order) (a : arr A),
  (0 < r * c)%nat -> shp a = [r; c] -> length (dat a) = (r * c)%nat ->
  obind (image_fun2par d o false a) (image_par2fun d r c o false) = Some a.
Proof. exact @image_roundtrip_fun. Qed.
Print Assumptions C13_roundtrip_image2d_fun.

(* KLExpansion with abstract transforms: any dst/idst with idst of length N and dst(idst x) = 2N x (the law of
   scipy.fftpack's unnormalised DST-II pair), any N, any number of modes 2 <= m <= N (truncation and padding),
   non-zero coefficients and normaliser, vectors and batches *)
Theorem C13_roundtrip_kl : forall (dst idst : list Qc -> list Qc) (N : nat),
  (forall x, length x = N -> length (idst x) = N) ->
  (forall x, length x = N -> dst (idst x) = map (fun v => qcn 2 * qcn N * v)%Qc x) ->
  forall (m : nat) (coefs : list Qc) (tau : Qc) (k : nat) (a : arr Qc),
  (2 <= m)%nat -> (m <= N)%nat -> length coefs = m -> Forall (fun c => c <> 0%Qc) coefs -> tau <> 0%Qc ->
  shp a = vb_shape m k -> length (dat a) = (m * k)%nat ->
  obind (kl_par2fun idst N m coefs tau a) (kl_fun2par dst N m coefs tau) = Some a.
Proof. exact kl_roundtrip. Qed.
Print Assumptions C13_roundtrip_kl.

(* the guard 2 <= m is exact: with a single mode squeeze() returns a 0-d parameter array *)
Theorem C13_roundtrip_kl_single_mode_refuted : exists (dst idst : list Qc -> list Qc) (N : nat) (coefs : list Qc) (tau : Qc) (a : arr Qc),
  (forall x, length x = N -> length (idst x) = N) /\
  (forall x, length x = N -> dst (idst x) = map (fun v => qcn 2 * qcn N * v)%Qc x) /\
  (1 <= N)%nat /\ length coefs = 1%nat /\ Forall (fun c => c <> 0%Qc) coefs /\ tau <> 0%Qc /\
  shp a = [1%nat] /\ length (dat a) = 1%nat /\
  obind (kl_par2fun idst N 1 coefs tau a) (kl_fun2par dst N 1 coefs tau) <> Some a.
Proof. exact kl_roundtrip_single_mode_refuted. Qed.
Print Assumptions C13_roundtrip_kl_single_mode_refuted.

(* StepExpansion on ANY index family that is a partition into non-empty steps (step_wf), all three projections,
   vectors and batches, >= 2 steps and >= 2 nodes *)
Theorem C13_roundtrip_step : forall (N : nat) (idx : list (list nat)) (pr : proj) (k : nat) (a : arr Qc),
  step_wf N idx -> (N <> 1)%nat -> (length idx <> 1)%nat ->
  shp a = vb_shape (length idx) k -> length (dat a) = (length idx * k)%nat ->
  obind (step_par2fun N idx a) (step_fun2par_total N idx pr) = Some a.
Proof. exact step_roundtrip. Qed.
Print Assumptions C13_roundtrip_step.

(* the computable test of that hypothesis (run on the bit-exact binary64 indices) is sound *)
Theorem C13_step_wf_test_sound : forall N idx, step_wf_b N idx = true -> step_wf N idx.
Proof. exact step_wf_b_sound. Qed.
Print Assumptions C13_step_wf_test_sound.

(* refuted classes of the StepExpansion round trip *)
Theorem C13_roundtrip_step_empty_step_refuted : exists N idx pr (a : arr Qc),
  shp a = [length idx] /\ length (dat a) = length idx /\ (N <> 1)%nat /\ (length idx <> 1)%nat /\
  obind (step_par2fun N idx a) (step_fun2par_total N idx pr) <> Some a.
Proof. exact step_roundtrip_empty_step_refuted. Qed.
Print Assumptions C13_roundtrip_step_empty_step_refuted.

Theorem C13_roundtrip_step_single_step_refuted : exists N idx pr (a : arr Qc),
  step_wf N idx /\ shp a = [length idx] /\ length (dat a) = length idx /\
  obind (step_par2fun N idx a) (step_fun2par_total N idx pr) <> Some a.
Proof. exact step_roundtrip_single_step_refuted. Qed.
Print Assumptions C13_roundtrip_step_single_step_refuted.

(* ============ projections ============ *)
(* par2fun(fun2par(par2fun(p))) = par2fun(p), and mapping back and forth once more changes nothing *)
Theorem C13_projection : forall (g : geom) (k : nat) (a : arr Qc),
  g_ok g -> (k = 1%nat \/ g_colwise g = true) ->
  shp a = vb_shape (g_par_dim g) k -> length (dat a) = (g_par_dim g * k)%nat ->
  obind (obind (g_par2fun g a) (g_fun2par g)) (g_par2fun g) = g_par2fun g a.
Proof. exact g_projection. Qed.
Print Assumptions C13_projection.

Theorem C13_projection_idempotent : forall (g : geom) (k : nat) (f p : arr Qc),
  g_ok g -> (k = 1%nat \/ g_colwise g = true) ->
  g_fun2par g f = Some p -> shp p = vb_shape (g_par_dim g) k -> length (dat p) = (g_par_dim g * k)%nat ->
  obind (obind (g_fun2par g f) (g_par2fun g)) (g_fun2par g) = g_fun2par g f.
Proof. exact g_fun2par_idempotent. Qed.
Print Assumptions C13_projection_idempotent.

(* ============ documented placement ============ *)
(* pixel (i,j) of the image is parameter i*c+j in C order and i+r*j in Fortran order *)
Theorem C13_placement_image2d : forall (A : Type) (d : A) (r c : nat) (o : C13_Geom.order) (a b : arr A) (i j : nat),
  (0 < r * c)%nat -> shp a = [(r * c)%nat] -> length (dat a) = (r * c)%nat ->
  image_par2fun d r c o false a = Some b -> (i < r)%nat -> (j < c)%nat ->
  nth (i * c + j) (dat b) d = nth (match o with OC => i * c + j | OF => i + r * j end)%nat (dat a) d.
Proof. exact @image_par2fun_pixel. Qed.
Print Assumptions C13_placement_image2d.

(* every node of step i receives exactly parameter i *)
Theorem C13_placement_step : forall (N : nat) (idx : list (list nat)) (p : list Qc) (i t : nat),
  step_wf N idx -> length p = length idx -> (i < length idx)%nat -> In t (nth i idx []) ->
  nth t (step_par2fun_col N idx p) 0%Qc = nth i p 0%Qc.
Proof. exact step_par2fun_col_node. Qed.
Print Assumptions C13_placement_step.

(* ============ batches: the map of a matrix of columns = the map of each column ============ *)
Theorem C13_batch_columnwise_continuous2d : forall (A : Type) (d : A) (n1 n2 k : nat) (a : arr A),
  (2 <= n1)%nat -> (2 <= n2)%nat -> (k <> 1)%nat -> shp a = [(n1 * n2)%nat; k] ->
  exists b, cont2d_par2fun d n1 n2 a = Some b /\ shp b = [n1; n2; k] /\
    forall j, cont2d_par2fun d n1 n2 (mkArr [(n1 * n2)%nat] (col_of d (n1 * n2) k j (dat a)))
              = Some (mkArr [n1; n2] (col_of d (n1 * n2) k j (dat b))).
Proof. exact @cont2d_columnwise. Qed.
Print Assumptions C13_batch_columnwise_continuous2d.

Theorem C13_batch_columnwise_continuous2d_fun2par : forall (A : Type) (d : A) (n1 n2 k : nat) (a : arr A),
  (2 <= n1)%nat -> (2 <= n2)%nat -> (k <> 1)%nat -> shp a = [n1; n2; k] ->
  exists b, cont2d_fun2par d n1 n2 a = Some b /\ shp b = [(n1 * n2)%nat; k] /\
    forall j, cont2d_fun2par d n1 n2 (mkArr [n1; n2] (col_of d (n1 * n2) k j (dat a)))
              = Some (mkArr [(n1 * n2)%nat] (col_of d (n1 * n2) k j (dat b))).
Proof. exact @cont2d_fun2par_columnwise. Qed.
Print Assumptions C13_batch_columnwise_continuous2d_fun2par.

Theorem C13_batch_columnwise_image2d : forall (A : Type) (d : A) (r c : nat) (o : C13_Geom.order) (k : nat) (a : arr A),
  (0 < r * c)%nat -> (2 <= k)%nat -> shp a = [(r * c)%nat; k] -> length (dat a) = (r * c * k)%nat ->
  exists b, image_par2fun d r c o false a = Some b /\ shp b = [r; c; k] /\ length (dat b) = (r * c * k)%nat /\
    forall j, (j < k)%nat ->
      image_par2fun d r c o false (mkArr [(r * c)%nat] (col_of d (r * c) k j (dat a)))
      = Some (mkArr [r; c] (col_of d (r * c) k j (dat b))).
Proof. exact @image_par2fun_columnwise. Qed.
Print Assumptions C13_batch_columnwise_image2d.

(* Image2D.fun2par / fun2vec on a batch of images is NOT column-wise: it returns one flat vector *)
Theorem C13_batch_columnwise_image2d_fun2par_refuted : exists r c o k (a b : arr nat),
  (2 <= k)%nat /\ shp a = [r; c; k] /\ length (dat a) = (r * c * k)%nat /\
  image_fun2par 0%nat o false a = Some b /\ shp b <> [(r * c)%nat; k].
Proof. exact image_fun2par_batch_refuted. Qed.
Print Assumptions C13_batch_columnwise_image2d_fun2par_refuted.

Theorem C13_batch_columnwise_kl : forall (idst : list Qc -> list Qc) (N m : nat) (coefs : list Qc) (tau : Qc) (k : nat) (a : arr Qc),
  (forall x, length x = N -> length (idst x) = N) ->
  (1 <= m)%nat -> (m <= N)%nat -> (2 <= N)%nat -> (k <> 1)%nat -> shp a = [m; k] ->
  exists b, kl_par2fun idst N m coefs tau a = Some b /\ shp b = [N; k] /\ length (dat b) = (N * k)%nat /\
    forall j, (j < k)%nat ->
      kl_par2fun idst N m coefs tau (mkArr [m] (col_of 0%Qc m k j (dat a))) = Some (mkArr [N] (col_of 0%Qc N k j (dat b))).
Proof. exact kl_par2fun_columnwise. Qed.
Print Assumptions C13_batch_columnwise_kl.

Theorem C13_batch_columnwise_step : forall (N : nat) (idx : list (list nat)) (k : nat) (a : arr Qc),
  (N <> 1)%nat -> (k <> 1)%nat -> shp a = [length idx; k] ->
  exists b, step_par2fun N idx a = Some b /\ shp b = [N; k] /\ length (dat b) = (N * k)%nat /\
    forall j, (j < k)%nat ->
      step_par2fun N idx (mkArr [length idx] (col_of 0%Qc (length idx) k j (dat a))) = Some (mkArr [N] (col_of 0%Qc N k j (dat b))).
Proof. exact step_par2fun_columnwise. Qed.
Print Assumptions C13_batch_columnwise_step.

(* fun2par on batches of ARBITRARY function values, column by column *)
Theorem C13_batch_columnwise_kl_fun2par : forall (dst : list Qc -> list Qc) (N m : nat) (coefs : list Qc) (tau : Qc) (k : nat) (a : arr Qc),
  (forall x, length x = N -> length (dst x) = N) -> length coefs = m -> (2 <= m)%nat -> (m <= N)%nat -> (k <> 1)%nat ->
  shp a = [N; k] ->
  exists b, kl_fun2par dst N m coefs tau a = Some b /\ shp b = [m; k] /\ length (dat b) = (m * k)%nat /\
    forall j, (j < k)%nat ->
      kl_fun2par dst N m coefs tau (mkArr [N] (col_of 0%Qc N k j (dat a))) = Some (mkArr [m] (col_of 0%Qc m k j (dat b))).
Proof. exact kl_fun2par_columnwise. Qed.
Print Assumptions C13_batch_columnwise_kl_fun2par.

Theorem C13_batch_columnwise_step_fun2par : forall (N : nat) (idx : list (list nat)) (pr : proj) (k : nat) (a : arr Qc),
  Forall (fun ids => ids <> []) idx -> (length idx <> 1)%nat -> (k <> 1)%nat -> shp a = [N; k] ->
  exists b, step_fun2par_total N idx pr a = Some b /\ shp b = [length idx; k] /\ length (dat b) = (length idx * k)%nat /\
    forall j, (j < k)%nat ->
      step_fun2par_total N idx pr (mkArr [N] (col_of 0%Qc N k j (dat a))) = Some (mkArr [length idx] (col_of 0%Qc (length idx) k j (dat b))).
Proof. exact step_fun2par_columnwise. Qed.
Print Assumptions C13_batch_columnwise_step_fun2par.

(* documented projection: parameter i = mean / max / min of the function values at the nodes of step i *)
Theorem C13_placement_step_fun2par : forall (N : nat) (idx : list (list nat)) (pr : proj) (f : list Qc) (i : nat),
  Forall (fun ids => ids <> []) idx -> (length idx <> 1)%nat -> length f = N -> (i < length idx)%nat ->
  exists p, step_fun2par_total N idx pr (mkArr [N] f) = Some (mkArr [length idx] p) /\
            nth i p 0%Qc = proj_val pr (map (fun t => nth t f 0%Qc) (nth i idx [])).
Proof. exact step_fun2par_value. Qed.
Print Assumptions C13_placement_step_fun2par.

(* the column-wise clause for a matrix map: column j of M @ X is M @ (column j of X); shapes (n,k) -> (rows,k) *)
Theorem C13_batch_columnwise_matrix_map : forall (M : list (list Qc)) (n k : nat) (a : arr Qc), n = mat_cols M -> shp a = [n; k] ->
  exists c, matmap M a = Some c /\ shp c = [length M; k] /\ length (dat c) = (length M * k)%nat /\
    forall j, (j < k)%nat ->
      matmap M (mkArr [n] (col_of 0%Qc n k j (dat a))) = Some (mkArr [length M] (col_of 0%Qc (length M) k j (dat c))).
Proof. exact matmap_columnwise. Qed.
Print Assumptions C13_batch_columnwise_matrix_map.

(* ... and for the MappedGeometry built on it, over any wrapped geometry whose own par2fun is column-wise on the batch *)
Theorem C13_batch_columnwise_mapped_matrix : forall (g : geom) (M : list (list Qc)) (Mi : option (list (list Qc))) (pd k : nat) (a b : arr Qc),
  shp b = [mat_cols M; k] -> g_par2fun g a = Some b ->
  (forall j, (j < k)%nat -> g_par2fun g (mkArr [pd] (col_of 0%Qc pd k j (dat a)))
                            = Some (mkArr [mat_cols M] (col_of 0%Qc (mat_cols M) k j (dat b)))) ->
  exists c, g_par2fun (GMappedLin g M Mi) a = Some c /\ shp c = [length M; k] /\ length (dat c) = (length M * k)%nat /\
    forall j, (j < k)%nat ->
      g_par2fun (GMappedLin g M Mi) (mkArr [pd] (col_of 0%Qc pd k j (dat a)))
      = Some (mkArr [length M] (col_of 0%Qc (length M) k j (dat c))).
Proof. exact mappedlin_columnwise. Qed.
Print Assumptions C13_batch_columnwise_mapped_matrix.

(* the column-wise clause as ONE theorem, by induction over the geometry constructors: every geometry with vector-valued
   functions (Continuous1D, Discrete, KLExpansion, StepExpansion, MappedGeometry with an elementwise or a matrix map over
   any of these, nested to any depth): member j of par2fun(batch) is par2fun(column j) *)
Theorem C13_batch_columnwise : forall (g : geom), g_is1d g -> g_shape_ok g -> forall k (a : arr Qc), (k <> 1)%nat ->
  shp a = [g_par_dim g; k] -> length (dat a) = (g_par_dim g * k)%nat ->
  exists b, g_par2fun g a = Some b /\ shp b = [fdim g; k] /\ length (dat b) = (fdim g * k)%nat /\
    forall j, (j < k)%nat ->
      g_par2fun g (mkArr [g_par_dim g] (col_of 0%Qc (g_par_dim g) k j (dat a)))
      = Some (mkArr [fdim g] (col_of 0%Qc (fdim g) k j (dat b))).
Proof. exact g_par2fun_columnwise. Qed.
Print Assumptions C13_batch_columnwise.

(* ============ reported shapes ============ *)
(* par2fun of an array of the reported par_shape succeeds and has the reported fun_shape (declared, or for
   MappedGeometry inferred from par2fun(ones)); par_dim = prod par_shape by definition of the model *)
Theorem C13_shapes : forall (g : geom) (a : arr Qc),
  g_shape_ok g -> shp a = g_par_shape g -> length (dat a) = g_par_dim g ->
  g_par_shape g = [g_par_dim g] /\ g_fun_shape g = Some (fshape g) /\
  exists b, g_par2fun g a = Some b /\ shp b = fshape g /\ length (dat b) = prodn (fshape g).
Proof.
  intros g a H1 H2 H3. split; [exact (g_par_shape_1d g)|]. split; [exact (g_fun_shape_eq g H1) | exact (g_par2fun_shape g a H1 H2 H3)].
Qed.
Print Assumptions C13_shapes.

(* fun2par of ANY array of the reported fun_shape succeeds and has the reported par_shape / par_dim *)
Theorem C13_shapes_fun2par : forall (g : geom) (f : arr Qc),
  g_inv_ok g -> shp f = fshape g -> length (dat f) = prodn (fshape g) ->
  exists p, g_fun2par g f = Some p /\ shp p = g_par_shape g /\ length (dat p) = g_par_dim g.
Proof. exact g_fun2par_shape. Qed.
Print Assumptions C13_shapes_fun2par.

(* shapes on BATCHES, geometries with vector-valued functions (Continuous1D, Discrete, KL, Step, Mapped of either kind over
   those, nested): k parameter columns give k function columns of the reported fun_dim.  For a matrix map fshape is
   [rows of M]: fun_shape is the shape of what the map returns, not the wrapped geometry's *)
Theorem C13_shapes_batch : forall (g : geom), g_is1d g -> g_shape_ok g -> forall k (a b : arr Qc),
  shp a = vb_shape (g_par_dim g) k -> length (dat a) = (g_par_dim g * k)%nat -> g_par2fun g a = Some b ->
  shp b = vb_shape (fdim g) k /\ length (dat b) = (fdim g * k)%nat.
Proof. exact g_par2fun_vb. Qed.
Print Assumptions C13_shapes_batch.

Theorem C13_shapes_refuted : exists n1 n2 (a b : arr nat),
  shp a = [(n1 * n2)%nat] /\ length (dat a) = (n1 * n2)%nat /\
  cont2d_par2fun 0%nat n1 n2 a = Some b /\ shp b <> [n1; n2].
Proof. exact cont2d_shape_refuted. Qed.
Print Assumptions C13_shapes_refuted.

(* ============ StepExpansion.__init__: the partition of the grid nodes ============ *)
(* exact arithmetic, every regular grid (offset x0, spacing h > 0, N >= 2 nodes), every n_steps >= 1:
   the interval tests return exactly the documented index sets (node k in step ceil(k n/(N-1)) - 1) *)
Theorem C13_step_indices_exact : forall (x0 h : Q) (N n : nat), (0 < h)%Q -> (2 <= N)%nat -> (1 <= n)%nat ->
  step_indices_Q (reg_grid x0 h N) n = idx_of_fun N n (step_of N n).
Proof. exact step_indices_Q_regular. Qed.
Print Assumptions C13_step_indices_exact.

(* ... so every node lies in exactly one step *)
Theorem C13_step_partition_exact : forall (x0 h : Q) (N n : nat), (0 < h)%Q -> (2 <= N)%nat -> (1 <= n)%nat ->
  is_partition N (step_indices_Q (reg_grid x0 h N) n) = true.
Proof. exact step_partition_exact. Qed.
Print Assumptions C13_step_partition_exact.

(* ... and, when n_steps <= nodes (what __init__ admits), no step is empty; the family is step_wf, so the
   round trip above holds for it *)
Theorem C13_step_no_empty_exact : forall (x0 h : Q) (N n : nat), (0 < h)%Q -> (2 <= N)%nat -> (1 <= n)%nat -> (n <= N)%nat ->
  no_empty_step (step_indices_Q (reg_grid x0 h N) n) = true /\
  step_wf N (step_indices_Q (reg_grid x0 h N) n) /\ length (step_indices_Q (reg_grid x0 h N) n) = n.
Proof. intros x0 h N n H1 H2 H3 H4. split; [exact (step_no_empty_exact x0 h N n H1 H2 H3 H4) | exact (step_wf_exact x0 h N n H1 H2 H3 H4)]. Qed.
Print Assumptions C13_step_no_empty_exact.

(* the regular grid passes _check_grid_setup: __init__ (over Q) is not refused and returns these indices *)
Theorem C13_step_init_exact : forall (x0 h : Q) (N n : nat), (0 < h)%Q -> (2 <= N)%nat -> (1 <= n)%nat -> (n <= N)%nat ->
  step_init_Q (reg_grid x0 h N) n = Some (idx_of_fun N n (step_of N n)).
Proof. exact step_init_Q_regular. Qed.
Print Assumptions C13_step_init_exact.

(* the node-number partition step_indices_ideal N n = idx_of_fun N n (step_of N n) (the result above; also what the
   proposed repair fixes/C13_step_partition.diff computes) is a partition into non-empty steps: with it the round trip
   C13_roundtrip_step holds for every regular grid with 2 <= n_steps <= nodes *)
Theorem C13_step_ideal_partition : forall (N n : nat), (2 <= N)%nat -> (1 <= n)%nat -> (n <= N)%nat ->
  step_wf N (step_indices_ideal N n) /\ length (step_indices_ideal N n) = n /\
  is_partition N (step_indices_ideal N n) = true /\ no_empty_step (step_indices_ideal N n) = true.
Proof. exact step_indices_ideal_wf. Qed.
Print Assumptions C13_step_ideal_partition.

(* binary64 (bit-exact model of np.linspace and of the comparisons): 6 nodes on [0,1], 5 steps -> step 2 is
   empty, while exact arithmetic on the same grid has none *)
Theorem C13_step_partition_float_refuted : exists (a b : PrimFloat.float) (N n : nat),
  (2 <= N)%nat /\ (1 <= n)%nat /\ (n <= N)%nat /\
  no_empty_step (step_indices_F (linspace a b N) n) = false /\
  no_empty_step (step_indices_Q (reg_grid 0%Q (1 # 5)%Q N) n) = true.
Proof. exact step_partition_float_refuted. Qed.
Print Assumptions C13_step_partition_float_refuted.

(* WHEN binary64 gives the exact partition (bounded exhaustive; the bounds are part of the statements):
   (a) the same loop run on the node NUMBERS 0.0 .. N-1.0 (fixes/C13_step_partition_minimal.diff): always *)
Theorem C13_step_float_nodes_exact_bounded : forall N n, (2 <= N <= 32)%nat -> (1 <= n <= N)%nat ->
  step_indices_nodes N n = step_indices_ideal N n.
Proof. exact step_nodes_float_exact_bounded. Qed.
Print Assumptions C13_step_float_nodes_exact_bounded.

(* (b) today's loop on node COORDINATES, whenever the coordinates x0 + k*h are themselves exact in binary64: the 36
   offset/spacing pairs of dyadic_family, every n_steps (dividing N-1 or not); the failures above need rounded
   coordinates such as those of np.linspace *)
Theorem C13_step_float_dyadic_exact_bounded : forall x0 h N n, In (x0, h) dyadic_family ->
  (2 <= N <= 16)%nat -> (1 <= n <= N)%nat ->
  step_indices_F (fgrid x0 h N) n = step_indices_ideal N n.
Proof. exact step_float_exact_on_dyadic_grids_bounded. Qed.
Print Assumptions C13_step_float_dyadic_exact_bounded.

(* binary64: 11 nodes on [1e-3,1e3], 11 steps -> the last node lies in no step *)
Theorem C13_step_cover_float_refuted : exists (a b : PrimFloat.float) (N n : nat),
  (2 <= N)%nat /\ (1 <= n)%nat /\ (n <= N)%nat /\
  is_partition N (step_indices_F (linspace a b N) n) = false /\
  nth (N - 1) (step_indices_F (linspace a b N) n) [0%nat] = [].
Proof. exact step_cover_float_refuted. Qed.
Print Assumptions C13_step_cover_float_refuted.

(* ============ Samples and CUQIarray ============ *)
(* parameter samples -> funvals -> parameters returns the original Samples object (array and flags); sample i of
   the function values is par2fun of sample i; shapes as reported.  Every geometry inside both guards, any
   number of samples *)
Theorem C13_samples_lossless : forall (g : geom) (Ns : nat) (X : list Qc),
  g_ok g -> g_shape_ok g -> length X = (g_par_dim g * Ns)%nat ->
  let S := mkS (mkArr [g_par_dim g; Ns] X) true true in
  exists F, samples_funvals g S = Some F /\ s_is_par F = false /\ shp (s_arr F) = fshape g ++ [Ns] /\
    (forall i, (i < Ns)%nat -> g_par2fun g (sample_slice (s_arr S) i) = Some (sample_slice (s_arr F) i)) /\
    samples_parameters g F = Some S.
Proof. exact g_samples_lossless. Qed.
Print Assumptions C13_samples_lossless.

(* function-value samples -> vector form -> function values (Image2D, both orders): lossless, sample i of the
   vector form is fun2vec of sample i *)
Theorem C13_samples_vector_lossless : forall (r c : nat) (o : C13_Geom.order) (Ns : nat) (Y : list Qc),
  (0 < r * c)%nat -> length Y = (r * c * Ns)%nat ->
  let g := GImage r c o false in
  let F := mkS (mkArr [r; c; Ns] Y) false false in
  exists V, samples_vector g F = Some V /\ s_is_par V = false /\ s_is_vec V = true /\ shp (s_arr V) = [(r * c)%nat; Ns] /\
    (forall i, (i < Ns)%nat -> g_fun2vec g (sample_slice (s_arr F) i) = Some (sample_slice (s_arr V) i)) /\
    samples_funvals g V = Some F.
Proof. exact samples_vector_lossless_image. Qed.
Print Assumptions C13_samples_vector_lossless.

(* CUQIarray: parameters -> funvals (= par2fun, flagged as function values) -> parameters is the identity *)
Theorem C13_cuqiarray_lossless : forall (g : geom) (a : arr Qc),
  g_ok g -> shp a = [g_par_dim g] -> length (dat a) = g_par_dim g ->
  exists f, cuqiarray_funvals g a true = Some (f, false) /\ g_par2fun g a = Some f /\
            cuqiarray_parameters g f false = Some (a, true).
Proof. exact cuqiarray_lossless. Qed.
Print Assumptions C13_cuqiarray_lossless.

(* ============ Geometry.__eq__ (model of _all_values_equal over attribute dictionaries, Model/C13_Eq.v) ============ *)
(* with array_equal (fixes/C13_eq_array_equal.diff): geometries that compare equal have, attribute by attribute, values
   that compare equal, and array attributes (grids) of the same length and entries *)
Theorem C13_eq_sound : forall strict self obj, all_values_equal strict self obj = true ->
  forall k v, In (k, v) self -> exists w, lookup k obj = Some w /\ pval_eqv strict v w = true.
Proof. exact all_values_equal_sound. Qed.
Print Assumptions C13_eq_sound.

Theorem C13_eq_strict_grids : forall isinst self obj k l, geom_eq true isinst self obj = true -> In (k, PS (SArr l)) self ->
  forall l', lookup k obj = Some (PS (SArr l')) -> l' = l.
Proof. exact geom_eq_strict_grids. Qed.
Print Assumptions C13_eq_strict_grids.

Theorem C13_eq_refl : forall strict d, NoDup (map fst d) -> geom_eq strict true d d = true.
Proof. exact geom_eq_refl. Qed.
Print Assumptions C13_eq_refl.

(* today (array_equiv broadcasts): a one-node grid equals a three-node grid *)
Theorem C13_eq_broadcast_refuted : exists self obj l l', In (0%nat, PS (SArr l)) self /\ lookup 0%nat obj = Some (PS (SArr l')) /\
  length l <> length l' /\ geom_eq false true self obj = true /\ geom_eq true true self obj = false.
Proof. exact geom_eq_broadcast_refuted. Qed.
Print Assumptions C13_eq_broadcast_refuted.

(* a lazily filled cache attribute (KLExpansion._coefs: None until the maps are used) makes identical objects unequal *)
Theorem C13_eq_cache_refuted : exists d c, NoDup (map fst ((7%nat, PS SNone) :: d)) /\
  geom_eq true true ((7%nat, PS SNone) :: d) ((7%nat, PS (SArr c)) :: d) = false /\
  geom_eq false true ((7%nat, PS (SArr c)) :: d) ((7%nat, PS SNone) :: d) = false.
Proof. exact geom_eq_cache_refuted. Qed.
Print Assumptions C13_eq_cache_refuted.

(* ============ the flagged model (Model/C13_Fixed.v) that the generated cases evaluate ============ *)
(* with both proposed repairs switched off it is exactly the model the theorems above are about *)
Theorem C13_flagged_model_off :
  (forall g a, g_par2fun_m false g a = g_par2fun g a) /\ (forall g a, g_fun2par_m false false g a = g_fun2par g a) /\
  (forall exact m g x obs, check_map_m false false exact m g x obs = check_map exact m g x obs) /\
  (forall g a b c d e, check_shapes_m false false g a b c d e = check_shapes g a b c d e) /\
  (forall exact ops g S obs, check_samples_m false false exact ops g S obs = check_samples exact ops g S obs) /\
  (forall exact tp g a ip obs, check_cuqiarray_m false false exact tp g a ip obs = check_cuqiarray exact tp g a ip obs).
Proof. split; [exact g_par2fun_m_off|]. split; [exact g_fun2par_m_off|]. exact checkers_off. Qed.
Print Assumptions C13_flagged_model_off.

(* with fixes/C13_squeeze_batch_axis.diff (sq = true) the round trips and shapes hold WITHOUT the singleton guards:
   Continuous2D on every grid with at least one node (1 x n, n x 1, 1 x 1 included) ... *)
Theorem C13_roundtrip_continuous2d_repaired : forall (n1 n2 k : nat) (a : arr Qc), (1 <= n1 * n2)%nat -> shp a = vb_shape (n1 * n2) k ->
  obind (cont2d_par2fun_m true n1 n2 a) (cont2d_fun2par_m true n1 n2) = Some a.
Proof. exact cont2d_roundtrip_fx. Qed.
Print Assumptions C13_roundtrip_continuous2d_repaired.

Theorem C13_shapes_continuous2d_repaired : forall (n1 n2 k : nat) (a : arr Qc), (1 <= n1 * n2)%nat -> shp a = vb_shape (n1 * n2) k ->
  cont2d_par2fun_m true n1 n2 a = Some (mkArr (if (k =? 1)%nat then [n1; n2] else [n1; n2; k]) (dat a)).
Proof. exact cont2d_par2fun_shape_fx. Qed.
Print Assumptions C13_shapes_continuous2d_repaired.

(* ... KLExpansion with any 1 <= m <= N modes (a single mode, a one-node grid) ... *)
Theorem C13_roundtrip_kl_repaired : forall (dst idst : list Qc -> list Qc) (N m : nat) (coefs : list Qc) (tau : Qc) (k : nat) (a : arr Qc),
  (forall x, length x = N -> length (idst x) = N) ->
  (forall x, length x = N -> dst (idst x) = map (fun v => qcn 2 * qcn N * v)%Qc x) ->
  (1 <= m)%nat -> (m <= N)%nat -> length coefs = m -> Forall (fun c => c <> 0%Qc) coefs -> tau <> 0%Qc ->
  shp a = vb_shape m k -> length (dat a) = (m * k)%nat ->
  obind (kl_par2fun_m true idst N m coefs tau a) (kl_fun2par_m true dst N m coefs tau) = Some a.
Proof. exact kl_roundtrip_fx. Qed.
Print Assumptions C13_roundtrip_kl_repaired.

(* ... StepExpansion on any partition into non-empty steps (a single step, any number of nodes) *)
Theorem C13_roundtrip_step_repaired : forall (N : nat) (idx : list (list nat)) (pr : proj) (k : nat) (a : arr Qc), step_wf N idx ->
  shp a = vb_shape (length idx) k -> length (dat a) = (length idx * k)%nat ->
  obind (step_par2fun_m true N idx a)
        (fun b => obind (step_fun2par_m true N idx pr b) (fun r => option_map (mkArr (shp r)) (all_some (dat r)))) = Some a.
Proof. exact step_roundtrip_fx. Qed.
Print Assumptions C13_roundtrip_step_repaired.

(* with fixes/C13_image2d_fun2par_batch.diff (im = true) Image2D.fun2par of a batch of k >= 2 images has shape (r*c, k),
   par2fun gives the batch back, and column j is fun2par of image j (both orders) *)
Theorem C13_batch_columnwise_image2d_fun2par_repaired : forall (r c : nat) (o : C13_Geom.order) (k : nat) (a : arr Qc),
  (0 < r * c)%nat -> (2 <= k)%nat -> shp a = [r; c; k] -> length (dat a) = (r * c * k)%nat ->
  exists b, image_fun2par_m true r c o false a = Some b /\ shp b = [(r * c)%nat; k] /\ length (dat b) = (r * c * k)%nat /\
    image_par2fun 0%Qc r c o false b = Some a /\
    forall j, (j < k)%nat ->
      image_fun2par 0%Qc o false (mkArr [r; c] (col_of 0%Qc (r * c) k j (dat a)))
      = Some (mkArr [(r * c)%nat] (col_of 0%Qc (r * c) k j (dat b))).
Proof. exact image_fun2par_fx_columnwise. Qed.
Print Assumptions C13_batch_columnwise_image2d_fun2par_repaired.

(* ============ histories: object reuse after attribute re-assignment ============ *)
(* StepExpansion computes its index sets once, in __init__: after `grid` is replaced by a longer one, the old index sets
   give a different step function than a StepExpansion built on the new grid, and the last nodes receive no parameter *)
Theorem C13_step_stale_indices_refuted : exists (N_old N_new n : nat) (p : list Qc),
  (N_old < N_new)%nat /\ length p = n /\
  step_wf N_old (step_indices_ideal N_old n) /\ step_wf N_new (step_indices_ideal N_new n) /\
  step_par2fun_col N_new (step_indices_ideal N_old n) p <> step_par2fun_col N_new (step_indices_ideal N_new n) p /\
  nth (N_new - 1) (step_par2fun_col N_new (step_indices_ideal N_old n) p) 0%Qc = 0%Qc.
Proof. exact step_stale_indices_refuted. Qed.
Print Assumptions C13_step_stale_indices_refuted.

(* non-vacuity: a nested mapped Continuous2D, an Image2D in Fortran order and a StepExpansion on the bit-exact
   binary64 indices of linspace(0,1,7) with 3 steps satisfy the guards; the last one's indices pass the test *)
Example C13_example :
  g_ok (GMapped (GMapped (GCont2D 2 3) (fun x => qc (2 # 1) * x + qc (1 # 1))%Qc (Some (fun y => (y - qc (1 # 1)) / qc (2 # 1))%Qc))
                (fun x => qc (-1 # 2) * x)%Qc (Some (fun y => y / qc (-1 # 2))%Qc)) /\
  g_ok (GImage 2 3 OF false) /\ g_shape_ok (GImage 2 3 OF false) /\
  g_ok (GStep 7 (step_indices_F grid01_7 3) PMax) /\ g_inv_ok (GStep 7 (step_indices_F grid01_7 3) PMax) /\
  (* a permutation matrix with itself as inverse satisfies the round-trip guard; a size-changing matrix map (2 -> 3
     nodes) satisfies the shape guard and its reported fun_shape is the shape of the map's output *)
  g_ok (GMappedLin (GCont1D 2) [[0; 1]; [1; 0]]%Qc (Some [[0; 1]; [1; 0]]%Qc)) /\
  g_shape_ok (GMappedLin (GCont1D 2) [[1; 0]; [1; 1]; [0; 1]]%Qc None) /\
  g_fun_shape (GMappedLin (GCont1D 2) [[1; 0]; [1; 1]; [0; 1]]%Qc None) = Some [3%nat] /\
  g_par2fun (GImage 2 3 OF false) (mkArr [6%nat] (map qcn [0; 1; 2; 3; 4; 5]%nat))
    = Some (mkArr [2; 3]%nat (map qcn [0; 2; 4; 1; 3; 5]%nat)).
Proof.
  split; [|split; [|split; [|split; [|split; [|split; [|split; [|split]]]]]]].
  - cbn [g_ok]. split; [|split; [|lia]].
    + eexists. split; [reflexivity|]. intros x. cbv beta. field. intros E; apply Q2Qc_eq_iff in E; discriminate E.
    + eexists. split; [reflexivity|]. intros x. cbv beta. apply affine_inverse. intros E; apply Q2Qc_eq_iff in E; discriminate E.
  - cbn; lia.
  - cbn; lia.
  - cbn [g_ok]. split; [apply step_wf_b_sound; vm_compute; reflexivity|]. split; [lia|]. vm_compute. lia.
  - cbn [g_inv_ok]. split; [vm_compute; repeat constructor; discriminate | vm_compute; lia].
  - cbn [g_ok g_is1d g_shape_ok fshape]. split; [|repeat split].
    exists [[0; 1]; [1; 0]]%Qc. split; [reflexivity|]. split; [reflexivity|]. split; [reflexivity|].
    intros x Hx. destruct x as [|u [|v [|? ?]]]; try discriminate. cbn. f_equal; [ring | f_equal; ring].
  - cbn [g_shape_ok fshape]. split; [exact I | reflexivity].
  - vm_compute. reflexivity.
  - vm_compute. reflexivity.
Qed.
