(* C06 -- (i) the adjointness hypothesis of C06_adjoint / C06_ugla_adjoint is discharged for every configuration the
   correspondence runs (matrix-backed models -- the function-pair models of the cells compute A x and A^T y -- with the
   boolean shape checks of the case files as the only premise); (ii) samplers that outlive an in-place re-assignment:
   the witness that the code's mixed reading breaks the adjoint identity. *)
From CV Require Import Base.Tac Base.LinAlg Base.Cmp Base.QcLin Model.C06_RTO Proofs.C06_Lin Proofs.C06_Forms Proofs.C06_UGLA.
From Coq Require Import Ring QArith Qcanon.

Local Open Scope Qc_scope.

Theorem adjoint_cells n ls pr x y :
  forallb (lik_shape_ok n) ls = true -> q_shape (length (p_L pr)) n (p_L pr) = true -> length x = n ->
  qdot (q_M_fwd (mk_liks n ls) pr x) y = qdot x (q_M_adj n (mk_liks n ls) pr y).
Proof.
  intros H HP Hx. apply q_shape_wf in HP as [_ HP].
  apply (M_adjoint Qc 0 1 Qcplus Qcmult Qcminus Qcopp Qcrt); [apply mk_liks_wf; exact H | exact HP | exact Hx].
Qed.

(* every prior family of the cells has a well-shaped sqrtprec *)
Lemma gaussian_prior_L n S mean : p_L (q_gaussian_prior n S mean) = S.
Proof. reflexivity. Qed.
Lemma gmrf_prior_L n S mean pr : q_gmrf_prior n S mean = Some pr -> p_L pr = S.
Proof. unfold q_gmrf_prior, gmrf_prior. destruct (length mean =? n)%nat; [intros [= <-]; reflexivity | discriminate]. Qed.

Theorem ugla_adjoint_cells tol w sw x y :
  raw_ok tol w = true -> length sw = length (w_D w) -> length x = w_n w ->
  qdot (q_ugla_M_fwd (raw_cfg w) sw x) y = qdot x (q_ugla_M_adj (raw_cfg w) sw y).
Proof.
  intros H Hsw Hx. unfold raw_ok in H.
  apply andb_true_iff in H as [H _]. apply andb_true_iff in H as [H _].
  apply andb_true_iff in H as [H HD]. apply andb_true_iff in H as [HA HL].
  apply q_shape_wf in HA as [HA1 HA2]. apply q_shape_wf in HL as [HL1 HL2]. apply q_shape_wf in HD as [_ HD2].
  apply (ugla_adjoint Qc 0 1 Qcplus Qcmult Qcminus Qcopp Qcrt); [|exact Hx].
  constructor; simpl; try assumption.
  rewrite <- HA1. apply (matrix_model_wf Qc 0 1 Qcplus Qcmult Qcminus Qcopp Qcrt). exact HA2.
Qed.

(* ---- stale sampler: with the noise sqrtprec re-assigned from [[1]] to [[2]] the live reading of flag 2 is not the
   transpose of flag 1 (n = 1, A = [[1]], prior sqrtprec [[1]]): <M(1,1), (1,0)> = 1 but <1, M((1,0),2)> = 2 ---- *)
Definition stale_wit_captured : list (lik Qc) := [mk_lik 1 [[1]] [[1]] [0]].
Definition stale_wit_live : list (lik Qc) := [mk_lik 1 [[1]] [[qcz 2]] [0]].
Definition stale_wit_prior : prior Qc := q_gaussian_prior 1 [[1]] [0].

Lemma stale_live_refuted_holds :
  Forall (lik_wf Qc 0 Qcplus Qcmult 1) stale_wit_captured /\
  qdot (stale_M_fwd Qc 0 Qcplus Qcmult stale_wit_captured stale_wit_prior [1]) [1; 0]
  <> qdot [1] (stale_M_adj Qc 0 Qcplus Qcmult Flag2Live 1 stale_wit_captured stale_wit_live stale_wit_prior [1; 0]).
Proof.
  split.
  - apply (mk_liks_wf 1 [([[1]], [[1]], [0])]). vm_compute. reflexivity.
  - intros E. apply (f_equal this) in E. vm_compute in E. discriminate E.
Qed.
