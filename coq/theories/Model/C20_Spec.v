(* C20 -- the DOCUMENTED objects the code model (Model/C20_Diff.v) is compared with in the theorems:
   difference lists of padded / wrapped signals (the same reading the harness oracle uses with
   np.diff), null-space bases, images in C order.  Definitions only, no proofs. *)
From CV Require Import Base.Tac Base.Cmp Base.LinAlg Base.QcLin Model.C20_Diff.
Local Open Scope Z_scope.

(* np.diff *)
Fixpoint diffs (l : list Z) : list Z :=
  match l with
  | a :: (b :: _) as r => (b - a) :: diffs r
  | _ => []
  end.

(* the [-1, 2, -1] stencil: minus the second difference *)
Definition ndiffs2 (l : list Z) : list Z := map Z.opp (diffs (diffs l)).

Definition lastn (k : nat) (x : list Z) : list Z := skipn (length x - k) x.

(* periodic extension by k samples on either side: x[-k:] ++ x ++ x[:k] *)
Definition wrap_pad (k : nat) (x : list Z) : list Z := lastn k x ++ x ++ firstn k x.

(* the documented action of the operator of the given order and boundary condition on a signal *)
Definition stencil_spec (order : nat) (b : bc) (x : list Z) : option (list Z) :=
  match order, b with
  | 1%nat, Zero => Some (diffs (0 :: x ++ [0]))
  | 1%nat, Periodic => Some (diffs (wrap_pad 1 x))
  | 1%nat, Neumann => Some (diffs x)
  | 1%nat, Backward => Some (match x with [] => [] | a :: _ => a :: map Z.opp (diffs x) end)
  | 1%nat, NoBC => Some x
  | 2%nat, Zero => Some (ndiffs2 (0 :: 0 :: x ++ [0; 0]))
  | 2%nat, Periodic => Some (ndiffs2 (wrap_pad 2 x))
  | 2%nat, Neumann => Some (ndiffs2 x)
  | _, _ => None
  end.

(* the size below which the periodic boundary patches of the code collide with the band
   (finding FiniteDifference._create_diff_matrix|periodic:N-below-stencil-width) *)
Definition periodic_too_small (order : nat) (b : bc) (n : nat) : bool :=
  match b with
  | Periodic => (n <=? order)%nat
  | _ => false
  end.

(* ---------------- null spaces ---------------- *)
Definition zeros (n : nat) : list Z := repeat 0 n.
Definition ones (n : nat) : list Z := repeat 1 n.
Definition ramp (n : nat) : list Z := map Z.of_nat (seq 0 n).

(* sum_k c_k b_k in Z^n *)
Fixpoint zlincomb (n : nat) (cs : list Z) (B : list (list Z)) : list Z :=
  match cs, B with
  | c :: cs', b :: B' => zvadd (zvscale c b) (zlincomb n cs' B')
  | _, _ => zeros n
  end.

(* B is a basis of the (integer) null space of the matrix M with n columns: every b is a null
   vector, every integer null vector is an integer combination of B, and B is independent.
   The real null space of an integer matrix has the dimension length B (it is spanned by the
   integer null vectors), so rank M = n - length B by rank-nullity (not formalised here). *)
Definition null_basis (M : list (list Z)) (n : nat) (B : list (list Z)) : Prop :=
  Forall (fun b => length b = n /\ zmatvec M b = zeros (length M)) B /\
  (forall x, length x = n -> zmatvec M x = zeros (length M) ->
             exists cs, length cs = length B /\ x = zlincomb n cs B) /\
  (forall cs, length cs = length B -> zlincomb n cs B = zeros n -> cs = zeros (length B)).

(* the null space the boundary condition implies, in one dimension *)
Definition null_basis_1d (order : nat) (b : bc) (n : nat) : list (list Z) :=
  match order, b with
  | 1%nat, Periodic | 1%nat, Neumann | 2%nat, Periodic => [ones n]
  | 2%nat, Neumann => [ones n; ramp n]
  | _, _ => []
  end.

(* in two dimensions (N x N image in C order): the tensor products *)
Definition null_basis_2d (order : nat) (b : bc) (N : nat) : list (list Z) :=
  match order, b with
  | 1%nat, Periodic | 1%nat, Neumann | 2%nat, Periodic => [ones (N * N)]
  | 2%nat, Neumann =>
      [ones (N * N);
       concat (map (fun r => repeat (Z.of_nat r) N) (seq 0 N));            (* row index *)
       concat (map (fun _ => ramp N) (seq 0 N));                            (* column index *)
       concat (map (fun r => map (fun c => Z.of_nat r * c) (ramp N)) (seq 0 N))]   (* product *)
  | _, _ => []
  end.

(* the combinations for which GMRF.__init__'s rank rule (zero: dim; periodic, neumann: dim-1)
   is NOT the rank of the precision: the three finding classes *)
Definition gmrf_rank_defect (order : nat) (b : bc) (N : nat) : bool :=
  match order, b with
  | 0%nat, Periodic | 0%nat, Neumann => true           (* P = I (2I in 2-d): full rank *)
  | 2%nat, Neumann => true                              (* affine null space *)
  | 2%nat, Periodic => (N <=? 2)%nat                    (* patches collide: full rank *)
  | _, _ => false
  end.

(* split a vector of length k*n into k rows of length n (np.reshape, C order) *)
Fixpoint chunks (n k : nat) (x : list Z) : list (list Z) :=
  match k with
  | O => []
  | S k' => firstn n x :: chunks n k' (skipn n x)
  end.
