(* C16 -- result translation of L_BFGS_B.solve and LS.solve: SciPy's result is handed back unchanged, field by field *)
From CV Require Import Base.Tac Model.C16_Solve Proofs.C16_Wrap.
From Coq Require Import QArith.

Lemma lbfgsb_result_spec (r : lb_result) :
  let '(x, info) := lbfgsb_translate r in
  x = lbr_x r /\ lbi_func info = lbr_f r /\ lbi_grad info = lbr_grad r /\ lbi_nit info = lbr_nit r /\ lbi_nfev info = lbr_funcalls r /\
  (lbi_success info = 1%Z <-> lbr_warnflag r = 0%Z) /\ (lbi_success info = 0%Z <-> lbr_warnflag r <> 0%Z) /\
  (lbr_warnflag r <> 0%Z -> lbr_warnflag r <> 1%Z -> lbi_message info = lbr_task r).
Proof.
  unfold lbfgsb_translate. pose proof (lbfgsb_status_spec (lbr_warnflag r) (lbr_task r)) as (H1 & H2 & H3).
  destruct (lbfgsb_status (lbr_warnflag r) (lbr_task r)) as (s, m). cbn in *.
  split; [reflexivity|]. split; [reflexivity|]. split; [reflexivity|]. split; [reflexivity|]. split; [reflexivity|].
  split; [exact H1|]. split; [exact H2 | exact H3].
Qed.

Lemma ls_result_spec (r : ls_result) :
  let '(x, info) := ls_result_translate r in
  x = lsr_x r /\ lsi_success info = lsr_success r /\ lsi_message info = lsr_message r /\ lsi_func info = lsr_fun r /\
  lsi_jac info = lsr_jac r /\ lsi_nfev info = lsr_nfev r.
Proof. unfold ls_result_translate. cbn. repeat split. Qed.

Lemma ls_jac_arg_spec (given : bool) : (ls_jac_arg given = LsTwoPoint <-> given = false) /\ (ls_jac_arg given = LsCallable <-> given = true).
Proof. destruct given; cbn; split; split; intros; try reflexivity; try discriminate. Qed.
