(* C08 -- what the kernel-law cells compare with the real samplers IS the orbit kernel of the invariance theorems: the model
   probability `kernel_prob` that a transition of the concrete phase-space model ends at the point pt is the sum, over the
   orbit positions i within reach whose point is pt, of the orbit-kernel entry P(0 -> i) of C08_orbit_stationary_alldepth
   (orbit labelled through the orbit map of the start). *)
From CV Require Import Base.Tac Base.Cmp Base.Ext Base.LinAlg Base.QcLin Model.C08_NUTS Model.C08_Kernel Proofs.C08_Prog Proofs.C08_Tree
                       Proofs.C08_Top Proofs.C08_Law Proofs.C08_Orbit Proofs.C08_Block Proofs.C08_Alive Proofs.C08_Sim Proofs.C08_LeapD
                       Proofs.C08_Cycle.
From Coq Require Import QArith Qcanon.
Local Open Scope Z_scope.

(* an event that depends on the new orbit position only, decomposed over the positions within reach *)
Lemma dist_by_position (H L : Z -> ext) (U : Z -> Z -> bool) (A : Z -> Q) (logu : ext) (guard : bool) (md : nat) (i0 : Z) (g : Z -> bool) :
  (dist (transition Z zleap H L U A logu guard md i0) (fun st => b2q (g (p_cur st)))
   == qs (fun i => if g i then dist (transition Z zleap H L U A logu guard md i0) (cur_ind Z Z.eqb i) else 0)
         (zr (i0 - pw (S md)) (2 * 2 ^ S md + 1)))%Q.
Proof.
  rewrite (dist_partition _ (fun st => g (p_cur st)) (fun st => p_cur st) (zr (i0 - pw (S md)) (2 * 2 ^ S md + 1)) (zr_NoDup _ _)).
  2:{ eapply all_out_impl; [| apply (transition_reach H L U A logu guard md i0)].
      intros st Hr _. apply zr_In. unfold pw in *. lia. }
  apply qs_ext. intros i _. destruct (g i) eqn:Eg.
  - apply dist_ext. intros st. unfold cur_ind. destruct (p_cur st =? i) eqn:E.
    + apply Z.eqb_eq in E. rewrite E, Eg. reflexivity.
    + rewrite andb_false_r. reflexivity.
  - transitivity (dist (transition Z zleap H L U A logu guard md i0) (fun _ => 0%Q)); [|apply dist_const].
    apply dist_ext. intros st. destruct (p_cur st =? i) eqn:E.
    + apply Z.eqb_eq in E. rewrite E, Eg. reflexivity.
    + rewrite andb_false_r. reflexivity.
Qed.

Theorem kernel_prob_orbit (t : target) (d : nat) (guard : bool) (md : nat) (heps : Qc) (x z : list Q) (e : Q) (pt : list Q) :
  wf_target t d -> length x = d -> length z = d ->
  let s0 := c_init t (qvec x) (qvec z) in
  let logu := ext_sub (c_ham t s0) (Fin e) in
  let phi := orb cstate (c_leap t heps) s0 in
  (kernel_prob t guard md heps x z e pt
   == qs (fun i => if ql_eqb (map this (ps_x (phi i))) pt
                   then dist (otransition (Hz cstate (c_ham t) phi) (Lz cstate (c_lgd t) phi) (Uz cstate c_uturn_ok phi)
                                          (Az cstate (fun _ => 0%Q) phi) logu guard md 0) (cur_ind Z Z.eqb i)
                   else 0)
         (zr (0 - pw (S md)) (2 * 2 ^ S md + 1)))%Q.
Proof.
  intros Hw Hx Hz s0 logu phi. unfold kernel_prob.
  assert (Hxq : length (qvec x) = d) by (unfold qvec; rewrite map_length; exact Hx).
  assert (Hzq : length (qvec z) = d) by (unfold qvec; rewrite map_length; exact Hz).
  destruct (concrete_orbit_exact t d guard md heps (qvec x) (qvec z) e
              (fun tp => if ql_eqb (map this (ps_x (p_cur tp))) pt then 1%Q else 0%Q) (wf_target_dim t d Hw) Hxq Hzq) as [_ E].
  rewrite E. unfold otransition.
  rewrite <- (dist_by_position _ _ _ _ logu guard md 0 (fun i => ql_eqb (map this (ps_x (phi i))) pt)).
  apply dist_ext. intros st. unfold topmap. cbn [p_cur]. fold s0. fold phi.
  destruct (ql_eqb (map this (ps_x (phi (p_cur st)))) pt); reflexivity.
Qed.
