(* C04 -- Log-densities are the documented normalised densities in every parameterisation.
   Property theorems only: each is closed by `exact <lemma>` and followed by Print Assumptions.
   Real-valued statements (R, Coquelicot).  The full-matrix Gaussian identities are in Props/C04_mc.v.

   Conventions of the model (Model/C04_Dens.v): a parameter is a list of length 1 (scalar, broadcast by
   `bc n`) or n; `fixed` selects the repaired (true) or the unrepaired (false) formula of the defects
   that have a fix proposal; lnGamma enters through its value G = Gamma(shape) > 0. *)
From CV Require Import Base.Tac Base.Cmp Model.C04_Dens Model.C04_Cdf Proofs.C04_Cdf Proofs.C04_Cdf2 Proofs.C04_Beta Proofs.C04_Lim Proofs.C04_InvGamma Proofs.C04_Refine Proofs.C04_GammaLaw Proofs.C04_Dens Proofs.C04_Gauss Proofs.C04_Norm Proofs.C04_More Proofs.C04_Sym Proofs.C04_Box Proofs.C04_GaussInt Proofs.C04_BoxNormal Proofs.C04_GaussDoc Proofs.C04_Slap Proofs.C04_CdfNd Proofs.C04_GaussBox.
From Coq Require Import QArith Reals Lra.
From Coquelicot Require Import Coquelicot.
Local Open Scope R_scope.
Notation Forall := List.Forall.

(* ---------- broadcasting keeps one term per coordinate ---------- *)
Theorem C04_broadcast_shape : forall p q x : list R,
  (length p = 1%nat \/ length p = length x) -> (length q = 1%nat \/ length q = length x) ->
  length (zip3 (bc (length x) p) (bc (length x) q) x) = length x.
Proof. exact args3_length. Qed.
Print Assumptions C04_broadcast_shape.

(* ---------- logpdf = ln (documented pdf), all dimensions, scalar or vector parameters ---------- *)
Theorem C04_normal_logpdf : forall mean std x : list R,
  Forall (fun s => 0 < s) std -> normal_logpdf mean std x = ln (normal_pdf mean std x).
Proof. exact normal_logpdf_doc. Qed.
Print Assumptions C04_normal_logpdf.

Theorem C04_laplace_logpdf : forall (loc : list R) (b : R) (x : list R),
  0 < b -> (length loc = 1%nat \/ length loc = length x) ->
  laplace_logpdf (length x) loc b x = ln (rprod (map (laplace_pdf1 b) (laplace_args loc x))).
Proof. exact laplace_logpdf_doc. Qed.
Print Assumptions C04_laplace_logpdf.

Theorem C04_cauchy_logpdf : forall loc scale x : list R,
  Forall (fun s => 0 < s) scale -> cauchy_logpdf loc scale x = ln (rprod (map cauchy_pdf1 (cauchy_args loc scale x))).
Proof. exact cauchy_logpdf_doc. Qed.
Print Assumptions C04_cauchy_logpdf.

(* Gamma: Gs are the values of the Gamma function at the shapes; x^a is exp(a ln x) (Rpower) *)
Theorem C04_gamma_logpdf : forall Gs shape rate x : list R,
  Forall (fun G => 0 < G) Gs ->
  gamma_logpdf (map ln Gs) shape rate x =
  ln (rprod (map (fun a => let '(G, sh, r, t) := a in gamma_pdf1 G sh r t)
                 (zip4 (bc (length x) Gs) (bc (length x) shape) (bc (length x) rate) x))).
Proof. exact gamma_logpdf_doc. Qed.
Print Assumptions C04_gamma_logpdf.

(* InverseGamma and Beta, all coordinates (Gs, Ga, Gb, Gab: values of the Gamma function at shape, alpha, beta, alpha+beta) *)
Theorem C04_invgamma_logpdf : forall Gs shape loc scale x : list R, Forall (fun G => 0 < G) Gs ->
  invgamma_logpdf (map ln Gs) shape loc scale x = ln (invgamma_pdf_vec Gs shape loc scale x).
Proof. exact invgamma_logpdf_doc. Qed.
Print Assumptions C04_invgamma_logpdf.

Theorem C04_beta_logpdf : forall Ga Gb Gab alpha beta x : list R,
  Forall (fun G => 0 < G) Ga -> Forall (fun G => 0 < G) Gb -> Forall (fun G => 0 < G) Gab ->
  beta_logpdf (map ln Ga) (map ln Gb) (map ln Gab) alpha beta x = ln (beta_pdf_vec Ga Gb Gab alpha beta x).
Proof. exact beta_logpdf_doc. Qed.
Print Assumptions C04_beta_logpdf.

(* Lognormal: Gaussian log-density at ln x plus the log-Jacobian  - sum ln x_i *)
Theorem C04_lognormal_logpdf : forall (gl : R) (x : list R), Forall (fun t => 0 < t) x ->
  lognormal_logpdf gl x = gl + rsum (map (fun t => - ln t) x).
Proof. exact lognormal_logpdf_doc. Qed.
Print Assumptions C04_lognormal_logpdf.

(* with a diagonal covariance V: the sum of the documented 1-d lognormal log-densities  -ln t + ln N(ln t; m, v) *)
Theorem C04_lognormal_diag : forall V mean x : list R,
  length V = length x -> (length mean = 1%nat \/ length mean = length x) ->
  Forall (fun v => 0 < v) V -> Forall (fun t => 0 < t) x ->
  lognormal_logpdf (gauss_diag_logpdf FCov false (length x) V mean (map ln x)) x =
  rsum (map lognormal_term (zip3 (bc (length x) mean) (map sqrt V) x)).
Proof. exact lognormal_diag_doc. Qed.
Print Assumptions C04_lognormal_diag.

(* ---------- supports: the decision "logpdf = -inf" (over the exact float values) means what it should ---------- *)
Theorem C04_uniform_support : forall low high x : list Q,
  uniform_outside low high x = false <->
  (forall p, In p (combine (qbc (length x) low) x) -> (fst p <= snd p)%Q) /\
  (forall p, In p (combine (qbc (length x) high) x) -> (snd p <= fst p)%Q).
Proof. exact uniform_support. Qed.
Print Assumptions C04_uniform_support.

Theorem C04_beta_support : forall alpha beta x : list Q,
  beta_outside alpha beta x = false <->
  (forall v, In v x -> (0 < v)%Q /\ (v < 1)%Q) /\ (forall a, In a alpha -> (0 < a)%Q) /\ (forall b, In b beta -> (0 < b)%Q).
Proof. exact beta_support. Qed.
Print Assumptions C04_beta_support.

(* ---------- SmoothedLaplace: guarded by the exact complement of the defective class ---------- *)
Theorem C04_smoothedlaplace_logpdf : forall (fixed : bool) (loc scale : list R) (beta : R) (x : list R),
  Forall (fun b => 0 < b) scale -> (length loc = 1%nat \/ length loc = length x) ->
  (fixed = true \/ length scale = length x) ->
  slap_logpdf fixed loc scale beta x = ln (slap_pdf loc scale beta x).
Proof. exact slap_logpdf_doc_guarded. Qed.
Print Assumptions C04_smoothedlaplace_logpdf.

Theorem C04_smoothedlaplace_logpdf_refuted :
  exists loc scale beta x, Forall (fun b => 0 < b) scale /\ length scale = 1%nat /\ length x = 2%nat /\
    slap_logpdf false loc scale beta x <> ln (slap_pdf loc scale beta x).
Proof. exact slap_logpdf_refuted. Qed.
Print Assumptions C04_smoothedlaplace_logpdf_refuted.

(* ... but the documented SmoothedLaplace density itself (slap_dens mu b beta = the factor slap_pdf1 of slap_pdf) is NOT a probability density
   for beta > 0: strictly below the Laplace density, its mass over [mu - T, mu + T] stays below 1 - gap for a gap > 0 independent of T, so it
   does not integrate to one (finding SmoothedLaplace.logpdf|beta>0:density-not-normalised; witness: total mass K_1(1) = 0.6019 for b = beta = 1) *)
Theorem C04_smoothedlaplace_normalised_refuted : forall mu b beta : R, 0 < b -> 0 < beta ->
  (forall x, slap_dens mu b beta x = slap_pdf1 beta (mu, b, x) /\ slap_dens mu b beta x < laplace_dens mu b x) /\
  0 < slap_gap mu b beta /\
  (forall T, 1 <= T -> RInt (slap_dens mu b beta) (mu - T) (mu + T) <= 1 - exp (- T / b) - slap_gap mu b beta) /\
  ~ is_lim (fun T => RInt (slap_dens mu b beta) (mu - T) (mu + T)) p_infty 1.
Proof.
  intros mu b beta Hb Hbe. split; [intros x; split; [reflexivity | apply slap_dens_lt; assumption]|].
  destruct (slap_subnormalised mu b beta Hb Hbe) as [Hg Hle]. split; [exact Hg|]. split; [exact Hle|].
  apply slap_not_normalised; assumption.
Qed.
Print Assumptions C04_smoothedlaplace_normalised_refuted.

(* ---------- Uniform: inside the box; guarded (scalar low AND scalar high with dim > 1 is the defective class) ---------- *)
Theorem C04_uniform_logpdf : forall (fixed : bool) (dim : nat) (low high : list R),
  (length low = 1%nat \/ length low = dim) -> (length high = 1%nat \/ length high = dim) ->
  Forall (fun p => fst p < snd p) (zip2 (bc dim low) (bc dim high)) ->
  (fixed = true \/ length low = dim \/ length high = dim) ->
  uniform_logpdf fixed dim low high = ln (uniform_pdf dim low high).
Proof. exact uniform_logpdf_doc_guarded. Qed.
Print Assumptions C04_uniform_logpdf.

Theorem C04_uniform_logpdf_refuted :
  exists dim low high, length low = 1%nat /\ length high = 1%nat /\ dim = 2%nat /\
    Forall (fun p => fst p < snd p) (zip2 (bc dim low) (bc dim high)) /\
    uniform_logpdf false dim low high <> ln (uniform_pdf dim low high).
Proof. exact uniform_logpdf_refuted. Qed.
Print Assumptions C04_uniform_logpdf_refuted.

(* ---------- cumulative distribution functions ---------- *)
(* Normal: the model states the cdf factor as 1/2 + integral of the standard normal density up to (x - m)/s (the code's
   erf expression is tied to it by the correspondence: one kernel-checked enclosure of the integral per case).
   FULL for this statement: its derivative is the pdf factor, and it integrates the pdf over every interval. *)
Theorem C04_normal_cdf_derivative : forall m s x : R, 0 < s ->
  is_derive (fun t => normal_cdf1 (m, s, t)) x (normal_pdf1 (m, s, x)).
Proof. exact normal_cdf1_derive. Qed.
Print Assumptions C04_normal_cdf_derivative.

Theorem C04_normal_cdf_integral : forall m s a b : R, 0 < s ->
  is_RInt (fun t => normal_pdf1 (m, s, t)) a b (normal_cdf1 (m, s, b) - normal_cdf1 (m, s, a)).
Proof. exact normal_cdf1_is_integral. Qed.
Print Assumptions C04_normal_cdf_integral.

(* the case files evaluate the cdf through the standardised points computed by the model over Q: same number *)
Theorem C04_normal_cdf_standardised : forall mean std x : list R,
  normal_cdf mean std x = normal_cdf_z (map (fun a : R * R * R => let '(m, s, t) := a in (t - m) / s) (normal_args mean std x)).
Proof. exact normal_cdf_z_spec. Qed.
Print Assumptions C04_normal_cdf_standardised.

(* Gamma with integer shape k+1: the cdf (integral of the documented density from 0) has the closed form
   1 - exp(-r x) sum_{i<=k} (r x)^i / i!  (integration by parts, induction on k), its derivative is the density,
   and that density is the documented Gamma density with Gamma(k+1) = k! *)
Theorem C04_gamma_cdf_closed_form : forall (k : nat) (r x : R),
  gamma_int_cdf1 k r x = 1 - exp (- r * x) * esum k (r * x).
Proof. exact gamma_int_cdf_closed. Qed.
Print Assumptions C04_gamma_cdf_closed_form.

Theorem C04_gamma_cdf_derivative : forall (k : nat) (r x : R), is_derive (gamma_int_cdf1 k r) x (gamma_int_pdf k r x).
Proof. exact gamma_int_cdf_derive. Qed.
Print Assumptions C04_gamma_cdf_derivative.

Theorem C04_gamma_int_pdf_documented : forall (k : nat) (r x : R), 0 < r -> 0 < x ->
  gamma_int_pdf k r x = gamma_pdf1 (INR (fact k)) (INR (S k)) r x.
Proof. exact gamma_int_pdf_doc. Qed.
Print Assumptions C04_gamma_int_pdf_documented.

(* ... and the density integrates to one: the cdf tends to 1 (every integer shape, every rate) *)
Theorem C04_gamma_int_normalised : forall (k : nat) (r : R), 0 < r -> is_lim (gamma_int_cdf1 k r) p_infty 1.
Proof. exact gamma_int_normalised. Qed.
Print Assumptions C04_gamma_int_normalised.

(* Beta with integer shapes (a+1, b+1) and InverseGamma with integer shape k+1: the cdfs of the model (integrals of the documented
   densities; InverseGamma through 1/(x - loc) ~ Gamma) have the densities as derivatives *)
Theorem C04_beta_cdf_derivative : forall (a b : nat) (x : R), is_derive (beta_int_cdf1 a b) x (beta_int_pdf a b x).
Proof. exact beta_int_cdf_derive. Qed.
Print Assumptions C04_beta_cdf_derivative.

Theorem C04_beta_int_pdf_documented : forall (a b : nat) (x : R), 0 < x < 1 ->
  beta_int_pdf a b x = beta_pdf1 (INR (fact a)) (INR (fact b)) (INR (fact (a + b + 1))) (INR (S a)) (INR (S b)) x.
Proof. exact beta_int_pdf_doc. Qed.
Print Assumptions C04_beta_int_pdf_documented.

(* ... and the Beta(a+1, b+1) density integrates to one over (0,1): int t^a (1-t)^b = a! b! / (a+b+1)! (by parts, induction) *)
Theorem C04_beta_int_normalised : forall a b : nat, is_RInt (beta_int_pdf a b) 0 1 1 /\ beta_int_cdf1 a b 1 = 1.
Proof. intros a b. split; [exact (beta_int_normalised a b) | exact (beta_int_cdf_at_1 a b)]. Qed.
Print Assumptions C04_beta_int_normalised.

Theorem C04_invgamma_cdf_derivative : forall (k : nat) (l sc x : R), l < x ->
  is_derive (invgamma_int_cdf1 k l sc) x (invgamma_int_pdf k l sc x).
Proof. exact invgamma_int_cdf_derive. Qed.
Print Assumptions C04_invgamma_cdf_derivative.

(* Gamma with ANY real shape: the code calls scipy's regularised incomplete gamma function.  Under the named oracle law
   "on x > 0 it differs between two points by the integral of the documented density" its derivative is that density
   (the law itself is exercised per case by the oracle's quadrature; for integer shapes it is the theorem C04_gamma_cdf_closed_form) *)
Theorem C04_gamma_cdf_gammainc_law : forall (G sh r : R) (cdf_code : R -> R), G <> 0 ->
  (forall c x, 0 < c -> 0 < x -> cdf_code x - cdf_code c = RInt (gamma_pdf1 G sh r) c x) ->
  forall x, 0 < x -> is_derive cdf_code x (gamma_pdf1 G sh r x).
Proof. exact gamma_cdf_code_derive. Qed.
Print Assumptions C04_gamma_cdf_gammainc_law.

(* InverseGamma with integer shape is normalised: its cdf tends to 1 *)
Theorem C04_invgamma_int_normalised : forall (k : nat) (l sc : R), is_lim (invgamma_int_cdf1 k l sc) p_infty 1.
Proof. exact invgamma_int_normalised. Qed.
Print Assumptions C04_invgamma_int_normalised.

(* the formula the CODE evaluates for Normal.cdf, 0.5 (1 + erf((x-m)/(s sqrt 2))), equals the model's integral under the
   named oracle law  erf z = 2/sqrt(pi) int_0^z exp(-t^2) dt  (scipy.special.erf; erf is not defined in the installed libraries) *)
Theorem C04_normal_cdf_erf_law : forall erf : R -> R,
  (forall z, erf z = 2 / sqrt PI * RInt (fun t => exp (- (t * t))) 0 z) ->
  forall m s x : R, 0 < s -> normal_cdf1_code erf m s x = normal_cdf1 (m, s, x).
Proof. exact normal_cdf1_code_is_model. Qed.
Print Assumptions C04_normal_cdf_erf_law.

(* Lognormal, per coordinate: the model's term is ln of (1/t) N(ln t; m, s); by the change of variables u = ln t its integral
   over [a, b] is the Normal cdf difference at ln (FULL, no assumption); hence it is normalised IF the Normal is -- the
   dependency made explicit: the two limits of the Normal cdf are hypotheses (no Gaussian integral in the installed libraries) *)
Theorem C04_lognormal_term : forall m s t : R, 0 < t -> 0 < s -> lognormal_term (m, s, t) = ln (lognormal_pdf1 m s t).
Proof. exact lognormal_term_ln. Qed.
Print Assumptions C04_lognormal_term.

Theorem C04_lognormal_mass : forall m s a b : R, 0 < s -> 0 < a -> a <= b ->
  is_RInt (lognormal_pdf1 m s) a b (normal_cdf1 (m, s, ln b) - normal_cdf1 (m, s, ln a)).
Proof. exact lognormal_mass. Qed.
Print Assumptions C04_lognormal_mass.

Theorem C04_lognormal_normalised_given_normal : forall m s : R, 0 < s ->
  is_lim (fun u => normal_cdf1 (m, s, u)) p_infty 1 -> is_lim (fun u => normal_cdf1 (m, s, u)) m_infty 0 ->
  is_lim (fun v => RInt (lognormal_pdf1 m s) (exp (- v)) (exp v)) p_infty 1.
Proof. exact lognormal_normalised_given_normal. Qed.
Print Assumptions C04_lognormal_normalised_given_normal.

(* PARTIAL: d/dx cdf = pdf is proved for Normal, Cauchy, and Gamma / Beta / InverseGamma with integer shapes.  Not proved: Gamma / Beta /
   InverseGamma with non-integer shapes (tied by the oracle's quadrature only), the multivariate Gaussian cdf (scipy's
   algorithm; the covariance handed to it is checked exactly, the value against quadrature in 1-2 d), and the identity of
   erf / the regularised incomplete gamma function with these integrals (not in the installed libraries). *)
Theorem C04_cdf_derivative_partial : forall l s x : R, 0 < s ->
  is_derive (fun t => cauchy_cdf1 (l, s, t)) x (cauchy_pdf1 (l, s, x)).
Proof. exact cauchy_cdf1_derive. Qed.
Print Assumptions C04_cdf_derivative_partial.

(* ... and the cdf factor is the integral of the density factor over any interval, with values in (0,1) *)
Theorem C04_cauchy_cdf_integral : forall l s a b : R, 0 < s ->
  is_RInt (fun t => cauchy_pdf1 (l, s, t)) a b (cauchy_cdf1 (l, s, b) - cauchy_cdf1 (l, s, a)) /\
  0 < cauchy_cdf1 (l, s, a) < 1.
Proof. intros l s a b H. split; [exact (cauchy_cdf_is_integral l s a b H) | exact (cauchy_cdf_bounds l s a H)]. Qed.
Print Assumptions C04_cauchy_cdf_integral.

Theorem C04_cauchy_cdf : forall (fixed : bool) (loc scale x : list R),
  (fixed = true \/ length x = 1%nat) -> (length loc = 1%nat \/ length loc = length x) ->
  (length scale = 1%nat \/ length scale = length x) ->
  cauchy_cdf fixed loc scale x = rprod (map cauchy_cdf1 (cauchy_args loc scale x)).
Proof. exact cauchy_cdf_guarded. Qed.
Print Assumptions C04_cauchy_cdf.

Theorem C04_cauchy_cdf_refuted :
  exists loc scale x, Forall (fun s => 0 < s) scale /\
    cauchy_cdf false loc scale x <> rprod (map cauchy_cdf1 (cauchy_args loc scale x)) /\ 1 <= cauchy_cdf false loc scale x.
Proof. exact cauchy_cdf_refuted. Qed.
Print Assumptions C04_cauchy_cdf_refuted.

(* ---------- ModifiedHalfNormal (documented up to its constant) ---------- *)
Theorem C04_mhn_documented_kernel : forall (al be ga : R) (x : list R),
  mhn_doc_logpdf al be ga x = ln (rprod (map (mhn_doc_kernel1 al be ga) x)).
Proof. exact mhn_doc_logpdf_kernel. Qed.
Print Assumptions C04_mhn_documented_kernel.

(* the code's logpdf is the documented one only when beta = gamma = alpha (the getters return alpha) *)
Theorem C04_mhn_logpdf : forall (al be ga : R) (x : list R), be = al -> ga = al ->
  mhn_logpdf al be ga x = mhn_doc_logpdf al be ga x.
Proof. exact mhn_logpdf_guarded. Qed.
Print Assumptions C04_mhn_logpdf.

Theorem C04_mhn_logpdf_refuted :
  exists al be ga x1 x2, 0 < al /\ 0 < be /\ 0 < x1 /\ 0 < x2 /\
    mhn_logpdf al be ga (x1 :: nil) - mhn_doc_logpdf al be ga (x1 :: nil) <>
    mhn_logpdf al be ga (x2 :: nil) - mhn_doc_logpdf al be ga (x2 :: nil).
Proof. exact mhn_logpdf_refuted. Qed.
Print Assumptions C04_mhn_logpdf_refuted.

(* ---------- Gaussian: scalar / vector / diagonal inputs in the four parameterisations ---------- *)
(* variance v is passed as  cov = v, prec = 1/v, sqrtcov = sqrt v, sqrtprec = 1/sqrt v  (gparam) *)
Theorem C04_gaussian_forms_diag : forall (f g : gform) (V mean x : list R),
  length V = length x -> (length mean = 1%nat \/ length mean = length x) -> Forall (fun v => 0 < v) V ->
  gauss_diag_logpdf f false (length x) (map (gparam f) V) mean x =
  gauss_diag_logpdf g false (length x) (map (gparam g) V) mean x.
Proof. exact gauss_diag_forms_agree. Qed.
Print Assumptions C04_gaussian_forms_diag.

Theorem C04_gaussian_forms_scalar : forall (f g : gform) (v : R) (mean x : list R),
  (length mean = 1%nat \/ length mean = length x) -> 0 < v ->
  gauss_diag_logpdf f true (length x) (gparam f v :: nil) mean x =
  gauss_diag_logpdf g true (length x) (gparam g v :: nil) mean x.
Proof. exact gauss_diag_scalar_forms_agree. Qed.
Print Assumptions C04_gaussian_forms_scalar.

(* a scalar parameter with dim > 1 is the vector of repeats *)
Theorem C04_gaussian_scalar_broadcast : forall (f : gform) (v : R) (mean x : list R),
  (length mean = 1%nat \/ length mean = length x) -> 0 < v ->
  gauss_diag_logpdf f true (length x) (gparam f v :: nil) mean x =
  gauss_diag_logpdf f false (length x) (map (gparam f) (repeat v (length x))) mean x.
Proof. exact gauss_diag_scalar_is_vector. Qed.
Print Assumptions C04_gaussian_scalar_broadcast.

(* and the common value is ln of the product of the documented normal densities *)
Theorem C04_gaussian_diag_documented : forall (f : gform) (V mean x : list R),
  length V = length x -> (length mean = 1%nat \/ length mean = length x) -> Forall (fun v => 0 < v) V ->
  gauss_diag_logpdf f false (length x) (map (gparam f) V) mean x = ln (normal_pdf mean (map sqrt V) x).
Proof. exact gauss_diag_ln_pdf. Qed.
Print Assumptions C04_gaussian_diag_documented.

(* SCALAR storage (cov = v, prec = 1/v, sqrtcov = sqrt v, sqrtprec = 1/sqrt v as one number, any dimension): ln of the documented density *)
Theorem C04_gaussian_scalar_documented : forall (f : gform) (v : R) (mean x : list R),
  (length mean = 1%nat \/ length mean = length x) -> 0 < v ->
  gauss_diag_logpdf f true (length x) (gparam f v :: nil) mean x = ln (normal_pdf mean (sqrt v :: nil) x).
Proof. exact gauss_scalar_ln_pdf. Qed.
Print Assumptions C04_gaussian_scalar_documented.

(* DENSE (and sparse full) matrices, cov / prec / sqrtcov / sqrtprec: the canonical form the code evaluates, with logdet = ln det(Sigma)
   [covariance-type inputs] or - ln det(precision) [precision-type inputs] and quad = d^T Sigma^-1 d, is ln of the documented multivariate
   normal density mvn_pdf n dcov quad = (2 pi)^(-n/2) det(Sigma)^(-1/2) exp(-quad/2); which (dcov, quad) belong to a matrix M in a given
   parameterisation is what the exact certificate states (C04_gaussian_dense_cert_sound; the four readings denote one distribution by
   Props/C04_mc.v, and C04_list_model_quad_refinement links the list functions to the matrix statement) *)

Theorem C04_gaussian_dense_documented :
  (forall (n : nat) (dcov quad : R), 0 < dcov ->
  gauss_canon n (ln dcov) quad = ln (mvn_pdf n dcov quad)) /\
  (forall (n : nat) (dprec dcov quad : R), 0 < dprec -> dprec * dcov = 1 ->
  gauss_canon n (- ln dprec) quad = ln (mvn_pdf n dcov quad)).
Proof.
  split.
  - exact gauss_dense_ln_pdf.
  - exact gauss_dense_ln_pdf_prec.
Qed.
Print Assumptions C04_gaussian_dense_documented.

Theorem C04_gaussian_dense_cert_sound : forall (f : gform) (n : nat) (M : list (list Q)) (y d : list Q) (dcov quad : Q) (r : nat),
  gauss_dense_cert f n M y d dcov quad r = true ->
  r = n /\ (0 < dcov)%Q /\
  match f with
  | FCov => ql_eqb (qmv M y) d = true /\ (qdet M == dcov)%Q /\ (qdotq d y == quad)%Q
  | FPrec => (qdet M * dcov == 1)%Q /\ (qdotq d (qmv M d) == quad)%Q
  | FSqrtcov => ql_eqb (qmv (qmm n M (qtr n M)) y) d = true /\ (qdet (qmm n M (qtr n M)) == dcov)%Q /\ (qdotq d y == quad)%Q
  | FSqrtprec => (qdet (qmm n M (qtr n M)) * dcov == 1)%Q /\ (qdotq (qmv M d) (qmv M d) == quad)%Q
  end.
Proof. exact gauss_dense_cert_sound. Qed.
Print Assumptions C04_gaussian_dense_cert_sound.

(* sqrtcov = R as a full matrix: the code forms R R^T, the docstring says R^T R; executable witness
   (R = [[1,0],[1,1]], x - mean = [1,0]: quadratic forms 2 and 1); for symmetric R the two coincide *)
Theorem C04_sqrtcov_convention_refuted :
  exists (M : list (list Q)) (d y y' : list Q) (dcov quad quad' : Q),
    gauss_dense_cert FSqrtcov 2 M y d dcov quad 2 = true /\
    gauss_sqrtcov_doc_cert 2 M y' d dcov quad' = true /\
    ~ (quad == quad')%Q.
Proof. exact sqrtcov_convention_refuted. Qed.
Print Assumptions C04_sqrtcov_convention_refuted.

Theorem C04_sqrtcov_symmetric : forall (n : nat) (M : list (list Q)) (y d : list Q) (dcov quad : Q),
  qtr n M = M -> gauss_sqrtcov_doc_cert n M y d dcov quad = true ->
  gauss_dense_cert FSqrtcov n M y d dcov quad n = true <-> (0 < dcov)%Q.
Proof. exact sqrtcov_symmetric_agree. Qed.
Print Assumptions C04_sqrtcov_symmetric.

(* ---------- magnitude ---------- *)
(* multiplying every length (mean, std, x) by c > 0 shifts the log-density by - n ln c: finite at every scale *)
Theorem C04_normal_scale : forall (c : R) (mean std x : list R), 0 < c -> Forall (fun s => 0 < s) std ->
  (length mean = 1%nat \/ length mean = length x) -> (length std = 1%nat \/ length std = length x) ->
  normal_logpdf (map (Rmult c) mean) (map (Rmult c) std) (map (Rmult c) x) = normal_logpdf mean std x - INR (length x) * ln c.
Proof. exact normal_logpdf_scale. Qed.
Print Assumptions C04_normal_scale.

Theorem C04_gaussian_scale : forall (n : nat) (logdet quad c : R),
  gauss_canon n (logdet + 2 * INR n * ln c) quad = gauss_canon n logdet quad - INR n * ln c.
Proof. exact gauss_canon_scale. Qed.
Print Assumptions C04_gaussian_scale.

(* ... whereas the code's log(numpy.linalg.det(.)) for dense full matrices leaves the binary64 range: the model marks
   determinants below 2^-1080 / above 2^1030 (logpdf = +inf / -inf observed); such determinants are ordinary rationals *)
Theorem C04_det_range_refuted : exists dcov : Q, (0 < dcov)%Q /\ det_underflow dcov = true /\ det_overflow (/ dcov) = true.
Proof. exact det_range_refuted. Qed.
Print Assumptions C04_det_range_refuted.

(* the symmetry test of cov / prec (numpy.allclose(M, M^T), rtol 1e-5, atol 1e-8): an exactly symmetric matrix is never
   refused, at any magnitude; a non-symmetric one is refused or accepted depending on its magnitude *)
Theorem C04_symmetric_never_refused : forall (f : gform) (n : nat) (M : list (list Q)),
  qsym n M = true -> gauss_sym_refused f n M = false.
Proof. exact sym_never_refused. Qed.
Print Assumptions C04_symmetric_never_refused.

Theorem C04_symmetry_check_scale_refuted :
  exists (M : list (list Q)) (c : Q), (0 < c)%Q /\
    gauss_sym_refused FCov 2 M = true /\
    gauss_sym_refused FCov 2 (qscale c M) = false /\ qsym 2 (qscale c M) = false.
Proof. exact symmetry_check_scale_refuted. Qed.
Print Assumptions C04_symmetry_check_scale_refuted.

(* REFINEMENT LINK between the executable list model (what the case files run: qdotq / qmv / qtr / qmm over Q, with their Qred
   normalisations) and the matrix statement C04_gaussian_sqrtprec_quad of Props/C04_mc.v: for every well-shaped M and d,
   |M d|^2 == d^T (M^T M) d holds for the list functions themselves, so the quadratic form the certificate checks for sqrtprec = M
   is the one it checks for prec = M^T M *)
Theorem C04_list_model_quad_refinement : forall (n : nat) (d : list Q) (M : list (list Q)),
  length d = n -> List.Forall (fun r => length r = n) M ->
  (qdotq (qmv M d) (qmv M d) == qdotq d (qmv (qmm n (qtr n M) M) d))%Q.
Proof. intros n d M Hd HM. exact (qquad_sqrtprec_is_prec n d Hd M HM). Qed.
Print Assumptions C04_list_model_quad_refinement.

(* ---------- the un-normalised log-density differs from the normalised one by a constant in x ---------- *)
Theorem C04_unnormalised_constant : forall (rank : nat) (logdet q1 q2 : R),
  gauss_canon rank logdet q1 - gauss_logupdf q1 = gauss_canon rank logdet q2 - gauss_logupdf q2.
Proof. exact gauss_unnormalised_constant. Qed.
Print Assumptions C04_unnormalised_constant.

(* ---------- Markov random fields: dd = D (x - location) is the list of finite differences (any length) ---------- *)
Theorem C04_mrf_documented_lmrf : forall (scale : R) (dd : list R), 0 < scale ->
  lmrf_logpdf scale dd = ln (rprod (map (fun t => laplace_pdf1 scale (0, t)) dd)) /\
  lmrf_pdf scale dd = rprod (map (fun t => laplace_pdf1 scale (0, t)) dd).
Proof. intros scale dd H. split; [exact (lmrf_logpdf_doc scale dd H) | exact (lmrf_pdf_doc scale dd H)]. Qed.
Print Assumptions C04_mrf_documented_lmrf.

Theorem C04_mrf_documented_cmrf : forall (scale : R) (dd : list R), 0 < scale ->
  cmrf_logpdf scale dd = ln (rprod (map (fun t => cauchy_pdf1 (0, scale, t)) dd)).
Proof. exact cmrf_logpdf_doc. Qed.
Print Assumptions C04_mrf_documented_cmrf.

(* GMRF: Gaussian kernel exp(-prec t^2/2) of every difference, plus a constant that does not involve x;
   in canonical Gaussian form the constant is that of N(mean, (prec D^T D)^-1) when detarg = (pseudo-)det(D^T D) *)
Theorem C04_mrf_documented_gmrf : forall (rank : nat) (prec detarg : R) (dd : list R),
  gmrf_logpdf rank prec detarg dd =
  / 2 * (INR rank * (ln prec - ln (2 * PI)) + ln detarg) + ln (rprod (map (fun t => exp (- / 2 * prec * t ^ 2)) dd)).
Proof. exact gmrf_logpdf_doc. Qed.
Print Assumptions C04_mrf_documented_gmrf.

Theorem C04_gmrf_canonical : forall (rank : nat) (prec detarg : R) (dd : list R), 0 < prec -> 0 < detarg ->
  gmrf_logpdf rank prec detarg dd =
  gauss_canon rank (- (INR rank * ln prec + ln detarg)) (prec * rsum (map (fun t => t * t) dd)).
Proof. exact gmrf_is_gauss_canon. Qed.
Print Assumptions C04_gmrf_canonical.

(* order 0: documented x_i ~ N(mean_i, 1/prec).  Full rank (zero b.c.) gives it in every dimension; the rank
   dim-1 the code uses for periodic / neumann does not (guard + witness) *)
Theorem C04_gmrf_order0 : forall (prec : R) (dd : list R), 0 < prec ->
  gmrf_logpdf (length dd) prec 1 dd = normal_logpdf (0 :: nil) (sqrt (/ prec) :: nil) dd.
Proof. exact gmrf_order0_documented. Qed.
Print Assumptions C04_gmrf_order0.

Theorem C04_gmrf_order0_refuted :
  exists prec dd, 0 < prec /\ length dd = 2%nat /\
    gmrf_logpdf (gmrf_rank_code BPeriodic (length dd)) prec 1 dd <> normal_logpdf (0 :: nil) (sqrt (/ prec) :: nil) dd /\
    gmrf_rank_code BPeriodic (length dd) <> gmrf_true_rank 0 BPeriodic false (length dd).
Proof. exact gmrf_order0_refuted. Qed.
Print Assumptions C04_gmrf_order0_refuted.

(* the coded rank equals the rank of D^T D (table established by C20) outside (order 0, periodic/neumann) and (order 2, neumann) *)
Theorem C04_gmrf_rank : forall (order : nat) (b : bc_t) (twod : bool) (dim : nat),
  (order = 1%nat \/ order = 2%nat /\ b <> BNeumann \/ b = BZero) -> (order <= 2)%nat -> b <> BBackward -> b <> BNone ->
  gmrf_rank_code b dim = gmrf_true_rank order b twod dim.
Proof. exact gmrf_rank_guarded. Qed.
Print Assumptions C04_gmrf_rank.

(* after fixes/C20_gmrf_rank_rule.diff (model variant `true`, selected by probing the tree) the coded rank is the true rank
   for every order <= 2 and boundary condition; variant `false` is the rule of the unrepaired tree *)
Theorem C04_gmrf_rank_repaired : forall (order : nat) (b : bc_t) (twod : bool) (dim : nat),
  (order <= 2)%nat -> b <> BBackward -> b <> BNone ->
  gmrf_rank_v true order b twod dim = gmrf_true_rank order b twod dim /\
  gmrf_rank_v false order b twod dim = gmrf_rank_code b dim.
Proof. intros o b t d H1 H2 H3. split; [exact (gmrf_rank_v_fixed o b t d H1 H2 H3) | reflexivity]. Qed.
Print Assumptions C04_gmrf_rank_repaired.

(* GMRF above cuqi.config.MAX_DIM_INV (periodic / neumann): the code takes ln det(P + delta I), delta = 2^-26, which carries ln delta once
   per null direction of P.  Dividing by delta^k (the proposed repair; model variant `true` of gmrf_large_detarg) shifts the value by
   -(k/2) ln delta: the unrepaired log-density is too small by (k/2)(-ln delta) (about 9 per null direction), for every x *)
Theorem C04_gmrf_large_shift : forall (rank : nat) (prec detarg delta : R) (k : nat) (dd : list R), 0 < detarg -> 0 < delta ->
  gmrf_logpdf rank prec (detarg / delta ^ k) dd = gmrf_logpdf rank prec detarg dd - / 2 * INR k * ln delta.
Proof. exact gmrf_large_shift. Qed.
Print Assumptions C04_gmrf_large_shift.

Theorem C04_gmrf_rank_refuted :
  gmrf_rank_code BNeumann 5 <> gmrf_true_rank 2 BNeumann false 5 /\ gmrf_rank_code BNeumann 5 <> gmrf_true_rank 0 BNeumann false 5.
Proof. split; cbn; discriminate. Qed.
Print Assumptions C04_gmrf_rank_refuted.

(* ---------- normalisation ---------- *)
(* PARTIAL (what remains after the third deepening round): "the density integrates to one over the support" is now proved, in EVERY
   dimension with scalar-broadcast or vector parameters, for Uniform, Laplace, Cauchy, Normal (= Gaussian with scalar / vector / diagonal
   covariance in all four parameterisations, through C04_gaussian_diag_documented), Lognormal with diagonal covariance, and Gamma / Beta /
   InverseGamma with INTEGER shapes (C04_*_normalised_nd above; the Gaussian integral is C04_gaussian_integral).
   NOT proved: Gamma / Beta / InverseGamma with non-integer shapes (no Gamma-function theory in the installed libraries), the Gaussian with a
   DENSE (non-diagonal) covariance (needs the n-dimensional linear change of variables, not available in Coquelicot; the mathcomp
   identities of Props/C04_mc.v reduce its density to the diagonal one only algebraically), GMRF/LMRF/CMRF (improper or non-product), and
   SmoothedLaplace (whose documented density is in fact not normalised for beta > 0).  The per-coordinate statements below are kept: *)
Theorem C04_normalised_partial :
  (forall l h : R, l < h -> is_RInt (fun _ => uniform_pdf1 (l, h)) l h 1) /\
  (forall mu b T : R, 0 < b -> 0 <= T -> is_RInt (laplace_dens mu b) (mu - T) (mu + T) (1 - exp (- T / b))) /\
  (forall mu b : R, 0 < b -> is_lim (fun T => RInt (laplace_dens mu b) (mu - T) (mu + T)) p_infty 1) /\
  (forall l s T : R, 0 < s -> is_RInt (fun t => cauchy_pdf1 (l, s, t)) (l - T) (l + T) (2 / PI * atan (T / s))) /\
  (forall l s : R, 0 < s -> is_lim (fun T => RInt (fun t => cauchy_pdf1 (l, s, t)) (l - T) (l + T)) p_infty 1).
Proof.
  split; [exact uniform_normalised|]. split; [exact laplace_mass|]. split; [exact laplace_normalised|].
  split; [exact cauchy_mass | exact cauchy_normalised].
Qed.
Print Assumptions C04_normalised_partial.

(* ---------- n-DIMENSIONAL normalisation: the per-coordinate results lifted to the product densities the code evaluates ----------
   `is_box_int f box v` (Proofs/C04_Box.v): the iterated integral of f : list R -> R over the box [a1,b1] x ... x [an,bn] exists at
   every level and equals v (it is unique: C04_box_int_unique).  The integrand of every theorem below is exp (the model's logpdf),
   i.e. the function the correspondence cells evaluate; parameters are scalar-broadcast or vectors (bc), every n (induction on n). *)

(* ... and it determines the iterated RInt (Coquelicot's total integral function), first coordinate outermost *)
Theorem C04_box_int_unique :
  (forall (f : list R -> R) (box : list (R * R)) (v w : R),
  is_box_int f box v -> is_box_int f box w -> v = w) /\
  (forall (f : list R -> R) (box : list (R * R)) (v : R),
  is_box_int f box v -> box_RInt f box = v).
Proof.
  split.
  - exact is_box_int_unique.
  - exact is_box_int_RInt.
Qed.
Print Assumptions C04_box_int_unique.

(* the Fubini step for product densities, every n and every parameter type *)
Theorem C04_box_int_product : forall (A : Type) (k : A -> R -> R) (ms : A -> R * R -> R) (ps : list A) (box : list (R * R)),
  length box = length ps ->
  (forall q, In q (combine ps box) -> is_RInt (k (fst q)) (fst (snd q)) (snd (snd q)) (ms (fst q) (snd q))) ->
  is_box_int (fun xs => rprod (map (fun q => k (fst q) (snd q)) (combine ps xs))) box
             (rprod (map (fun q => ms (fst q) (snd q)) (combine ps box))).
Proof. exact @box_int_product. Qed.
Print Assumptions C04_box_int_product.

(* Normal (= Gaussian with scalar / vector / diagonal covariance, C04_gaussian_diag_documented): the mass of EVERY box is the product
   of the cdf differences (FULL): first part of C04_normal_normalised_nd below *)


(* ... and over the boxes prod [loc_i - T, loc_i + T] it tends to 1: the n-dimensional Cauchy density integrates to one (FULL) *)
Theorem C04_cauchy_normalised_nd :
  (forall (loc scale : list R) (box : list (R * R)),
  (length loc = 1%nat \/ length loc = length box) -> (length scale = 1%nat \/ length scale = length box) ->
  Forall (fun s => 0 < s) scale ->
  is_box_int (fun xs => exp (cauchy_logpdf loc scale xs)) box
    (rprod (map (ls_mass1 cauchy_cdf1) (combine (zip2 (bc (length box) loc) (bc (length box) scale)) box)))) /\
  (forall (loc scale : list R) (n : nat), Forall (fun s => 0 < s) scale ->
  is_lim (fun T => rprod (map (ls_mass1 cauchy_cdf1)
                              (combine (zip2 (bc n loc) (bc n scale)) (centred_box2 T (zip2 (bc n loc) (bc n scale))))))
         p_infty 1).
Proof.
  split.
  - exact cauchy_box_mass.
  - exact cauchy_centred_normalised.
Qed.
Print Assumptions C04_cauchy_normalised_nd.

(* Laplace (scalar scale, location scalar or vector): mass of prod [loc_i - T, loc_i + T] is (1 - exp(-T/b))^n, which tends to 1 (FULL) *)
Theorem C04_laplace_normalised_nd : forall (loc : list R) (b : R) (n : nat), 0 < b -> (length loc = 1%nat \/ length loc = n) ->
  (forall T, 0 <= T -> is_box_int (fun xs => exp (laplace_logpdf n loc b xs)) (centred_box T (bc n loc)) ((1 - exp (- T / b)) ^ n)) /\
  is_lim (fun T => (1 - exp (- T / b)) ^ n) p_infty 1.
Proof. intros loc b n Hb Hl. split; [intros T HT; apply laplace_box_mass; assumption | apply laplace_box_normalised; exact Hb]. Qed.
Print Assumptions C04_laplace_normalised_nd.

(* Uniform: exp(logpdf) integrates to one over its own box, every dimension (guard = complement of the scalar-bounds defect) *)
Theorem C04_uniform_normalised_nd : forall (fixed : bool) (n : nat) (low high : list R),
  (length low = 1%nat \/ length low = n) -> (length high = 1%nat \/ length high = n) ->
  Forall (fun p => fst p < snd p) (zip2 (bc n low) (bc n high)) ->
  (fixed = true \/ length low = n \/ length high = n) ->
  is_box_int (fun _ => exp (uniform_logpdf fixed n low high)) (zip2 (bc n low) (bc n high)) 1.
Proof. exact uniform_box_normalised. Qed.
Print Assumptions C04_uniform_normalised_nd.

(* Gamma with integer shapes k_i + 1 (lnGamma(k+1) = ln k!), rates r_i: mass of (0,T)^n = product of the 1-d cdfs -> 1 (FULL):
   C04_gamma_int_normalised_nd below, together with the n-dimensional cdf statement *)

(* Beta with integer parameters (a_i + 1, b_i + 1): exp(logpdf) integrates to one over (0,1)^n (FULL): C04_beta_int_normalised_nd below *)

(* InverseGamma with integer shapes (k_i + 1), locations l_i, scales s_i: its integer-shape density is the documented one, its cdf
   integrates it over every interval of the support, and exp(logpdf) over prod (l_i + 1/T, l_i + T) has mass -> 1 (FULL) *)


Theorem C04_invgamma_int_normalised_nd :
  (forall (k : nat) (l sc x : R), l < x -> 0 < sc ->
  invgamma_int_pdf k l sc x = invgamma_pdf1 (INR (fact k)) (INR (S k)) l sc x) /\
  (forall (k : nat) (l sc a b : R), l < a -> a <= b ->
  is_RInt (invgamma_int_pdf k l sc) a b (invgamma_int_cdf1 k l sc b - invgamma_int_cdf1 k l sc a)) /\
  (forall ps : list (nat * R * R), Forall (fun p => 0 < snd p) ps ->
  (forall T, 1 < T ->
     is_box_int (fun xs => exp (invgamma_logpdf (map invgamma_int_g ps) (map invgamma_int_shape ps) (map (fun p => snd (fst p)) ps) (map snd ps) xs))
                (invgamma_box T ps) (rprod (map (invgamma_mass1 T) ps))) /\
  is_lim (fun T => rprod (map (invgamma_mass1 T) ps)) p_infty 1).
Proof.
  split.
  - exact invgamma_int_pdf_doc.
  - split.
    + exact invgamma_int_cdf_is_integral.
    + intros ps H. split; [intros T HT; apply invgamma_int_box_mass; assumption | apply invgamma_int_box_normalised; exact H].
Qed.
Print Assumptions C04_invgamma_int_normalised_nd.

(* Lognormal with diagonal covariance V, every n: by u_i = ln t_i the mass of prod [exp(-v), exp(v)] is the product of the Normal cdf
   differences at +-v (FULL change-of-variables identity): first part of C04_lognormal_normalised_nd below *)

(* ---------- THE GAUSSIAN INTEGRAL and the normalisation of Normal / diagonal Gaussian / Lognormal (FULL, no hypothesis) ----------
   proved from Coquelicot's parametric integrals (Proofs/C04_GaussInt.v): (int_0^x e^(-t^2))^2 + int_0^1 e^(-x^2(1+t^2))/(1+t^2) = pi/4 *)
Theorem C04_gaussian_integral : is_lim (fun x => RInt (fun t => exp (- (t * t))) 0 x) p_infty (sqrt PI / 2).
Proof. exact gI_lim. Qed.
Print Assumptions C04_gaussian_integral.


Theorem C04_normal_normalised :
  (forall m s : R, 0 < s ->
  is_lim (fun u => normal_cdf1 (m, s, u)) p_infty 1 /\ is_lim (fun u => normal_cdf1 (m, s, u)) m_infty 0) /\
  (forall m s : R, 0 < s ->
  is_lim (fun T => RInt (fun t => normal_pdf1 (m, s, t)) (m - T) (m + T)) p_infty 1).
Proof.
  split.
  - exact normal_cdf1_limits.
  - exact normal_normalised.
Qed.
Print Assumptions C04_normal_normalised.

(* every dimension, scalar-broadcast or vector mean / std: the mass (C04_normal_box_mass) of prod [mean_i - T, mean_i + T] tends to 1 *)
Theorem C04_normal_normalised_nd :
  (forall (mean std : list R) (box : list (R * R)),
  (length mean = 1%nat \/ length mean = length box) -> (length std = 1%nat \/ length std = length box) ->
  Forall (fun s => 0 < s) std ->
  is_box_int (fun xs => exp (normal_logpdf mean std xs)) box
    (rprod (map (ls_mass1 normal_cdf1) (combine (zip2 (bc (length box) mean) (bc (length box) std)) box)))) /\
  (forall (mean std : list R) (n : nat), Forall (fun s => 0 < s) std ->
  is_lim (fun T => rprod (map (ls_mass1 normal_cdf1)
                              (combine (zip2 (bc n mean) (bc n std)) (centred_box2 T (zip2 (bc n mean) (bc n std))))))
         p_infty 1).
Proof.
  split.
  - exact normal_box_mass.
  - exact normal_centred_normalised.
Qed.
Print Assumptions C04_normal_normalised_nd.

(* the Gaussian in each of the four parameterisations f (cov = v, prec = 1/v, sqrtcov = sqrt v, sqrtprec = 1/sqrt v), vector / dense-diagonal /
   sparse-diagonal storage (gauss_diag_logpdf f false) and scalar storage (gauss_diag_logpdf f true): exp(logpdf) integrates over every box to
   the product of the Normal cdf differences with std = sqrt v -- the same number for all four f -- and over growing centred boxes to 1 *)


Theorem C04_gaussian_diag_normalised_nd :
  (forall (f : gform) (V mean : list R) (box : list (R * R)),
  length V = length box -> (length mean = 1%nat \/ length mean = length box) -> Forall (fun v => 0 < v) V ->
  is_box_int (fun xs => exp (gauss_diag_logpdf f false (length xs) (map (gparam f) V) mean xs)) box
    (rprod (map (ls_mass1 normal_cdf1) (combine (zip2 (bc (length box) mean) (bc (length box) (map sqrt V))) box)))) /\
  (forall (f : gform) (v : R) (mean : list R) (box : list (R * R)),
  (length mean = 1%nat \/ length mean = length box) -> 0 < v ->
  is_box_int (fun xs => exp (gauss_diag_logpdf f true (length xs) (gparam f v :: nil) mean xs)) box
    (rprod (map (ls_mass1 normal_cdf1) (combine (zip2 (bc (length box) mean) (bc (length box) (sqrt v :: nil))) box)))) /\
  (forall (V mean : list R) (n : nat), Forall (fun v => 0 < v) V ->
  is_lim (fun T => rprod (map (ls_mass1 normal_cdf1)
                              (combine (zip2 (bc n mean) (bc n (map sqrt V))) (centred_box2 T (zip2 (bc n mean) (bc n (map sqrt V)))))))
         p_infty 1).
Proof.
  split.
  - exact gauss_diag_box_mass.
  - split.
    + exact gauss_scalar_box_mass.
    + exact gauss_diag_normalised.
Qed.
Print Assumptions C04_gaussian_diag_normalised_nd.


(* the mass (C04_lognormal_box_mass) of prod [exp(-v), exp(v)] tends to 1, every dimension *)
Theorem C04_lognormal_normalised_nd :
  (forall (V mean : list R) (v : R), 0 <= v ->
  (length mean = 1%nat \/ length mean = length V) -> Forall (fun c => 0 < c) V ->
  is_box_int (fun xs => exp (lognormal_logpdf (gauss_diag_logpdf FCov false (length xs) V mean (map ln xs)) xs))
             (map (fun _ => (exp (- v), exp v)) V)
             (rprod (map (fun p => normal_cdf1 (fst p, snd p, v) - normal_cdf1 (fst p, snd p, - v))
                         (zip2 (bc (length V) mean) (map sqrt V))))) /\
  (forall V mean : list R, Forall (fun c => 0 < c) V ->
  is_lim (fun v => rprod (map (fun p => normal_cdf1 (fst p, snd p, v) - normal_cdf1 (fst p, snd p, - v))
                              (zip2 (bc (length V) mean) (map sqrt V)))) p_infty 1) /\
  (forall m s : R, 0 < s ->
  is_lim (fun v => RInt (lognormal_pdf1 m s) (exp (- v)) (exp v)) p_infty 1).
Proof.
  split.
  - exact lognormal_box_mass.
  - split.
    + exact lognormal_box_normalised.
    + exact lognormal_normalised.
Qed.
Print Assumptions C04_lognormal_normalised_nd.

(* the oracle law of C04_normal_cdf_erf_law is satisfiable: erf_R z = 2/sqrt(pi) int_0^z exp(-t^2) satisfies it, tends to 1, is odd *)
Theorem C04_erf_law_satisfiable :
  (forall z, erf_R z = 2 / sqrt PI * RInt (fun t => exp (- (t * t))) 0 z) /\ is_lim erf_R p_infty 1 /\
  (forall m s x, 0 < s -> normal_cdf1 (m, s, x) = / 2 * (1 + erf_R ((x - m) / (s * sqrt 2)))).
Proof. split; [intros z; reflexivity|]. split; [exact erf_R_lim_p | exact normal_cdf1_erf]. Qed.
Print Assumptions C04_erf_law_satisfiable.

(* ---------- non-vacuity: the hypotheses are satisfiable and the formulas are the expected numbers ---------- *)
Example C04_nonvacuous :
  Forall (fun s => 0 < s) (1 :: 2 :: nil) /\
  normal_logpdf (0 :: nil) (1 :: 2 :: nil) (0 :: 0 :: nil) = - ln (1 * sqrt (2 * PI)) - / 2 * ((0 - 0) / 1) ^ 2 + (- ln (2 * sqrt (2 * PI)) - / 2 * ((0 - 0) / 2) ^ 2 + 0) /\
  uniform_logpdf true 3 (0 :: nil) (2 :: nil) = ln (1 / (2 * (2 * (2 * 1)))) /\
  gauss_diag_logpdf FSqrtprec true 2 (gparam FSqrtprec 4 :: nil) (0 :: nil) (1 :: 1 :: nil) =
  gauss_diag_logpdf FCov true 2 (4 :: nil) (0 :: nil) (1 :: 1 :: nil).
Proof.
  split; [repeat constructor; lra|]. split; [reflexivity|]. split.
  - unfold uniform_logpdf. cbn [bcast2 map bc repeat rprod fold_right]. f_equal. f_equal. lra.
  - apply (gauss_diag_scalar_forms_agree FSqrtprec FCov 4 (0 :: nil) (1 :: 1 :: nil)); [left; reflexivity | lra].
Qed.

(* ---------- "the cdf, where offered, is the integral of that density", n dimensions ----------
   Normal.cdf (product of the 1-d cdfs, as the code computes it): the masses (C04_normal_box_mass) of the lower-orthant boxes prod [x_i - T, x_i]
   tend to it; same for the repaired Cauchy.cdf (the code's sum is the known finding); Gamma / Beta with integer shapes: the product of the 1-d
   cdfs IS the box integral of exp(logpdf) over prod (0, x_i) (FULL; non-integer shapes and the dense Gaussian cdf remain uncovered) *)

Theorem C04_locscale_cdf_nd :
  (forall mean std xs : list R, Forall (fun s => 0 < s) std ->
  is_lim (fun T => rprod (map (ls_mass1 normal_cdf1) (combine (zip2 (bc (length xs) mean) (bc (length xs) std)) (lower_box T xs))))
         p_infty (normal_cdf mean std xs)) /\
  (forall loc scale xs : list R, Forall (fun s => 0 < s) scale ->
  is_lim (fun T => rprod (map (ls_mass1 cauchy_cdf1) (combine (zip2 (bc (length xs) loc) (bc (length xs) scale)) (lower_box T xs))))
         p_infty (cauchy_cdf true loc scale xs)).
Proof.
  split.
  - exact normal_cdf_nd.
  - exact cauchy_cdf_nd.
Qed.
Print Assumptions C04_locscale_cdf_nd.

Theorem C04_gamma_int_normalised_nd :
  (forall ps : list (nat * R), Forall (fun p => 0 < snd p) ps ->
  (forall T, 0 < T ->
     is_box_int (fun xs => exp (gamma_logpdf (map gamma_int_g ps) (map gamma_int_shape ps) (map snd ps) xs))
                (map (fun _ => (0, T)) ps) (rprod (map (fun p => gamma_int_cdf1 (fst p) (snd p) T) ps))) /\
  is_lim (fun T => rprod (map (fun p => gamma_int_cdf1 (fst p) (snd p) T) ps)) p_infty 1) /\
  (forall (ps : list (nat * R)) (xs : list R), length xs = length ps ->
  Forall (fun p => 0 < snd p) ps -> Forall (fun x => 0 < x) xs ->
  is_box_int (fun ts => exp (gamma_logpdf (map gamma_int_g ps) (map gamma_int_shape ps) (map snd ps) ts))
             (map (fun x => (0, x)) xs) (rprod (map (fun q => gamma_int_cdf1 (fst (fst q)) (snd (fst q)) (snd q)) (combine ps xs)))).
Proof.
  split.
  - intros ps H. split; [intros T HT; apply gamma_int_box_mass; assumption | apply gamma_int_box_normalised; exact H].
  - exact gamma_int_cdf_nd.
Qed.
Print Assumptions C04_gamma_int_normalised_nd.

Theorem C04_beta_int_normalised_nd :
  (forall ps : list (nat * nat),
  is_box_int (fun xs => exp (beta_logpdf (map beta_int_ga ps) (map beta_int_gb ps) (map beta_int_gab ps)
                                         (map beta_int_alpha ps) (map beta_int_beta ps) xs))
             (map (fun _ => (0, 1)) ps) 1) /\
  (forall (ps : list (nat * nat)) (xs : list R), length xs = length ps ->
  Forall (fun x => 0 < x <= 1) xs ->
  is_box_int (fun ts => exp (beta_logpdf (map beta_int_ga ps) (map beta_int_gb ps) (map beta_int_gab ps)
                                         (map beta_int_alpha ps) (map beta_int_beta ps) ts))
             (map (fun x => (0, x)) xs) (rprod (map (fun q => beta_int_cdf1 (fst (fst q)) (snd (fst q)) (snd q)) (combine ps xs)))).
Proof.
  split.
  - exact beta_int_box_normalised.
  - exact beta_int_cdf_nd.
Qed.
Print Assumptions C04_beta_int_normalised_nd.

(* non-vacuity of the n-dimensional theorems: a 2-d Normal with scalar mean and vector std over a box, a 2-d Gamma (shapes 2 and 1),
   a 2-d Beta, a 1-d InverseGamma and a SmoothedLaplace instance satisfy the hypotheses *)
Example C04_nonvacuous_nd :
  (exists v, is_box_int (fun xs => exp (normal_logpdf (0 :: nil) (1 :: 2 :: nil) xs)) ((-1, 1) :: (0, 2) :: nil) v) /\
  (exists v, is_box_int (fun xs => exp (gamma_logpdf (map gamma_int_g ((1%nat, 2) :: (0%nat, 3) :: nil)) (map gamma_int_shape ((1%nat, 2) :: (0%nat, 3) :: nil))
                                                     (map snd ((1%nat, 2) :: (0%nat, 3) :: nil)) xs)) ((0, 5) :: (0, 5) :: nil) v) /\
  is_box_int (fun xs => exp (beta_logpdf (map beta_int_ga ((1%nat, 2%nat) :: (0%nat, 0%nat) :: nil)) (map beta_int_gb ((1%nat, 2%nat) :: (0%nat, 0%nat) :: nil))
                                         (map beta_int_gab ((1%nat, 2%nat) :: (0%nat, 0%nat) :: nil)) (map beta_int_alpha ((1%nat, 2%nat) :: (0%nat, 0%nat) :: nil))
                                         (map beta_int_beta ((1%nat, 2%nat) :: (0%nat, 0%nat) :: nil)) xs)) ((0, 1) :: (0, 1) :: nil) 1 /\
  is_lim (fun T => rprod (map (invgamma_mass1 T) ((2%nat, -1, 3) :: nil))) p_infty 1 /\
  0 < slap_gap 0 1 1.
Proof.
  split; [eexists; apply (normal_box_mass (0 :: nil) (1 :: 2 :: nil) ((-1, 1) :: (0, 2) :: nil)); [left; reflexivity | right; reflexivity | repeat constructor; lra]|].
  split; [eexists; apply (gamma_int_box_mass ((1%nat, 2) :: (0%nat, 3) :: nil) 5); [lra | repeat constructor; cbn; lra]|].
  split; [exact (beta_int_box_normalised ((1%nat, 2%nat) :: (0%nat, 0%nat) :: nil))|].
  split; [apply invgamma_int_box_normalised; repeat constructor; cbn; lra|].
  apply slap_gap_pos; lra.
Qed.
