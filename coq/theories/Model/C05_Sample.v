(* C05 -- executable model of direct sampling in cuqi.distribution (exact part, over Q).
   Gaussian._sample (solver selection), GMRF._sample (per boundary condition), the wrapper
   Distribution.sample, which numpy/scipy generator each univariate family calls with which of its
   fields, and the RNG call-site facts produced by the translator harness/tr_rngflow.py.
   No proofs here.  The real-valued part (densities, MHN acceptance ratios) is Model/C05_SampleR.v.

   External numerics (solve, spsolve, solve_triangular, Cholesky, eigsh, dft, sqrt) never run inside the
   model: the harness supplies what the implementation computed (the affine map read off with scripted
   normals 0, e_i; the stored factors) as CERTIFICATES and the model checks the law the external
   routine is assumed to satisfy exactly over Q (S_eff * T = I, L * L^T = P, r*r = prec, ...). *)
From CV Require Import Base.Tac Base.Cmp Base.LinAlg.
From Coq Require Import QArith Qabs.
From Coq Require String.
Open Scope Q_scope.

Definition Qvec := list Q.
Definition Qmat := list (list Q).

(* ---------------- small exact linear algebra on lists of Q ---------------- *)
(* exact dot product.  Each vector is first brought to a common denominator (the lcm of its denominators: for binary
   floats the largest power of two), so that the sum of products is plain integer arithmetic; zero entries of the first
   vector are skipped (banded / sparse rows).  This keeps 77 x 77 products of binary floats cheap under vm_compute. *)
Definition common_den (v : Qvec) : positive :=
  fold_right (fun q acc => Z.to_pos (Z.lcm (Zpos (Qden q)) (Zpos acc))) 1%positive v.
Definition scaled (v : Qvec) : list Z * positive :=
  let D := common_den v in (map (fun q => (Qnum q * (Zpos D / Zpos (Qden q)))%Z) v, D).
Fixpoint zdot_acc (acc : Z) (x y : list Z) : Z :=
  match x, y with
  | a :: x', b :: y' => if (a =? 0)%Z then zdot_acc acc x' y' else zdot_acc (acc + a * b)%Z x' y'
  | _, _ => acc
  end.
Definition sdot (x y : list Z * positive) : Q := Qred (zdot_acc 0%Z (fst x) (fst y) # (snd x * snd y)).
Definition qdot (x y : Qvec) : Q := sdot (scaled x) (scaled y).
Definition qmv (A : Qmat) (x : Qvec) : Qvec := map (fun r => qdot r x) A.
Definition qcol (A : Qmat) (j : nat) : Qvec := map (fun r => nth j r 0) A.
Definition ncols (A : Qmat) : nat := match A with [] => O | r :: _ => length r end.
Definition qtr (A : Qmat) : Qmat := map (qcol A) (seq 0 (ncols A)).
Definition qmm (A B : Qmat) : Qmat :=
  let Bs := map scaled (qtr B) in map (fun r => let rs := scaled r in map (fun c => sdot rs c) Bs) A.
Definition qvadd (x y : Qvec) : Qvec := vadd Qplus x y.
Definition qvscale (c : Q) (x : Qvec) : Qvec := map (fun a => Qred (c * a)) x.
Definition qmscale (c : Q) (A : Qmat) : Qmat := map (qvscale c) A.
Definition qmadd (A B : Qmat) : Qmat := map (fun p => qvadd (fst p) (snd p)) (combine A B).
Definition qid (n : nat) : Qmat :=
  map (fun i => map (fun j => if (i =? j)%nat then 1 else 0) (seq 0 n)) (seq 0 n).
Definition qdiag (d : Qvec) : Qmat :=
  map (fun i => map (fun j => if (i =? j)%nat then nth i d 0 else 0) (seq 0 (length d))) (seq 0 (length d)).
(* A * diag(w): scale column j by w_j *)
Definition qcolscale (A : Qmat) (w : Qvec) : Qmat :=
  map (fun r => map (fun p => Qred (fst p * snd p)) (combine r w)) A.
Definition hcat (A B : Qmat) : Qmat := map (fun p => fst p ++ snd p) (combine A B).

Fixpoint imap_aux {A B} (f : nat -> A -> B) (k : nat) (l : list A) : list B :=
  match l with [] => [] | a :: r => f k a :: imap_aux f (S k) r end.
Definition imap {A B} (f : nat -> A -> B) (l : list A) : list B := imap_aux f O l.

Definition triu (S : Qmat) : Qmat := imap (fun i r => imap (fun j x => if (j <? i)%nat then 0 else x) r) S.
Definition tril (S : Qmat) : Qmat := imap (fun i r => imap (fun j x => if (i <? j)%nat then 0 else x) r) S.

Definition is_square (S : Qmat) : bool := forallb (fun r => (length r =? length S)%nat) S.
Definition has_shape (m n : nat) (A : Qmat) : bool := (length A =? m)%nat && forallb (fun r => (length r =? n)%nat) A.

(* entrywise |a - b| <= tol * (1 + |b|), shapes equal *)
Definition mat_close (tol : Q) (A B : Qmat) : bool := qll_close tol A B.

(* ---------------- Gaussian._sample ---------------- *)
(* np.allclose(S, np.tril(S)), default rtol = 1e-5, atol = 1e-8: entries on and below the diagonal
   compare equal to themselves; an entry above the diagonal is compared with 0:  |s| <= atol + rtol*0 *)
Definition allclose_zero (x : Q) : bool := Qle_bool (Qabs x) (1 # 100000000).
Definition is_lower (S : Qmat) : bool :=
  forallb (fun b : bool => b)
    (imap (fun i r => forallb (fun b : bool => b)
                        (imap (fun j x => if (i <? j)%nat then allclose_zero x else true) r)) S).

Inductive branch := BSparse | BTri | BGeneral.
Definition gauss_branch (sparse : bool) (S : Qmat) : branch :=
  if sparse then BSparse else if is_lower S then BTri else BGeneral.

(* The matrix the selected solver actually inverts.
   fixed = false: the code as it stands, `splinalg.solve_triangular(self.sqrtprec, e)` -- scipy's default is
                  lower=False, so only the UPPER triangle of the (lower-triangular) matrix is read;
   fixed = true : the proposed repair (fixes/C05_gaussian_tri_solve.diff), lower=True. *)
Definition gauss_eff (fixed sparse : bool) (S : Qmat) : Qmat :=
  match gauss_branch sparse S with
  | BTri => if fixed then tril S else triu S
  | _ => S
  end.

(* `self.mean[:, None] + perturbation`: a one-element mean broadcasts over the rows *)
Definition bmean (n : nat) (mean : Qvec) : Qvec := match mean with [m] => repeat m n | _ => mean end.

(* s = mean + T e  with  S_eff T = I  (T is the certificate read off the implementation) *)
Definition gauss_ok (fixed sparse : bool) (mean : Qvec) (S : Qmat) (off : Qvec) (T : Qmat) : bool :=
  is_square S && ql_eqb off (bmean (length S) mean) && has_shape (length S) (length S) T &&
  mat_close tol9 (qmm (gauss_eff fixed sparse S) T) (qid (length S)).

(* a draw for the scripted normal vector z is  off + T z *)
Definition affine_draw (off : Qvec) (T : Qmat) (z : Qvec) : Qvec := qvadd off (qmv T z).

(* stored square root for the sqrtprec parameterisation (get_sqrtprec_from_sqrtprec): scalar -> s*I,
   vector -> diag, matrix -> itself *)
Inductive sp_form := SPscalar (s : Q) | SPvector (v : Qvec) | SPmatrix (M : Qmat).
Definition stored_sqrtprec (n : nat) (f : sp_form) : Qmat :=
  match f with SPscalar s => qdiag (repeat s n) | SPvector v => qdiag v | SPmatrix M => M end.

(* ---------------- GMRF._sample ---------------- *)
Inductive bc := Zero | Neumann | Periodic.
(* sqrt(np.finfo(float).eps) = 2^-26 exactly *)
Definition sqrt_eps : Q := 1 # 67108864.

(* the difference operator GMRF builds (cuqi.operator First/SecondOrderFiniteDifference as GMRF calls them, dx = 1), computed
   by the model itself.  order 0: identity ("none").  1-d matrices by index; 2-d: vstack(kron(I, D), kron(D, I)). *)
Definition qz (z : Z) : Q := inject_Z z.
Definition mat_of (m n : nat) (f : nat -> nat -> Z) : Qmat := map (fun i => map (fun j => qz (f i j)) (seq 0 n)) (seq 0 m).
Definition diff1d (b : bc) (order n : nat) : Qmat :=
  match order with
  | O => qid n
  | S O =>
      match b with
      | Zero => mat_of (n + 1) n (fun i j => if (i =? j)%nat then 1 else if (i =? j + 1)%nat then (-1) else 0)%Z
      | Periodic => mat_of (n + 1) n (fun i j =>
                      if (i =? n)%nat && (j =? 0)%nat then 1                       (* Dmat[-1, 0] = 1 *)
                      else if (i =? 0)%nat && (j =? n - 1)%nat then (-1)           (* Dmat[0, -1] = -1 *)
                      else if (i =? j)%nat then 1 else if (i =? j + 1)%nat then (-1) else 0)%Z
      | Neumann => mat_of (n - 1) n (fun i j => if (i =? j)%nat then (-1) else if (i + 1 =? j)%nat then 1 else 0)%Z
      end
  | _ =>
      match b with
      | Zero => mat_of (n + 2) n (fun i j => if (i =? j)%nat then (-1) else if (i =? j + 1)%nat then 2
                                             else if (i =? j + 2)%nat then (-1) else 0)%Z
      | Periodic => mat_of (n + 2) n (fun i j =>
                      if (i =? 0)%nat && (j =? n - 2)%nat then (-1)                (* Dmat[0, -2] = -1 *)
                      else if (i =? 0)%nat && (j =? n - 1)%nat then 2              (* Dmat[0:2, -1] = [2, -1] *)
                      else if (i =? 1)%nat && (j =? n - 1)%nat then (-1)
                      else if (i =? n)%nat && (j =? 0)%nat then (-1)               (* Dmat[-2, 0] = -1 *)
                      else if (i =? n + 1)%nat && (j =? 0)%nat then 2              (* Dmat[-1, 0:2] = [2, -1] *)
                      else if (i =? n + 1)%nat && (j =? 1)%nat then (-1)
                      else if (i =? j)%nat then (-1) else if (i =? j + 1)%nat then 2
                      else if (i =? j + 2)%nat then (-1) else 0)%Z
      | Neumann => mat_of (n - 2) n (fun i j => if (i =? j)%nat then (-1) else if (i + 1 =? j)%nat then 2
                                                else if (i + 2 =? j)%nat then (-1) else 0)%Z
      end
  end.
(* Kronecker product of list matrices *)
Definition kron (A B : Qmat) : Qmat :=
  concat (map (fun ra => map (fun rb => concat (map (fun a => map (fun x => Qred (a * x)) rb) ra)) B) A).
Definition diffop (b : bc) (order : nat) (two_d : bool) (n : nat) : Qmat :=    (* n = nodes per axis *)
  if two_d then kron (qid n) (diff1d b order n) ++ kron (diff1d b order n) (qid n)    (* order 0: [I; I], so P = 2I *)
  else diff1d b order n.
Definition check_diffop (b : bc) (order : nat) (two_d : bool) (n : nat) (D : Qmat) : bool := qll_eqb (diffop b order two_d n) D.

(* certificates: r = sqrt(prec); L = self._chol (lower, dense copy); P = self._prec_op matrix;
   D = self._diff_op matrix.  T is read off with scripted normals.
   zero   : s = mean + (1/r) spsolve(L^T, xi)                      L L^T = P        =>  r L^T T = I
   neumann: s = mean + (1/r) spsolve(L^T, spsolve(L, D^T xi))      L L^T = P + sqrt(eps) I  =>  r (L L^T) T = D^T *)
Definition sqrt_cert (prec r : Q) : bool := Qle_bool 0 r && negb (Qeq_bool r 0) && q_close tol12 (r * r) prec.

Definition gmrf_common (n : nat) (mean : Qvec) (prec r : Q) (P D : Qmat) (off : Qvec) : bool :=
  sqrt_cert prec r && has_shape n n P && qll_eqb (qmm (qtr D) D) P && ql_eqb off (bmean n mean).

Definition gmrf_zero_ok (n : nat) (mean : Qvec) (prec r : Q) (P D L : Qmat) (off : Qvec) (T : Qmat) : bool :=
  gmrf_common n mean prec r P D off && has_shape n n L && qll_eqb L (tril L) && has_shape n n T &&
  mat_close tol9 (qmm L (qtr L)) P &&
  mat_close tol9 (qmm (qtr L) (qmscale r T)) (qid n).

Definition gmrf_neumann_ok (n : nat) (mean : Qvec) (prec r : Q) (P D L : Qmat) (off : Qvec) (T : Qmat) : bool :=
  gmrf_common n mean prec r P D off && has_shape n n L && qll_eqb L (tril L) && has_shape n (length D) T &&
  mat_close tol12 (qmm L (qtr L)) (qmadd P (qmscale sqrt_eps (qid n))) &&
  mat_close tol9 (qmm (qmm L (qtr L)) (qmscale r T)) (qtr D).

(* periodic: F = dft(n, 'sqrtn') = Fre + i Fim (symmetric), eigv = hstack([L_eigval, L_eigval[-1]]) with
   L_eigval the dim-1 largest eigenvalues AS eigsh RETURNS THEM, w_k = 1/sqrt(eigv_k):
   s = mean + (1/r) Re( conj(F) ((xi1 + i xi2) w) ) = mean + (1/r) (Fre W xi1 + Fim W xi2),   T is n x 2n *)
Definition eigv_code (ev : Qvec) : Qvec := ev ++ [last ev 0].
Definition invsqrt_cert (ev w : Qvec) : bool :=
  (length ev =? length w)%nat &&
  forallb (fun p => Qle_bool 0 (snd p) && q_close tol9 (snd p * snd p * fst p) 1) (combine ev w).
Definition gmrf_periodic_T (r : Q) (Fre Fim : Qmat) (w : Qvec) : Qmat :=
  qmscale (/ r) (hcat (qcolscale Fre w) (qcolscale Fim w)).
Definition gmrf_periodic_ok (n : nat) (mean : Qvec) (prec r : Q) (P D Fre Fim : Qmat) (ev w : Qvec)
           (off : Qvec) (T : Qmat) : bool :=
  gmrf_common n mean prec r P D off && (length ev =? n - 1)%nat && invsqrt_cert (eigv_code ev) w &&
  has_shape n n Fre && has_shape n n Fim && has_shape n (2 * n) T &&
  mat_close tol9 T (gmrf_periodic_T r Fre Fim w).

(* sample covariance implied by the affine map (prec-scaled): C = T T^T ; the density's precision is prec*P.
   "sampler agrees with density"  <=>  (prec P) C (prec P) = prec P   (for invertible P: C = (prec P)^-1) *)
Definition cov_of (T : Qmat) : Qmat := qmm T (qtr T).
Definition cov_matches (tol prec : Q) (P T : Qmat) : bool :=
  let A := qmscale prec P in mat_close tol (qmm (qmm A (cov_of T)) A) A.

(* one draw, N = 1.
   zero: `self.mean + (1/r) spsolve(...)` with a 1-d solve result: a vector.
   neumann/periodic AS THE CODE STANDS: `self.mean[:, np.newaxis] + (1/r) spsolve(...)` where spsolve returns a
   1-d array for a single right-hand side: (n,1) + (n,) broadcasts to an n x n array  M_ij = mean_i + p_j ;
   with the proposed repair (fixes/C05_gmrf_single_draw.diff) it is the n x 1 column mean + p. *)
Definition outer_add (mean p : Qvec) : Qmat := map (fun m => map (fun x => Qred (m + x)) p) mean.
Definition column (v : Qvec) : Qmat := map (fun x => [x]) v.
Definition gmrf_raw1 (fixed : bool) (b : bc) (n : nat) (mean : Qvec) (p : Qvec) : Qmat :=
  match b with
  | Zero => column (qvadd (bmean n mean) p)
  | _ => if fixed then column (qvadd (bmean n mean) p) else outer_add mean p      (* a one-element mean gives 1 x n *)
  end.

(* ---------------- Distribution.sample (the wrapper) ---------------- *)
Inductive raw := Raw1 (v : Qvec) | Raw2 (m : Qmat).        (* what _sample returned: 1-d or 2-d array *)
Inductive wrapped :=
| WRefused                      (* ValueError: conditional distribution *)
| WScalar (x : Q)               (* CUQIarray holding a single value *)
| WArray (v : Qvec)             (* CUQIarray, 1-d *)
| WSamples (s : raw).           (* Samples object holding the array unchanged, draws along the last axis *)

Definition raw_len (s : raw) : nat := match s with Raw1 v => length v | Raw2 m => length m end.
Definition raw_flat (s : raw) : Qvec := match s with Raw1 v => v | Raw2 m => concat m end.

Definition sample_wrap (is_cond : bool) (N : nat) (s : raw) : wrapped :=
  if is_cond then WRefused
  else if (N =? 1)%nat then
         (if (raw_len s =? 1)%nat then match raw_flat s with x :: _ => WScalar x | [] => WArray [] end
          else WArray (raw_flat s))
       else WSamples s.

(* draw j of a Samples object = column j *)
Definition draw (s : raw) (j : nat) : Qvec := match s with Raw1 v => [nth j v 0] | Raw2 m => qcol m j end.

(* ---------------- univariate families: which generator, with which fields ---------------- *)
Notation string := String.string.
Import String.StringSyntax.
Open Scope string_scope.
Record gen_call := GC { g_api : string; g_name : string; g_args : list Qvec; g_N : nat; g_dim : nat }.

(* params in the order of the family's constructor *)
Definition wiring (family : string) (params : list Qvec) (N dim : nat) : option gen_call :=
  let p := fun k => nth k params [] in
  if String.eqb family "Normal" then Some (GC "numpy" "normal" [p 0%nat; p 1%nat] N dim)              (* loc=mean, scale=std *)
  else if String.eqb family "Laplace" then Some (GC "numpy" "laplace" [p 0%nat; p 1%nat] N dim)        (* loc=location, scale=scale *)
  else if String.eqb family "Uniform" then Some (GC "numpy" "uniform" [p 0%nat; p 1%nat] N dim)        (* low, high *)
  else if String.eqb family "Gamma" then
         Some (GC "numpy" "gamma" [p 0%nat; map (fun r => Qred (/ r)) (p 1%nat)] N dim)                (* shape, scale = 1/rate *)
  else if String.eqb family "InverseGamma" then
         Some (GC "scipy" "invgamma" [p 0%nat; p 1%nat; p 2%nat] N dim)                               (* a=shape, loc=location, scale=scale *)
  else if String.eqb family "Beta" then Some (GC "scipy" "beta" [p 0%nat; p 1%nat] N dim)              (* a=alpha, b=beta *)
  else if String.eqb family "Cauchy" then Some (GC "scipy" "cauchy" [p 0%nat; p 1%nat] N dim)          (* loc=location, scale=scale *)
  else None.

Definition qvec_close (tol : Q) (a b : Qvec) := ql_close tol a b.
Definition gen_call_eqb (a b : gen_call) : bool :=
  String.eqb (g_api a) (g_api b) && String.eqb (g_name a) (g_name b) &&
  list_eqb (qvec_close tol12) (g_args a) (g_args b) && (g_N a =? g_N b)%nat && (g_dim a =? g_dim b)%nat.

(* the generator returns an N x dim array G; _sample returns G^T (dim x N) *)
Definition univariate_raw (G : Qmat) : raw := Raw2 (qtr G).

(* ---------------- RNG data flow (facts extracted by harness/tr_rngflow.py) ---------------- *)
Inductive src :=
| SGlobal        (* np.random.<gen>(...), or scipy .rvs(...) without random_state=rng *)
| SRng           (* rng.<gen>(...), or scipy .rvs(..., random_state=rng) *)
| SDelegate      (* call of another analysed sampling method that is handed `rng` *)
| SDelegateNoRng (* call of another sampling method WITHOUT handing over `rng` *)
| SOpaque.       (* call of a user-supplied callable that cannot receive rng *)
Inductive guard :=
| GAlways        (* reached whatever rng is *)
| GRngGiven      (* only inside `if rng is not None:` (or the else of `if rng is None`) *)
| GRngAbsent.    (* only inside the branch taken when rng is None *)
Record site := Site { s_meth : string; s_src : src; s_guard : guard; s_what : string }.

Definition reached (given : bool) (s : site) : bool :=
  match s_guard s with GAlways => true | GRngGiven => given | GRngAbsent => negb given end.
Definition uses_global (s : site) : bool :=
  match s_src s with SGlobal | SDelegateNoRng | SOpaque => true | SRng | SDelegate => false end.
Definition draws (s : site) : bool := match s_src s with SDelegate => false | _ => true end.
Definition site_ok (s : site) : bool := negb (reached true s) || negb (uses_global s).
Definition isolated (l : list site) : bool := forallb site_ok l.
Definition of_method (m : string) (l : list site) : list site := filter (fun s => String.eqb (s_meth s) m) l.
Definition not_method (m : string) (l : list site) : list site := filter (fun s => negb (String.eqb (s_meth s) m)) l.

(* abstract execution: two streams, positions, the values drawn so far.  Control flow (loops of the rejection
   samplers, branches) is an arbitrary function of the values drawn so far that picks the next site. *)
Definition stream := nat -> Q.
Record rstate := RS { gpos : nat; rpos : nat; outs : list Q }.
Definition step (given : bool) (g r : stream) (s : site) (x : rstate) : rstate :=
  if reached given s && draws s then
    (if uses_global s then RS (S (gpos x)) (rpos x) (outs x ++ [g (gpos x)])
     else RS (gpos x) (S (rpos x)) (outs x ++ [r (rpos x)]))
  else x.
Fixpoint run (fuel : nat) (given : bool) (g r : stream) (ctrl : list Q -> option site) (x : rstate) : rstate :=
  match fuel with
  | O => x
  | S f => match ctrl (outs x) with
           | None => x
           | Some s => run f given g r ctrl (step given g r s x)
           end
  end.

(* ---------------- boolean checkers used by the generated case files ---------------- *)
Close Scope string_scope.

(* Gaussian: green in either state of the proposed repair (the independent oracle of the harness reports the defect
   itself on the unrepaired tree) *)
(* third state: fixes/C05_gaussian_exact_triangular_test.diff replaces the tolerance test by an exact one (atol = 0); the
   triangular solve is then only applied to exactly lower-triangular matrices, i.e. the solver always inverts S itself *)
Definition gauss_ok_exact (sparse : bool) (mean : Qvec) (S : Qmat) (off : Qvec) (T : Qmat) : bool :=
  is_square S && ql_eqb off (bmean (length S) mean) && has_shape (length S) (length S) T &&
  mat_close tol9 (qmm S T) (qid (length S)).
(* (if-then-else, not ||: under vm_compute the arguments of orb would all be evaluated, i.e. three 77 x 77 products per case) *)
Definition check_gauss (sparse : bool) (mean : Qvec) (S : Qmat) (off : Qvec) (T : Qmat) : bool :=
  if gauss_ok_exact sparse mean S off T then true
  else if gauss_ok true sparse mean S off T then true
  else gauss_ok false sparse mean S off T.
(* EXACT cells: diagonal and triangular matrices with power-of-two diagonals and small dyadic entries, for which every
   floating-point solve is exact: the read-off map must be the exact inverse of the stored square root, no tolerance *)
Definition check_gauss_exact (mean : Qvec) (S : Qmat) (off : Qvec) (T : Qmat) : bool :=
  is_square S && ql_eqb off (bmean (length S) mean) && has_shape (length S) (length S) T &&
  qll_eqb (qmm S T) (qid (length S)) && qll_eqb (qmm T S) (qid (length S)).
Definition check_draw_exact (off : Qvec) (T : Qmat) (z obs : Qvec) : bool := ql_eqb obs (affine_draw off T z).
Definition check_gauss_state (sparse : bool) (mean : Qvec) (S : Qmat) (off : Qvec) (T : Qmat) : nat :=
  (if gauss_ok false sparse mean S off T then 1 else 0) + (if gauss_ok true sparse mean S off T then 2 else 0).
Definition check_stored (n : nat) (f : sp_form) (S : Qmat) : bool := qll_eqb (stored_sqrtprec n f) S.
Definition check_draw (off : Qvec) (T : Qmat) (z obs : Qvec) : bool := ql_close tol9 obs (affine_draw off T z).
(* Lognormal: ln(draw) is the Gaussian draw *)
Definition check_lognormal (off : Qvec) (T : Qmat) (z lnobs : Qvec) : bool := ql_close tol9 lnobs (affine_draw off T z).

Definition check_gmrf_zero := gmrf_zero_ok.
Definition check_gmrf_neumann := gmrf_neumann_ok.
Definition check_gmrf_periodic := gmrf_periodic_ok.
(* N = 1 through _sample: p = T z is what the solves return; either state of the repair *)
Definition check_gmrf_raw1 (b : bc) (n : nat) (mean : Qvec) (T : Qmat) (z : Qvec) (obs : Qmat) : bool :=
  (* tol6: two separate solves against the sqrt(eps)-regularised (condition ~ 1e8) neumann matrix are compared *)
  if mat_close tol6 obs (gmrf_raw1 true b n mean (qmv T z)) then true else mat_close tol6 obs (gmrf_raw1 false b n mean (qmv T z)).

Definition raw_eqb (a b : raw) : bool :=
  match a, b with Raw1 x, Raw1 y => ql_eqb x y | Raw2 x, Raw2 y => qll_eqb x y | _, _ => false end.
Definition wrapped_eqb (a b : wrapped) : bool :=
  match a, b with
  | WRefused, WRefused => true
  | WScalar x, WScalar y => Qeq_bool x y
  | WArray x, WArray y => ql_eqb x y
  | WSamples x, WSamples y => raw_eqb x y
  | _, _ => false
  end.
Definition check_wrap (is_cond : bool) (N : nat) (s : raw) (obs : wrapped) : bool :=
  wrapped_eqb (sample_wrap is_cond N s) obs.

Definition check_wiring (family : string) (params : list Qvec) (N dim : nat) (obs : gen_call) (G : Qmat) (rawobs : Qmat) : bool :=
  match wiring family params N dim with
  | Some c => gen_call_eqb c obs && raw_eqb (univariate_raw G) (Raw2 rawobs)
  | None => false
  end.
