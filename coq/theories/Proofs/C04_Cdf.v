(* C04 -- proofs, part 6: cumulative distribution functions.  The model states Normal.cdf, and Gamma / Beta / InverseGamma
   cdfs for integer shapes, as integrals of the documented densities (the closed forms the code calls -- erf, regularised
   incomplete gamma / beta -- are not available in the installed libraries; the equality "code = integral" is tied by the
   correspondence: Interval's `integral` encloses the model value around the observed one).  Here: d/dx cdf = pdf and
   cdf(b) - cdf(a) = integral of the pdf (Normal), the closed form of the Gamma cdf for integer shape (integration by
   parts by induction on the shape). *)
From CV Require Import Base.Tac Model.C04_Dens Model.C04_Cdf Proofs.C04_Dens.
From Coq Require Import Reals Lra.
From Coquelicot Require Import Coquelicot.
Local Open Scope R_scope.

Lemma std_normal_pdf_cont t : continuous std_normal_pdf t.
Proof.
  apply (ex_derive_continuous std_normal_pdf). unfold std_normal_pdf. pose proof sqrt_2PI_pos.
  auto_derive. lra.
Qed.

Lemma std_normal_cdf_derive z : is_derive (fun z => RInt std_normal_pdf 0 z) z (std_normal_pdf z).
Proof.
  apply (is_derive_RInt std_normal_pdf (fun z => RInt std_normal_pdf 0 z) 0 z).
  - apply filter_forall. intros y. apply (@RInt_correct R_CompleteNormedModule std_normal_pdf 0 y).
    apply ex_RInt_continuous. intros t _. apply std_normal_pdf_cont.
  - apply std_normal_pdf_cont.
Qed.

Lemma std_normal_pdf_scale m s x : 0 < s -> std_normal_pdf ((x - m) / s) / s = normal_pdf1 (m, s, x).
Proof.
  intros Hs. unfold std_normal_pdf, normal_pdf1. pose proof sqrt_2PI_pos.
  replace (- ((x - m) / s * ((x - m) / s)) / 2) with (- / 2 * ((x - m) / s) ^ 2) by (field; lra).
  field. lra.
Qed.

(* the derivative of the Normal cdf factor is the Normal pdf factor *)
Theorem normal_cdf1_derive m s x : 0 < s ->
  is_derive (fun t => normal_cdf1 (m, s, t)) x (normal_pdf1 (m, s, x)).
Proof.
  intros Hs. unfold normal_cdf1. rewrite <- std_normal_pdf_scale by exact Hs.
  evar_last.
  - apply (is_derive_plus (fun _ => / 2) (fun t => RInt std_normal_pdf 0 ((t - m) / s)) x).
    + apply is_derive_const.
    + apply (is_derive_comp (fun z => RInt std_normal_pdf 0 z) (fun t => (t - m) / s) x).
      * apply std_normal_cdf_derive.
      * auto_derive; [exact I | reflexivity].
  - unfold plus, zero, scal, mult; cbn. unfold mult; cbn. field. lra.
Qed.

Lemma normal_pdf1_cont m s x : 0 < s -> continuous (fun t => normal_pdf1 (m, s, t)) x.
Proof.
  intros Hs. apply (ex_derive_continuous (fun t => normal_pdf1 (m, s, t))). unfold normal_pdf1. pose proof sqrt_2PI_pos.
  assert (0 < s * sqrt (2 * PI)) by (apply Rmult_lt_0_compat; lra).
  auto_derive. repeat split; lra.
Qed.

(* the cdf is the integral of the density *)
Theorem normal_cdf1_is_integral m s a b : 0 < s ->
  is_RInt (fun t => normal_pdf1 (m, s, t)) a b (normal_cdf1 (m, s, b) - normal_cdf1 (m, s, a)).
Proof.
  intros Hs.
  apply (is_RInt_derive (fun t => normal_cdf1 (m, s, t)) (fun t => normal_pdf1 (m, s, t))).
  - intros x _. apply normal_cdf1_derive. exact Hs.
  - intros x _. apply normal_pdf1_cont. exact Hs.
Qed.

(* the standardised form used by the case files is the same number *)
Theorem normal_cdf_z_spec mean std x :
  normal_cdf mean std x = normal_cdf_z (map (fun a : R * R * R => let '(m, s, t) := a in (t - m) / s) (normal_args mean std x)).
Proof.
  unfold normal_cdf, normal_cdf_z. rewrite map_map. f_equal. apply map_ext. intros [[m s] t]. reflexivity.
Qed.

(* ---------- Gamma with integer shape k+1: closed form of the cdf by integration by parts (induction on k) ---------- *)
Fixpoint esum (k : nat) (y : R) : R :=            (* sum_{i <= k} y^i / i! *)
  match k with O => 1 | S k' => esum k' y + y ^ (S k') / INR (fact (S k')) end.

Lemma INR_fact_pos k : 0 < INR (fact k).
Proof. apply lt_0_INR. apply lt_O_fact. Qed.

Lemma esum_derive k r t : is_derive (fun t => esum k (r * t)) t (match k with O => 0 | S k' => r * esum k' (r * t) end).
Proof.
  induction k as [|k IH]; cbn [esum].
  - evar_last; [apply is_derive_const | reflexivity].
  - evar_last.
    + apply (is_derive_plus (fun t => esum k (r * t)) (fun t => (r * t) ^ (S k) / INR (fact (S k))) t); [exact IH|].
      pose proof (INR_fact_pos (S k)). auto_derive; [exact I | reflexivity].
    + unfold plus; cbn. destruct k as [|k]; cbn [esum].
      * cbn. field.
      * pose proof (INR_fact_pos (S k)) as Hf. assert (H1 : 0 < INR (S k) + 1) by (rewrite <- S_INR; apply lt_0_INR; lia).
        replace (INR (fact (S k) + S k * fact (S k))) with ((INR (S k) + 1) * INR (fact (S k))).
        2:{ rewrite <- S_INR, <- mult_INR. f_equal; try ring. }
        cbn [pred]. first [ field; split; lra | field; lra | field ].
Qed.

Lemma gamma_int_antiderivative k r t :
  is_derive (fun t => - exp (- r * t) * esum k (r * t)) t (gamma_int_pdf k r t).
Proof.
  evar_last.
  - apply (is_derive_mult (fun t => - exp (- r * t)) (fun t => esum k (r * t)) t).
    + auto_derive; [exact I | reflexivity].
    + apply esum_derive.
    + intros a b. apply Rmult_comm.
  - unfold plus, mult; cbn. unfold gamma_int_pdf. pose proof (INR_fact_pos k).
    destruct k as [|k]; cbn [esum].
    + cbn. field.
    + pose proof (INR_fact_pos (S k)). rewrite Rpow_mult_distr. rewrite <- (tech_pow_Rmult r (S k)).
      generalize (r ^ S k) (t ^ S k) (esum k (r * t)) (exp (- r * t)). intros a b e E. field. lra.
Qed.

Lemma gamma_int_pdf_cont k r t : continuous (gamma_int_pdf k r) t.
Proof.
  apply (ex_derive_continuous (gamma_int_pdf k r)). unfold gamma_int_pdf. pose proof (INR_fact_pos k).
  auto_derive. lra.
Qed.

(* P(X <= x) = 1 - exp(-r x) sum_{i <= k} (r x)^i / i!   for X ~ Gamma(shape k+1, rate r) *)
Theorem gamma_int_cdf_closed k r x :
  gamma_int_cdf1 k r x = 1 - exp (- r * x) * esum k (r * x).
Proof.
  unfold gamma_int_cdf1. apply is_RInt_unique.
  evar_last.
  - apply (is_RInt_derive (fun t => - exp (- r * t) * esum k (r * t)) (gamma_int_pdf k r)).
    + intros t _. apply gamma_int_antiderivative.
    + intros t _. apply gamma_int_pdf_cont.
  - unfold minus, plus, opp; cbn.
    assert (E : esum k 0 = 1).
    { clear. induction k as [|k IH]; cbn [esum]; [reflexivity|]. rewrite IH. rewrite pow_i by lia. unfold Rdiv. lra. }
    replace (- r * 0) with 0 by ring. replace (r * 0) with 0 by ring. rewrite exp_0, E. lra.
Qed.

Theorem gamma_int_cdf_derive k r x : is_derive (gamma_int_cdf1 k r) x (gamma_int_pdf k r x).
Proof.
  unfold gamma_int_cdf1.
  apply (is_derive_RInt (gamma_int_pdf k r) (fun z => RInt (gamma_int_pdf k r) 0 z) 0 x).
  - apply filter_forall. intros y. apply (@RInt_correct R_CompleteNormedModule (gamma_int_pdf k r) 0 y).
    apply ex_RInt_continuous. intros t _. apply gamma_int_pdf_cont.
  - apply gamma_int_pdf_cont.
Qed.

(* the integer-shape Gamma density of the cdf model is the documented Gamma density (Gamma(k+1) = k!) on x > 0 *)
Theorem gamma_int_pdf_doc k r x : 0 < r -> 0 < x ->
  gamma_int_pdf k r x = gamma_pdf1 (INR (fact k)) (INR (S k)) r x.
Proof.
  intros Hr Hx. unfold gamma_int_pdf, gamma_pdf1.
  rewrite <- !Rpower_pow by assumption.
  replace (INR (S k) - 1) with (INR k) by (rewrite S_INR; ring). reflexivity.
Qed.
