(* C13 -- generic list lemmas: columns of a row-major (rows x k) matrix, gather, omap_list. *)
From CV Require Import Base.Tac Base.Cmp Model.C13_Geom.

Lemma nth_map_seq {B} (f : nat -> B) n t d : (t < n)%nat -> nth t (map f (seq 0 n)) d = f t.
Proof.
  intros H. rewrite nth_indep with (d' := f 0%nat) by (rewrite map_length, seq_length; exact H).
  rewrite map_nth. rewrite seq_nth by exact H. reflexivity.
Qed.

Lemma map_seq_ext {B} (f g : nat -> B) n : (forall t, (t < n)%nat -> f t = g t) -> map f (seq 0 n) = map g (seq 0 n).
Proof. intros H. apply map_ext_in. intros t Ht. apply in_seq in Ht. apply H. lia. Qed.

Lemma map_seq_id {B} (x : list B) d : map (fun t => nth t x d) (seq 0 (length x)) = x.
Proof.
  apply nth_ext with (d := d) (d' := d).
  - rewrite map_length, seq_length. reflexivity.
  - intros t Ht. rewrite map_length, seq_length in Ht. rewrite nth_map_seq by exact Ht. reflexivity.
Qed.

Lemma gather_length {B} (d : B) n src x : length (gather d n src x) = n.
Proof. unfold gather. rewrite map_length, seq_length. reflexivity. Qed.

Lemma nth_gather {B} (d : B) n src x t : (t < n)%nat -> nth t (gather d n src x) d = nth (src t) x d.
Proof. intros H. unfold gather. rewrite nth_map_seq by exact H. reflexivity. Qed.

Lemma nth_flat_map_const {X B} (f : X -> list B) k l i j d dx :
  (forall x, In x l -> length (f x) = k) -> (i < length l)%nat -> (j < k)%nat ->
  nth (i * k + j) (flat_map f l) d = nth j (f (nth i l dx)) d.
Proof.
  revert i. induction l as [|a l IH]; intros i Hlen Hi Hj; [cbn in Hi; lia|].
  cbn [flat_map]. destruct i as [|i].
  - cbn [Nat.mul Nat.add nth]. rewrite app_nth1; [reflexivity|]. rewrite Hlen by (left; reflexivity). exact Hj.
  - rewrite app_nth2 by (rewrite Hlen by (left; reflexivity); lia).
    rewrite Hlen by (left; reflexivity).
    replace (S i * k + j - k)%nat with (i * k + j)%nat by lia.
    cbn [nth]. apply IH; [intros x Hx; apply Hlen; right; exact Hx | cbn in Hi; lia | exact Hj].
Qed.

Lemma flat_map_const_length {X B} (f : X -> list B) k l :
  (forall x, In x l -> length (f x) = k) -> length (flat_map f l) = (length l * k)%nat.
Proof.
  induction l as [|a l IH]; intros H; [reflexivity|].
  cbn [flat_map length]. rewrite app_length, H by (left; reflexivity). rewrite IH by (intros x Hx; apply H; right; exact Hx). lia.
Qed.

Section Cols.
Context {A : Type} (d : A).

Lemma col_of_length rows k j (x : list A) : length (col_of d rows k j x) = rows.
Proof. unfold col_of. rewrite map_length, seq_length. reflexivity. Qed.

Lemma nth_col_of rows k j (x : list A) i : (i < rows)%nat -> nth i (col_of d rows k j x) d = nth (i * k + j) x d.
Proof. intros H. unfold col_of. rewrite nth_map_seq by exact H. reflexivity. Qed.

Lemma cols_of_length rows k (x : list A) : length (cols_of d rows k x) = k.
Proof. unfold cols_of. rewrite map_length, seq_length. reflexivity. Qed.

Lemma nth_cols_of rows k (x : list A) j : (j < k)%nat -> nth j (cols_of d rows k x) [] = col_of d rows k j x.
Proof. intros H. unfold cols_of. rewrite nth_map_seq by exact H. reflexivity. Qed.

Lemma cols_of_Forall rows k (x : list A) : Forall (fun c => length c = rows) (cols_of d rows k x).
Proof. unfold cols_of. apply Forall_forall. intros c Hc. apply in_map_iff in Hc as [j [<- _]]. apply col_of_length. Qed.

Lemma of_cols_length rows (cols : list (list A)) : length (of_cols d rows cols) = (rows * length cols)%nat.
Proof.
  unfold of_cols. rewrite flat_map_const_length with (k := length cols).
  - rewrite seq_length. reflexivity.
  - intros i _. apply map_length.
Qed.

Lemma nth_of_cols rows (cols : list (list A)) i j : (i < rows)%nat -> (j < length cols)%nat ->
  nth (i * length cols + j) (of_cols d rows cols) d = nth i (nth j cols []) d.
Proof.
  intros Hi Hj. unfold of_cols.
  rewrite nth_flat_map_const with (k := length cols) (dx := 0%nat).
  - rewrite seq_nth by exact Hi. cbn [Nat.add].
    rewrite nth_indep with (d' := nth i [] d) by (rewrite map_length; exact Hj).
    rewrite map_nth with (f := fun c => nth i c d). reflexivity.
  - intros t _. apply map_length.
  - rewrite seq_length. exact Hi.
  - exact Hj.
Qed.

(* index decomposition t = (t / k) * k + t mod k *)
Lemma of_cols_cols_of rows k (x : list A) : length x = (rows * k)%nat -> of_cols d rows (cols_of d rows k x) = x.
Proof.
  intros Hx. apply nth_ext with (d := d) (d' := d).
  - rewrite of_cols_length, cols_of_length. symmetry. exact Hx.
  - intros t Ht. rewrite of_cols_length, cols_of_length in Ht.
    assert (Hk : (0 < k)%nat) by (destruct k; [lia | lia]).
    assert (Hdm : t = (t / k * k + t mod k)%nat) by (rewrite Nat.mul_comm; apply Nat.div_mod; lia).
    assert (Hq : (t / k < rows)%nat) by (apply Nat.div_lt_upper_bound; lia).
    assert (Hr : (t mod k < k)%nat) by (apply Nat.mod_upper_bound; lia).
    rewrite Hdm at 1.
    pose proof (nth_of_cols rows (cols_of d rows k x) (t / k) (t mod k)) as E.
    rewrite cols_of_length in E. rewrite E by assumption.
    rewrite nth_cols_of by exact Hr. rewrite nth_col_of by exact Hq. rewrite <- Hdm. reflexivity.
Qed.

Lemma col_of_of_cols rows (cols : list (list A)) j : (j < length cols)%nat ->
  length (nth j cols []) = rows -> col_of d rows (length cols) j (of_cols d rows cols) = nth j cols [].
Proof.
  intros Hj Hl. apply nth_ext with (d := d) (d' := d).
  - rewrite col_of_length. symmetry. exact Hl.
  - intros i Hi. rewrite col_of_length in Hi. rewrite nth_col_of by exact Hi. apply nth_of_cols; assumption.
Qed.

Lemma cols_of_of_cols rows (cols : list (list A)) : Forall (fun c => length c = rows) cols ->
  cols_of d rows (length cols) (of_cols d rows cols) = cols.
Proof.
  intros HF. apply nth_ext with (d := []) (d' := []).
  - apply cols_of_length.
  - intros j Hj. rewrite cols_of_length in Hj. rewrite nth_cols_of by exact Hj.
    apply col_of_of_cols; [exact Hj|]. rewrite Forall_forall in HF. apply HF. apply nth_In. exact Hj.
Qed.

(* a one-column matrix is its column *)
Lemma col_of_single rows (x : list A) : length x = rows -> col_of d rows 1 0 x = x.
Proof.
  intros Hx. apply nth_ext with (d := d) (d' := d); [rewrite col_of_length; symmetry; exact Hx|].
  intros i Hi. rewrite col_of_length in Hi. rewrite nth_col_of by exact Hi. f_equal. lia.
Qed.

Lemma of_cols_single rows (c : list A) : length c = rows -> of_cols d rows [c] = c.
Proof.
  intros Hc. apply nth_ext with (d := d) (d' := d); [rewrite of_cols_length; cbn; lia|].
  intros i Hi. rewrite of_cols_length in Hi. cbn [length] in Hi.
  pose proof (nth_of_cols rows [c] i 0) as E. cbn [length nth] in E.
  replace (i * 1 + 0)%nat with i in E by lia. apply E; lia.
Qed.
End Cols.

(* omap_list *)
Lemma omap_list_some {X Y} (f : X -> option Y) (g : X -> Y) l :
  (forall x, In x l -> f x = Some (g x)) -> omap_list f l = Some (map g l).
Proof.
  induction l as [|a l IH]; intros H; [reflexivity|].
  cbn [omap_list map]. rewrite H by (left; reflexivity). rewrite IH by (intros x Hx; apply H; right; exact Hx). reflexivity.
Qed.

Lemma omap_list_inv {X Y} (f : X -> option Y) l r :
  omap_list f l = Some r -> length r = length l /\ forall i dx dy, (i < length l)%nat -> f (nth i l dx) = Some (nth i r dy).
Proof.
  revert r. induction l as [|a l IH]; intros r H.
  - cbn in H. inversion H; subst. split; [reflexivity | intros i dx dy Hi; cbn in Hi; lia].
  - cbn [omap_list] in H. destruct (f a) as [y|] eqn:Ea; [|discriminate].
    destruct (omap_list f l) as [ys|] eqn:El; [|discriminate]. inversion H; subst.
    destruct (IH ys eq_refl) as [L N]. split; [cbn; lia|].
    intros [|i] dx dy Hi; cbn [nth]; [exact Ea | apply N; cbn in Hi; lia].
Qed.
