(* C08 (tier 2) -- one third of the exhaustive max_depth = 1 stationarity check (first label LOut);
   split into three files only so that they compile in parallel. *)
From CV Require Import Base.Tac Base.Ext Model.C08_NUTS Proofs.C08_Stationary.
Lemma check_md1_b : forall_labs 11 (fun l => md1_check false (LOut :: l)) = true.
Proof. vm_compute. reflexivity. Qed.
