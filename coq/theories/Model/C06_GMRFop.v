(* C06 -- the structure matrix of the GMRF prior (cuqi.operator.PrecisionFiniteDifference: P = D^T D with D the identity
   (order 0), the first-order (order 1) or the second-order (order 2) difference operator, in 1-d and 2-d), built by the model:
   the posterior the user specified is stated with delta * P for this P, not with a matrix read back from the object.
   No proofs here. *)
From CV Require Import Base.Tac Base.LinAlg Base.Cmp Base.QcLin Model.C06_RTO Model.C06_FD.
From Coq Require Import QArith Qcanon.

Local Open Scope Qc_scope.

(* SecondOrderFiniteDifference, 1-d: spdiags([-1, 2, -1], locs, rows, N)
   zero:    rows N+2, locs [-2,-1,0]: D[i,i] = -1, D[i,i-1] = 2, D[i,i-2] = -1
   neumann: rows N-2, locs [0,1,2]:   D[i,i] = -1, D[i,i+1] = 2, D[i,i+2] = -1 *)
Definition fd2nd_rows (b : bc_kind) (N : nat) : nat := match b with BcNeumann => (N - 2)%nat | _ => S (S N) end.
Definition fd2nd_entry (b : bc_kind) (N i j : nat) : Qc :=
  match b with
  | BcNeumann => if (j =? i)%nat then - (1) else if (j =? S i)%nat then qcz 2 else if (j =? S (S i))%nat then - (1) else 0
  | _ => if (j =? i)%nat then - (1) else if (S j =? i)%nat then qcz 2 else if (S (S j) =? i)%nat then - (1) else 0
  end.

Definition diff_entry (order : nat) (b : bc_kind) (N : nat) : nat -> nat -> Qc :=
  match order with
  | O => eye_entry Qc 0 1
  | S O => fd1_entry Qc 0 1 Qcopp b N
  | _ => fd2nd_entry b N
  end.
Definition diff_rows (order : nat) (b : bc_kind) (N : nat) : nat :=
  match order with O => N | S O => fd1_rows b N | _ => fd2nd_rows b N end.

Definition gmrf_diff_op (order : nat) (two_d : bool) (b : bc_kind) (N : nat) : list (list Qc) :=
  let rows := diff_rows order b N in
  let f := diff_entry order b N in
  if two_d
  then mk_matrix Qc (N * rows) (N * N) (kron_entry Qc Qcmult rows N (eye_entry Qc 0 1) f) ++
       mk_matrix Qc (rows * N) (N * N) (kron_entry Qc Qcmult N N f (eye_entry Qc 0 1))
  else mk_matrix Qc rows N f.

(* P = D^T D *)
Definition gmrf_structure (order : nat) (two_d : bool) (b : bc_kind) (N : nat) : list (list Qc) :=
  q_gram (if two_d then N * N else N)%nat (gmrf_diff_op order two_d b N).

Definition check_gmrf_P (order : nat) (two_d : bool) (b : bc_kind) (N : nat) (P : list (list Qc)) : bool :=
  qcll_eqb P (gmrf_structure order two_d b N).
