(* C19 -- exact characterisation of the percentile used by median / compute_ci (numpy's default
   "linear" method): it is the piecewise-linear interpolation of the ORDER STATISTICS of the chain,
   equal to the k-th order statistic at the grid points q = 100 k/(n-1) and affine in between;
   per-coordinate application for vector and multi-dimensional function-value samples. *)
From CV Require Import Base.Tac Base.Cmp Model.C19_Stats Proofs.C19_Stats.
From Coq Require Import QArith Qabs Sorting.Sorted Sorting.Permutation.

(* ---------------- the sorted arrangement of a chain is unique ---------------- *)
Lemma sorted_head_min a s : StronglySorted Z.le (a :: s) -> forall x, In x (a :: s) -> (a <= x)%Z.
Proof.
  intros H x [<-|Hx]; [lia|]. inversion H as [|? ? _ Hall]; subst.
  rewrite Forall_forall in Hall. apply Hall. exact Hx.
Qed.

Theorem sorted_perm_unique : forall s1 s2,
  StronglySorted Z.le s1 -> StronglySorted Z.le s2 -> Permutation s1 s2 -> s1 = s2.
Proof.
  induction s1 as [|a s1 IH]; intros s2 H1 H2 P.
  - apply Permutation_nil in P. congruence.
  - destruct s2 as [|b s2]; [apply Permutation_sym, Permutation_nil in P; discriminate|].
    assert (Hab : a = b).
    { assert (a <= b)%Z by (apply (sorted_head_min a s1 H1); apply (Permutation_in _ (Permutation_sym P)); left; reflexivity).
      assert (b <= a)%Z by (apply (sorted_head_min b s2 H2); apply (Permutation_in _ P); left; reflexivity).
      lia. }
    subst b. f_equal. apply IH.
    + inversion H1; assumption.
    + inversion H2; assumption.
    + eapply Permutation_cons_inv. exact P.
Qed.

(* the percentile is a function of the order statistics: ANY sorted rearrangement s of the chain gives it
   (nothing depends on the sorting algorithm of the model or of numpy) *)
Theorem percentile_order_statistics l s pn pd :
  Permutation l s -> StronglySorted Z.le s ->
  percentile l pn pd = inject_Z (interpZ s (100 * Z.pos pd) (pn * (zlen l - 1))) / inject_Z (100 * Z.pos pd).
Proof.
  intros P Hs. unfold percentile.
  replace (isort l) with s; [reflexivity|].
  apply sorted_perm_unique; [exact Hs | apply isort_sorted |].
  eapply perm_trans; [apply Permutation_sym; exact P | apply isort_perm].
Qed.

(* ---------------- grid points: q = 100 k / (n-1) gives the k-th order statistic ---------------- *)
(* q = pn/pd in any representation with pn (n-1) = 100 pd k *)
Theorem percentile_grid l pn pd k :
  (0 <= k)%Z -> (pn * (zlen l - 1) = 100 * Z.pos pd * k)%Z ->
  percentile l pn pd == inject_Z (znth (isort l) k).
Proof.
  intros Hk E. unfold percentile, interpZ. rewrite E.
  rewrite (Z.mul_comm (100 * Z.pos pd) k), Z.div_mul, Z.mod_mul by lia.
  rewrite Z.mul_0_l, Z.add_0_r.
  unfold Qeq, Qdiv, Qmult, Qinv, inject_Z. cbn [Qnum Qden].
  destruct (100 * Z.pos pd)%Z eqn:EB; try lia. cbn [Qnum Qden]. nia.
Qed.

Corollary percentile_grid_canonical l pd k :
  Z.pos pd = (zlen l - 1)%Z -> (0 <= k)%Z ->
  percentile l (100 * k) pd == inject_Z (znth (isort l) k).
Proof. intros E Hk. apply percentile_grid; [exact Hk | rewrite E; ring]. Qed.

(* ---------------- affine between consecutive grid points ----------------
   h = q/100 (n-1) is the virtual index, k = floor h:
     percentile(q) = s[k] + (h - k) (s[k+1] - s[k]).
   (At q = 100, k = n-1 and h - k = 0: the factor of the out-of-range s[n] is zero.) *)
Theorem percentile_affine l pn pd :
  let B := (100 * Z.pos pd)%Z in
  let a := (pn * (zlen l - 1))%Z in
  let k := (a / B)%Z in
  let s := isort l in
  percentile l pn pd ==
    inject_Z (znth s k) + (inject_Z a / inject_Z B - inject_Z k) * inject_Z (znth s (k + 1) - znth s k).
Proof.
  intros B a k s. unfold percentile, interpZ. fold B a s. fold k.
  assert (HB : (0 < B)%Z) by (subst B; lia).
  assert (Hak : (a = B * k + a mod B)%Z) by (subst k; apply Z.div_mod; lia).
  set (r := (a mod B)%Z) in *.
  assert (HBq : ~ inject_Z B == 0) by (unfold Qeq, inject_Z; cbn; lia).
  assert (Ha : inject_Z a == inject_Z B * inject_Z k + inject_Z r)
    by (rewrite <- inject_Z_mult, <- inject_Z_plus, <- Hak; reflexivity).
  rewrite Ha. rewrite inject_Z_plus, !inject_Z_mult.
  unfold Zminus. rewrite !inject_Z_plus, inject_Z_opp. field. exact HBq.
Qed.

(* the virtual index stays inside the chain: 0 <= k <= n-1, and k+1 <= n-1 unless the fraction is zero *)
Theorem percentile_index_range l pn pd : l <> [] ->
  (0 <= pn <= 100 * Z.pos pd)%Z ->
  let B := (100 * Z.pos pd)%Z in
  let a := (pn * (zlen l - 1))%Z in
  (0 <= a / B <= zlen l - 1)%Z /\ ((a mod B <> 0)%Z -> (a / B + 1 <= zlen l - 1)%Z).
Proof.
  intros Hl Hp B a.
  assert (Hn : (1 <= zlen l)%Z) by (unfold zlen; destruct l; [congruence | cbn [length]; lia]).
  assert (HB : (0 < B)%Z) by (subst B; lia).
  assert (Ha : (0 <= a <= B * (zlen l - 1))%Z) by (subst a B; nia).
  pose proof (Z.div_mod a B ltac:(lia)) as Hdm.
  pose proof (Z.mod_pos_bound a B HB) as Hm.
  split; [split; [apply Z.div_pos; lia | apply Z.div_le_upper_bound; lia] | intros Hr; nia].
Qed.

(* consequence: on one cell the percentile is an affine function of q with slope (n-1)/100 (s[k+1]-s[k]) *)
Theorem percentile_same_cell l pn1 pn2 pd :
  let B := (100 * Z.pos pd)%Z in
  (pn1 * (zlen l - 1) / B = pn2 * (zlen l - 1) / B)%Z ->
  let k := (pn1 * (zlen l - 1) / B)%Z in
  percentile l pn2 pd - percentile l pn1 pd ==
    (inject_Z ((pn2 - pn1) * (zlen l - 1)) / inject_Z B) * inject_Z (znth (isort l) (k + 1) - znth (isort l) k).
Proof.
  intros B E k. rewrite !percentile_affine. fold B. rewrite <- E. fold k.
  assert (HBq : ~ inject_Z B == 0) by (unfold Qeq, inject_Z; subst B; cbn; lia).
  replace ((pn2 - pn1) * (zlen l - 1))%Z with (pn2 * (zlen l - 1) + - (pn1 * (zlen l - 1)))%Z by ring.
  rewrite inject_Z_plus, inject_Z_opp. field. exact HBq.
Qed.

(* median = middle order statistic (odd n) / mean of the two middle ones (even n) *)
Theorem median_odd l m : zlen l = (2 * m + 1)%Z -> (0 <= m)%Z -> median l == inject_Z (znth (isort l) m).
Proof. intros E Hm. unfold median. apply percentile_grid; [exact Hm | rewrite E; lia]. Qed.

Theorem median_even l m : zlen l = (2 * m)%Z -> (1 <= m)%Z ->
  median l == (inject_Z (znth (isort l) (m - 1)) + inject_Z (znth (isort l) m)) / (2 # 1).
Proof.
  intros E Hm. unfold median. rewrite percentile_affine. cbv zeta. rewrite E.
  replace (50 * (2 * m - 1) / (100 * 1))%Z with (m - 1)%Z
    by (apply Z.div_unique with (r := 50%Z); lia).
  replace (m - 1 + 1)%Z with m by lia.
  unfold Zminus. rewrite !inject_Z_plus, !inject_Z_mult, !inject_Z_opp, !inject_Z_plus, inject_Z_mult, !inject_Z_opp.
  field.
Qed.

(* ---------------- per component ---------------- *)
(* every statistic of vector-valued or (flattened) multi-dimensional function-value samples is, at component
   k, the statistic of the chain of component k *)
Theorem per_coord_nth {B} (f : list Z -> B) dim samples k d :
  (k < dim)%nat -> nth k (per_coord f dim samples) d = f (coordchain k samples).
Proof.
  intros Hk. unfold per_coord.
  rewrite (nth_indep _ d (f (coordchain 0 samples))) by (rewrite map_length, seq_length; exact Hk).
  rewrite (map_nth (fun k0 => f (coordchain k0 samples)) (seq 0 dim) 0%nat k).
  rewrite seq_nth by exact Hk. reflexivity.
Qed.

Theorem per_coord_length {B} (f : list Z -> B) dim samples : length (per_coord f dim samples) = dim.
Proof. unfold per_coord. rewrite map_length, seq_length. reflexivity. Qed.

(* compute_ci / ci_width per component: lower <= median <= upper, width = upper - lower >= 0, in EVERY component *)
Theorem ci_per_component dim samples cn cd k : samples <> [] -> (k < dim)%nat ->
  (0 <= cn <= 100 * Z.pos cd)%Z ->
  let lo := nth k (per_coord (fun l => ci_lo l cn cd) dim samples) 0 in
  let hi := nth k (per_coord (fun l => ci_hi l cn cd) dim samples) 0 in
  let md := nth k (per_coord median dim samples) 0 in
  let w := nth k (per_coord (fun l => ci_width l cn cd) dim samples) 0 in
  lo <= md /\ md <= hi /\ w == hi - lo /\ 0 <= w.
Proof.
  intros Hs Hk Hc. cbv zeta. rewrite !per_coord_nth by exact Hk.
  apply ci_order; [|exact Hc]. unfold coordchain. destruct samples; [congruence | discriminate].
Qed.

(* ---------------- the forms used for long chains are the definitions ---------------- *)
Theorem percentile_on_isort l pn pd : percentile_on (isort l) (zlen l) pn pd = percentile l pn pd.
Proof. reflexivity. Qed.

Theorem variance_fast_eq (l : list Z) : l <> [] -> variance_fast l == variance l.
Proof.
  intros Hl. rewrite (variance_alt l Hl). unfold variance_fast, mean.
  assert (Hn : ~ inject_Z (zlen l) == 0).
  { unfold zlen. destruct l; [congruence|]. cbn [length]. unfold Qeq, inject_Z; cbn. lia. }
  unfold Zminus. rewrite inject_Z_plus, inject_Z_opp, !inject_Z_mult. field. exact Hn.
Qed.

(* ---------------- the interval grows with the level ----------------
   levels c1/d <= c2/d in [0, 100]: the lower bound does not increase, the upper bound does not decrease, the width
   does not decrease (so no level can be silently replaced by a larger one without being visible in the width) *)
Theorem ci_monotone_in_level l c1 c2 d : l <> [] -> (0 <= c1 <= c2)%Z -> (c2 <= 100 * Z.pos d)%Z ->
  ci_lo l c2 d <= ci_lo l c1 d /\ ci_hi l c1 d <= ci_hi l c2 d /\ ci_width l c1 d <= ci_width l c2 d.
Proof.
  intros Hl H12 H100.
  assert (L : ci_lo l c2 d <= ci_lo l c1 d) by (unfold ci_lo; apply percentile_monotone; [assumption | lia | lia]).
  assert (U : ci_hi l c1 d <= ci_hi l c2 d) by (unfold ci_hi; apply percentile_monotone; [assumption | lia | lia]).
  split; [exact L | split; [exact U|]]. unfold ci_width.
  apply Qplus_le_compat; [exact U | apply Qopp_le_compat; exact L].
Qed.

(* level 0: both bounds are the median; level 100: minimum and maximum of the chain *)
Theorem ci_level_0 l d : ci_lo l 0 d == median l /\ ci_hi l 0 d == median l.
Proof.
  unfold ci_lo, ci_hi, median. rewrite Z.sub_0_r, Z.add_0_r.
  assert (E : percentile l (100 * Z.pos d) (2 * d) == percentile l 50 1).
  { rewrite <- (percentile_rescale l 50 1 (2 * d)). replace (1 * (2 * d))%positive with (2 * d)%positive by lia.
    replace (50 * Z.pos (2 * d))%Z with (100 * Z.pos d)%Z by lia. reflexivity. }
  split; exact E.
Qed.

Theorem ci_level_100 l : l <> [] ->
  ci_lo l 100 1 == inject_Z (znth (isort l) 0) /\ ci_hi l 100 1 == inject_Z (znth (isort l) (zlen l - 1)).
Proof.
  intros Hl. unfold ci_lo, ci_hi. split.
  - replace (100 * Z.pos 1 - 100)%Z with 0%Z by lia. apply percentile_0. exact Hl.
  - apply percentile_grid.
    + unfold zlen. destruct l; [congruence | cbn [length]; lia].
    + lia.
Qed.

(* compute_ci refuses exactly the levels of absolute value above 100 *)
Theorem ci_opt_defined l cn cd : (exists r, ci_opt l cn cd = Some r) <-> (- (100 * Z.pos cd) <= cn <= 100 * Z.pos cd)%Z.
Proof.
  unfold ci_opt. destruct (Z.leb_spec (Z.abs cn) (100 * Z.pos cd)); split; intros H'; try lia; eauto.
  destruct H' as [r [=]].
Qed.
