(* C12 -- the gradient clause in one statement: for every instance, Model.forward itself (parameter vector in, plain range
   geometry) expands along every line as y0 + t (J h) + t^2 R(t), and Model.gradient returns J^T direction, the SAME J. *)
From CV Require Import Base.Tac Base.LinAlg Base.QcLin Base.Cmp Model.C12_Model Model.C12_Jac Model.C12_Pde
     Proofs.C12_Model Proofs.C12_Chain Proofs.C12_Instances Proofs.C12_Pde Proofs.C12_Deriv Proofs.C12_Unique Proofs.C12_Img.
From Coq Require Import QArith Qcanon Ring.
Local Open Scope Qc_scope.

(* forward on a parameter vector, plain 1-d range geometry: the parameter-to-output map, as a plain array *)
Lemma forward_is_par2out q A csF b kt rg dg p : plain1d (g_cls rg) = true ->
  forward q (mkFwd (poly_forward A csF b) kt) rg dg (InVec p) true = rmap (fun y => OutVec y false) (par2out A csF b dg p).
Proof.
  intros Hr. rewrite forward_par. unfold par2out, core, out_of. cbn [f_apply].
  destruct (g_par2fun dg p) as [fv|e]; cbn [bind rmap]; [|reflexivity].
  unfold g_fun2par. rewrite (plain1d_fun2par rg false _ Hr). cbn [rmap]. rewrite (plain1d_0d rg Hr). reflexivity.
Qed.

Lemma geo_jac_shape dg w wf JG : geo_jac dg w = Some JG -> g_par2fun dg w = Ok wf ->
  wf_mat (length w) JG /\ length JG = length wf /\ (has_grad dg = true \/ identity_class (g_cls dg) = true).
Proof.
  intros HJG Hw. unfold geo_jac in HJG. unfold g_par2fun, g_par2fun_gen in Hw. unfold has_grad.
  assert (D : forall s : vec, length s = length w -> wf_mat (length w) (diagmat s) /\ length (diagmat s) = length w).
  { intros s Ls. rewrite <- Ls. split; [apply diagmat_wf | apply diagmat_length]. }
  destruct (plain1d (g_cls dg)) eqn:Ep.
  - inversion Hw; subst wf.
    destruct (g_grad dg) as [[dcs gsel|idx|m K]|] eqn:Eg; try discriminate.
    + destruct (qcl_eqb dcs (pderiv [0; 1])); [|discriminate]. inversion HJG; subst JG.
      destruct (D (pmap dcs w)) as [D1 D2]; [unfold pmap; apply map_length|]. repeat split; auto.
    + inversion HJG; subst JG. destruct (D (ones w) (ones_length w)) as [D1 D2]. repeat split; auto.
      right. destruct (g_cls dg); try discriminate; reflexivity.
  - destruct (g_conv dg) as [|r c|r c|K M|nfun idx pj sq] eqn:Ec; try discriminate.
    + destruct (g_map dg) as [csG|] eqn:Em.
      * destruct (g_grad dg) as [[dcs gsel|idx|m K]|] eqn:Eg; try discriminate.
        destruct (qcl_eqb dcs (pderiv csG)); [|discriminate]. inversion HJG; subst JG.
        cbn [conv_par2fun rmap omap] in Hw. inversion Hw; subst wf.
        destruct (D (pmap dcs w)) as [D1 D2]; [unfold pmap; apply map_length|]. unfold pmap. rewrite map_length. repeat split; auto.
      * destruct (g_grad dg) eqn:Eg; try discriminate.
        destruct (identity_class (g_cls dg) && f2p_is_base (g_f2p dg)) eqn:Ei; [|discriminate]. inversion HJG; subst JG.
        cbn [conv_par2fun rmap omap] in Hw. inversion Hw; subst wf. apply andb_prop in Ei as [Ei _].
        destruct (D (ones w) (ones_length w)) as [D1 D2]. repeat split; auto.
    + destruct (g_map dg) eqn:Em; try discriminate. destruct (g_grad dg) eqn:Eg; try discriminate.
      destruct (identity_class (g_cls dg) && f2p_is_base (g_f2p dg) && Nat.eqb (length w) (r * c)) eqn:Ei; [|discriminate].
      inversion HJG; subst JG. apply andb_prop in Ei as [Ei Ei2]. apply andb_prop in Ei as [Ei _].
      cbn [conv_par2fun] in Hw. rewrite Ei2 in Hw. cbn [rmap omap] in Hw. inversion Hw; subst wf.
      destruct (D (ones w) (ones_length w)) as [D1 D2]. repeat split; auto.
    + destruct (g_map dg) eqn:Em; try discriminate.
      destruct (g_grad dg) as [[dcs gsel|idx|m K']|] eqn:Eg; try discriminate.
      destruct (qcll_eqb K K' && lin_wf m K && Nat.eqb (length w) m && negb (Nat.eqb (length K) 0)) eqn:Ei; [|discriminate].
      inversion HJG; subst JG. bool_hyps.
      match goal with H : lin_wf _ _ = true |- _ => apply lin_wf_spec in H; rename H into HK end.
      cbn [conv_par2fun] in Hw. destruct K as [|row K]; [discriminate|].
      assert (Lrow : length row = m) by (inversion HK; assumption).
      rewrite (proj2 (Nat.eqb_eq _ _)) in Hw by congruence. cbn [rmap omap] in Hw.
      assert (Hwf : wf = qmatvec (row :: K) w)
        by (apply (f_equal (fun r => match r with Ok x => x | Err _ => [] end)) in Hw; symmetry; exact Hw).
      assert (Lq : length (qmatvec (row :: K) w) = length (row :: K)) by (unfold qmatvec; apply matvec_length).
      split; [rewrite H1; exact HK | split; [rewrite Hwf, Lq; reflexivity | left; reflexivity]].
    + destruct (g_map dg) eqn:Em; try discriminate.
      destruct (g_grad dg) as [[dcs gsel|idx'|m K']|] eqn:Eg; try discriminate.
      destruct (natll_eqb idx idx' && step_wf nfun idx && Nat.eqb (length w) (length idx)) eqn:Ei; [|discriminate].
      inversion HJG; subst JG. bool_hyps.
      match goal with H : length w = length idx |- _ => rename H into Lwi end.
      cbn [conv_par2fun] in Hw. rewrite (proj2 (Nat.eqb_eq _ _) Lwi) in Hw. cbn [rmap omap] in Hw.
      assert (Hwf : wf = step_par2fun nfun idx w)
        by (apply (f_equal (fun r => match r with Ok x => x | Err _ => [] end)) in Hw; symmetry; exact Hw).
      assert (Lq : length (step_par2fun nfun idx w) = nfun) by (unfold step_par2fun; rewrite map_length, seq_length; reflexivity).
      split; [rewrite Lwi; apply step_jac_wf | split; [rewrite step_jac_length, Hwf, Lq; reflexivity | left; reflexivity]].
Qed.

(* THE GRADIENT CLAUSE: one matrix J = J_F(par2fun w) geo_jac(w); forward has derivative J (along every h), gradient applies J^T *)
Theorem gradient_is_transposed_jacobian_of_forward q gf kt rg dg n A csF b d w wf JG :
  model_gfun gf n A csF -> plain1d (g_cls rg) = true ->
  wf_mat n A -> length d = length A -> length b = length A ->
  geo_jac dg w = Some JG -> g_par2fun dg w = Ok wf -> length wf = n ->
  let J := qmatmul (length w) (poly_jac A (pderiv csF) wf) JG in
  gradient q gf rg dg (GiVec d) (GiVec w) true true = Ok (OutVec (qmattvec (length w) J d) false) /\
  forall h, length h = length w ->
    exists c2, length c2 = length A /\ forall t,
      forward q (mkFwd (poly_forward A csF b) kt) rg dg (InVec (qvadd w (qvscale t h))) true =
      Ok (OutVec (qvadd (qvadd (poly_forward A csF b wf) (qvscale t (qmatvec J h))) (qvscale (t * t) (pvec_eval c2 t))) false).
Proof.
  intros Hgf Hr HA Hd Lb HJG Hw Ln J. split.
  - apply (gradient_chain_rule q gf rg dg n A csF d w wf JG); assumption.
  - intros h Lh. destruct (geo_jac_shape dg w wf JG HJG Hw) as (WJ & LJ & _).
    assert (Lu : length (qmatvec JG h) = n) by (unfold qmatvec; etransitivity; [apply matvec_length|]; etransitivity; [exact LJ | exact Ln]).
    destruct (par2out_jacobian n A csF b dg w wf JG HJG Hw HA Ln Lb h Lh Lu) as (c2 & L2 & H2).
    exists c2. split.
    + rewrite L2. unfold poly_forward.
      assert (E : length (qmatvec A (pmap csF wf)) = length A) by (unfold qmatvec; apply matvec_length).
      rewrite qvadd_length_eq by congruence. exact E.
    + intros t. rewrite (forward_is_par2out q A csF b kt rg dg _ Hr), (H2 t). cbn [rmap].
      unfold J. rewrite <- (jacobian_product_apply (length w) _ JG h WJ Lh). reflexivity.
Qed.

(* ... and in every representation of direction and linearisation point (the tree's repaired state q_fixed: no guard) *)
Theorem gradient_chain_rule_all_forms gf rg dg n A csF (dplain : bool) d (apd dflag : bool) x (apw wflag : bool) w wf JG :
  model_gfun gf n A csF -> plain1d (g_cls rg) = true ->
  wf_mat n A -> length d = length A ->
  geo_jac dg w = Some JG -> g_par2fun dg w = Ok wf -> length wf = n ->
  (if apw then Ok x else g_fun2par dg x) = Ok w ->
  (if apw then g_par2fun dg x else Ok x) = g_par2fun dg w ->
  let g := qmattvec (length w) (qmatmul (length w) (poly_jac A (pderiv csF) wf) JG) d in
  (* wrt a CUQIarray (parameters or function values, any flag), direction a vector or a CUQIarray (either form, any flag) *)
  out_values (gradient q_fixed gf rg dg (if dplain then GiVec d else GiArr rg apd d) (GiArr dg apw x)
                       (if dplain then true else dflag) wflag) = Ok [g] /\
  (* wrt a plain parameter vector, direction a CUQIarray / flagged as function values *)
  out_values (gradient q_fixed gf rg dg (GiArr rg apd d) (GiVec w) dflag true) = Ok [g] /\
  gradient q_fixed gf rg dg (GiVec d) (GiVec w) false true = Ok (OutVec g false).
Proof.
  intros Hgf Hr HA Hd HJG Hw Ln Hx Hxf g.
  destruct (model_gfun_run gf n A csF d wf Hgf HA Ln Hd) as (Hg & _).
  destruct (geo_jac_shape dg w wf JG HJG Hw) as (_ & _ & Hallowed).
  pose proof (gradient_chain_rule q_fixed gf rg dg n A csF d w wf JG Hgf Hr HA Hd HJG Hw Ln) as Hplain. fold g in Hplain.
  split; [|split].
  - rewrite (gradient_array_forms_agree q_fixed gf rg dg dplain d apd dflag x apw wflag w Hg Hr Hallowed (eq_confused_fixed rg dg) Hx Hxf);
      [rewrite Hplain; reflexivity | intros Q; discriminate Q].
  - rewrite (proj1 (gradient_direction_forms_agree q_fixed gf rg dg d apd dflag w Hg Hr Hallowed (eq_confused_fixed rg dg))).
    rewrite Hplain. reflexivity.
  - rewrite (proj2 (gradient_direction_forms_agree q_fixed gf rg dg d true true w Hg Hr Hallowed (eq_confused_fixed rg dg))).
    exact Hplain.
Qed.

(* the same for an Image2D(order='F') domain: J = J_F(par2fun w) P *)
Theorem gradient_is_transposed_jacobian_of_forward_imgF q gf kt rg dg r c n A csF b d w :
  model_gfun_F gf r c n A csF -> imgF_geo dg r c -> plain1d (g_cls rg) = true -> n = (r * c)%nat ->
  wf_mat n A -> length d = length A -> length b = length A -> length w = n ->
  let wf := img_par2fun r c w in
  let J := qmatmul n (poly_jac A (pderiv csF) wf) (img_perm r c) in
  gradient q gf rg dg (GiVec d) (GiVec w) true true = Ok (OutVec (qmattvec n J d) false) /\
  forall h, length h = n ->
    exists c2, length c2 = length A /\ forall t,
      forward q (mkFwd (poly_forward A csF b) kt) rg dg (InVec (qvadd w (qvscale t h))) true =
      Ok (OutVec (qvadd (qvadd (poly_forward A csF b wf) (qvscale t (qmatvec J h))) (qvscale (t * t) (pvec_eval c2 t))) false).
Proof.
  intros Hgf Hdg Hr Hn HA Hd Lb Lw wf J. split.
  - apply (gradient_chain_rule_imgF q gf rg dg r c n A csF d w); assumption.
  - intros h Lh. subst n.
    assert (Ew : g_par2fun dg w = Ok wf).
    { destruct Hdg as (Hp & Hid & Hc & Hm & Hf & Hg). unfold g_par2fun, g_par2fun_gen. rewrite Hp, Hc, Hm. cbn [conv_par2fun].
      rewrite (proj2 (Nat.eqb_eq _ _) Lw). reflexivity. }
    assert (Lwf : length wf = (r * c)%nat) by apply img_par2fun_length.
    assert (Lu : length (qmatvec (img_perm r c) h) = (r * c)%nat).
    { unfold qmatvec. etransitivity; [apply matvec_length | apply img_perm_length]. }
    pose proof (imgF_jacobian_law dg r c w h Hdg Lw Lh) as Hlaw.
    destruct (par2out_dir_deriv (r * c) A csF b dg w wf h _ Ew HA Lwf Lb Lu Hlaw) as (c2 & L2 & H2).
    exists c2. split.
    + rewrite L2. unfold poly_forward.
      assert (E : length (qmatvec A (pmap csF wf)) = length A) by (unfold qmatvec; apply matvec_length).
      rewrite qvadd_length_eq by congruence. exact E.
    + intros t. rewrite (forward_is_par2out q A csF b kt rg dg _ Hr), (H2 t). cbn [rmap].
      unfold J. rewrite <- (jacobian_product_apply (r * c) _ (img_perm r c) h (img_perm_wf r c) Lh). reflexivity.
Qed.

(* ---- LinearModel(matrix) with the geometries it derives from the matrix shape --------------------- *)
(* LinearModel.__init__: forward x |-> A x (keeps a CUQIarray's subclass), range = default 1-d geometry of the number of rows,
   domain = default 1-d geometry of the number of columns, gradient(direction, wrt) = A^T direction *)
Definition linear_matrix_model (A : mat) (n : nat) : fwd * geo * geo * gfun :=
  (mkFwd (qmatvec A) true, g_default1d (length A), g_default1d n, GAdjMat n A).

Theorem linear_matrix_model_clauses q A n p d :
  wf_mat n A -> length p = n -> length d = length A ->
  let '(F, rg, dg, gf) := linear_matrix_model A n in
  forward q F rg dg (InVec p) true = Ok (OutVec (qmatvec A p) false) /\
  forward q F rg dg (InVec p) false = Ok (OutVec (qmatvec A p) false) /\
  (forall ap flag, forward q F rg dg (InArr dg ap p) flag = Ok (OutArr rg (qmatvec A p) false)) /\
  (forall cols, forward q F rg dg (InSamples false cols) true = Ok (OutSamples rg (map (qmatvec A) cols))) /\
  gradient q gf rg dg (GiVec d) (GiVec p) true true = Ok (OutVec (qmattvec n A d) false).
Proof.
  intros HA Lp Ld. unfold linear_matrix_model.
  set (F := mkFwd (qmatvec A) true). set (rg := g_default1d (length A)). set (dg := g_default1d n).
  assert (Hp : g_par2fun dg p = Ok p) by reflexivity.
  assert (HC : f_keeps_tag F = true -> eq_confused q dg rg = false).
  { intros _. unfold eq_confused, dg, rg. cbn. destruct (q_eqidx q); reflexivity. }
  destruct (forward_representations_agree q F rg dg p p Hp HC) as (H1 & H2 & H3 & H4).
  assert (Ecore : core F rg p = Ok (qmatvec A p)) by reflexivity.
  rewrite Ecore in *. cbn [rmap] in *.
  split; [exact H1|]. split; [exact H2|]. split; [intros [|] flag; [apply H3 | apply H4]|]. split.
  - intros cols. apply (proj2 (forward_samples_columnwise q F rg dg cols true (map (qmatvec A) cols) (if_same _ _))).
    induction cols as [|c cols IH]; [constructor|]. cbn [map]. constructor; [|exact IH].
    rewrite forward_par. reflexivity.
  - transitivity (Ok (OutVec (qmattvec (length p) (qmatmul (length p) (poly_jac A (pderiv [0; 1]) p) (diagmat (ones p))) d) false)).
    + apply (gradient_chain_rule q (GAdjMat n A) rg dg n A [0; 1] d p p (diagmat (ones p))); try assumption; try reflexivity.
      right; right; right; right; left. split; reflexivity.
    + rewrite Lp. rewrite (poly_jac_linear n A p HA Lp).
      rewrite (matmul_diag n A (ones p)) by (try assumption; rewrite ones_length; exact Lp).
      rewrite (col_scale_ones n A p HA Lp). reflexivity.
Qed.

(* "wrapped like the input" for gradient: a CUQIarray direction gives a CUQIarray labelled with the model's domain geometry *)
Theorem gradient_wrapped_like_direction q gf rg dg direction wrt dp wp out :
  gradient q gf rg dg direction wrt dp wp = Ok out -> gi_is_arr direction = true ->
  exists v z, out = OutArr dg v z.
Proof.
  intros H Hd. unfold gradient in H. rewrite Hd in H.
  destruct (if gi_samples wrt then Ok (mkP2 [] None false) else two_par q dg (gi_vec wrt) (gi_tag_par q wrt) wp) as [wpr|e];
    cbn [bind] in H; [|discriminate].
  destruct gf; try discriminate;
  (destruct (gi_samples direction || gi_samples wrt); [discriminate|];
   destruct (negb (identity_class (g_cls rg))); [discriminate|];
   destruct (negb (has_grad dg) && negb (identity_class (g_cls dg))); [discriminate|];
   match type of H with bind ?x _ = _ => destruct x as [wf|e]; cbn [bind] in H; [|discriminate] end;
   match type of H with bind ?x _ = _ => destruct x as [df|e]; cbn [bind] in H; [|discriminate] end;
   match type of H with bind ?x _ = _ => destruct x as [[[gv flat] sel0]|e]; cbn [bind] in H; [|discriminate] end;
   destruct (g_grad dg);
   match type of H with rmap _ ?x = _ => destruct x as [r|e]; cbn [rmap] in H; [|discriminate] end;
   inversion H; unfold wrap_out; eauto).
Qed.

(* ---- what the conjuncts of the generated cells establish (reflection of the checkers) ------------- *)
(* exact cells: check_chain_rule = true means the chain-rule value exists (the theorem's hypotheses geo_jac = Some _,
   par2fun = Ok _ hold for this instance) and equals the observed gradient *)
Lemma check_chain_rule_sound A csF dg d w obs :
  check_chain_rule false A csF dg d w obs = true -> chain_rule_value A csF dg d w = Some (qvec obs).
Proof.
  unfold check_chain_rule. destruct (chain_rule_value A csF dg d w) as [g|]; [|discriminate].
  intros H. apply qcl_eqb_eq in H. subst g. reflexivity.
Qed.

(* pde_ops_ok = true is the hypothesis of pde_case_forward for every listed input *)
Lemma pde_ops_ok_sound n (xdep : bool) T xs : pde_ops_ok n xdep T xs = true ->
  forall x, (xdep = true -> In x xs) -> inv_ok n (if xdep then pde_xop T x else T) = true.
Proof.
  unfold pde_ops_ok. destruct xdep; intros H x Hx; [|exact H].
  rewrite forallb_forall in H. apply H. apply Hx. reflexivity.
Qed.

(* the permutation matrix is THE Jacobian of Image2D(order='F').par2fun *)
Corollary imgF_jacobian_unique dg r c w h v :
  imgF_geo dg r c -> length w = (r * c)%nat -> length h = (r * c)%nat -> length v = (r * c)%nat ->
  dir_deriv (g_par2fun dg) w h (img_par2fun r c w) v -> v = qmatvec (img_perm r c) h.
Proof.
  intros Hdg Lw Lh Lv Hv.
  apply (dir_deriv_unique (g_par2fun dg) w h (img_par2fun r c w) v (qmatvec (img_perm r c) h)).
  - rewrite img_par2fun_length. exact Lv.
  - rewrite img_par2fun_length. unfold qmatvec. etransitivity; [apply matvec_length | apply img_perm_length].
  - exact Hv.
  - apply imgF_jacobian_law; assumption.
Qed.

(* the finite-difference conjunct: the observed difference quotient of forward() is J h for the J of the instance *)
Lemma check_fd_sound A csF dg w h obs : check_fd false A csF dg w h obs = true ->
  exists JG wf, geo_jac dg w = Some JG /\ g_par2fun dg w = Ok wf /\
    qvec obs = qmatvec (qmatmul (length w) (poly_jac A (pderiv csF) wf) JG) h.
Proof.
  unfold check_fd, chain_rule_jvp. destruct (geo_jac dg w) as [JG|]; [|discriminate].
  destruct (g_par2fun dg w) as [wf|]; [|discriminate]. intros H. apply qcl_eqb_eq in H.
  exists JG, wf. repeat split. symmetry. exact H.
Qed.

(* the 7-point central difference used by the `fd/*` cells is EXACT for polynomials of degree <= 6:
   (-F(-3) + 9 F(-2) - 45 F(-1) + 45 F(1) - 9 F(2) + F(3)) = 60 F'(0) *)
Definition q2 : Qc := 1 + 1.
Definition q3 : Qc := 1 + 1 + 1.
Definition q9 : Qc := q3 * q3.
Definition q45 : Qc := q9 * (q2 + q3).
Definition q60 : Qc := q2 * q2 * q3 * (q2 + q3).

Lemma stencil7_exact a0 a1 a2 a3 a4 a5 a6 :
  let F := peval [a0; a1; a2; a3; a4; a5; a6] in
  - F (- q3) + q9 * F (- q2) - q45 * F (- (1)) + q45 * F 1 - q9 * F q2 + F q3 = q60 * a1.
Proof. intros F. unfold F, peval, q60, q45, q9, q3, q2. cbn [fold_right]. ring. Qed.

(* ... and the derivative of t |-> f(w + t h) at 0 is the linear coefficient the derivative laws speak about *)
Lemma q_constants : q2 = qcz 2 /\ q3 = qcz 3 /\ q9 = qcz 9 /\ q45 = qcz 45 /\ q60 = qcz 60.
Proof. repeat split; apply Qc_is_canon; reflexivity. Qed.
