(* C13 -- StepExpansion: par2fun / fun2par on any family of index sets that is a partition into non-empty
   steps; the round trip, the projection property, column-wise action. *)
From CV Require Import Base.Tac Base.Cmp Base.QcLin Model.C13_Geom Model.C13_Float Proofs.C13_Lists Proofs.C13_Index Proofs.C13_Geom.
From Coq Require Import QArith Qcanon.

(* what the documentation promises of _indices: no step is empty, every listed node is a grid node and lies in no other step *)
Definition step_wf (N : nat) (idx : list (list nat)) : Prop :=
  (forall i, (i < length idx)%nat -> nth i idx [] <> []) /\
  (forall i t, (i < length idx)%nat -> In t (nth i idx []) ->
     (t < N)%nat /\ forall j, (j < length idx)%nat -> In t (nth j idx []) -> j = i).

(* the same as a computable test (used on the bit-exact float indices) *)
Definition step_wf_b (N : nat) (idx : list (list nat)) : bool :=
  no_empty_step idx && forallb (forallb (fun t => (t <? N)%nat && (count_in t idx =? 1)%nat)) idx.

Lemma memb_In t l : memb t l = true <-> In t l.
Proof.
  unfold memb. rewrite existsb_exists. split.
  - intros [x [Hx E]]. apply Nat.eqb_eq in E. subst. exact Hx.
  - intros H. exists t. split; [exact H | apply Nat.eqb_refl].
Qed.

Lemma count_in_one_unique t (idx : list (list nat)) i j :
  count_in t idx = 1%nat -> (i < length idx)%nat -> (j < length idx)%nat ->
  In t (nth i idx []) -> In t (nth j idx []) -> j = i.
Proof.
  unfold count_in. revert i j. induction idx as [|s idx IH]; intros i j Hc Hi Hj Ti Tj; [cbn in Hi; lia|].
  cbn [filter] in Hc. destruct (memb t s) eqn:Es.
  - (* t in the head: no other step may contain it *)
    cbn [length] in Hc. assert (H0 : length (filter (memb t) idx) = 0%nat) by lia.
    apply length_zero_iff_nil in H0.
    assert (Hno : forall n, (n < length idx)%nat -> ~ In t (nth n idx [])).
    { intros n Hn Hin. assert (In (nth n idx []) (filter (memb t) idx)) as Hf
        by (apply filter_In; split; [apply nth_In; exact Hn | apply memb_In; exact Hin]).
      rewrite H0 in Hf. exact Hf. }
    destruct i as [|i], j as [|j]; try reflexivity; cbn [nth length] in *.
    + exfalso. apply (Hno j); [lia | exact Tj].
    + exfalso. apply (Hno i); [lia | exact Ti].
    + exfalso. apply (Hno i); [lia | exact Ti].
  - assert (Hns : ~ In t s) by (intros Hin; apply memb_In in Hin; congruence).
    destruct i as [|i]; [cbn [nth] in Ti; contradiction|]. destruct j as [|j]; [cbn [nth] in Tj; contradiction|].
    cbn [nth length] in *. f_equal. apply IH; try assumption; lia.
Qed.

Lemma step_wf_b_sound N idx : step_wf_b N idx = true -> step_wf N idx.
Proof.
  unfold step_wf_b. intros H. apply andb_true_iff in H as [Hne Hall]. split.
  - intros i Hi E. unfold no_empty_step in Hne. rewrite forallb_forall in Hne.
    specialize (Hne (nth i idx []) (nth_In _ _ Hi)). rewrite E in Hne. discriminate.
  - intros i t Hi Ht. rewrite forallb_forall in Hall. specialize (Hall (nth i idx []) (nth_In _ _ Hi)).
    rewrite forallb_forall in Hall. specialize (Hall t Ht). apply andb_true_iff in Hall as [H1 H2].
    apply Nat.ltb_lt in H1. apply Nat.eqb_eq in H2. split; [exact H1|].
    intros j Hj Tj. apply (count_in_one_unique t idx i j); assumption.
Qed.

(* ---- par2fun: a node of step i shows p[i] ---- *)
Lemma step_node_value_in N idx (p : list Qc) i t : step_wf N idx -> length p = length idx ->
  (i < length idx)%nat -> In t (nth i idx []) -> step_node_value idx p t = nth i p 0%Qc.
Proof.
  intros [_ Hwf] Hlp Hi Ht. unfold step_node_value.
  assert (Hcl : length (combine idx p) = length idx) by (rewrite combine_length, Hlp; apply Nat.min_id).
  destruct (find (fun ip => memb t (fst ip)) (rev (combine idx p))) as [[ids v]|] eqn:Ef.
  - apply find_some in Ef as [Hin Hm]. cbn [fst] in Hm. apply in_rev in Hin.
    apply (In_nth _ _ ([], 0%Qc)) in Hin as [j [Hj Ej]]. rewrite Hcl in Hj.
    rewrite combine_nth in Ej by (symmetry; exact Hlp). inversion Ej; subst ids v.
    apply memb_In in Hm. destruct (Hwf i t Hi Ht) as [_ Hu]. rewrite (Hu j Hj Hm). reflexivity.
  - exfalso. pose proof (find_none _ _ Ef (nth i idx [], nth i p 0%Qc)) as Hn. cbn [fst] in Hn.
    assert (Hm : memb t (nth i idx []) = true) by (apply memb_In; exact Ht).
    rewrite Hn in Hm; [discriminate|]. apply -> in_rev.
    rewrite <- combine_nth by (symmetry; exact Hlp). apply nth_In. rewrite Hcl. exact Hi.
Qed.

Lemma step_par2fun_col_length N idx p : length (step_par2fun_col N idx p) = N.
Proof. unfold step_par2fun_col. rewrite map_length, seq_length. reflexivity. Qed.

(* documented placement *)
Theorem step_par2fun_col_node N idx (p : list Qc) i t : step_wf N idx -> length p = length idx ->
  (i < length idx)%nat -> In t (nth i idx []) -> nth t (step_par2fun_col N idx p) 0%Qc = nth i p 0%Qc.
Proof.
  intros Hwf Hlp Hi Ht. destruct (proj2 Hwf i t Hi Ht) as [HtN _].
  unfold step_par2fun_col. rewrite nth_map_seq by exact HtN. apply (step_node_value_in N); assumption.
Qed.

(* ---- the three projections of a constant selection ---- *)
Lemma qsum_repeat v n : qsum (repeat v n) = (qcn n * v)%Qc.
Proof.
  induction n as [|n IH].
  - change (qcn 0) with 0%Qc. cbn [repeat qsum fold_right]. ring.
  - cbn [repeat qsum fold_right]. fold (qsum (repeat v n)). rewrite IH.
    assert (E : qcn (S n) = (qcn n + 1)%Qc).
    { unfold qcn, qcz. rewrite Nat2Z.inj_succ. unfold Z.succ. apply Qc_is_canon. cbn [this Q2Qc Qcplus].
      rewrite !Qred_correct. rewrite inject_Z_plus. reflexivity. }
    rewrite E. ring.
Qed.

Lemma qmaxl_repeat v n : qmaxl v (repeat v n) = v.
Proof. induction n as [|n IH]; [reflexivity|]. cbn [repeat qmaxl fold_left]. destruct (Qle_bool (this v) (this v)); exact IH. Qed.
Lemma qminl_repeat v n : qminl v (repeat v n) = v.
Proof. induction n as [|n IH]; [reflexivity|]. cbn [repeat qminl fold_left]. destruct (Qle_bool (this v) (this v)); exact IH. Qed.

Lemma step_project_const pr v n : step_project pr (repeat v (S n)) = Some (Some v).
Proof.
  unfold step_project. cbn [repeat]. f_equal. f_equal. destruct pr.
  - change (v :: repeat v n) with (repeat v (S n)). rewrite qsum_repeat, repeat_length.
    field. apply qcn_neq0. lia.
  - apply qmaxl_repeat.
  - apply qminl_repeat.
Qed.

Lemma map_const_repeat {X Y} (f : X -> Y) v l : (forall x, In x l -> f x = v) -> map f l = repeat v (length l).
Proof. induction l as [|a l IH]; intros H; [reflexivity|]. cbn. rewrite H by (left; reflexivity). rewrite IH by (intros x Hx; apply H; right; exact Hx). reflexivity. Qed.

Lemma omap_list_nth {X Y} (f : X -> option Y) l r dx dy : length r = length l ->
  (forall i, (i < length l)%nat -> f (nth i l dx) = Some (nth i r dy)) -> omap_list f l = Some r.
Proof.
  revert r. induction l as [|a l IH]; intros [|b r] Hl H; cbn in Hl; try lia; [reflexivity|].
  cbn [omap_list]. assert (H0 : f a = Some b) by (apply (H 0%nat); cbn; lia). rewrite H0.
  rewrite (IH r); [reflexivity | lia |]. intros i Hi. apply (H (S i)). cbn; lia.
Qed.

Lemma omap_list_map {X Y Z} (f : Y -> option Z) (h : X -> Y) l : omap_list f (map h l) = omap_list (fun x => f (h x)) l.
Proof. induction l as [|a l IH]; [reflexivity|]. cbn [map omap_list]. rewrite IH. reflexivity. Qed.

(* ---- one column: fun2par(par2fun(p)) = p, no NaN ---- *)
Theorem step_col_roundtrip N idx pr (p : list Qc) : step_wf N idx -> length p = length idx ->
  step_fun2par_col idx pr (step_par2fun_col N idx p) = Some (map Some p).
Proof.
  intros Hwf Hlp. unfold step_fun2par_col.
  apply omap_list_nth with (dx := []) (dy := None); [rewrite map_length; exact Hlp|].
  intros i Hi.
  rewrite map_const_repeat with (v := nth i p 0%Qc)
    by (intros t Ht; apply (step_par2fun_col_node N); assumption).
  destruct (nth i idx []) as [|t0 ids] eqn:E; [exfalso; apply (proj1 Hwf i Hi); exact E|].
  cbn [length]. rewrite step_project_const. f_equal.
  rewrite nth_indep with (d' := Some 0%Qc) by (rewrite map_length, Hlp; exact Hi).
  rewrite map_nth. reflexivity.
Qed.

(* ---- whole arrays ---- *)
Lemma step_par2fun_colwise N idx a : step_par2fun N idx a = colwise N (length idx) (step_par2fun_col N idx) a.
Proof. reflexivity. Qed.

Lemma of_cols_map_Some rows (cols : list (list Qc)) : Forall (fun c => length c = rows) cols ->
  of_cols None rows (map (map Some) cols) = map Some (of_cols 0%Qc rows cols).
Proof.
  intros HF. unfold of_cols. rewrite flat_map_concat_map, flat_map_concat_map, concat_map, map_map.
  f_equal. apply map_ext_in. intros i Hi. apply in_seq in Hi. rewrite !map_map.
  apply map_ext_in. intros c Hc. rewrite Forall_forall in HF. specialize (HF c Hc).
  rewrite nth_indep with (d' := Some 0%Qc) by (rewrite map_length; lia). apply map_nth.
Qed.

Lemma all_some_map_Some (l : list Qc) : all_some (map Some l) = Some l.
Proof. unfold all_some. induction l as [|a l IH]; [reflexivity|]. cbn [map omap_list]. rewrite IH. reflexivity. Qed.

(* g_fun2par (GStep ..) written out *)
Definition step_fun2par_total (N : nat) (idx : list (list nat)) (pr : proj) (a : arr Qc) : option (arr Qc) :=
  obind (step_fun2par N idx pr a) (fun r => option_map (mkArr (shp r)) (all_some (dat r))).

(* fun2par(par2fun(p)) = p for a vector and for every batch of parameter vectors; n_steps >= 2, >= 2 nodes *)
Theorem step_roundtrip N idx pr k (a : arr Qc) : step_wf N idx -> (N <> 1)%nat -> (length idx <> 1)%nat ->
  shp a = vb_shape (length idx) k -> length (dat a) = (length idx * k)%nat ->
  obind (step_par2fun N idx a) (step_fun2par_total N idx pr) = Some a.
Proof.
  intros Hwf HN Hn Hs Hl. set (n := length idx) in *.
  rewrite step_par2fun_colwise. fold n. rewrite (colwise_eq N n _ k) by assumption. cbn [obind].
  unfold step_fun2par_total, step_fun2par. rewrite batch_in_vb. cbn [dat].
  set (cols0 := cols_of 0%Qc n k (dat a)).
  assert (HF0 : Forall (fun c => length c = n) cols0) by apply cols_of_Forall.
  pose proof (cols_of_of_cols 0%Qc N (map (step_par2fun_col N idx) cols0)) as E.
  assert (Hk0 : length cols0 = k) by apply cols_of_length.
  rewrite map_length, Hk0 in E. rewrite E
    by (apply Forall_forall; intros c Hc; apply in_map_iff in Hc as [c0 [<- _]]; apply step_par2fun_col_length).
  rewrite omap_list_map. rewrite (omap_list_some _ (map Some)).
  - cbn [obind]. unfold squeeze_arr. cbn [shp dat]. fold n. rewrite np_squeeze_mk by exact Hn.
    rewrite of_cols_map_Some by exact HF0. rewrite all_some_map_Some. cbn [option_map].
    unfold cols0. rewrite of_cols_cols_of by exact Hl.
    destruct a as [s x]; cbn [shp dat] in *; subst s. reflexivity.
  - intros c Hc. apply step_col_roundtrip; [exact Hwf|].
    rewrite Forall_forall in HF0. apply HF0. exact Hc.
Qed.

(* column j of par2fun(batch) = par2fun(column j) *)
Theorem step_par2fun_columnwise N idx k (a : arr Qc) : (N <> 1)%nat -> (k <> 1)%nat -> shp a = [length idx; k] ->
  exists b, step_par2fun N idx a = Some b /\ shp b = [N; k] /\ length (dat b) = (N * k)%nat /\
    forall j, (j < k)%nat ->
      step_par2fun N idx (mkArr [length idx] (col_of 0%Qc (length idx) k j (dat a))) = Some (mkArr [N] (col_of 0%Qc N k j (dat b))).
Proof.
  intros HN Hk Hs. apply colwise_columnwise; try assumption. intros c _. apply step_par2fun_col_length.
Qed.

(* the defect classes, on the model *)
(* (a) an index family with an empty step (what binary64 produces for 6 nodes on [0,1] and 5 steps) loses a parameter *)
Theorem step_roundtrip_empty_step_refuted : exists N idx pr (a : arr Qc),
  shp a = [length idx] /\ length (dat a) = length idx /\ (N <> 1)%nat /\ (length idx <> 1)%nat /\
  obind (step_par2fun N idx a) (step_fun2par_total N idx pr) <> Some a.
Proof.
  exists 6%nat, [[0; 1]; [2]; []; [3; 4]; [5]]%nat, PMean, (mkArr [5%nat] (map qcn [1; 2; 3; 4; 5]%nat)).
  repeat split; try reflexivity; try (cbn; lia). vm_compute. discriminate.
Qed.

(* (b) squeeze(): a single step returns a 0-d parameter array *)
Theorem step_roundtrip_single_step_refuted : exists N idx pr (a : arr Qc),
  step_wf N idx /\ shp a = [length idx] /\ length (dat a) = length idx /\
  obind (step_par2fun N idx a) (step_fun2par_total N idx pr) <> Some a.
Proof.
  exists 4%nat, [[0; 1; 2; 3]]%nat, PMean, (mkArr [1%nat] [qcn 4]).
  split; [apply step_wf_b_sound; reflexivity|]. repeat split; try reflexivity. vm_compute. discriminate.
Qed.
