(* C20 -- over the reals: log det (L L^T) = 2 sum_i log l_ii for a factor with positive diagonal
   (what `2*sum(np.log(self._chol.diagonal()))` computes), given det(L L^T) = (prod l_ii)^2
   (mc/C20_Det.v). *)
From Coq Require Import Reals List Lra.
Import ListNotations.
Local Open Scope R_scope.

Definition rprod (l : list R) : R := fold_right Rmult 1 l.
Definition rsum (l : list R) : R := fold_right Rplus 0 l.

Lemma rprod_pos l : Forall (fun a => 0 < a) l -> 0 < rprod l.
Proof.
  intros H; induction H as [|a l Ha Hl IH]; cbn; [lra|]. apply Rmult_lt_0_compat; assumption.
Qed.

Lemma ln_rprod l : Forall (fun a => 0 < a) l -> ln (rprod l) = rsum (map ln l).
Proof.
  intros H; induction H as [|a l Ha Hl IH]; cbn [rprod rsum fold_right map]; [apply ln_1|].
  fold (rprod l). fold (rsum (map ln l)). rewrite ln_mult by (try assumption; apply rprod_pos; assumption).
  rewrite IH. reflexivity.
Qed.

Theorem logdet_from_diag l : Forall (fun a => 0 < a) l ->
  ln ((rprod l) ^ 2) = 2 * rsum (map ln l).
Proof.
  intros H. pose proof (rprod_pos l H) as Hp. replace ((rprod l) ^ 2) with (rprod l * rprod l) by ring.
  rewrite ln_mult by assumption. rewrite ln_rprod by assumption. ring.
Qed.

(* the repaired large-dimension branch reports log det(P + e I) - nullity log e = sum_i ln(l_i + e) over the non-zero
   eigenvalues l_i (spectral step not formalised): it exceeds the pseudo-log-determinant sum_i ln l_i by at most
   e * sum_i 1/l_i = e * trace(P^+), and never falls below it *)
Lemma ln_1p_le x : 0 <= x -> ln (1 + x) <= x.
Proof.
  intros [Hx | <-]; [|rewrite Rplus_0_r, ln_1; lra].
  rewrite <- (ln_exp x) at 2. left. apply ln_increasing; [lra | apply exp_ineq1; lra].
Qed.

Theorem logdet_regularised_bound l e : Forall (fun a => 0 < a) l -> 0 < e ->
  0 <= rsum (map (fun a => ln (a + e)) l) - rsum (map ln l) <= e * rsum (map Rinv l).
Proof.
  intros H He; induction H as [|a l Ha Hl IH]; cbn [rsum map fold_right]; [lra|].
  fold (rsum (map (fun a0 => ln (a0 + e)) l)) (rsum (map ln l)) (rsum (map Rinv l)).
  assert (E : ln (a + e) = ln a + ln (1 + e / a)).
  { rewrite <- ln_mult; [f_equal; field; lra | exact Ha |].
    assert (0 < e / a) by (apply Rdiv_lt_0_compat; assumption). lra. }
  assert (0 <= e / a) by (left; apply Rdiv_lt_0_compat; assumption).
  pose proof (ln_1p_le (e / a) H) as Hu.
  assert (Hl0 : 0 <= ln (1 + e / a)).
  { rewrite <- ln_1. destruct H as [H | <-]; [left; apply ln_increasing; lra | rewrite Rplus_0_r; lra]. }
  unfold Rdiv in *. rewrite E. lra.
Qed.
