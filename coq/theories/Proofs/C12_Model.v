(* C12 -- lemmas and proofs about the model of cuqi.model.Model (Model/C12_Model.v). *)
From CV Require Import Base.Tac Base.LinAlg Base.QcLin Base.Cmp Model.C12_Model.
From Coq Require Import QArith Qcanon Ring.
From Coq Require String.
Local Open Scope Qc_scope.

(* ------------------------------------------------------------------------------------------ *)
(* boolean equalities decide Leibniz equality                                                  *)
(* ------------------------------------------------------------------------------------------ *)
Lemma qcl_eqb_eq x y : qcl_eqb x y = true <-> x = y.
Proof. apply list_eqb_spec. apply qc_eqb_eq. Qed.

Lemma qcll_eqb_eq x y : qcll_eqb x y = true <-> x = y.
Proof. apply list_eqb_spec. apply qcl_eqb_eq. Qed.

Lemma natl_eqb_eq x y : natl_eqb x y = true <-> x = y.
Proof. apply list_eqb_spec. intros; apply Nat.eqb_eq. Qed.

Lemma natll_eqb_eq x y : natll_eqb x y = true <-> x = y.
Proof. apply list_eqb_spec. apply natl_eqb_eq. Qed.

Lemma proj_eqb_eq a b : proj_eqb a b = true <-> a = b.
Proof. destruct a, b; simpl; split; intros H; try reflexivity; try discriminate. Qed.

Lemma gclass_eqb_eq a b : gclass_eqb a b = true <-> a = b.
Proof. destruct a, b; simpl; split; intros H; try reflexivity; try discriminate. Qed.

Lemma tsel_eqb_eq a b : tsel_eqb a b = true <-> a = b.
Proof. destruct a, b; simpl; split; intros H; try reflexivity; try discriminate. Qed.

Lemma conv_eqb_eq a b : conv_eqb a b = true <-> a = b.
Proof.
  destruct a as [|r c|r c|K M|n i p sq], b as [|r' c'|r' c'|K' M'|n' i' p' sq']; simpl; split; intros H;
    try reflexivity; try discriminate.
  - apply andb_true_iff in H as [H1 H2]. apply Nat.eqb_eq in H1, H2. congruence.
  - inversion H; subst. rewrite !Nat.eqb_refl. reflexivity.
  - apply andb_true_iff in H as [H1 H2]. apply Nat.eqb_eq in H1, H2. congruence.
  - inversion H; subst. rewrite !Nat.eqb_refl. reflexivity.
  - apply andb_true_iff in H as [H1 H2]. apply qcll_eqb_eq in H1, H2. congruence.
  - inversion H; subst. apply andb_true_iff; split; apply qcll_eqb_eq; reflexivity.
  - apply andb_true_iff in H as [H123 H4]. apply andb_true_iff in H123 as [H12 H3]. apply andb_true_iff in H12 as [H1 H2].
    apply Nat.eqb_eq in H1. apply natll_eqb_eq in H2. apply proj_eqb_eq in H3. apply Bool.eqb_prop in H4. congruence.
  - inversion H; subst. rewrite Nat.eqb_refl, Bool.eqb_reflx, andb_true_r. simpl.
    apply andb_true_iff; split; [apply natll_eqb_eq | apply proj_eqb_eq]; reflexivity.
Qed.

Lemma f2p_eqb_eq a b : f2p_eqb a b = true <-> a = b.
Proof.
  destruct a as [| | |x], b as [| | |y]; simpl; split; intros H; try reflexivity; try discriminate.
  - apply qcl_eqb_eq in H. congruence.
  - inversion H; subst. apply qcl_eqb_eq. reflexivity.
Qed.

Lemma ggrad_eqb_eq a b : ggrad_eqb a b = true <-> a = b.
Proof.
  destruct a as [x s|x|m K], b as [y s'|y|m' K']; simpl; split; intros H; try reflexivity; try discriminate.
  - apply andb_true_iff in H as [H1 H2]. apply qcl_eqb_eq in H1. apply tsel_eqb_eq in H2. congruence.
  - inversion H; subst. apply andb_true_iff; split; [apply qcl_eqb_eq | apply tsel_eqb_eq]; reflexivity.
  - apply natll_eqb_eq in H. congruence.
  - inversion H; subst. apply natll_eqb_eq. reflexivity.
  - apply andb_true_iff in H as [H1 H2]. apply Nat.eqb_eq in H1. apply qcll_eqb_eq in H2. congruence.
  - inversion H; subst. apply andb_true_iff; split; [apply Nat.eqb_eq | apply qcll_eqb_eq]; reflexivity.
Qed.

Lemma opt_eqb_eq {A} (eqb : A -> A -> bool) :
  (forall a b, eqb a b = true <-> a = b) -> forall x y, opt_eqb eqb x y = true <-> x = y.
Proof.
  intros H [a|] [b|]; simpl; split; intros E; try reflexivity; try discriminate.
  - apply H in E. congruence.
  - inversion E; subst. apply H. reflexivity.
Qed.

Lemma fields_eqb_eq a b : fields_eqb a b = true <-> a = b.
Proof.
  unfold fields_eqb. split.
  - intros H. repeat (apply andb_true_iff in H; destruct H as [H ?]).
    apply gclass_eqb_eq in H.
    repeat match goal with
           | X : Nat.eqb _ _ = true |- _ => apply Nat.eqb_eq in X
           | X : conv_eqb _ _ = true |- _ => apply conv_eqb_eq in X
           | X : f2p_eqb _ _ = true |- _ => apply f2p_eqb_eq in X
           | X : opt_qcl_eqb _ _ = true |- _ => apply (opt_eqb_eq qcl_eqb qcl_eqb_eq) in X
           | X : opt_eqb ggrad_eqb _ _ = true |- _ => apply (opt_eqb_eq ggrad_eqb ggrad_eqb_eq) in X
           end.
    destruct a, b; simpl in *; congruence.
  - intros ->. repeat (apply andb_true_iff; split);
      try apply Nat.eqb_refl; try (apply gclass_eqb_eq; reflexivity); try (apply conv_eqb_eq; reflexivity);
      try (apply f2p_eqb_eq; reflexivity); try (apply (opt_eqb_eq qcl_eqb qcl_eqb_eq); reflexivity);
      try (apply (opt_eqb_eq ggrad_eqb ggrad_eqb_eq); reflexivity).
Qed.

(* ------------------------------------------------------------------------------------------ *)
(* Geometry.__eq__: reflexive; where it answers "equal" the conversions coincide -- except in   *)
(* the two classes in which the comparison itself misbehaves                                    *)
(* ------------------------------------------------------------------------------------------ *)
(* the comparison `a == b` misbehaves: IndexError for Discrete geometries of different size, and
   "equal" for a default 1-d geometry against a StepExpansion / user subclass of Continuous1D on
   the same grid *)
Definition eq_confused (q : quirks) (a b : geo) : bool :=
  match g_cls a, g_cls b with
  | KDiscrete, KDiscrete => q_eqidx q && negb (Nat.eqb (g_pdim a) (g_pdim b))
  | KDefault1D, KStep | KDefault1D, KSub1D => q_defeq q && grid_eqb a b
  | _, _ => q_eqidx q && grad_only_left a b      (* KeyError: `gradient` attached to the left object only *)
  end.

Lemma eq_confused_fixed a b : eq_confused q_fixed a b = false.
Proof. unfold eq_confused. destruct (g_cls a), (g_cls b); reflexivity. Qed.

Lemma grad_only_left_refl a : grad_only_left a a = false.
Proof. unfold grad_only_left. destruct (has_grad a); simpl; rewrite ?andb_false_r; reflexivity. Qed.

Lemma set_grad_alike a gr :
  (forall fl f, g_fun2par_gen (set_grad a gr) fl f = g_fun2par_gen a fl f) /\
  (forall i p, g_par2fun_gen (set_grad a gr) i p = g_par2fun_gen a i p) /\
  g_f2p_0d (set_grad a gr) = g_f2p_0d a /\ g_keeps (set_grad a gr) = g_keeps a.
Proof. repeat split. Qed.

Lemma geo_eq_refl q a : geo_eq q a a = Ok true.
Proof.
  assert (F : fields_eqb a a = true) by (apply fields_eqb_eq; reflexivity).
  unfold geo_eq, geo_eqb. rewrite grad_only_left_refl, andb_false_r.
  destruct (g_cls a) eqn:E; try (rewrite F; reflexivity).
  rewrite Nat.eqb_refl, andb_false_r. rewrite F. reflexivity.
Qed.

Lemma geo_eq_unconfused q a b : eq_confused q a b = false -> geo_eq q a b = Ok (geo_eqb q a b).
Proof.
  unfold eq_confused, geo_eq, grad_only_left.
  destruct (g_cls a) eqn:Ea, (g_cls b) eqn:Eb; intros H; cbn [inst_grad_class andb] in *;
    rewrite ?andb_false_r, ?H; reflexivity.
Qed.

(* equal geometries convert alike *)
Definition conv_alike (a b : geo) : Prop :=
  (forall fl f, g_fun2par_gen a fl f = g_fun2par_gen b fl f) /\
  (forall i p, g_par2fun_gen a i p = g_par2fun_gen b i p) /\
  g_f2p_0d a = g_f2p_0d b /\ g_keeps a = g_keeps b.

Lemma conv_alike_refl a : conv_alike a a.
Proof. repeat split. Qed.

Lemma geo_eqb_alike q a b : eq_confused q a b = false -> geo_eqb q a b = true -> conv_alike a b.
Proof.
  unfold eq_confused, geo_eqb. intros HC HE.
  assert (FB : fields_eqb a b || grad_only_right a b = true -> conv_alike a b).
  { intros H. apply orb_true_iff in H as [H|H].
    - apply fields_eqb_eq in H; subst b; apply conv_alike_refl.
    - unfold grad_only_right in H. apply andb_true_iff in H as [_ H]. apply fields_eqb_eq in H. rewrite H.
      destruct (set_grad_alike b None) as (H1 & H2 & H3 & H4). unfold conv_alike. repeat split; auto. }
  destruct (g_cls a) eqn:Ea, (g_cls b) eqn:Eb;
    try (apply FB; exact HE);
    try (rewrite HC in HE; discriminate).
  - (* default1d, cont1d *)
    unfold conv_alike, g_fun2par_gen, g_par2fun_gen, g_f2p_0d, g_keeps. rewrite Ea, Eb. simpl. repeat split.
  - (* cont1d, default1d *)
    unfold conv_alike, g_fun2par_gen, g_par2fun_gen, g_f2p_0d, g_keeps. rewrite Ea, Eb. simpl. repeat split.
  - (* image2d, default2d *)
    apply andb_true_iff in HE as [HE Hf]. apply andb_true_iff in HE as [HE Hm].
    apply andb_true_iff in HE as [HE _]. apply andb_true_iff in HE as [HE _].
    apply conv_eqb_eq in HE. apply f2p_eqb_eq in Hf. apply (opt_eqb_eq qcl_eqb qcl_eqb_eq) in Hm.
    unfold conv_alike, g_fun2par_gen, g_par2fun_gen, g_f2p_0d, g_keeps. rewrite Ea, Eb, HE, Hf, Hm. simpl.
    repeat split.
  - (* default2d, image2d *)
    apply andb_true_iff in HE as [HE Hf]. apply andb_true_iff in HE as [HE Hm].
    apply andb_true_iff in HE as [HE _]. apply andb_true_iff in HE as [HE _].
    apply conv_eqb_eq in HE. apply f2p_eqb_eq in Hf. apply (opt_eqb_eq qcl_eqb qcl_eqb_eq) in Hm.
    unfold conv_alike, g_fun2par_gen, g_par2fun_gen, g_f2p_0d, g_keeps. rewrite Ea, Eb, HE, Hf, Hm. simpl.
    repeat split.
Qed.

(* ------------------------------------------------------------------------------------------ *)
(* forward: all representations of one input give the same parameters of the range geometry     *)
(* ------------------------------------------------------------------------------------------ *)
(* what every representation must produce: fun2par_range (F (function values)) *)
Definition core (F : fwd) (rg : geo) (fv : vec) : res vec := g_fun2par rg (f_apply F fv).
Definition out_of (arr : bool) (rg : geo) (v : vec) : output :=
  if arr then OutArr rg v (g_f2p_0d rg) else OutVec v (g_f2p_0d rg).

Lemma if_same {A} (b : bool) (x : A) : (if b then x else x) = x.
Proof. destruct b; reflexivity. Qed.

Lemma rmap_rmap {A B C} (f : A -> B) (g : B -> C) (x : res A) : rmap g (rmap f x) = rmap (fun a => g (f a)) x.
Proof. destruct x; reflexivity. Qed.

Lemma rmap_ext {A B} (f g : A -> B) (x : res A) : (forall a, f a = g a) -> rmap f x = rmap g x.
Proof. intros H. destruct x; simpl; [rewrite H|]; reflexivity. Qed.

Lemma two_par_none q rg val :
  two_par q rg val None false = rmap (fun v => mkP2 v None (g_f2p_0d rg)) (g_fun2par rg val).
Proof. reflexivity. Qed.

Lemma forward_par q F rg dg p :
  forward q F rg dg (InVec p) true = bind (g_par2fun dg p) (fun fv => rmap (out_of false rg) (core F rg fv)).
Proof.
  unfold forward, apply_one, two_fun_gen, g_par2fun, core. destruct (g_par2fun_gen dg false p) as [fv|e]; cbn [bind rmap fst snd]; [|reflexivity].
  rewrite if_same.
  rewrite two_par_none, rmap_rmap. reflexivity.
Qed.

Lemma forward_fun q F rg dg fv :
  forward q F rg dg (InVec fv) false = rmap (out_of false rg) (core F rg fv).
Proof.
  unfold forward, apply_one, two_fun_gen, core. cbn [bind rmap fst snd].
  rewrite if_same.
  rewrite two_par_none, rmap_rmap. reflexivity.
Qed.

(* the conversion of the output when the value still carries the tag of the input array *)
Lemma two_par_tagged q rg dg val :
  eq_confused q dg rg = false ->
  rmap (wrap_out true rg) (two_par q rg val (Some (dg, false)) false) = rmap (out_of true rg) (g_fun2par rg val).
Proof.
  intros HC. unfold two_par, two_par_gen. rewrite (geo_eq_unconfused q dg rg HC). simpl.
  destruct (geo_eqb q dg rg) eqn:E.
  - destruct (geo_eqb_alike q dg rg HC E) as (H1 & _ & H3 & _).
    unfold g_fun2par. rewrite H1, H3, rmap_rmap. reflexivity.
  - rewrite rmap_rmap. unfold g_fun2par. reflexivity.
Qed.

Lemma forward_arr_gen q F rg dg (ap : bool) x fv flag :
  (f_keeps_tag F = true -> eq_confused q dg rg = false) ->
  (if ap then g_par2fun dg x else Ok x) = Ok fv ->
  forward q F rg dg (InArr dg ap x) flag = rmap (out_of true rg) (core F rg fv).
Proof.
  intros HG Hx. unfold forward, apply_one, two_fun_gen. rewrite geo_eq_refl. simpl.
  assert (E : (if ap then rmap (fun f => (f, Some (dg, false))) (g_par2fun dg x) else Ok (x, Some (dg, false)))
              = Ok (fv, Some (dg, false))).
  { destruct ap; [rewrite Hx; reflexivity | inversion Hx; reflexivity]. }
  rewrite E. simpl. unfold core. destruct (f_keeps_tag F) eqn:K.
  - apply two_par_tagged. auto.
  - rewrite two_par_none, rmap_rmap. reflexivity.
Qed.

Theorem forward_representations_agree q F rg dg p fv :
  g_par2fun dg p = Ok fv ->
  (f_keeps_tag F = true -> eq_confused q dg rg = false) ->
  forward q F rg dg (InVec p) true = rmap (out_of false rg) (core F rg fv) /\
  forward q F rg dg (InVec fv) false = rmap (out_of false rg) (core F rg fv) /\
  (forall flag, forward q F rg dg (InArr dg true p) flag = rmap (out_of true rg) (core F rg fv)) /\
  (forall flag, forward q F rg dg (InArr dg false fv) flag = rmap (out_of true rg) (core F rg fv)).
Proof.
  intros Hp HG. repeat split.
  - rewrite forward_par, Hp. reflexivity.
  - apply forward_fun.
  - intros flag. apply forward_arr_gen; assumption.
  - intros flag. apply forward_arr_gen; [assumption | reflexivity].
Qed.

(* mapM succeeds exactly when every element does, and collects the results in order *)
Lemma mapM_ok_iff {A B} (f : A -> res B) l outs :
  mapM f l = Ok outs <-> Forall2 (fun a b => f a = Ok b) l outs.
Proof.
  revert outs; induction l as [|a l IH]; intros outs; simpl.
  - split; intros H; [inversion H; constructor | inversion H; reflexivity].
  - destruct (f a) as [b|e] eqn:Ea; simpl.
    + destruct (mapM f l) as [bs|e] eqn:El; simpl.
      * split; intros H.
        -- inversion H; subst. constructor; [assumption | apply IH; reflexivity].
        -- inversion H as [|? b' ? bs' Hb Hbs]; subst. apply IH in Hbs. rewrite Ea in Hb. congruence.
      * split; intros H; [discriminate|].
        inversion H as [|? b' ? bs' Hb Hbs]; subst. apply IH in Hbs. discriminate.
    + split; intros H; [discriminate|]. inversion H; subst. congruence.
Qed.

Lemma Forall2_mono {A B} (P Q : A -> B -> Prop) l l' :
  (forall a b, P a b -> Q a b) -> Forall2 P l l' -> Forall2 Q l l'.
Proof. intros H F2. induction F2; constructor; auto. Qed.

(* a sample collection is handled column by column, each column like a single vector *)
Theorem forward_samples_columnwise q F rg dg cols flag outs :
  (if q_samples_par q then true else flag) = true ->
  (forward q F rg dg (InSamples false cols) flag = Ok (OutSamples rg outs) <->
   Forall2 (fun c o => forward q F rg dg (InVec c) true = Ok (out_of false rg o)) cols outs).
Proof.
  intros Hf. unfold forward at 1. rewrite Hf.
  set (f := fun c => rmap p_v (apply_one q F rg dg false c None true)).
  assert (Hcol : forall c o, f c = Ok o <-> forward q F rg dg (InVec c) true = Ok (out_of false rg o)).
  { intros c o. unfold f, forward. destruct (apply_one q F rg dg false c None true) as [r|e] eqn:E; simpl.
    - unfold apply_one, two_fun_gen in E. destruct (g_par2fun_gen dg false c) as [fv|e]; simpl in E; [|discriminate].
      rewrite if_same in E.
      rewrite two_par_none in E. destruct (g_fun2par rg (f_apply F fv)) as [v|e]; simpl in E; [|discriminate].
      inversion E; subst. unfold wrap_out, out_of. simpl. split; intros H; inversion H; reflexivity.
    - split; intros H; discriminate. }
  split.
  - intros H. destruct (mapM f cols) as [os|e] eqn:E; simpl in H; [|discriminate].
    inversion H; subst. apply mapM_ok_iff in E. eapply Forall2_mono; [|exact E]. intros c o. apply Hcol.
  - intros H. assert (E : mapM f cols = Ok outs).
    { apply mapM_ok_iff. eapply Forall2_mono; [|exact H]. intros c o. apply Hcol. }
    rewrite E. reflexivity.
Qed.

(* with the keyword honoured, a collection of function values is handled like single function values *)
Theorem forward_samples_fun_columnwise q F rg dg s2d cols outs :
  q_samples_par q = false ->
  (forward q F rg dg (InSamples s2d cols) false = Ok (OutSamples rg outs) <->
   Forall2 (fun c o => forward q F rg dg (InVec c) false = Ok (out_of false rg o)) cols outs).
Proof.
  intros Hq. unfold forward at 1. rewrite Hq.
  set (f := fun c => rmap p_v (apply_one q F rg dg s2d c None false)).
  assert (Hcol : forall c o, f c = Ok o <-> forward q F rg dg (InVec c) false = Ok (out_of false rg o)).
  { intros c o. rewrite forward_fun. unfold f, apply_one, two_fun_gen, core. simpl.
    rewrite if_same.
    rewrite two_par_none, rmap_rmap. simpl. destruct (g_fun2par rg (f_apply F c)) as [v|e]; simpl.
    - unfold out_of. split; intros H; inversion H; reflexivity.
    - split; intros H; discriminate. }
  split.
  - intros H. destruct (mapM f cols) as [os|e] eqn:E; simpl in H; [|discriminate].
    inversion H; subst. apply mapM_ok_iff in E. eapply Forall2_mono; [|exact E]. intros c o. apply Hcol.
  - intros H. assert (E : mapM f cols = Ok outs).
    { apply mapM_ok_iff. eapply Forall2_mono; [|exact H]. intros c o. apply Hcol. }
    rewrite E. reflexivity.
Qed.

(* ------------------------------------------------------------------------------------------ *)
(* linear algebra: d @ J is J^T d; (A B)^T y = B^T (A^T y)                                      *)
(* ------------------------------------------------------------------------------------------ *)
Local Notation qth := (Qcrt).
Definition qcol := @col Qc 0.

Lemma qdot_nil_r x : qdot x [] = 0.
Proof. apply dot_nil_r. Qed.

Lemma map_const_seq (n s : nat) : map (fun _ : nat => 0) (seq s n) = qvzero n.
Proof. revert s; induction n as [|n IH]; intros s; simpl; [reflexivity|]. unfold qvzero, vzero in *. simpl. rewrite IH. reflexivity. Qed.

Lemma map_nth_seq (row : vec) : map (fun j => nth j row 0) (seq 0 (length row)) = row.
Proof.
  induction row as [|a row IH]; [reflexivity|].
  cbn [length seq map]. rewrite <- seq_shift, map_map. cbn [nth]. rewrite IH. reflexivity.
Qed.

Lemma qvadd_map (f g : nat -> Qc) l : qvadd (map f l) (map g l) = map (fun j => f j + g j) l.
Proof. unfold qvadd. induction l as [|a l IH]; simpl; [reflexivity|]. rewrite IH. reflexivity. Qed.

Lemma qvscale_map c (f : nat -> Qc) l : qvscale c (map f l) = map (fun j => c * f j) l.
Proof. unfold qvscale, vscale. rewrite map_map. reflexivity. Qed.

(* numpy's d @ J (entry j = <d, column j of J>) is the transposed matrix applied to d *)
Lemma vecmat_is_mattvec n (J : mat) (d : vec) :
  wf_mat n J -> length d = length J -> vecmat n d J = qmattvec n J d.
Proof.
  intros HJ; revert d; induction HJ as [|row J Hr HJ IH]; intros d Hd.
  - destruct d; [|discriminate]. unfold vecmat, qmattvec. simpl. apply map_const_seq.
  - destruct d as [|a d]; [discriminate|]. simpl in Hd. injection Hd as Hd.
    unfold qmattvec. cbn [mattvec]. change (mattvec 0 Qcplus Qcmult n J d) with (qmattvec n J d).
    rewrite <- IH by exact Hd. unfold vecmat.
    replace (vscale Qcmult a row) with (qvscale a (map (fun j => nth j row 0) (seq 0 n)))
      by (rewrite <- Hr, map_nth_seq; reflexivity).
    rewrite qvscale_map. change (vadd Qcplus) with qvadd. rewrite qvadd_map.
    apply map_ext. intros j. unfold qdot, col. cbn [map dot]. reflexivity.
Qed.

Lemma qmattvec_length n A y : wf_mat n A -> length (qmattvec n A y) = n.
Proof. apply mattvec_length. Qed.

Lemma qmattvec_vzero m B k : wf_mat m B -> qmattvec m B (qvzero k) = qvzero m.
Proof.
  intros HB; revert k; induction HB as [|row B Hr HB IH]; intros k.
  - destruct k; reflexivity.
  - destruct k as [|k]; [reflexivity|]. change (qvzero (S k)) with (0 :: qvzero k).
    unfold qmattvec. cbn [mattvec]. change (mattvec 0 Qcplus Qcmult m B (qvzero k)) with (qmattvec m B (qvzero k)).
    rewrite IH.
    replace (vscale Qcmult 0 row) with (qvscale 0 (map (fun j => nth j row 0) (seq 0 m)))
      by (rewrite <- Hr, map_nth_seq; reflexivity).
    rewrite qvscale_map, <- (map_const_seq m 0). change (vadd Qcplus) with qvadd. rewrite qvadd_map.
    apply map_ext. intros j. ring.
Qed.

Lemma qmattvec_vadd m B x y : wf_mat m B -> length x = length B -> length y = length B ->
  qmattvec m B (qvadd x y) = qvadd (qmattvec m B x) (qmattvec m B y).
Proof.
  intros HB Hx Hy.
  assert (Hxy : length (qvadd x y) = length B).
  { unfold qvadd. rewrite vadd_length by congruence. exact Hx. }
  rewrite <- !vecmat_is_mattvec by assumption. unfold vecmat. rewrite qvadd_map.
  apply map_ext. intros j. unfold qdot, qvadd.
  apply (dot_vadd_l Qc 0 1 Qcplus Qcmult Qcminus Qcopp qth). congruence.
Qed.

Lemma qmattvec_vscale m B c x : wf_mat m B -> length x = length B ->
  qmattvec m B (qvscale c x) = qvscale c (qmattvec m B x).
Proof.
  intros HB Hx.
  assert (Hcx : length (qvscale c x) = length B).
  { unfold qvscale. rewrite vscale_length. exact Hx. }
  rewrite <- !vecmat_is_mattvec by assumption. unfold vecmat. rewrite qvscale_map.
  apply map_ext. intros j. unfold qdot, qvscale.
  apply (dot_vscale_l Qc 0 1 Qcplus Qcmult Qcminus Qcopp qth).
Qed.

(* (A B)^T y = B^T (A^T y): A is k x n, B is n x m *)
Lemma qmattvec_matmul n m (A B : mat) (y : vec) :
  wf_mat n A -> wf_mat m B -> length B = n ->
  qmattvec m (qmatmul m A B) y = qmattvec m B (qmattvec n A y).
Proof.
  intros HA HB HBn; revert y; induction HA as [|r A Hr HA IH]; intros y.
  - change (qmatmul m [] B) with (@nil vec).
    assert (E : forall z, qmattvec z [] y = qvzero z) by (intros z; destruct y; reflexivity).
    rewrite !E. symmetry. apply qmattvec_vzero. exact HB.
  - destruct y as [|b y].
    + change (qmattvec m (qmatmul m (r :: A) B) []) with (qvzero m).
      change (qmattvec n (r :: A) []) with (qvzero n). symmetry. apply qmattvec_vzero. exact HB.
    + change (qmatmul m (r :: A) B) with (qmattvec m B r :: qmatmul m A B).
      change (qmattvec m (qmattvec m B r :: qmatmul m A B) (b :: y))
        with (qvadd (qvscale b (qmattvec m B r)) (qmattvec m (qmatmul m A B) y)).
      change (qmattvec n (r :: A) (b :: y)) with (qvadd (qvscale b r) (qmattvec n A y)).
      assert (L1 : length r = length B) by congruence.
      assert (L2 : length (qvscale b r) = length B) by (unfold qvscale; rewrite vscale_length; exact L1).
      assert (L3 : length (qmattvec n A y) = length B) by (rewrite qmattvec_length by assumption; congruence).
      rewrite IH, qmattvec_vadd, qmattvec_vscale by assumption. reflexivity.
Qed.

(* ------------------------------------------------------------------------------------------ *)
(* gradient                                                                                    *)
(* ------------------------------------------------------------------------------------------ *)
Lemma pick_none s : pick s None None = None.
Proof. destruct s; reflexivity. Qed.

Definition has_gradient_func (gf : gfun) : bool :=
  match gf with GNone | GPde None None => false | _ => true end.

(* refused unless it can be formed: a gradient callable, no Samples arguments, an identity-like range
   geometry, and a domain geometry that is identity-like or provides `gradient` *)
Theorem gradient_guard q gf rg dg d w dp wp out :
  gradient q gf rg dg d w dp wp = Ok out ->
  has_gradient_func gf = true /\ gi_samples d = false /\ gi_samples w = false /\ identity_class (g_cls rg) = true /\ (has_grad dg = true \/ identity_class (g_cls dg) = true).
Proof.
  unfold gradient. intros H.
  destruct (if gi_samples w then Ok (mkP2 [] None false) else two_par q dg (gi_vec w) (gi_tag_par q w) wp) as [wpar|e];
    cbn [bind] in H; [|discriminate].
  assert (G : gf <> GNone) by (intros ->; discriminate).
  destruct (gi_samples d) eqn:Sd; [destruct gf; discriminate|].
  destruct (gi_samples w) eqn:Sw; [destruct gf; discriminate|].
  cbn [orb] in H.
  destruct (identity_class (g_cls rg)) eqn:Ir; [|destruct gf; discriminate].
  cbn [negb] in H.
  destruct (negb (has_grad dg) && negb (identity_class (g_cls dg))) eqn:Dd; [destruct gf; discriminate|].
  assert (P : has_gradient_func gf = true).
  { destruct gf as [| | | | |gw jw]; try reflexivity; try congruence.
    destruct gw as [[g sel]|], jw as [[[n J] jt]|]; try reflexivity.
    exfalso.
    destruct (two_fun q dg (gi_vec w) (gi_tag_fun q w) wp); cbn [bind] in H; [|discriminate].
    destruct (two_fun q rg (gi_vec d) (gi_tag_fun q d) dp); cbn [bind] in H; discriminate. }
  repeat split; try assumption; try reflexivity.
  destruct (has_grad dg); [left; reflexivity|]. destruct (identity_class (g_cls dg)); [right; reflexivity|discriminate].
Qed.

Theorem gradient_refused q gf rg dg d w dp wp :
  has_gradient_func gf = false \/ gi_samples d = true \/ gi_samples w = true \/
  identity_class (g_cls rg) = false \/ (has_grad dg = false /\ identity_class (g_cls dg) = false) ->
  exists e, gradient q gf rg dg d w dp wp = Err e.
Proof.
  intros H. destruct (gradient q gf rg dg d w dp wp) as [out|e] eqn:E; [|eexists; reflexivity].
  exfalso. apply gradient_guard in E as (H1 & H2 & H3 & H4 & H5).
  destruct H as [H|[H|[H|[H|[Ha Hb]]]]]; try congruence. destruct H5; congruence.
Qed.

(* the Jacobian wrapper of Model.__init__ (and of PDEModel._gradient_func): direction @ J(wrt) is the
   transposed Jacobian applied to the direction *)
Theorem jacobian_wrapper n J jt d w :
  wf_mat n (J w) -> length d = length (J w) ->
  run_gfun (GJac n J jt) false d w = Ok (qmattvec n (J w) d, true, jac_sel jt) /\
  run_gfun (GPde None (Some (n, J, jt))) false d w = Ok (qmattvec n (J w) d, true, jac_sel jt).
Proof. intros H1 H2. unfold run_gfun. rewrite vecmat_is_mattvec by assumption. split; reflexivity. Qed.

(* plain ndarray arguments, both flagged as parameters *)
Lemma gradient_plain q gf rg dg d w :
  has_gradient_func gf = true -> identity_class (g_cls rg) = true ->
  (has_grad dg = true \/ identity_class (g_cls dg) = true) ->
  gradient q gf rg dg (GiVec d) (GiVec w) true true =
  bind (g_par2fun dg w) (fun wf => bind (g_par2fun rg d) (fun df =>
  bind (run_gfun gf (fun_is_2d rg) df wf) (fun gfl =>
    match g_grad dg with
    | Some gg => Ok (OutVec (ggrad_apply gg (fst (fst gfl)) w) false)
    | None => rmap (fun v => OutVec v (g_f2p_0d dg)) (g_fun2par_gen dg (snd (fst gfl)) (fst (fst gfl)))
    end))).
Proof.
  intros Hg Hr Hd. unfold gradient. cbn [gi_samples gi_vec gi_tag gi_tag_par gi_tag_fun gi_is_arr orb].
  unfold two_par, two_par_gen at 1. cbn [bind p_v p_tag].
  rewrite Hr. cbn [negb].
  assert (Hd' : negb (has_grad dg) && negb (identity_class (g_cls dg)) = false).
  { destruct Hd as [-> | ->]; [reflexivity | apply andb_false_r]. }
  rewrite Hd'.
  assert (E : forall X : res output, match gf with GNone => Err ENotImpl | _ => X end = X).
  { intros X. destruct gf; try reflexivity; discriminate. }
  rewrite E. unfold two_fun, two_fun_gen, g_par2fun.
  destruct (g_par2fun_gen dg false w) as [wf|e]; cbn [bind rmap fst snd]; [|reflexivity].
  destruct (g_par2fun_gen rg false d) as [df|e]; cbn [bind rmap fst snd]; [|reflexivity].
  destruct (run_gfun gf (fun_is_2d rg) df wf) as [[[gv flat] sel]|e]; cbn [bind fst snd]; [|reflexivity].
  rewrite if_same, pick_none. destruct (g_grad dg) as [gg|].
  - rewrite pick_none. unfold two_par_gen. cbn [rmap]. reflexivity.
  - unfold two_par_gen. rewrite rmap_rmap. reflexivity.
Qed.

(* chain rule: if the model's gradient callable is the transposed Jacobian JF of the forward map at the
   function values of wrt, and the geometry's `gradient` is the transposed Jacobian JG of par2fun at wrt,
   Model.gradient returns (JF JG)^T direction, i.e. the transposed Jacobian of the parameter-to-output
   map.  (n function values, m parameters.) *)
Theorem gradient_chain q gf rg dg gg d w wf n m (JF JG : mat) flat sel :
  has_gradient_func gf = true -> plain1d (g_cls rg) = true ->
  g_grad dg = Some gg -> g_par2fun dg w = Ok wf ->
  run_gfun gf false d wf = Ok (qmattvec n JF d, flat, sel) ->
  (forall v, length v = n -> ggrad_apply gg v w = qmattvec m JG v) ->
  wf_mat n JF -> wf_mat m JG -> length JG = n ->
  gradient q gf rg dg (GiVec d) (GiVec w) true true = Ok (OutVec (qmattvec m (qmatmul m JF JG) d) false).
Proof.
  intros Hg Hr Hgg Hw Hrun Hlaw HF HG Hn.
  assert (Ir : identity_class (g_cls rg) = true) by (destruct (g_cls rg); try discriminate; reflexivity).
  rewrite gradient_plain; [| assumption | assumption | left; unfold has_grad; rewrite Hgg; reflexivity].
  rewrite Hw. cbn [bind]. unfold g_par2fun, g_par2fun_gen, fun_is_2d. rewrite Hr. cbn [bind].
  rewrite Hrun. cbn [bind fst snd]. rewrite Hgg.
  rewrite Hlaw by (apply qmattvec_length; exact HF).
  rewrite (qmattvec_matmul n m JF JG d) by assumption. reflexivity.
Qed.

(* identity-like domain geometry without `gradient`: the gradient callable's value, read as parameters *)
Theorem gradient_identity_domain q gf rg dg d w wf n (JF : mat) flat sel :
  has_gradient_func gf = true -> plain1d (g_cls rg) = true ->
  g_grad dg = None -> identity_class (g_cls dg) = true -> g_par2fun dg w = Ok wf ->
  run_gfun gf false d wf = Ok (qmattvec n JF d, flat, sel) ->
  gradient q gf rg dg (GiVec d) (GiVec w) true true =
  rmap (fun v => OutVec v (g_f2p_0d dg)) (g_fun2par_gen dg flat (qmattvec n JF d)).
Proof.
  intros Hg Hr Hgg Hd Hw Hrun.
  assert (Ir : identity_class (g_cls rg) = true) by (destruct (g_cls rg); try discriminate; reflexivity).
  rewrite gradient_plain; [| assumption | assumption | right; assumption].
  rewrite Hw. cbn [bind]. unfold g_par2fun, g_par2fun_gen, fun_is_2d. rewrite Hr. cbn [bind].
  rewrite Hrun. cbn [bind fst snd]. rewrite Hgg. reflexivity.
Qed.

(* ------------------------------------------------------------------------------------------ *)
(* forward on a distribution                                                                   *)
(* ------------------------------------------------------------------------------------------ *)
Theorem rename_only m name dim :
  (dim = m_domain_dim m ->
   exists m', forward_dist m name dim = Ok m' /\
     m_forward_func m' = m_forward_func m /\ m_gradient_func m' = m_gradient_func m /\
     m_range m' = m_range m /\ m_domain m' = m_domain m /\ m_domain_dim m' = m_domain_dim m /\
     m_extra m' = m_extra m /\ m_args m' = [name]) /\
  (dim <> m_domain_dim m -> forward_dist m name dim = Err EValue).
Proof.
  unfold forward_dist. split; intros H.
  - subst. rewrite Nat.eqb_refl. eexists. repeat split.
  - apply Nat.eqb_neq in H. rewrite H. reflexivity.
Qed.

(* the renamed model is addressed by the new name only *)
Theorem rename_binding m name dim m' :
  forward_dist m name dim = Ok m' ->
  bind_args m' 1 [] = Ok name /\ bind_args m' 0 [name] = Ok name /\
  (forall k, k <> name -> bind_args m' 0 [k] = Err EValue).
Proof.
  unfold forward_dist. destruct (Nat.eqb dim (m_domain_dim m)); [|discriminate]. intros H; inversion H; subst; clear H.
  unfold bind_args. cbn [m_args]. rewrite String.eqb_refl. repeat split.
  intros k Hk. apply String.eqb_neq in Hk. rewrite Hk. reflexivity.
Qed.

(* ------------------------------------------------------------------------------------------ *)
(* gradient: `wrt` given as a CUQIarray carrying the domain geometry                           *)
(* ------------------------------------------------------------------------------------------ *)
(* the subclass tag of wrt.funvals reaches the final _2par: the gradient callable hands on wrt's
   subclass and the geometry's gradient hands on its first argument's *)
Definition tag_leaks (sel gsel : tsel) : bool :=
  match sel, gsel with
  | (SelDirWrt | SelWrtDir), (SelDir | SelDirWrt) => true
  | _, _ => false
  end.

Definition out_values (r : res output) : res (list vec) := rmap out_cols r.

Theorem gradient_wrt_array_agrees q gf rg dg d (ap : bool) x w wpflag :
  has_gradient_func gf = true -> identity_class (g_cls rg) = true ->
  (has_grad dg = true \/ identity_class (g_cls dg) = true) ->
  (if ap then Ok x else g_fun2par dg x) = Ok w ->          (* x represents the parameters w ... *)
  (if ap then g_par2fun dg x else Ok x) = g_par2fun dg w -> (* ... and the same function values *)
  (forall gg df wf gv flat sel, g_grad dg = Some gg -> run_gfun gf (fun_is_2d rg) df wf = Ok (gv, flat, sel) ->
     tag_leaks sel (ggrad_sel gg) = false) ->
  out_values (gradient q gf rg dg (GiVec d) (GiArr dg ap x) true wpflag) =
  out_values (gradient q gf rg dg (GiVec d) (GiVec w) true true).
Proof.
  intros Hg Hr Hd Hw Hf Hleak.
  rewrite (gradient_plain q gf rg dg d w Hg Hr Hd).
  unfold gradient. cbn [gi_samples gi_vec gi_tag gi_tag_par gi_tag_fun gi_is_arr orb].
  unfold two_par, two_par_gen at 1. rewrite geo_eq_refl. cbn [bind].
  assert (Ewp : (if ap then Ok (mkP2 x (Some (dg, true)) false)
                 else rmap (fun v => mkP2 v (Some (dg, true)) (g_f2p_0d dg)) (g_fun2par_gen dg false x))
                = Ok (mkP2 w (Some (dg, true)) (if ap then false else g_f2p_0d dg))).
  { destruct ap; [inversion Hw; reflexivity|]. unfold g_fun2par in Hw. rewrite Hw. reflexivity. }
  rewrite Ewp. cbn [bind p_v p_tag]. rewrite Hr. cbn [negb].
  assert (Hd' : negb (has_grad dg) && negb (identity_class (g_cls dg)) = false).
  { destruct Hd as [-> | ->]; [reflexivity | apply andb_false_r]. }
  rewrite Hd'.
  assert (E : forall X : res output, match gf with GNone => Err ENotImpl | _ => X end = X).
  { intros X. destruct gf; try reflexivity; discriminate. }
  rewrite E. unfold two_fun, two_fun_gen at 1. rewrite geo_eq_refl. cbn [bind].
  assert (Ewf : (if ap then rmap (fun f => (f, Some (dg, false))) (g_par2fun dg x) else Ok (x, Some (dg, false)))
                = rmap (fun f => (f, Some (dg, false))) (g_par2fun dg w)).
  { destruct ap; [rewrite Hf; reflexivity|]. rewrite <- Hf. reflexivity. }
  rewrite Ewf. destruct (g_par2fun dg w) as [wf|e]; cbn [bind rmap fst snd]; [|reflexivity].
  unfold two_fun_gen, g_par2fun.
  destruct (g_par2fun_gen rg false d) as [df|e]; cbn [bind rmap fst snd]; [|reflexivity].
  destruct (run_gfun gf (fun_is_2d rg) df wf) as [[[gv flat] sel]|e] eqn:Erun; cbn [bind fst snd]; [|reflexivity].
  destruct (g_grad dg) as [gg|] eqn:Egg.
  - specialize (Hleak gg df wf gv flat sel eq_refl Erun).
    unfold out_values. rewrite rmap_rmap. cbn [rmap out_cols].
    assert (T : forall t, t = None \/ t = Some (dg, true) ->
                rmap (fun a => out_cols (wrap_out false dg a)) (two_par_gen q dg flat (ggrad_apply gg gv w) t true)
                = Ok [ggrad_apply gg gv w]).
    { intros t [-> | ->]; unfold two_par_gen; [reflexivity|]. rewrite geo_eq_refl. reflexivity. }
    apply T. destruct (q_tagleak q), sel, (ggrad_sel gg); cbn in Hleak |- *; try discriminate; auto.
  - unfold out_values. rewrite !rmap_rmap.
    assert (T : forall t, t = None \/ t = Some (dg, false) ->
                rmap (fun a => out_cols (wrap_out false dg a)) (two_par_gen q dg flat gv t false)
                = rmap (fun a => out_cols (OutVec a (g_f2p_0d dg))) (g_fun2par_gen dg flat gv)).
    { intros t [-> | ->]; unfold two_par_gen; [rewrite rmap_rmap; reflexivity|].
      rewrite geo_eq_refl. cbn [bind]. rewrite rmap_rmap. reflexivity. }
    apply T. destruct (q_tagleak q), sel; cbn; auto.
Qed.

(* ------------------------------------------------------------------------------------------ *)
(* witnesses: configurations inside the excluded classes on which today's code (q_today)        *)
(* violates the property; and a configuration on which every hypothesis holds                   *)
(* ------------------------------------------------------------------------------------------ *)
Definition zq (l : list Z) : list Qc := map qcz l.
Definition lin (A : list (list Z)) : fwd := mkFwd (fun x => qmatvec (map zq A) x) true.

Definition g_default1d (n : nat) : geo := mkGeo KDefault1D n n CvId None F2Base None 0.
Definition g_discrete (n : nat) : geo := mkGeo KDiscrete n n CvId None F2Base None 0.
Definition g_step (nodes : nat) (idx : list (list nat)) (pj : proj) : geo :=
  mkGeo KStep (length idx) nodes (CvStep nodes idx pj true) None F2Base None 0.
(* MappedGeometry(Continuous1D(n), map = c0 + c1 x + ..., imap) with optional gradient *)
Definition g_mapped (n : nat) (cs : list Z) (f : f2p) (gr : option ggrad) : geo :=
  mkGeo KMapped n n CvId (Some (zq cs)) f gr 0.

(* 1. default 1-d domain, StepExpansion range on the same grid, CUQIarray input *)
Definition w1_F := lin [[2;0;0;0;0;0];[0;2;0;0;0;0];[0;0;2;0;0;0];[0;0;0;2;0;0];[0;0;0;0;2;0];[0;0;0;0;0;2]]%Z.
Definition w1_dg := g_default1d 6.
Definition w1_rg := g_step 6 [[0;1];[2;3];[4;5]]%nat PMax.
Definition w1_p := zq [1;2;3;4;5;6]%Z.
Lemma witness_defeq :
  eq_confused q_today w1_dg w1_rg = true /\
  check_out (forward q_today w1_F w1_rg w1_dg (InVec w1_p) true) (ObsVal 0 [[4#1; 8#1; 12#1]]) = true /\
  check_out (forward q_today w1_F w1_rg w1_dg (InArr w1_dg true w1_p) true)
            (ObsVal 1 [[2#1; 4#1; 6#1; 8#1; 10#1; 12#1]]) = true.
Proof. vm_compute. repeat split; reflexivity. Qed.

(* 2. Discrete geometries of different size, CUQIarray input *)
Definition w2_F := lin [[1;1;-1;0];[2;0;2;-2];[0;0;1;1]]%Z.
Definition w2_p := zq [1;2;3;4]%Z.
Lemma witness_eqidx :
  eq_confused q_today (g_discrete 4) (g_discrete 3) = true /\
  check_out (forward q_today w2_F (g_discrete 3) (g_discrete 4) (InVec w2_p) true) (ObsVal 0 [[0#1; 0#1; 7#1]]) = true /\
  check_out (forward q_today w2_F (g_discrete 3) (g_discrete 4) (InArr (g_discrete 4) true w2_p) true) (ObsErr EIndex) = true.
Proof. vm_compute. repeat split; reflexivity. Qed.

(* 3. Samples of function values, is_par=False *)
Definition w3_F := lin [[3;0;0];[0;3;0];[0;0;3]]%Z.
Definition w3_dg := g_mapped 3 [0;0;1]%Z F2NoImap None.
Definition w3_f := zq [1;9;25]%Z.
Lemma witness_samples :
  q_samples_par q_today = true /\
  check_out (forward q_today w3_F (g_default1d 3) w3_dg (InVec w3_f) false) (ObsVal 0 [[3#1; 27#1; 75#1]]) = true /\
  check_out (forward q_today w3_F (g_default1d 3) w3_dg (InSamples false [w3_f]) false) (ObsVal 2 [[3#1; 243#1; 1875#1]]) = true.
Proof. vm_compute. repeat split; reflexivity. Qed.

(* 4. single-step StepExpansion range: the output is a 0-d array (kind 3), not a vector of length 1 *)
Definition w4_F := lin [[1;0;1];[0;2;1]]%Z.
Definition w4_rg := g_step 2 [[0;1]]%nat PMean.
Lemma witness_0d :
  g_f2p_0d w4_rg = true /\ g_pdim w4_rg = 1%nat /\
  check_out (forward q_today w4_F w4_rg (g_default1d 3) (InVec (zq [1;2;3]%Z)) true) (ObsVal 3 [[11#2]]) = true /\
  check_out (forward q_fixed w4_F w4_rg (g_default1d 3) (InVec (zq [1;2;3]%Z)) true) (ObsVal 3 [[11#2]]) = true.
Proof. vm_compute. repeat split; reflexivity. Qed.

(* 5. gradient with `wrt` given as a CUQIarray: domain f = 2p+1 with gradient written direction-first,
      F(f) = A f^2 with gradient callable 2 wrt (A^T d) written wrt-first *)
Definition w5_A : mat := map zq [[1;2;0];[0;1;3]]%Z.
Definition w5_dg := g_mapped 3 [1;2]%Z (F2Imap [qc (-1#2); qc (1#2)]) (Some (GGDiag (zq [2]%Z) SelDirWrt)).
Definition w5_gf := GDir (poly_dir 3 w5_A (zq [0;2]%Z)) false SelWrtDir.
Definition w5_d := zq [1;-1]%Z.
Definition w5_w := zq [1;2;3]%Z.
Lemma witness_tagleak :
  tag_leaks SelWrtDir SelDirWrt = true /\
  check_out (gradient q_today w5_gf (g_default1d 2) w5_dg (GiVec w5_d) (GiVec w5_w) true true)
            (ObsVal 0 [[12#1; 20#1; -84#1]]) = true /\
  check_out (gradient q_today w5_gf (g_default1d 2) w5_dg (GiVec w5_d) (GiArr w5_dg true w5_w) true true)
            (ObsVal 1 [[11#2; 19#2; -85#2]]) = true /\
  check_out (gradient q_fixed w5_gf (g_default1d 2) w5_dg (GiVec w5_d) (GiArr w5_dg true w5_w) true true)
            (ObsVal 1 [[12#1; 20#1; -84#1]]) = true.
Proof. vm_compute. repeat split; reflexivity. Qed.

(* non-vacuity: a mapped domain geometry with gradient, plain range; the hypotheses of the agreement
   theorems and of the chain rule hold and the four forward representations give [43; 74] *)
Definition ex_dg := g_mapped 3 [1;2]%Z (F2Imap [qc (-1#2); qc (1#2)]) (Some (GGDiag (zq [2]%Z) SelWrtDir)).
Definition ex_F := lin [[1;2;0];[0;1;3]]%Z.
Lemma example_nonvacuous :
  g_par2fun ex_dg (zq [1;2;3]%Z) = Ok (zq [3;5;7]%Z) /\
  eq_confused q_today ex_dg (g_default1d 2) = false /\
  check_out (forward q_today ex_F (g_default1d 2) ex_dg (InVec (zq [1;2;3]%Z)) true) (ObsVal 0 [[13#1; 26#1]]) = true /\
  check_out (forward q_today ex_F (g_default1d 2) ex_dg (InArr ex_dg false (zq [3;5;7]%Z)) true) (ObsVal 1 [[13#1; 26#1]]) = true /\
  check_out (gradient q_today (GAdjMat 3 w5_A) (g_default1d 2) ex_dg (GiVec w5_d) (GiArr ex_dg true w5_w) true true)
            (ObsVal 1 [[2#1; 2#1; -6#1]]) = true.
Proof. vm_compute. repeat split; reflexivity. Qed.

(* 6. the same StepExpansion on both sides, the domain OBJECT with a `gradient` attribute attached *)
Definition w6_rg := g_step 4 [[0;1];[2;3]]%nat PMax.
Definition w6_dg := set_grad w6_rg (Some (GGStepSum [[0;1];[2;3]]%nat)).
Definition w6_F := lin [[1;0;0;0];[0;1;0;0];[0;0;1;0];[0;0;0;1]]%Z.
Lemma witness_eqkey :
  eq_confused q_today w6_dg w6_rg = true /\
  check_out (forward q_today w6_F w6_rg w6_dg (InVec (zq [1;2]%Z)) true) (ObsVal 0 [[1#1; 2#1]]) = true /\
  check_out (forward q_today w6_F w6_rg w6_dg (InArr w6_dg true (zq [1;2]%Z)) true) (ObsErr EKey) = true.
Proof. vm_compute. repeat split; reflexivity. Qed.
