(* C05 -- covariance of the draws of the Gaussian / GMRF samplers, matrices of every size over any field
   (mathcomp style; the executable list model of the same formulas is Model/C05_Sample.v: gauss_ok, gmrf_zero_ok,
   gmrf_neumann_ok check exactly the hypotheses below on the implementation's read-off map T).
   A draw is s = mu + T e, e standard normal, so its mean is mu and its covariance T T^T. *)
From mathcomp Require Import all_ssreflect all_algebra.
From CVmc Require Import C05_Cov C05_Link C05_Eps.
Import Order.TTheory GRing.Theory Num.Theory.
Local Open Scope ring_scope.

(* Gaussian: whenever the selected solver returns T with S T = I for the stored square root S of the precision
   (general solve, sparse solve, and -- after the proposed repair -- the triangular solve; the guard excludes exactly the
   refuted class C05_gaussian_lower_tri_refuted where the solver inverts another matrix), the precision S^T S of the
   density is invertible and the covariance of the draws is its inverse *)
Theorem C05_gaussian_cov : forall (F : fieldType) (n : nat) (S T : 'M[F]_n),
  S *m T = 1%:M -> (S^T *m S) \in unitmx /\ T *m T^T = invmx (S^T *m S).
Proof. exact gaussian_cov. Qed.
Print Assumptions C05_gaussian_cov.

(* the offset of the affine map is the mean, and differences of draws are T times differences of normals *)
Theorem C05_affine_map : forall (F : fieldType) (n m : nat) (mu : 'cV[F]_n) (T : 'M[F]_(n, m)) (e1 e2 : 'cV[F]_m),
  mu + T *m 0 = mu /\ (mu + T *m e1) - (mu + T *m e2) = T *m (e1 - e2).
Proof. move=> F n m mu T e1 e2; split; [by rewrite mulmx0 addr0 | exact: affine_linear]. Qed.
Print Assumptions C05_affine_map.

(* if the solver inverts S' instead of S, the covariance can be the wanted one only if S'^T S' = S^T S *)
Theorem C05_gaussian_wrong_matrix : forall (F : fieldType) (n : nat) (S S' T : 'M[F]_n),
  S' *m T = 1%:M -> (S^T *m S) *m (T *m T^T) = 1%:M -> S'^T *m S' = S^T *m S.
Proof. exact wrong_matrix_cov. Qed.
Print Assumptions C05_gaussian_wrong_matrix.

(* GMRF, zero boundary: L L^T = P (Cholesky), r^2 = prec, s = mu + (1/r) L^-T e, i.e. r L^T T = I:
   (prec P) (T T^T) = I *)
Theorem C05_gmrf_zero_cov : forall (F : fieldType) (n : nat) (L P T : 'M[F]_n) (r prec : F),
  L *m L^T = P -> r * r = prec -> (r *: L^T) *m T = 1%:M -> (prec *: P) *m (T *m T^T) = 1%:M.
Proof. exact gmrf_zero_cov. Qed.
Print Assumptions C05_gmrf_zero_cov.

(* GMRF, neumann boundary: Pe = P + sqrt(eps) I = L L^T, s = mu + (1/r) Pe^-1 D^T e, i.e. r Pe T = D^T:
   prec Pe (T T^T) Pe^T = D^T D = P -- the covariance is the generalised inverse of the (singular) precision prec P of the
   density, up to the sqrt(eps) regularisation the code itself introduces.  _partial: the limit eps -> 0 is not taken. *)
Theorem C05_gmrf_neumann_cov_partial : forall (F : fieldType) (n m : nat) (Pe : 'M[F]_n) (D : 'M[F]_(m, n)) (T : 'M[F]_(n, m)) (r prec : F),
  r * r = prec -> (r *: Pe) *m T = D^T -> (prec *: Pe) *m (T *m T^T) *m Pe^T = D^T *m D.
Proof. exact gmrf_neumann_cov. Qed.
Print Assumptions C05_gmrf_neumann_cov_partial.

(* neumann boundary, regularisation eps as a VARIABLE (full, every eps): exact identity and explicit deviation from the
   generalised-inverse identity.  The statement "C -> pseudo-inverse of prec P as eps -> 0" itself stays _partial (a norm bound
   on C, uniform in eps, is not formalised); what is proved is that the deviation is eps (P C + C P) + eps^2 C up to prec. *)
Theorem C05_gmrf_neumann_cov_eps : forall (F : fieldType) (n m : nat) (D : 'M[F]_(m, n)) (T : 'M[F]_(n, m)) (r prec eps : F),
  let P := D^T *m D in let Pe := P + eps%:M in let C := T *m T^T in
  r * r = prec -> (r *: Pe) *m T = D^T ->
  (prec *: Pe) *m C *m Pe = P /\
  prec *: (P *m C *m P) = P - prec *: (eps *: (P *m C + C *m P) + (eps * eps) *: C).
Proof. exact gmrf_neumann_cov_eps. Qed.
Print Assumptions C05_gmrf_neumann_cov_eps.

(* ---------------- third deepening round: the EXACT law of the neumann / repaired periodic draws and its distance to the documented one ----------------
   Over any ordered field, with only the sign conditions the code guarantees (eps = sqrt(machine eps) > 0, prec > 0; P = D^T D has
   eigenvalues lam >= 0): the draws are N(mean, C) with, on every eigen-direction P v = lam v,
        C v = lam / (prec (lam + eps)^2) v                    (eps_var prec eps lam)
   -- the regularised matrix is invertible (proved, not assumed), there is NO variance on the null space of P (exactly as for the
   pseudo-inverse of the documented singular precision prec P), and for lam > 0 the variance is the documented 1/(prec lam) times
   1 - rel with  rel = eps (2 lam + eps)/(lam + eps)^2,  0 < rel < min(1, 2 eps / lam).
   Together with a spectral decomposition of P (real symmetric: an orthonormal eigenbasis exists; that existence is NOT formalised
   here) this is the whole covariance; the limit eps -> 0 of each eigen-variance is immediate from rel < 2 eps / lam. *)
Theorem C05_gmrf_eps_law : forall (R : realFieldType) (n m : nat) (D : 'M[R]_(m, n)) (T : 'M[R]_(n, m)) (r prec eps lam : R) (v : 'cV[R]_n),
  let P := D^T *m D in let Pe := P + eps%:M in let C := T *m T^T in
  0 < eps -> 0 < prec -> 0 <= lam -> r * r = prec -> (r *: Pe) *m T = D^T ->
  P *m v = lam *: v ->
  Pe \in unitmx /\ C *m v = eps_var prec eps lam *: v /\ (lam = 0 -> C *m v = 0).
Proof.
move=> R n m D T r prec eps lam v P Pe C He Hp Hl Hr HT Hv.
have E := gmrf_eps_eigen_real He Hp Hl Hr HT Hv.
split; first exact: reg_unit.
split=> // L0; rewrite E /eps_var L0 mul0r scale0r //.
Qed.
Print Assumptions C05_gmrf_eps_law.

Theorem C05_gmrf_eps_deviation : forall (R : realFieldType) (prec eps lam : R), 0 < prec -> 0 < eps -> 0 < lam ->
  let rel := eps * (2%:R * lam + eps) / (lam + eps) ^+ 2 in
  eps_var prec eps lam = doc_var prec lam * (1 - rel) /\ 0 < rel /\ rel < 2%:R * eps / lam /\ rel < 1.
Proof. exact eps_var_deviation. Qed.
Print Assumptions C05_gmrf_eps_deviation.

(* the WHOLE covariance, given an orthonormal eigenbasis of P (columns of U; its existence for the real symmetric P is classical
   and not formalised): C = U diag(eps_var prec eps l_j) U^T ... *)
Theorem C05_gmrf_eps_cov_spectral : forall (R : realFieldType) (n m : nat) (D : 'M[R]_(m, n)) (T : 'M[R]_(n, m)) (U : 'M[R]_n) (l : 'rV[R]_n) (r prec eps : R),
  let P := D^T *m D in let Pe := P + eps%:M in let C := T *m T^T in
  0 < eps -> 0 < prec -> (forall j, 0 <= l 0 j) -> r * r = prec -> (r *: Pe) *m T = D^T ->
  U *m U^T = 1%:M -> P *m U = U *m diag_mx l ->
  C = U *m diag_mx (\row_j eps_var prec eps (l 0 j)) *m U^T.
Proof. exact gmrf_eps_cov_spectral. Qed.
Print Assumptions C05_gmrf_eps_cov_spectral.

(* ... while the documented law has Cdoc = U diag(doc_j) U^T, doc_j = 1/(prec l_j) on the range of P and 0 on its null space: a
   generalised inverse of the documented precision prec P.  Hence Cdoc - C = U diag(doc_j - eps_var_j) U^T, zero on the null space
   and, by C05_gmrf_eps_deviation, 0 < doc_j - eps_var_j < doc_j * 2 eps / l_j on the range: the explicit distance in eps. *)
Theorem C05_gmrf_doc_cov_spectral : forall (R : realFieldType) (n : nat) (P U : 'M[R]_n) (l : 'rV[R]_n) (prec : R),
  prec != 0 -> U^T *m U = 1%:M -> P = U *m diag_mx l *m U^T ->
  let doc := \row_j (if l 0 j == 0 then 0 else doc_var prec (l 0 j)) in
  let Cdoc := U *m diag_mx doc *m U^T in
  (prec *: P) *m Cdoc *m (prec *: P) = prec *: P.
Proof. exact gmrf_doc_cov_spectral. Qed.
Print Assumptions C05_gmrf_doc_cov_spectral.

(* the variance of the draws along an eigen-direction as a quadratic form (what the cells gmrf-eps-law pin to 1e-11 relative, four
   orders of magnitude below the distance to the documented variance) *)
Theorem C05_gmrf_eps_rayleigh : forall (R : realFieldType) (n m : nat) (D : 'M[R]_(m, n)) (T : 'M[R]_(n, m)) (r prec eps lam : R) (v : 'cV[R]_n),
  let P := D^T *m D in let Pe := P + eps%:M in let C := T *m T^T in
  0 < eps -> 0 < prec -> 0 <= lam -> r * r = prec -> (r *: Pe) *m T = D^T ->
  P *m v = lam *: v -> v^T *m C *m v = eps_var prec eps lam *: (v^T *m v).
Proof. exact gmrf_eps_rayleigh. Qed.
Print Assumptions C05_gmrf_eps_rayleigh.

(* the distance between the documented covariance and the covariance of the draws, in one statement *)
Theorem C05_gmrf_eps_distance : forall (R : realFieldType) (n m : nat) (D : 'M[R]_(m, n)) (T : 'M[R]_(n, m)) (U : 'M[R]_n) (l : 'rV[R]_n) (r prec eps : R),
  let P := D^T *m D in let Pe := P + eps%:M in let C := T *m T^T in
  let doc := \row_j (if l 0 j == 0 then 0 else doc_var prec (l 0 j)) in
  let Cdoc := U *m diag_mx doc *m U^T in
  let delta := \row_j (doc 0 j - eps_var prec eps (l 0 j)) in
  0 < eps -> 0 < prec -> (forall j, 0 <= l 0 j) -> r * r = prec -> (r *: Pe) *m T = D^T ->
  U *m U^T = 1%:M -> P *m U = U *m diag_mx l ->
  Cdoc - C = U *m diag_mx delta *m U^T /\
  forall j, (l 0 j = 0 -> delta 0 j = 0) /\
            (0 < l 0 j -> 0 < delta 0 j /\ delta 0 j < doc_var prec (l 0 j) * (2%:R * eps / l 0 j)).
Proof. exact gmrf_eps_distance. Qed.
Print Assumptions C05_gmrf_eps_distance.

(* the same eigen-direction identity over any field, under the invertibility / non-vanishing hypotheses it needs there *)
Theorem C05_gmrf_eps_eigen_field : forall (F : fieldType) (n m : nat) (D : 'M[F]_(m, n)) (T : 'M[F]_(n, m)) (r prec eps lam : F) (v : 'cV[F]_n),
  let P := D^T *m D in let Pe := P + eps%:M in let C := T *m T^T in
  r * r = prec -> (r *: Pe) *m T = D^T -> Pe \in unitmx -> prec != 0 -> lam + eps != 0 ->
  P *m v = lam *: v -> C *m v = eps_var prec eps lam *: v.
Proof. exact gmrf_eps_eigen. Qed.
Print Assumptions C05_gmrf_eps_eigen_field.

(* hypotheses satisfiable: D = I (order 0), r = prec = 1, T = (1 + eps)^-1 I, every vector is an eigenvector with lam = 1 *)
Example C05_gmrf_eps_example : forall (R : realFieldType) (n : nat) (eps : R) (v : 'cV[R]_n), 0 < eps ->
  let D : 'M[R]_n := 1%:M in let T : 'M[R]_n := ((1 + eps)^-1)%:M in
  (1 : R) * 1 = 1 /\ ((1 : R) *: (D^T *m D + eps%:M)) *m T = D^T /\ (D^T *m D) *m v = 1 *: v.
Proof.
move=> R n eps v He D T; rewrite /D /T trmx1 !mulmx1 scale1r mul1mx mulr1 scale1r; split=> //; split=> //.
have N : 1 + eps != 0 by rewrite gt_eqF // addr_gt0 // ltr01.
by rewrite mul_mx_scalar scalerDr !scale_scalar_mx -(raddfD (scalar_mx_additive R n)) /= -mulrDr mulVf.
Qed.

(* the spectral hypotheses are satisfiable as well: D = I, U = I, all eigenvalues 1 *)
Example C05_gmrf_spectral_example : forall (R : realFieldType) (n : nat),
  let D : 'M[R]_n := 1%:M in let U : 'M[R]_n := 1%:M in let l : 'rV[R]_n := const_mx 1 in
  U *m U^T = 1%:M /\ (D^T *m D) *m U = U *m diag_mx l /\ (forall j, 0 <= l 0 j).
Proof.
move=> R n D U l; rewrite /D /U /l trmx1 !mulmx1 mul1mx diag_const_mx; split=> //; split=> // j.
by rewrite mxE ler01.
Qed.

(* what a spectral (DFT-type) sampler must do: pair each weight with the eigenvalue of the SAME basis vector *)
Theorem C05_spectral_pairing : forall (F : fieldType) (n : nat) (U L W2 : 'M[F]_n),
  U^T *m U = 1%:M -> L *m W2 *m L = L ->
  let P := U *m L *m U^T in let C := U *m W2 *m U^T in P *m C *m P = P.
Proof. exact spectral_pairing. Qed.
Print Assumptions C05_spectral_pairing.

(* ---------------- the same theorems for matrices as lists of rows (deepening round) ----------------
   ldot / lcol / ltr / lmm / lid (mc/C05_Link.v) are the recursions of the executable model's qdot / qcol / qtr / qmm / qid
   over an arbitrary field; wf m n = "m rows of length n".  gauss_ok / gmrf_neumann_ok check the hypotheses on the
   implementation's read-off map (over Q, within 1e-9). *)
Theorem C05_list_gaussian_cov : forall (F : fieldType) (n : nat) (S T : lmat F),
  wf n n S -> wf n n T -> lmm n S T = lid F n ->
  lmm n (lmm n (ltr n S) S) (lmm n T (ltr n T)) = lid F n.
Proof. exact list_gaussian_cov. Qed.
Print Assumptions C05_list_gaussian_cov.

Theorem C05_list_sandwich_cov : forall (F : fieldType) (n m : nat) (A T B : lmat F),
  wf n n A -> wf n m T -> wf n m B -> lmm m A T = B ->
  lmm n (lmm n A (lmm n T (ltr m T))) (ltr n A) = lmm n B (ltr m B).
Proof. exact list_sandwich_cov. Qed.
Print Assumptions C05_list_sandwich_cov.

Example C05_list_example : forall (F : fieldType) (n : nat),
  wf n n (lid F n) /\ lmm n (lid F n) (lid F n) = lid F n.
Proof. move=> F n; split; [exact: wf_lid | exact: lid_idem]. Qed.
