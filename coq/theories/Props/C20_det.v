(* C20 -- determinants and pseudo-determinants of the precisions the model builds, EVERY size n (mathcomp over
   Coq's Z, with the refinement from the list matrices of the executable model: mxZ n n P is the mathcomp
   matrix of the list matrix P, mc/C20_Rank.v).  These tie the log-determinant GMRF reports for order 1 with
   zero / neumann boundary conditions to a closed form instead of a per-case certificate. *)
From Coq Require Import ZArith.
From CV Require Import Base.LinAlg Base.QcLin Model.C20_Diff Model.C20_Spec.
From mathcomp Require Import all_ssreflect all_algebra ssrZ.
From CVmc Require Import C20_Rank C20_DetZero C20_PdetNeumann.
Set Implicit Arguments.
Unset Strict Implicit.
Unset Printing Implicit Defensive.
Import GRing.Theory.
Local Open Scope ring_scope.

(* the tridiagonal (-1, 2, -1) matrix has determinant n + 1 *)
Theorem C20_tridiag_det : forall n, \det (Tmx n) = Z.of_nat n.+1.
Proof. exact: det_Tmx. Qed.
Print Assumptions C20_tridiag_det.

(* det(D^T D) = n + 1 for the order-1 operator with zero boundary conditions, as the model builds it *)
Theorem C20_det_order1_zero : forall n D,
  fd_matrix 1 Zero n = Some D -> \det (mxZ n n (gram n D)) = Z.of_nat n.+1.
Proof. exact: det_prec_zero1. Qed.
Print Assumptions C20_det_order1_zero.

(* ... hence for the field: det P = n + 1 and det (c P) = c^n (n + 1): logdet = log(n + 1) *)
Theorem C20_gmrf_det_zero1 : forall n g (c : Z),
  gmrf_init 1 n Zero 1 = Some g ->
  \det (mxZ n n (g_prec g)) = Z.of_nat n.+1 /\ \det (c *: mxZ n n (g_prec g)) = c ^+ n * Z.of_nat n.+1.
Proof. by move=> n g c Hg; split; [exact: gmrf_det_zero1 | exact: gmrf_det_zero1_scaled]. Qed.
Print Assumptions C20_gmrf_det_zero1.

(* the Gram matrix of a list matrix is the mathcomp product D^T D of its refinement *)
Theorem C20_gram_refinement : forall m n (D : list (list Z)), wf_mat n D -> List.length D = m ->
  mxZ n n (gram n D) = (mxZ m n D)^T *m mxZ m n D.
Proof. exact: mxZ_gram. Qed.
Print Assumptions C20_gram_refinement.

(* pseudo-determinant, order 1 / neumann (path-graph Laplacian): the sum of the principal (n-1)-minors of the
   precision (= trace of the adjugate = (-1)^(n-1) x coefficient of t in the characteristic polynomial; for a
   positive semi-definite matrix of rank n-1 the product of its non-zero eigenvalues) is n *)
Theorem C20_pdet_order1_neumann : forall m D,
  fd_matrix 1 Neumann m.+1 = Some D ->
  \sum_(j < m.+1) cofactor (mxZ m.+1 m.+1 (gram m.+1 D)) j j = Z.of_nat m.+1.
Proof. exact: pdet_prec_neumann1. Qed.
Print Assumptions C20_pdet_order1_neumann.

Theorem C20_gmrf_pdet_neumann1 : forall m g,
  gmrf_init 1 m.+1 Neumann 1 = Some g ->
  \sum_(j < m.+1) cofactor (mxZ m.+1 m.+1 (g_prec g)) j j = Z.of_nat m.+1.
Proof. exact: gmrf_pdet_neumann1. Qed.
Print Assumptions C20_gmrf_pdet_neumann1.

(* every principal (n-1)-minor of the path Laplacian is the square of a unit: det(E_j) det(E_j) = 1 *)
Theorem C20_path_minor_unit : forall m (j : 'I_m.+1), \det (col' j (Dn m)) * \det (col' j (Dn m)) = 1.
Proof. exact: det_minor_sq. Qed.
Print Assumptions C20_path_minor_unit.
