(* C20 -- Difference operators and the priors built on them have the documented structure.
   Property theorems only: each is closed by `exact <lemma>` and followed by Print Assumptions.
   Model: Model/C20_Diff.v (the code, statement by statement); documented objects: Model/C20_Spec.v
   (np.diff of zero-padded / wrapped signals, null-space bases).  All theorems are for EVERY size n,
   every vector; nothing here is a sample.  Two more property files: Props/C20_mc.v (determinant of
   the triangular factor, mathcomp) and Props/C20_logdet.v (its logarithm, reals). *)
From CV Require Import Base.Tac Base.Cmp Base.LinAlg Base.QcLin Model.C20_Diff Model.C20_Spec
  Proofs.C20_Lin Proofs.C20_Stencil Proofs.C20_Null Proofs.C20_Gmrf Proofs.C20_Gmrf2d Proofs.C20_Mrf
  Proofs.C20_Nullity Proofs.C20_Repaired Proofs.C20_Running.
From Coq Require Import QArith Qcanon.
Local Open Scope Z_scope.

(* ------------------------------------------------------------------------------------------------
   1. Stencils, one dimension: matrix . x = the documented difference list, boundary rows included
   ------------------------------------------------------------------------------------------------ *)
Theorem C20_stencil_zero_1 : forall n x, length x = n ->
  exists D, fd_matrix 1 Zero n = Some D /\ zmatvec D x = diffs (0 :: x ++ [0]).
Proof. exact stencil_zero_1. Qed.
Print Assumptions C20_stencil_zero_1.

(* wrap_pad 1 x = [x_{n-1}] ++ x ++ [x_0]; needs n >= 2 (see C20_stencil_periodic_small_refuted) *)
Theorem C20_stencil_periodic_1 : forall n x, length x = n -> (2 <= n)%nat ->
  exists D, fd_matrix 1 Periodic n = Some D /\ zmatvec D x = diffs (wrap_pad 1 x).
Proof. exact stencil_periodic_1. Qed.
Print Assumptions C20_stencil_periodic_1.

Theorem C20_stencil_neumann_1 : forall n x, length x = n -> (1 <= n)%nat ->
  exists D, fd_matrix 1 Neumann n = Some D /\ zmatvec D x = diffs x.
Proof. exact stencil_neumann_1. Qed.
Print Assumptions C20_stencil_neumann_1.

(* 'backward': row 0 is +x_0, the other rows are x_{i-1} - x_i (the sign the code has) *)
Theorem C20_stencil_backward_1 : forall n x, length x = n -> (1 <= n)%nat ->
  exists D, fd_matrix 1 Backward n = Some D /\
            zmatvec D x = match x with [] => [] | a :: _ => a :: map Z.opp (diffs x) end.
Proof. exact stencil_backward_1. Qed.
Print Assumptions C20_stencil_backward_1.

Theorem C20_stencil_none_1 : forall n x, length x = n ->
  exists D, fd_matrix 1 NoBC n = Some D /\ zmatvec D x = x.
Proof. exact stencil_none_1. Qed.
Print Assumptions C20_stencil_none_1.

(* second order: the [-1, 2, -1] stencil = minus the second difference *)
Theorem C20_stencil_zero_2 : forall n x, length x = n ->
  exists D, fd_matrix 2 Zero n = Some D /\ zmatvec D x = ndiffs2 (0 :: 0 :: x ++ [0; 0]).
Proof. exact stencil_zero_2. Qed.
Print Assumptions C20_stencil_zero_2.

Theorem C20_stencil_periodic_2 : forall n x, length x = n -> (3 <= n)%nat ->
  exists D, fd_matrix 2 Periodic n = Some D /\ zmatvec D x = ndiffs2 (wrap_pad 2 x).
Proof. exact stencil_periodic_2. Qed.
Print Assumptions C20_stencil_periodic_2.

Theorem C20_stencil_neumann_2 : forall n x, length x = n -> (2 <= n)%nat ->
  exists D, fd_matrix 2 Neumann n = Some D /\ zmatvec D x = ndiffs2 x.
Proof. exact stencil_neumann_2. Qed.
Print Assumptions C20_stencil_neumann_2.

(* all orders and boundary conditions at once; the guard is the exact complement of the refuted class *)
Theorem C20_stencil_all : forall order b n x D,
  fd_matrix order b n = Some D -> periodic_too_small order b n = false -> length x = n ->
  stencil_spec order b x = Some (zmatvec D x).
Proof. exact stencil_all. Qed.
Print Assumptions C20_stencil_all.

(* finding FiniteDifference._create_diff_matrix|periodic:N-below-stencil-width *)
Theorem C20_stencil_periodic_small_refuted :
  exists order n x D, periodic_too_small order Periodic n = true /\ length x = n /\
    fd_matrix order Periodic n = Some D /\ stencil_spec order Periodic x <> Some (zmatvec D x).
Proof. exact stencil_periodic_small_refuted. Qed.
Print Assumptions C20_stencil_periodic_small_refuted.

(* which (order, boundary condition, size) combinations are built, which are refused *)
Theorem C20_operator_defined : forall order b n,
  (exists D, fd_matrix order b n = Some D) <->
  match order, b with
  | 1%nat, Zero | 1%nat, NoBC | 2%nat, Zero => True
  | 1%nat, Periodic | 1%nat, Neumann | 1%nat, Backward => (1 <= n)%nat
  | 2%nat, Periodic | 2%nat, Neumann => (2 <= n)%nat
  | _, _ => False
  end.
Proof. exact fd_matrix_defined. Qed.
Print Assumptions C20_operator_defined.

(* ------------------------------------------------------------------------------------------------
   2. Two dimensions: vstack [kron(I, D); kron(D, I)] applied to the C-order image X (a list of N
      rows of length N) = D applied to every row, followed by D applied to every column
   ------------------------------------------------------------------------------------------------ *)
Theorem C20_kron_2d : forall N D X, wf_mat N D -> image N X ->
  zmatvec (stack2d N D) (concat X) =
  concat (map (fun row => zmatvec D row) X) ++
  concat (map (fun drow => map (fun c => zdot drow (col 0 X c)) (seq 0 N)) D).
Proof. exact stack2d_matvec. Qed.
Print Assumptions C20_kron_2d.

(* the two Kronecker factors separately, for any matrix D with N columns *)
Theorem C20_kron_rows : forall N D X, wf_mat N D -> image N X ->
  zmatvec (kron (eye N) D) (concat X) = concat (map (fun row => zmatvec D row) X).
Proof. exact kron_eye_l. Qed.
Print Assumptions C20_kron_rows.

Theorem C20_kron_cols : forall N D X, wf_mat N D -> image N X ->
  zmatvec (kron D (eye N)) (concat X) =
  concat (map (fun drow => map (fun c => zdot drow (col 0 X c)) (seq 0 N)) D).
Proof. exact kron_eye_r. Qed.
Print Assumptions C20_kron_cols.

(* the constructor's 2-d operator IS that stacking of the 1-d operator of the same order and BC *)
Theorem C20_operator_2d : forall order N b,
  option_map fst (fd_op order (NTup2 N N) b None) = option_map (stack2d N) (fd_matrix order b N).
Proof. exact fd_op_2d. Qed.
Print Assumptions C20_operator_2d.

(* ------------------------------------------------------------------------------------------------
   3. Precision = D^T D: symmetric, positive semi-definite, same null space as D
      (any integer matrix D with n columns; the generic-ring version is Proofs.C20_Lin.gram_quad)
   ------------------------------------------------------------------------------------------------ *)
Theorem C20_prec_sym_psd : forall n D x, wf_mat n D -> length x = n ->
  ztranspose n (gram n D) = gram n D /\
  zmatvec (gram n D) x = zmattvec n D (zmatvec D x) /\
  quad (gram n D) x = znormsq (zmatvec D x) /\ 0 <= quad (gram n D) x /\
  (zmatvec (gram n D) x = repeat 0 n <-> zmatvec D x = repeat 0 (length D)).
Proof.
  intros n D x H Hx. repeat split.
  - exact (zgram_symmetric n D H).
  - exact (zgram_matvec n D x H Hx).
  - exact (zgram_quad n D x H Hx).
  - exact (zgram_psd n D x H Hx).
  - exact (proj1 (zgram_null n D x H Hx)).
  - exact (proj2 (zgram_null n D x H Hx)).
Qed.
Print Assumptions C20_prec_sym_psd.

(* over an arbitrary commutative ring: x^T (D^T D) x = |D x|^2 and (D^T D)^T = D^T D *)
Theorem C20_prec_generic_ring : forall (R : Type) (r0 r1 : R) (radd rmul rsub : R -> R -> R) (ropp : R -> R),
  ring_theory r0 r1 radd rmul rsub ropp (@eq R) ->
  forall n (D : list (list R)) x, wf_mat n D -> length x = n ->
    dot r0 radd rmul x (matvec r0 radd rmul (ggram R r0 radd rmul n D) x)
      = normsq r0 radd rmul (matvec r0 radd rmul D x) /\
    transpose r0 n (ggram R r0 radd rmul n D) = ggram R r0 radd rmul n D.
Proof.
  intros R r0 r1 radd rmul rsub ropp Rth n D x H Hx. split.
  - exact (gram_quad R r0 r1 radd rmul rsub ropp Rth n D x H Hx).
  - exact (gram_symmetric R r0 r1 radd rmul rsub ropp Rth n D H).
Qed.
Print Assumptions C20_prec_generic_ring.

(* ------------------------------------------------------------------------------------------------
   4. Null spaces: exactly the one the boundary condition implies
      null_cond: zero / backward / none (and order 0): {0};  periodic, neumann order 1: constants;
      neumann order 2: affine sequences
   ------------------------------------------------------------------------------------------------ *)
Theorem C20_nullspace_operator : forall order b n x D,
  fd_matrix order b n = Some D -> periodic_too_small order b n = false -> length x = n ->
  (zmatvec D x = zeros (length D) <-> null_cond order b x).
Proof. exact fd_null_1d. Qed.
Print Assumptions C20_nullspace_operator.

Theorem C20_nullspace_prec_1d : forall dim b order g,
  gmrf_init 1 dim b order = Some g ->
  periodic_too_small (eff_order order) (eff_bc order b) dim = false ->
  forall x, length x = dim ->
    (zmatvec (g_prec g) x = zeros (length (g_prec g)) <-> null_cond (eff_order order) (eff_bc order b) x).
Proof. exact gmrf_null_1d. Qed.
Print Assumptions C20_nullspace_prec_1d.

(* 2-d via the Kronecker structure: rows and columns of the image all in the 1-d null space
   (constants x constants = constants; affine x affine = bi-affine, dimension 4) *)
Theorem C20_nullspace_prec_2d : forall N b order g X,
  gmrf_init 2 (N * N) b order = Some g ->
  periodic_too_small (eff_order order) (eff_bc order b) N = false -> image N X ->
  (zmatvec (g_prec g) (concat X) = zeros (length (g_prec g)) <->
   Forall (null_cond (eff_order order) (eff_bc order b)) X /\
   (forall c, (c < N)%nat -> null_cond (eff_order order) (eff_bc order b) (col 0 X c))).
Proof. exact gmrf_null_2d. Qed.
Print Assumptions C20_nullspace_prec_2d.

(* ------------------------------------------------------------------------------------------------
   5. The rank GMRF.__init__ reports (zero: dim; periodic / neumann: dim - 1) is dim - nullity of
      its precision -- guarded by the exact complement of the three finding classes
      (gmrf_rank_defect: order 0 with periodic/neumann; order 2 neumann; order 2 periodic, N <= 2).
      null_basis M n B: B is a basis of the null space (members, spanning, independent).
   ------------------------------------------------------------------------------------------------ *)
Theorem C20_gmrf_rank_1d : forall dim b order g,
  gmrf_init 1 dim b order = Some g -> gmrf_rank_defect order b dim = false ->
  null_basis (g_prec g) dim (null_basis_1d order b dim) /\
  (g_rank g + length (null_basis_1d order b dim) = dim)%nat.
Proof. exact gmrf_rank_1d. Qed.
Print Assumptions C20_gmrf_rank_1d.

Theorem C20_gmrf_rank_2d : forall N b order g,
  gmrf_init 2 (N * N) b order = Some g -> gmrf_rank_defect order b N = false ->
  null_basis (g_prec g) (N * N) (null_basis_2d order b N) /\
  (g_rank g + length (null_basis_2d order b N) = N * N)%nat.
Proof. exact gmrf_rank_2d. Qed.
Print Assumptions C20_gmrf_rank_2d.

(* finding GMRF.__init__|rank:order0-periodic/neumann -- in fact wrong for EVERY size *)
Theorem C20_gmrf_rank_order0_refuted :
  exists dim b g B, gmrf_rank_defect 0 b dim = true /\ gmrf_init 1 dim b 0 = Some g /\
    null_basis (g_prec g) dim B /\ (g_rank g + length B <> dim)%nat.
Proof. exact gmrf_rank_refuted_order0. Qed.
Print Assumptions C20_gmrf_rank_order0_refuted.

Theorem C20_gmrf_rank_order0_wrong_everywhere : forall dim b, (2 <= dim)%nat -> b = Periodic \/ b = Neumann ->
  exists g, gmrf_init 1 dim b 0 = Some g /\ null_basis (g_prec g) dim [] /\ g_rank g = (dim - 1)%nat.
Proof. exact gmrf_rank_order0_wrong. Qed.
Print Assumptions C20_gmrf_rank_order0_wrong_everywhere.

(* finding GMRF.__init__|rank:order2-neumann -- null space = affine sequences, for EVERY size *)
Theorem C20_gmrf_rank_order2_neumann_refuted :
  exists dim g B, gmrf_rank_defect 2 Neumann dim = true /\ gmrf_init 1 dim Neumann 2 = Some g /\
    null_basis (g_prec g) dim B /\ (g_rank g + length B <> dim)%nat.
Proof. exact gmrf_rank_refuted_order2_neumann. Qed.
Print Assumptions C20_gmrf_rank_order2_neumann_refuted.

Theorem C20_gmrf_rank_order2_neumann_wrong_everywhere : forall dim, (2 <= dim)%nat ->
  exists g, gmrf_init 1 dim Neumann 2 = Some g /\ null_basis (g_prec g) dim [ones dim; ramp dim] /\
            g_rank g = (dim - 1)%nat.
Proof. exact gmrf_rank_order2_neumann_wrong. Qed.
Print Assumptions C20_gmrf_rank_order2_neumann_wrong_everywhere.

(* finding periodic:N-below-stencil-width seen through the field: dim 2, order 2, periodic *)
Theorem C20_gmrf_rank_periodic_small_refuted :
  exists dim g B, gmrf_rank_defect 2 Periodic dim = true /\ gmrf_init 1 dim Periodic 2 = Some g /\
    null_basis (g_prec g) dim B /\ (g_rank g + length B <> dim)%nat.
Proof. exact gmrf_rank_refuted_periodic_small. Qed.
Print Assumptions C20_gmrf_rank_periodic_small_refuted.

(* when GMRF.__init__ refuses *)
Theorem C20_gmrf_defined_1d : forall dim b order,
  (exists g, gmrf_init 1 dim b order = Some g) <->
  (dim <> 1%nat /\ (order <= 2)%nat /\ (b = Zero \/ b = Periodic \/ b = Neumann) /\
   exists D, fd_matrix (eff_order order) (eff_bc order b) dim = Some D).
Proof. exact gmrf_defined_1d. Qed.
Print Assumptions C20_gmrf_defined_1d.

(* ------------------------------------------------------------------------------------------------
   6. The priors evaluate the shifted variable through exactly these operators
   ------------------------------------------------------------------------------------------------ *)
(* x - location: entry-wise for a vector location, broadcast for a single number *)
Theorem C20_shift : forall x loc k, (k < length x)%nat ->
  (length loc = length x \/ length loc = 1%nat) ->
  length (shift x loc) = length x /\
  nth k (shift x loc) 0 = nth k x 0 - (match loc with [c] => c | _ => nth k loc 0 end).
Proof. exact shift_spec. Qed.
Print Assumptions C20_shift.

(* LMRF and CMRF (1-d): the vector whose 1-norm / Cauchy terms enter logpdf is the documented
   first difference of x - location; dim = 1 is refused *)
Theorem C20_mrf_through_operator_1d : forall dim b x loc d,
  mrf_dx 1 dim b x loc = Some d -> length (shift x loc) = dim -> periodic_too_small 1 b dim = false ->
  dim <> 1%nat /\ stencil_spec 1 b (shift x loc) = Some d /\
  lmrf_l1 1 dim b x loc = Some (zabs_sum d).
Proof.
  intros dim b x loc d H Hx Hs. destruct (mrf_dx_1d dim b x loc d H Hx Hs) as [H1 H2].
  repeat split; try assumption. rewrite lmrf_uses_dx, H. reflexivity.
Qed.
Print Assumptions C20_mrf_through_operator_1d.

(* LMRF and CMRF (2-d): row differences of the image, then column differences *)
Theorem C20_mrf_through_operator_2d : forall N b x loc d X,
  mrf_dx 2 (N * N) b x loc = Some d -> image N X -> shift x loc = concat X ->
  exists D, fd_matrix 1 b N = Some D /\
    d = concat (map (fun row => zmatvec D row) X) ++
        concat (map (fun drow => map (fun c => zdot drow (col 0 X c)) (seq 0 N)) D).
Proof. exact mrf_dx_2d. Qed.
Print Assumptions C20_mrf_through_operator_2d.

(* GMRF: precision = D^T D of the operator of its order and BC; the quadratic form of logpdf is
   |D v|^2 >= 0 (v = x - mean); symmetric *)
Theorem C20_gmrf_through_operator_1d : forall dim b order g v,
  gmrf_init 1 dim b order = Some g -> length v = dim ->
  g_prec g = gram dim (g_diff g) /\
  fd_matrix (eff_order order) (eff_bc order b) dim = Some (g_diff g) /\
  quad (g_prec g) v = znormsq (zmatvec (g_diff g) v) /\ 0 <= quad (g_prec g) v /\
  ztranspose dim (g_prec g) = g_prec g.
Proof. exact gmrf_quad_1d. Qed.
Print Assumptions C20_gmrf_through_operator_1d.

Theorem C20_gmrf_through_operator_2d : forall N b order g v,
  gmrf_init 2 (N * N) b order = Some g -> length v = (N * N)%nat ->
  exists D, fd_matrix (eff_order order) (eff_bc order b) N = Some D /\ g_diff g = stack2d N D /\
  g_prec g = gram (N * N) (g_diff g) /\
  quad (g_prec g) v = znormsq (zmatvec (g_diff g) v) /\ 0 <= quad (g_prec g) v /\
  ztranspose (N * N) (g_prec g) = g_prec g.
Proof. exact gmrf_quad_2d. Qed.
Print Assumptions C20_gmrf_through_operator_2d.

(* square-root precision: for the factor R the harness reads off (certificate), R^T R is symmetric
   and x^T (R^T R) x = |R x|^2 over the rationals; check_sqrtprec compares R^T R entry-wise with
   prec * (P + shift I) on every run *)
Theorem C20_sqrtprec_factor : forall n (R : list (list Qc)) (x : list Qc), wf_mat n R -> length x = n ->
  qdot x (qmatvec (qmatmul n (qtranspose n R) R) x) = qnormsq (qmatvec R x) /\
  qtranspose n (qmatmul n (qtranspose n R) R) = qmatmul n (qtranspose n R) R.
Proof. exact sqrtprec_factor. Qed.
Print Assumptions C20_sqrtprec_factor.

(* finding GMRF.__init__|logdet:dim-above-MAX_DIM_INV: above config.MAX_DIM_INV (periodic / neumann) the
   reported log-determinant is that of P + sqrt(eps) I -- (d_reg is det(P + sqrt(eps) I) / sqrt(eps)) --
   not the pseudo-determinant of the precision the small-dimension branch reports *)
Theorem C20_logdet_bigdim_refuted :
  exists dim b order d_reg d_true,
    gmrf_expdet_reg 1 dim b order = Some d_reg /\ gmrf_expdet 1 dim b order = Some d_true /\
    ~ (d_reg * chol_shift b == d_true)%Q.
Proof. exact gmrf_logdet_bigdim_refuted. Qed.
Print Assumptions C20_logdet_bigdim_refuted.

(* ------------------------------------------------------------------------------------------------
   7. The TRUE null space of every field, with an explicit basis (no guard by the rank rule):
      1-d: [] | [ones] | [ones; ramp];  2-d (Kronecker structure): [] | [ones] | the four bi-affine
      images 1, r, c, r*c of order 2 / neumann.  The rank over Q follows in Props/C20_rank.v.
   ------------------------------------------------------------------------------------------------ *)
Theorem C20_nullity_1d : forall dim b order g,
  gmrf_init 1 dim b order = Some g ->
  periodic_too_small (eff_order order) (eff_bc order b) dim = false ->
  null_basis (g_prec g) dim (null_basis_1d order b dim).
Proof. exact gmrf_nullity_1d. Qed.
Print Assumptions C20_nullity_1d.

Theorem C20_nullity_2d : forall N b order g,
  gmrf_init 2 (N * N) b order = Some g ->
  periodic_too_small (eff_order order) (eff_bc order b) N = false ->
  null_basis (g_prec g) (N * N) (null_basis_2d order b N).
Proof. exact gmrf_nullity_2d. Qed.
Print Assumptions C20_nullity_2d.

(* any matrix whose null space is "all rows and all columns of the image affine" has the basis 1, r, c, r*c *)
Theorem C20_nullspace_biaffine_basis : forall M N, (2 <= N)%nat ->
  (forall X, image N X ->
     (zmatvec M (concat X) = zeros (length M) <->
      Forall is_affine X /\ (forall c, (c < N)%nat -> is_affine (col 0 X c)))) ->
  null_basis M (N * N) [flat N f_one; flat N f_row; flat N f_col; flat N f_prod].
Proof. exact nb_biaffine. Qed.
Print Assumptions C20_nullspace_biaffine_basis.

(* ------------------------------------------------------------------------------------------------
   8. The two proposed repairs (model variants the harness selects when the tree contains them)
   ------------------------------------------------------------------------------------------------ *)
(* fixes/C20_periodic_accumulate.diff: same matrices outside the finding, and the wrap-around stencil
   for EVERY size that is built -- the guard of C20_stencil_all disappears *)
Theorem C20_repaired_patches_same : forall order b n, periodic_too_small order b n = false ->
  fd_matrix_acc order b n = fd_matrix order b n.
Proof. exact fd_matrix_acc_eq. Qed.
Print Assumptions C20_repaired_patches_same.

Theorem C20_stencil_all_repaired : forall order b n x D,
  fd_matrix_acc order b n = Some D -> length x = n -> stencil_spec order b x = Some (zmatvec D x).
Proof. exact stencil_all_acc. Qed.
Print Assumptions C20_stencil_all_repaired.

(* fixes/C20_gmrf_rank_rule.diff: the reported rank is dim - nullity for every field, no guard *)
Theorem C20_gmrf_rank_repaired_1d : forall dim b order g,
  gmrf_init_gen fd_matrix true 1 dim b order = Some g ->
  periodic_too_small (eff_order order) (eff_bc order b) dim = false ->
  null_basis (g_prec g) dim (null_basis_1d order b dim) /\
  (g_rank g + length (null_basis_1d order b dim) = dim)%nat.
Proof. exact gmrf_rank_fixed_1d. Qed.
Print Assumptions C20_gmrf_rank_repaired_1d.

Theorem C20_gmrf_rank_repaired_2d : forall N b order g,
  gmrf_init_gen fd_matrix true 2 (N * N) b order = Some g ->
  periodic_too_small (eff_order order) (eff_bc order b) N = false ->
  null_basis (g_prec g) (N * N) (null_basis_2d order b N) /\
  (g_rank g + length (null_basis_2d order b N) = N * N)%nat.
Proof. exact gmrf_rank_fixed_2d. Qed.
Print Assumptions C20_gmrf_rank_repaired_2d.

(* ------------------------------------------------------------------------------------------------
   9. The model instance that RUNS against the repaired tree: fd_matrix_acc + repaired rank rule.
      Every operator it builds annihilates exactly the documented null space, every field has the
      explicit null-space basis and reports dim - nullity: no guard, no size excluded.
   ------------------------------------------------------------------------------------------------ *)
Theorem C20_running_nullspace_operator : forall o b n x D,
  fd_matrix_acc o b n = Some D -> length x = n ->
  (zmatvec D x = zeros (length D) <-> null_cond o b x).
Proof. exact fd_matrix_acc_null. Qed.
Print Assumptions C20_running_nullspace_operator.

Theorem C20_running_nullity_1d : forall rk dim b order g,
  gmrf_init_gen fd_matrix_acc rk 1 dim b order = Some g ->
  null_basis (g_prec g) dim (null_basis_1d order b dim).
Proof. exact running_nullity_1d. Qed.
Print Assumptions C20_running_nullity_1d.

Theorem C20_running_nullity_2d : forall rk N b order g,
  gmrf_init_gen fd_matrix_acc rk 2 (N * N) b order = Some g ->
  null_basis (g_prec g) (N * N) (null_basis_2d order b N).
Proof. exact running_nullity_2d. Qed.
Print Assumptions C20_running_nullity_2d.

Theorem C20_running_rank_1d : forall dim b order g,
  gmrf_init_gen fd_matrix_acc true 1 dim b order = Some g ->
  (g_rank g + length (null_basis_1d order b dim) = dim)%nat.
Proof. exact running_rank_1d. Qed.
Print Assumptions C20_running_rank_1d.

Theorem C20_running_rank_2d : forall N b order g,
  gmrf_init_gen fd_matrix_acc true 2 (N * N) b order = Some g ->
  (g_rank g + length (null_basis_2d order b N) = N * N)%nat.
Proof. exact running_rank_2d. Qed.
Print Assumptions C20_running_rank_2d.

(* non-vacuity: the sizes that exist only with accumulating patches *)
Example C20_example_running :
  (exists g, gmrf_init_gen fd_matrix_acc true 1 2 Periodic 2 = Some g /\ g_rank g = 1%nat /\
             g_prec g = [[16; -16]; [-16; 16]]) /\
  (exists g, gmrf_init_gen fd_matrix_acc true 2 (2 * 2) Periodic 2 = Some g /\ g_rank g = 3%nat).
Proof. split; eexists; repeat split; vm_compute; reflexivity. Qed.

(* non-vacuity of the new hypotheses *)
Example C20_example_deepening :
  (exists g, gmrf_init 2 (3 * 3) Neumann 2 = Some g /\ g_rank g = 8%nat /\ length (null_basis_2d 2 Neumann 3) = 4%nat) /\
  (exists g, gmrf_init_gen fd_matrix true 2 (3 * 3) Neumann 2 = Some g /\ g_rank g = 5%nat) /\
  fd_matrix_acc 2 Periodic 2 = Some [[-2; 2]; [2; -2]; [-2; 2]; [2; -2]] /\
  fd_matrix 2 Periodic 2 = Some [[-1; 2]; [2; -1]; [-1; 2]; [2; -1]].
Proof. repeat split; try (eexists; repeat split; vm_compute; reflexivity); vm_compute; reflexivity. Qed.

(* non-vacuity: concrete operators and fields meet the hypotheses *)
Example C20_example :
  fd_matrix 1 Periodic 3 = Some [[1; 0; -1]; [-1; 1; 0]; [0; -1; 1]; [1; 0; -1]] /\
  stencil_spec 2 Neumann [1; 4; 9; 16] = Some [-2; -2] /\
  (exists g, gmrf_init 1 4 Neumann 1 = Some g /\ g_rank g = 3%nat /\
             g_prec g = [[1; -1; 0; 0]; [-1; 2; -1; 0]; [0; -1; 2; -1]; [0; 0; -1; 1]]) /\
  (exists g, gmrf_init 2 (2 * 2) Zero 1 = Some g /\ g_rank g = 4%nat) /\
  image 2 [[1; 2]; [3; 4]] /\ gmrf_rank_defect 1 Periodic 5 = false.
Proof.
  repeat split; try reflexivity; try (eexists; repeat split; vm_compute; reflexivity); repeat constructor.
Qed.
