(* C17 (deepening round) -- property theorems about the PDE test problems, the PSF generators and the Abel matrix.
   Each is closed by `exact <lemma>` and followed by Print Assumptions. *)
From CV Require Import Base.Tac Base.LinAlg Base.Cmp Base.QcLin Model.C17_TP Model.C17_TPR Model.C17_More
     Proofs.C17_Assembly Proofs.C17_PSF Proofs.C17_RealPSF Proofs.C17_PDE Proofs.C17_Linear.
From Coq Require Import QArith Qcanon Qabs Reals.

(* ---- Heat1D: the coded matrix np.diag(-2)+np.diag(1,-1)+np.diag(1,1) acts as the second-difference stencil with
        homogeneous Dirichlet values outside the grid (every N, any commutative ring) *)
Theorem C17_heat_stencil : forall (R : Type) (r0 r1 : R) (radd rmul rsub : R -> R -> R) (ropp : R -> R),
  ring_theory r0 r1 radd rmul rsub ropp (@eq R) ->
  forall (N : nat) (u : list R) (r : nat), (r < N)%nat -> length u = N ->
  nth r (matvec r0 radd rmul (dxx_matrix r0 r1 radd ropp N) u) r0
  = radd (radd (rmul (ropp (radd r1 r1)) (nth r u r0)) (match r with O => r0 | S r' => nth r' u r0 end)) (nth (r + 1) u r0).
Proof. exact dxx_stencil. Qed.
Print Assumptions C17_heat_stencil.

(* ---- Heat1D solution map: steps+1 stored levels, level 0 = initial condition (the exact solution of the test
        problem), every level is the coded forward-Euler step of the previous one, exactData = the last level *)
Theorem C17_heat_euler_levels : forall (R : Type) (r0 : R) (radd rmul : R -> R -> R) (steps : nat) (dtA : list (list R)) (u : list R),
  length (euler_levels r0 radd rmul steps dtA u) = S steps /\
  nth 0 (euler_levels r0 radd rmul steps dtA u) [] = u /\
  (forall k, (k < steps)%nat ->
     nth (S k) (euler_levels r0 radd rmul steps dtA u) [] = euler_step r0 radd rmul dtA (nth k (euler_levels r0 radd rmul steps dtA u) [])) /\
  euler_final r0 radd rmul steps dtA u = nth steps (euler_levels r0 radd rmul steps dtA u) [].
Proof. exact euler_levels_spec. Qed.
Print Assumptions C17_heat_euler_levels.

(* the step as coded, (dt*A + I) @ u, is the model's step dt*A u + u *)
Theorem C17_heat_step_as_coded : forall (R : Type) (r0 r1 : R) (radd rmul rsub : R -> R -> R) (ropp : R -> R),
  ring_theory r0 r1 radd rmul rsub ropp (@eq R) ->
  forall (n : nat) (A : list (list R)) (u : list R), wf_mat n A -> length A = n -> length u = n ->
  matvec r0 radd rmul (map (fun p => vadd radd (fst p) (snd p)) (combine A (map (unit_vec r0 r1 n) (seq 0 n)))) u
  = euler_step r0 radd rmul A u.
Proof. exact matvec_add_identity. Qed.
Print Assumptions C17_heat_step_as_coded.

(* ---- Poisson1D: dx^2 * Dx^T diag(kappa) Dx is the conservative three-point stencil of -(kappa u')' with
        u = 0 beyond both ends, kappa sampled on the dim = N+1 domain nodes (every N) *)
Theorem C17_poisson_stencil : forall (R : Type) (r0 r1 : R) (radd rmul rsub : R -> R -> R) (ropp : R -> R),
  ring_theory r0 r1 radd rmul rsub ropp (@eq R) ->
  forall (N : nat) (kappa u : list R) (c : nat), (c < N)%nat -> length u = N -> length kappa = (N + 1)%nat ->
  nth c (poisson_op r0 r1 radd rmul ropp N kappa u) r0
  = radd (rmul (nth c kappa r0) (radd (nth c u r0) (ropp (match c with O => r0 | S c' => nth c' u r0 end))))
         (ropp (rmul (nth (c + 1) kappa r0) (radd (nth (c + 1) u r0) (ropp (nth c u r0))))).
Proof. exact poisson_stencil. Qed.
Print Assumptions C17_poisson_stencil.

(* finding (Poisson1D.__init__|range-grid-ignores-endpoint): the published solution/range grid is the source grid
   only for endpoint = 1 (guard); witness for endpoint = 2; the repaired grid is the source grid for every endpoint *)
Theorem C17_poisson_range_grid : forall (N : nat) (ep : Qc),
  poisson_range_grid true N ep = poisson_grid N ep /\ poisson_range_grid false N 1%Qc = poisson_grid N 1%Qc.
Proof. intros N ep. split; reflexivity. Qed.
Print Assumptions C17_poisson_range_grid.

Theorem C17_poisson_range_grid_refuted :
  map this (poisson_range_grid false 2 (qc (2 # 1))) = [1 # 2; 5 # 4]%Q /\ map this (poisson_grid 2 (qc (2 # 1))) = [1; 3 # 2]%Q.
Proof. split; vm_compute; reflexivity. Qed.
Print Assumptions C17_poisson_range_grid_refuted.

(* ---- PSF generators ---- *)
(* PSF /= PSF.sum(): whenever a PSF is produced its entries sum to one (1-d and 2-d, every generator that normalises) *)
Theorem C17_psf_normalised :
  (forall g p : list Qc, normalize g = Some p -> qsum p = 1%Qc /\ length p = length g) /\
  (forall g p : list (list Qc), normalize2 g = Some p -> qsum (map qsum p) = 1%Qc).
Proof. split; [exact normalize_sum_one | exact normalize2_sum_one]. Qed.
Print Assumptions C17_psf_normalised.

(* the grid arange(-fix(n/2), ceil(n/2)): x = 0 sits at index n/2 for BOTH parities and the grid is antisymmetric about it *)
Theorem C17_psf_grid_centre : forall n : nat, (0 < n)%nat ->
  nth (n / 2) (psf_grid n) 0%Z = 0%Z /\
  forall m, (m <= n / 2)%nat -> (n / 2 + m < n)%nat ->
    nth (n / 2 + m) (psf_grid n) 0%Z = Z.of_nat m /\ nth (n / 2 - m) (psf_grid n) 0%Z = (- Z.of_nat m)%Z.
Proof. intros n Hn. split; [exact (psf_grid_centre n Hn) | exact (psf_grid_symmetric n)]. Qed.
Print Assumptions C17_psf_grid_centre.

Theorem C17_moffat_psf : forall (n : nat) (s : Qc) (P : list Qc), moffat_psf_1d n s = Some P ->
  qsum P = 1%Qc /\ length P = n /\
  forall m, (m <= n / 2)%nat -> (n / 2 + m < n)%nat -> nth (n / 2 + m) P 0%Qc = nth (n / 2 - m) P 0%Qc.
Proof. exact moffat_1d_props. Qed.
Print Assumptions C17_moffat_psf.

Theorem C17_defocus_psf_fixed : forall (n : nat) (r : Qc) (P : list Qc), r <> 0%Qc -> defocus_psf_1d true n r = Some P ->
  qsum P = 1%Qc /\ length P = n /\
  forall m, (m <= n / 2)%nat -> (n / 2 + m < n)%nat -> nth (n / 2 + m) P 0%Qc = nth (n / 2 - m) P 0%Qc.
Proof. exact defocus_fixed_1d_props. Qed.
Print Assumptions C17_defocus_psf_fixed.

Theorem C17_defocus_psf_delta : forall n : nat, (0 < n)%nat ->
  exists P, defocus_psf_1d true n 0%Qc = Some P /\ nth (n / 2) P 0%Qc = 1%Qc /\
  forall i, (i < n)%nat -> i <> (n / 2)%nat -> nth i P 0%Qc = 0%Qc.
Proof. exact defocus_fixed_zero. Qed.
Print Assumptions C17_defocus_psf_delta.

(* Gaussian PSF over R: normalised, symmetric, maximal at the centre x = 0 (any grid / width) *)
Theorem C17_gauss_psf : forall (grid : list Z) (s : R), grid <> [] ->
  rsum (map (fun i => gauss_psf_R grid s i) (seq 0 (length grid))) = 1%R /\
  (forall i j, nth i grid 0%Z = (- nth j grid 0%Z)%Z -> gauss_psf_R grid s i = gauss_psf_R grid s j) /\
  (forall c i, s <> 0%R -> nth c grid 0%Z = 0%Z -> (gauss_psf_R grid s i <= gauss_psf_R grid s c)%R).
Proof.
  intros grid s Hg. split; [exact (gauss_psf_sum_one grid s Hg)|]. split.
  - exact (gauss_psf_symmetric grid s).
  - intros c i Hs Hc. exact (gauss_psf_centre_max grid s c i Hs Hg Hc).
Qed.
Print Assumptions C17_gauss_psf.

(* built-in legacy PSFs (gauss / sinc / prolate / vonMises): the row h ++ flipud(h[1:-1]) has dim entries and
   row[m] = row[dim - m], i.e. it is symmetric about index 0 -- the class on which the legacy circulant is correct *)
Theorem C17_legacy_builtin_row_symmetric : forall (R : Type) (r0 : R) (hh : list R) (h m : nat),
  length hh = S h -> (0 < h)%nat -> (0 < m < 2 * h)%nat ->
  length (legacy_full_row hh) = (2 * h)%nat /\
  nth m (legacy_full_row hh) r0 = nth (2 * h - m) (legacy_full_row hh) r0.
Proof. exact legacy_full_row_symmetric. Qed.
Print Assumptions C17_legacy_builtin_row_symmetric.

(* ---- Abel1D: the coded entries (tvec, svec, tmat < smat) are the documented quadrature h/sqrt(s_i - t_j),
        s_i - t_j = (i - j + 1/2) h, for every n; their squares are the rationals of the executable model *)
Theorem C17_abel_quadrature : forall (n : nat) (ep : R) (i j : nat), (0 < ep)%R -> (0 < n)%nat ->
  abel_entry_R n ep i j
  = (if le_lt_dec j i then (ep / INR n) / sqrt ((INR i - INR j + 1 / 2) * (ep / INR n)) else 0)%R /\
  ((j <= i)%nat -> (abel_entry_R n ep i j * abel_entry_R n ep i j = (ep / INR n) / (INR i - INR j + 1 / 2))%R
                   /\ (0 < abel_entry_R n ep i j)%R).
Proof.
  intros n ep i j Hep Hn. split; [exact (abel_entry_formula n ep i j Hep Hn)|].
  intros L. exact (abel_entry_square n ep i j Hep Hn L).
Qed.
Print Assumptions C17_abel_quadrature.

(* ---- constructor arguments: a documented default is applied ONLY when the argument is omitted; whenever a value is
        supplied -- including the falsy ones 0, 0.0, False, an all-zero array -- the problem's components are a
        function of that value (WangCubic data / noise_std; the same `option` carries every default in the checks) *)
Theorem C17_supplied_value_respected :
  (forall (A : Type) (supplied : option A) (d : A),
     (forall v, supplied = Some v -> with_default supplied d = v) /\ (supplied = None -> with_default supplied d = d)) /\
  (forall a : cubic_args,
     (forall v, ca_data a = Some v -> cp_data (cubic_construct a) = v) /\
     (ca_data a = None -> cp_data (cubic_construct a) = 1%Qc) /\
     (forall s, ca_noise_std a = Some s -> cp_cov (cubic_construct a) = (s * s)%Qc) /\
     (ca_noise_std a = None -> cp_cov (cubic_construct a) = 1%Qc)).
Proof. split; [intros A supplied d; exact (with_default_spec supplied d) | exact cubic_args_respected]. Qed.
Print Assumptions C17_supplied_value_respected.

(* in particular an observation of exactly zero stays zero *)
Theorem C17_cubic_zero_data_kept : forall ns, cp_data (cubic_construct (mkCubicArgs ns (Some 0%Qc))) = 0%Qc.
Proof. intros ns. reflexivity. Qed.
Print Assumptions C17_cubic_zero_data_kept.

(* ---- field_type x map: a supplied map is applied for EVERY field_type -- None, each documented name, and a Geometry
        instance of each class; the base geometry is the one selected by field_type (the passed object itself for an instance) *)
Theorem C17_domain_geometry : forall (f : ftype) (has_map : bool),
  fst (fst (domain_geometry_desc f has_map)) = has_map /\
  snd (fst (domain_geometry_desc f has_map)) = gclass_code (base_class f) /\
  (forall c, f = FInstance c -> snd (domain_geometry_desc f has_map) = true /\ base_class f = c).
Proof. exact domain_geometry_mapped_iff. Qed.
Print Assumptions C17_domain_geometry.

(* ---- Heat1D: the solution map (forward Euler, any number of steps, any matrix of the right shape) is LINEAR in the
        initial condition *)
Theorem C17_heat_solution_linear : forall (R : Type) (r0 r1 : R) (radd rmul rsub : R -> R -> R) (ropp : R -> R),
  ring_theory r0 r1 radd rmul rsub ropp (@eq R) ->
  forall (n : nat) (A : list (list R)) (steps : nat), wf_mat n A -> length A = n ->
  (forall u v, length u = n -> length v = n ->
     euler_final r0 radd rmul steps A (vadd radd u v) = vadd radd (euler_final r0 radd rmul steps A u) (euler_final r0 radd rmul steps A v)) /\
  (forall c u, length u = n -> euler_final r0 radd rmul steps A (vscale rmul c u) = vscale rmul c (euler_final r0 radd rmul steps A u)) /\
  (forall u, length u = n -> length (euler_final r0 radd rmul steps A u) = n).
Proof. exact euler_final_linear. Qed.
Print Assumptions C17_heat_solution_linear.

(* ---- forward model through a domain geometry = solve o par2fun.  HYPOTHESIS (C13's law of the expansion geometries
        KLExpansion / StepExpansion / Continuous1D / CustomKL): par2fun is linear.  Then, without a map, the forward model is
        linear in the parameters; the Heat1D solution map and the Abel1D matrix are linear `solve`s (the last two conjuncts) *)
Theorem C17_forward_through_linear_geometry : forall (R : Type) (r0 r1 : R) (radd rmul rsub : R -> R -> R) (ropp : R -> R),
  ring_theory r0 r1 radd rmul rsub ropp (@eq R) ->
  (forall (m n k : nat) (par2fun solve : list R -> list R),
     additive R radd m par2fun -> homogeneous R rmul m par2fun -> maps_to R m n par2fun ->
     additive R radd n solve -> homogeneous R rmul n solve -> maps_to R n k solve ->
     additive R radd m (fun p => solve (par2fun p)) /\ homogeneous R rmul m (fun p => solve (par2fun p)) /\
     maps_to R m k (fun p => solve (par2fun p))) /\
  (forall n A steps, wf_mat n A -> length A = n ->
     additive R radd n (euler_final r0 radd rmul steps A) /\ homogeneous R rmul n (euler_final r0 radd rmul steps A) /\
     maps_to R n n (euler_final r0 radd rmul steps A)) /\
  (forall n (A : list (list R)), wf_mat n A ->
     additive R radd n (matvec r0 radd rmul A) /\ homogeneous R rmul n (matvec r0 radd rmul A) /\ maps_to R n (length A) (matvec r0 radd rmul A)).
Proof.
  intros R r0 r1 radd rmul rsub ropp Rth. split; [|split].
  - exact (forward_through_linear_geometry R radd rmul).
  - exact (heat_solve_is_linear R r0 r1 radd rmul rsub ropp Rth).
  - exact (matrix_solve_is_linear R r0 r1 radd rmul rsub ropp Rth).
Qed.
Print Assumptions C17_forward_through_linear_geometry.

(* ---- vonMises phantom: "scaled such that max(x) = 1" -- the value is 1 at the mesh point of smallest modulus and <= 1
        elsewhere; the model's choice of that point (vonmises_tm) is a mesh point of minimal modulus *)
Theorem C17_vonmises_max : forall p t tm : R, (0 <= p)%R -> (Rabs tm <= Rabs t)%R -> (Rabs t <= 1)%R ->
  (ph_vonmises_R p t tm <= 1)%R /\ ph_vonmises_R p tm tm = 1%R.
Proof. exact vonmises_max_at_min_abs. Qed.
Print Assumptions C17_vonmises_max.

Theorem C17_vonmises_tm_minimal : forall (l : list Q) (d : Q),
  (argmin_abs l d = d \/ In (argmin_abs l d) l) /\ (Qabs (argmin_abs l d) <= Qabs d)%Q /\
  (forall x, In x l -> (Qabs (argmin_abs l d) <= Qabs x)%Q).
Proof. exact argmin_abs_spec. Qed.
Print Assumptions C17_vonmises_tm_minimal.

(* ---- Heat1D step count: the value read off the implementation's time grid is a CHECKED certificate -- accepted only inside
        r (1 - 2^-40) - 1 < steps <= r (1 + 2^-40), r the exact ratio max_time / ((5/11) dx^2) whose floating-point floor the code takes *)
Theorem C17_heat_steps_bracket : forall (N : nat) (ep T : Qc) (steps : nat), heat_steps_ok N ep T steps = true ->
  (zq (Z.of_nat steps) <= heat_ratio N ep T * (1 + fuzz))%Qc /\
  (heat_ratio N ep T * (1 - fuzz) < zq (Z.of_nat steps) + 1)%Qc.
Proof. exact heat_steps_bracket. Qed.
Print Assumptions C17_heat_steps_bracket.

(* non-vacuity: a PSF is produced, a legacy half row of the right length exists, stencils act on real inputs *)
Example C17_deep_nonvacuous :
  (exists P, moffat_psf_1d 4 (qc (1 # 2)) = Some P) /\ (exists P, defocus_psf_1d true 5 (qc (1 # 1)) = Some P) /\
  length [1; 2; 3]%Z = 3%nat /\
  zmatvec (dxx_matrix 0%Z 1%Z Z.add Z.opp 3) [1; 4; 9]%Z = [2; 2; -14]%Z /\
  poisson_op 0%Z 1%Z Z.add Z.mul Z.opp 2 [1; 2; 3]%Z [1; 1]%Z = [1; 3]%Z.
Proof. repeat split; try (eexists; vm_compute; reflexivity); vm_compute; reflexivity. Qed.
