(* C02 -- (1) reversibility of the MH kernel, rejection atom included, as an identity between measures on rectangles
   A x B of any finite lattice (any refinement): sum_{x in A} pi(x) K(x,B) = sum_{y in B} pi(y) K(y,A);
   (2) random-walk proposals x' = x + s*xi with ANY noise density rho that is even (Gaussian, Uniform(-a,a), Cauchy(0,g), ...)
   are symmetric, hence the MH probability is min(1, pi(x')/pi(x)); a shifted noise density is not;
   (3) the density of the proposal at x' equals the density of the noise at (x' - mean)/s: affine change of variables
   as an identity of (log-)densities. *)
From CV Require Import Base.Tac Proofs.C02_Balance Proofs.C02_Bilinear.
From Coq Require Import QArith Qabs Setoid.
Local Open Scope Q_scope.

(* ---- (1) measures on rectangles ---------------------------------------------------------------------- *)
Section Rect.
Variable A : Type.
Variable pi : A -> Q.
Variable K : A -> A -> Q.

Definition Kset (x : A) (B : list A) : Q := sumQ A (fun y => K x y) B.        (* K(x, B) *)
Definition flow (X Y : list A) : Q := sumQ A (fun x => pi x * Kset x Y) X.    (* (pi (x) K)(X x Y) *)

Theorem reversible_rectangles : reversible A pi K -> forall X Y : list A, flow X Y == flow Y X.
Proof.
  intros Hr X Y. unfold flow, Kset.
  transitivity (sumQ A (fun x => sumQ A (fun y => pi x * K x y) Y) X).
  { apply sumQ_ext_in. intros x _. symmetry. apply (sumQ_scal A (pi x) (fun y => K x y)). }
  transitivity (sumQ A (fun y => sumQ A (fun x => pi x * K x y) X) Y).
  { apply (sumQ_swap A (fun x y => pi x * K x y)). }
  apply sumQ_ext_in. intros y _.
  transitivity (sumQ A (fun x => pi y * K y x) X).
  { apply sumQ_ext_in. intros x _. apply Hr. }
  apply (sumQ_scal A (pi y) (fun x => K y x)).
Qed.
End Rect.

(* the MH kernel with its rejection atom on the diagonal: detailed balance as a measure identity on every rectangle *)
Theorem mh_kernel_rectangles (A : Type) (eqb : A -> A -> bool) (eqb_spec : forall x y, eqb x y = true <-> x = y)
  (S : list A) (pi : A -> Q) (q : A -> A -> Q) :
  (forall x, 0 < pi x) -> (forall x y, 0 < q x y) ->
  forall X Y : list A, flow A pi (mh_kernel A eqb S pi q) X Y == flow A pi (mh_kernel A eqb S pi q) Y X.
Proof.
  intros Hp Hq X Y. apply reversible_rectangles. apply (mh_kernel_reversible A eqb eqb_spec S pi q Hp Hq).
Qed.

(* taking X = the whole lattice gives invariance of every set: (pi K)(Y) = pi(Y) *)
Theorem mh_kernel_invariant_sets (A : Type) (eqb : A -> A -> bool) (eqb_spec : forall x y, eqb x y = true <-> x = y)
  (S : list A) (pi : A -> Q) (q : A -> A -> Q) :
  NoDup S -> (forall x, 0 < pi x) -> (forall x y, 0 < q x y) -> stochastic A S q ->
  forall Y : list A, (forall y, In y Y -> In y S) ->
  flow A pi (mh_kernel A eqb S pi q) S Y == sumQ A pi Y.
Proof.
  intros Hn Hp Hq Hs Y HY.
  rewrite (mh_kernel_rectangles A eqb eqb_spec S pi q Hp Hq S Y). unfold flow, Kset.
  apply sumQ_ext_in. intros y Hy.
  rewrite (mh_kernel_stochastic A eqb eqb_spec S Hn pi q Hs y (HY y Hy)). ring.
Qed.

(* ---- (2) random walks with an even noise density ------------------------------------------------------ *)
Section EvenNoise.
Variable rho : Q -> Q.                         (* density of one noise coordinate *)
Hypothesis rho_even : forall t, rho (- t) == rho t.
Hypothesis rho_proper : forall a b, a == b -> rho a == rho b.

Definition q_rw (s x y : Q) : Q := rho ((y - x) / s).            (* density of x' = x + s xi at y, up to 1/|s| *)

Lemma q_rw_symmetric s x y : q_rw s x y == q_rw s y x.
Proof.
  unfold q_rw. rewrite <- (rho_even ((x - y) / s)). apply rho_proper.
  destruct (Qeq_dec s 0) as [E|E].
  - unfold Qdiv. rewrite E. unfold Qinv. cbn. ring.
  - field. exact E.
Qed.

(* a noise density with centre of symmetry mu: rho_mu(t) = rho(t - mu) *)
Definition q_rw_shift (mu s x y : Q) : Q := rho ((y - x) / s - mu).

Lemma q_rw_shift_zero s x y : q_rw_shift 0 s x y == q_rw s x y.
Proof. unfold q_rw_shift, q_rw. apply rho_proper. ring. Qed.
End EvenNoise.

(* with a symmetric proposal density the MH probability is min(1, pi(y)/pi(x)): any state type, any q *)
Theorem symmetric_proposal_alpha (A : Type) (pi : A -> Q) (q : A -> A -> Q) :
  (forall x, 0 < pi x) -> (forall x y, 0 < q x y) -> (forall x y, q x y == q y x) ->
  forall x y, alpha A pi q x y == qmin 1 (pi y / pi x).
Proof. intros Hp Hq Hs x y. apply alpha_symmetric; auto. Qed.

(* an even but shifted density is NOT symmetric as a random-walk proposal: triangular density max(0, 1-|t|) shifted by 1/2 *)
Definition tri (t : Q) : Q := if Qle_bool (Qabs t) 1 then 1 - Qabs t else 0.

Lemma tri_even t : tri (- t) == tri t.
Proof. destruct t as [n d]. unfold tri, Qabs, Qopp. cbn [Qnum Qden]. rewrite Z.abs_opp. reflexivity. Qed.

Lemma shifted_noise_refuted :
  exists mu s x y : Q, ~ mu == 0 /\ ~ q_rw_shift tri mu s x y == q_rw_shift tri mu s y x.
Proof. exists (1 # 2), 1, 0, (1 # 2). split; intro H; vm_compute in H; discriminate. Qed.

(* ---- (3) affine change of variables for the pCN / Gaussian proposals ----------------------------------- *)
(* y = mean + s e  (coordinatewise)  =>  B(y - mean, y - mean) / s^2 = B(e, e):
   the Gaussian log-density of the proposal at y is the Gaussian log-density of the noise at e (the Jacobian factor |s|^n is
   the same in both directions and cancels in the ratio) *)
Lemma BM_ext P n u u' v v' : (forall i, u i == u' i) -> (forall i, v i == v' i) -> BM P n u v == BM P n u' v'.
Proof.
  intros Hu Hv. unfold BM. apply sumN_ext; intros i _. apply sumN_ext; intros j _. rewrite (Hu i), (Hv j). reflexivity.
Qed.

Theorem affine_noise_density (P : nat -> nat -> Q) (n : nat) (s : Q) (mean e : nat -> Q) :
  ~ s == 0 ->
  let y := linF 1 mean s e in
  BM P n (linF 1 y (- (1)) mean) (linF 1 y (- (1)) mean) / (s * s) == BM P n e e.
Proof.
  intros Hs y.
  assert (E : forall i, linF 1 y (- (1)) mean i == s * e i) by (intro i; unfold y, linF; ring).
  rewrite (BM_ext P n _ (fun i => s * e i) _ (fun i => s * e i) E E).
  assert (S2 : BM P n (fun i => s * e i) (fun i => s * e i) == (s * s) * BM P n e e).
  { unfold BM. rewrite <- sumN_scal. apply sumN_ext; intros i _. rewrite <- sumN_scal. apply sumN_ext; intros j _. ring. }
  rewrite S2. field. exact Hs.
Qed.

(* pCN: the residual x' - a x of the uncentred proposal x' = a x + s xi is s xi; of the centred one s (xi - m) *)
Theorem pcn_residual_is_noise (P : nat -> nat -> Q) (n : nat) (a s : Q) (x xi : nat -> Q) :
  ~ s == 0 ->
  let x' := linF a x s xi in
  BM P n (res _ linF a x x') (res _ linF a x x') / (s * s) == BM P n xi xi.
Proof.
  intros Hs x'. unfold res.
  assert (E : forall i, linF 1 x' (- a) x i == s * xi i) by (intro i; unfold x', linF; ring).
  rewrite (BM_ext P n _ (fun i => s * xi i) _ (fun i => s * xi i) E E).
  assert (S2 : BM P n (fun i => s * xi i) (fun i => s * xi i) == (s * s) * BM P n xi xi).
  { unfold BM. rewrite <- sumN_scal. apply sumN_ext; intros i _. rewrite <- sumN_scal. apply sumN_ext; intros j _. ring. }
  rewrite S2. field. exact Hs.
Qed.

Lemma tri_proper a b : a == b -> tri a == tri b.
Proof.
  intro H. unfold tri. assert (E : Qabs a == Qabs b) by (rewrite H; reflexivity).
  destruct (Qle_bool (Qabs a) 1) eqn:E1; destruct (Qle_bool (Qabs b) 1) eqn:E2.
  - rewrite E. reflexivity.
  - apply Qle_bool_iff in E1. rewrite E in E1. apply Qle_bool_iff in E1. congruence.
  - apply Qle_bool_iff in E2. rewrite <- E in E2. apply Qle_bool_iff in E2. congruence.
  - reflexivity.
Qed.

(* non-vacuity: the triangular density is an even, well-defined noise density, so its random walk is symmetric *)
Lemma tri_rw_symmetric s x y : q_rw tri s x y == q_rw tri s y x.
Proof. apply q_rw_symmetric; [apply tri_even | apply tri_proper]. Qed.

(* ---- (4) detailed balance without positivity: targets that vanish on part of the space (log-density -inf) and proposals
        with bounded support (Uniform).  alpha0 = 1 where the forward flow pi(x) q(x,y) is zero (the move is never proposed
        from a state of positive density, or the current state has density zero: MH ratio +inf) ---- *)
Section NonNeg.
Variable A : Type.
Variable pi : A -> Q.
Variable q : A -> A -> Q.
Hypothesis pi_nonneg : forall x, 0 <= pi x.
Hypothesis q_nonneg : forall x y, 0 <= q x y.

Definition alpha0 (x y : A) : Q :=
  if Qeq_bool (pi x * q x y) 0 then 1 else qmin 1 (pi y * q y x / (pi x * q x y)).

Lemma flow_nonneg x y : 0 <= pi x * q x y.
Proof. apply Qmult_le_0_compat; [apply pi_nonneg | apply q_nonneg]. Qed.

Lemma flow_alpha0 x y : pi x * q x y * alpha0 x y == qmin (pi x * q x y) (pi y * q y x).
Proof.
  pose proof (flow_nonneg x y) as Fa. pose proof (flow_nonneg y x) as Fb.
  unfold alpha0. set (a := pi x * q x y) in *. set (b := pi y * q y x) in *.
  destruct (Qeq_bool a 0) eqn:E.
  - apply Qeq_bool_iff in E. rewrite (qmin_l a b) by (rewrite E; exact Fb). ring.
  - assert (Na : ~ a == 0) by (intro H; apply Qeq_bool_iff in H; congruence).
    assert (Pa : 0 < a). { apply Qle_lteq in Fa. destruct Fa as [H|H]; [exact H | exfalso; apply Na; symmetry; exact H]. }
    destruct (Qlt_le_dec a b) as [H|H].
    + rewrite (qmin_l 1 (b / a)), (qmin_l a b).
      * ring.
      * apply Qlt_le_weak. exact H.
      * apply Qle_shift_div_l; [exact Pa|]. rewrite Qmult_1_l. apply Qlt_le_weak. exact H.
    + rewrite (qmin_r 1 (b / a)), (qmin_r a b).
      * field. exact Na.
      * exact H.
      * apply Qle_shift_div_r; [exact Pa|]. rewrite Qmult_1_l. exact H.
Qed.

Lemma qmin_comm a b : qmin a b == qmin b a.
Proof.
  destruct (Qlt_le_dec a b) as [H|H].
  - rewrite (qmin_l a b), (qmin_r b a) by (apply Qlt_le_weak; exact H). reflexivity.
  - rewrite (qmin_r a b), (qmin_l b a) by exact H. reflexivity.
Qed.

Theorem detailed_balance_nonneg x y : pi x * q x y * alpha0 x y == pi y * q y x * alpha0 y x.
Proof. rewrite (flow_alpha0 x y), (flow_alpha0 y x). apply qmin_comm. Qed.

(* from a state of zero density every proposed move is accepted: the chain can enter the support *)
Lemma alpha0_zero_density x y : pi x == 0 -> alpha0 x y = 1.
Proof.
  intro H. unfold alpha0.
  assert (E : Qeq_bool (pi x * q x y) 0 = true) by (apply Qeq_bool_iff; rewrite H; ring).
  rewrite E. reflexivity.
Qed.

(* a move into a region of zero density is never accepted from a state of positive density *)
Lemma alpha0_into_zero x y : 0 < pi x * q x y -> pi y == 0 -> alpha0 x y == 0.
Proof.
  intros Hp Hy. unfold alpha0.
  assert (E : Qeq_bool (pi x * q x y) 0 = false).
  { destruct (Qeq_bool (pi x * q x y) 0) eqn:E; [|reflexivity]. apply Qeq_bool_iff in E. rewrite E in Hp. discriminate. }
  rewrite E.
  assert (Z : pi y * q y x / (pi x * q x y) == 0) by (unfold Qdiv; rewrite Hy; ring).
  rewrite (qmin_r 1 (pi y * q y x / (pi x * q x y))); [exact Z | rewrite Z; discriminate].
Qed.
End NonNeg.
