(* C16 -- the SciPy wrappers' result translation, the matrix-form instances at Qc (the carrier the
   correspondence check runs on), and the witnesses of the refuted classes. *)
From CV Require Import Base.Tac Base.LinAlg Base.Cmp Base.QcLin Model.C16_Solve Proofs.C16_CG Proofs.C16_Prox.
From Coq Require Import QArith Qcanon Lqa.
Local Open Scope Q_scope.

(* ---------------- minimize ---------------- *)
Lemma minimize_translate_spec s x info : minimize_translate s = Some (x, info) ->
  x = sp_x s /\ in_success info = sp_success s /\ in_message info = sp_message s /\
  in_func info = sp_fun s /\ in_grad info = sp_jac s /\ in_nit info = sp_nit s /\ in_nfev info = sp_nfev s.
Proof.
  unfold minimize_translate. destruct (sp_jac s) as [j|] eqn:E; [ | discriminate].
  intros H. inv H. cbn. repeat split; reflexivity.
Qed.

Lemma minimize_translate_defined s : (exists r, minimize_translate s = Some r) <-> sp_jac s <> None.
Proof.
  unfold minimize_translate. destruct (sp_jac s) as [j|]; split.
  - intros _; discriminate.
  - intros _. eexists; reflexivity.
  - intros (r & H); discriminate.
  - intros H; contradiction H; reflexivity.
Qed.

(* SciPy's (legitimate) result of a derivative-free method: converged, no 'jac' entry *)
Definition nojac_result : sp_result := mk_sp [1%Q] (1%Q) None 20 40 true String.EmptyString.

Lemma minimize_nojac_refuted : exists s, sp_success s = true /\ sp_jac s = None /\ minimize_translate s = None.
Proof. exists nojac_result. repeat split; reflexivity. Qed.

(* the repaired translation (solution.get('jac')) is total and passes everything through *)
Lemma minimize_translate_get_spec s :
  let '(x, info) := minimize_translate_get s in
  x = sp_x s /\ in_success info = sp_success s /\ in_message info = sp_message s /\
  in_func info = sp_fun s /\ in_grad info = sp_jac s /\ in_nit info = sp_nit s /\ in_nfev info = sp_nfev s.
Proof. cbn. repeat split; reflexivity. Qed.

Lemma minimize_translate_get_agrees s r : minimize_translate s = Some r -> minimize_translate_get s = r.
Proof.
  unfold minimize_translate, minimize_translate_get. destruct (sp_jac s) as [j|]; [ | discriminate].
  intros H; inv H. reflexivity.
Qed.

(* ---------------- maximize ---------------- *)
Section Max.
Variable X : Type.
Variable optimiser : (X -> Q) -> option (X -> list Q) -> X -> X * Q.

(* what SciPy is handed: the negated objective and the negated gradient *)
Lemma maximize_hands_negated f g x0 :
  maximize_solve X optimiser f g x0 = optimiser (fun x => - f x) (option_map (fun gr x => map Qopp (gr x)) g) x0.
Proof. reflexivity. Qed.

(* if the optimiser returns a minimiser of what it is handed, maximize returns a maximiser of f *)
Lemma maximize_argmax :
  (forall h g x0 y, h (fst (optimiser h g x0)) <= h y) ->
  forall f g x0 y, f y <= f (fst (maximize_solve X optimiser f g x0)).
Proof.
  intros Hopt f g x0 y. unfold maximize_solve, minimize_solve.
  specialize (Hopt (neg_fun X f) (option_map (neg_grad X) g) x0 y). unfold neg_fun in Hopt at 1 3. lra.
Qed.

(* faithful: the reported value is that of the NEGATED objective (sign not flipped back) *)
Lemma maximize_value_negated :
  (forall h g x0, snd (optimiser h g x0) == h (fst (optimiser h g x0))) ->
  forall f g x0, snd (maximize_solve X optimiser f g x0) == - f (fst (maximize_solve X optimiser f g x0)).
Proof. intros Hval f g x0. unfold maximize_solve, minimize_solve. rewrite Hval. reflexivity. Qed.

(* so the documented info["func"] = f(solution) holds exactly when f vanishes there *)
Lemma maximize_value_guarded :
  (forall h g x0, snd (optimiser h g x0) == h (fst (optimiser h g x0))) ->
  forall f g x0, snd (maximize_solve X optimiser f g x0) == f (fst (maximize_solve X optimiser f g x0))
                 <-> f (fst (maximize_solve X optimiser f g x0)) == 0.
Proof.
  intros Hval f g x0. rewrite (maximize_value_negated Hval). split; intros H; lra.
Qed.

(* the repaired maximize (fixes/C16_maximize_info_sign.diff): same point, value of f itself *)
Lemma maximize_fixed_value :
  (forall h g x0, snd (optimiser h g x0) == h (fst (optimiser h g x0))) ->
  forall f g x0, fst (maximize_solve_fixed X optimiser f g x0) = fst (maximize_solve X optimiser f g x0) /\
                 snd (maximize_solve_fixed X optimiser f g x0) == f (fst (maximize_solve_fixed X optimiser f g x0)).
Proof.
  intros Hval f g x0. pose proof (maximize_value_negated Hval f g x0) as H.
  unfold maximize_solve_fixed. destruct (maximize_solve X optimiser f g x0) as [x v]. cbn in *. split; [reflexivity|]. lra.
Qed.
End Max.

Lemma maximize_info_refuted :
  exists (X : Type) (optimiser : (X -> Q) -> option (X -> list Q) -> X -> X * Q) (f : X -> Q) (x0 : X),
    (forall h g x0 y, h (fst (optimiser h g x0)) <= h y) /\
    (forall h g x0, snd (optimiser h g x0) == h (fst (optimiser h g x0))) /\
    ~ snd (maximize_solve X optimiser f None x0) == f (fst (maximize_solve X optimiser f None x0)).
Proof.
  exists unit, (fun h _ x => (x, h x)), (fun _ => - (1)), tt. split; [ | split].
  - intros h g [] []. cbn. lra.
  - intros h g x0. cbn. reflexivity.
  - cbn. unfold neg_fun. intros H. lra.
Qed.

(* ---------------- L_BFGS_B ---------------- *)
Lemma lbfgsb_status_spec wf task :
  (fst (lbfgsb_status wf task) = 1%Z <-> wf = 0%Z) /\
  (fst (lbfgsb_status wf task) = 0%Z <-> wf <> 0%Z) /\
  (wf <> 0%Z -> wf <> 1%Z -> snd (lbfgsb_status wf task) = task).
Proof.
  unfold lbfgsb_status. destruct (wf =? 0)%Z eqn:E0; [ | destruct (wf =? 1)%Z eqn:E1]; cbn; repeat split; intros; try lia; try discriminate.
Qed.

(* ---------------- the call SciPy receives ---------------- *)
Lemma wrappers_call_translation :
  (forall grad kwargs, lb_options (lbfgsb_call grad kwargs) = kwargs /\ lb_fprime_given (lbfgsb_call grad kwargs) = grad /\
                       (lb_approx_grad (lbfgsb_call grad kwargs) = 1%Z <-> grad = false) /\
                       (lb_approx_grad (lbfgsb_call grad kwargs) = 0%Z <-> grad = true)) /\
  (forall method loss tol maxit, lsc_method (ls_translate method loss tol maxit) = method /\ lsc_loss (ls_translate method loss tol maxit) = loss /\
                                 map fst (lsc_options (ls_translate method loss tol maxit)) = ls_option_names /\
                                 map snd (lsc_options (ls_translate method loss tol maxit)) = [inject_Z (Qround.Qfloor maxit); tol]) /\
  (forall method grad kwargs, mz_method (minimize_call method grad kwargs) = method /\ mz_jac_given (minimize_call method grad kwargs) = grad /\
                              mz_options (minimize_call method grad kwargs) = kwargs).
Proof.
  split; [ | split].
  - intros [] kwargs; cbn; repeat split; intros; try reflexivity; try discriminate.
  - intros; cbn; repeat split.
  - intros; cbn; repeat split.
Qed.

(* ---------------- the matrix form at Qc ---------------- *)
Section QcMatrix.
Variables (n : nat) (A : list (list Qc)).
Hypothesis A_wf : wf_mat n A.
Let m := length A.
Let fwd := qmatvec A.
Let adj := qmattvec n A.

Lemma q_fwd_add x y : length x = n -> length y = n -> fwd (qvadd x y) = qvadd (fwd x) (fwd y).
Proof. apply (mat_fwd_add Qc 0%Qc 1%Qc Qcplus Qcmult Qcminus Qcopp Qcrt n A A_wf). Qed.
Lemma q_fwd_scale c x : length x = n -> fwd (qvscale c x) = qvscale c (fwd x).
Proof. apply (mat_fwd_scale Qc 0%Qc 1%Qc Qcplus Qcmult Qcminus Qcopp Qcrt n A). Qed.
Lemma q_fwd_sub x y : length x = n -> length y = n -> fwd (qvsub x y) = qvsub (fwd x) (fwd y).
Proof. intros Hx Hy. apply (matvec_vsub Qc 0%Qc 1%Qc Qcplus Qcmult Qcminus Qcopp Qcrt A x y n A_wf Hx Hy). Qed.
Lemma q_fwd_len x : length x = n -> length (fwd x) = m.
Proof. intros _. apply matvec_length. Qed.
Lemma q_adj_len y : length y = m -> length (adj y) = n.
Proof. intros _. apply mattvec_length. exact A_wf. Qed.
Lemma q_adjoint x y : length x = n -> length y = m -> qdot (fwd x) y = qdot x (adj y).
Proof. intros Hx _. apply qc_adjoint; assumption. Qed.
End QcMatrix.

(* ---------------- PCGLS ignores its shift: witness ---------------- *)
Definition wA : list (list Qc) := qmat [[1; 0]; [0; 2]; [1; 1]]%Q.
Definition wb : list Qc := qvec [1; 2; 3]%Q.
Definition wP : list (list Qc) := qmat [[2; 0]; [1; 1]]%Q.
Definition wPinv : list (list Qc) := qmat [[1 # 2; 0]; [-1 # 2; 1]]%Q.
Definition wtol : Qc := qc (1 # 1000000).

(* preconditioned residual of the SHIFTED normal equations, the system the signature documents *)
Definition shifted_pres (n : nat) (A : list (list Qc)) (b : list Qc) (Pinv : list (list Qc)) (shift : Qc) (x : list Qc) : list Qc :=
  qmattvec n Pinv (ne_residual n A b shift x).

Lemma pcgls_shift_refuted :
  exists (n : nat) (A : list (list Qc)) (b : list Qc) (P Pinv : list (list Qc)) (shift : Qc) (x0 : list Qc)
         (maxit : nat) (tol : Qc) (x : list Qc) (k : nat),
    wf_mat n A /\ length b = length A /\ length x0 = n /\ is_inverse n P Pinv = true /\ shift <> 0%Qc /\
    q_pcgls_solve (qmatvec A) (qmattvec n A) b (qmatvec Pinv) (qmattvec n Pinv) shift x0 maxit tol = (x, k) /\
    (k < maxit)%nat /\
    qc_leb 1%Qc (qnormsq x * (tol * tol))%Qc = false /\
    qc_leb (qnormsq (shifted_pres n A b Pinv shift x))
           (qnormsq (shifted_pres n A b Pinv shift x0) * (tol * tol))%Qc = false.
Proof.
  exists 2%nat, wA, wb, wP, wPinv, 1%Qc, [0%Qc; 0%Qc], 100%nat, wtol.
  eexists; eexists.
  split; [repeat constructor|]. split; [reflexivity|]. split; [reflexivity|].
  split; [vm_compute; reflexivity|]. split; [discriminate|].
  split; [vm_compute; reflexivity|].
  split; [lia|]. split; vm_compute; reflexivity.
Qed.
