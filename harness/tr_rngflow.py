"""tr_rngflow.py -- fail-closed extraction of the RNG call sites of every direct-sampling method (C05).

For every method named `_sample` or `_MHN_sample*` of a class in the anchored distribution files it lists each
place where randomness can enter:

  np.random.<gen>(...)                          -> SGlobal
  rng.<gen>(...)                                -> SRng
  <x>.rvs(..., random_state=rng)                -> SRng       (scipy draws from the object it is handed)
  <x>.rvs(...) without random_state=rng         -> SGlobal
  self.<analysed method>(..., rng ...)          -> SDelegate  (rng handed over positionally or as rng=rng)
  <obj>._sample(...) / self._MHN_sample*(...) not handing over rng -> SDelegateNoRng
  self.<attr>() where <attr> is a user-supplied callable (sample_func)   -> SOpaque

together with the guard under which the site is reached: inside the branch of `if rng is not None` / `if rng is None`
/ `if rng == None` (GRngGiven / GRngAbsent) or unconditionally (GAlways).  `rng = np.random` is accepted only inside a
GRngAbsent branch.  Anything the translator does not understand about `rng` or `np.random` (aliasing, passing
`np.random` around, rebinding rng elsewhere, getattr/exec/eval, nested functions or lambdas in a sampling method,
star-arguments in a delegation) raises TranslationError: the obligation is then broken (fail-closed).

The Coq side (Model/C05_Sample.v: site, isolated; Proofs: rng_isolated) consumes the generated list."""
import ast, os

FILES = ["_gaussian.py", "_gmrf.py", "_normal.py", "_gamma.py", "_inverse_gamma.py", "_beta.py", "_laplace.py",
         "_lognormal.py", "_uniform.py", "_cauchy.py", "_modifiedhalfnormal.py", "_custom.py"]
USER_CALLABLES = {"sample_func"}          # attributes holding user-supplied callables without an rng parameter


class TranslationError(Exception):
    pass


def is_sampling_name(n):
    return n == "_sample" or n.startswith("_MHN_sample")


def _is_name(node, name):
    return isinstance(node, ast.Name) and node.id == name


def _is_np_random(node):
    return isinstance(node, ast.Attribute) and node.attr == "random" and _is_name(node.value, "np")


def rng_test(test):
    """classify an `if` test on rng: 'given' (rng is not None / rng != None), 'absent' (rng is None / rng == None), None"""
    if isinstance(test, ast.Compare) and len(test.ops) == 1 and _is_name(test.left, "rng") \
            and isinstance(test.comparators[0], ast.Constant) and test.comparators[0].value is None:
        op = test.ops[0]
        if isinstance(op, (ast.IsNot, ast.NotEq)):
            return "given"
        if isinstance(op, (ast.Is, ast.Eq)):
            return "absent"
    # `rng is not None and <condition that does not mention rng>`: the body is reached only with a generator; the else branch
    # (and what follows) may be reached either way, which the caller treats as unguarded
    if isinstance(test, ast.BoolOp) and isinstance(test.op, ast.And) and rng_test(test.values[0]) == "given" \
            and not any(mentions_rng(v) for v in test.values[1:]):
        return "given-and"
    return None


def mentions_rng(node):
    return any(_is_name(n, "rng") for n in ast.walk(node))


class MethodScan:
    def __init__(self, cls, fn, path):
        self.cls, self.fn, self.path = cls, fn, path
        self.name = "%s.%s" % (cls, fn.name)
        self.sites = []
        self.user_alias = set()        # local names bound to a user-supplied callable (possibly wrapped by functools.partial)
        args = [a.arg for a in fn.args.args]
        self.has_rng = "rng" in args or "rng" in [a.arg for a in fn.args.kwonlyargs]
        if fn.args.vararg or fn.args.kwarg:
            raise TranslationError("%s: *args/**kwargs in a sampling method" % self.name)

    def err(self, node, msg):
        raise TranslationError("%s:%d %s: %s" % (os.path.basename(self.path), getattr(node, "lineno", 0), self.name, msg))

    def add(self, src, guard, what):
        self.sites.append((self.name, src, guard, what))

    def body(self, stmts, guard):
        for s in stmts:
            self.stmt(s, guard)

    def stmt(self, s, guard):
        if isinstance(s, ast.If):
            t = rng_test(s.test)
            if t is None:
                if mentions_rng(s.test):
                    self.err(s, "unsupported test on rng")
                self.expr(s.test, guard)
                self.body(s.body, guard)
                self.body(s.orelse, guard)
            elif t == "given-and":
                for v in s.test.values[1:]:
                    self.expr(v, guard)
                if guard in ("GAlways", "GRngGiven"):
                    self.body(s.body, "GRngGiven")
                self.body(s.orelse, guard)
            else:
                g_then = "GRngGiven" if t == "given" else "GRngAbsent"
                g_else = "GRngAbsent" if t == "given" else "GRngGiven"
                if guard not in ("GAlways", g_then):
                    g_then_eff = None      # contradictory nesting: unreachable
                else:
                    g_then_eff = g_then
                g_else_eff = g_else if guard in ("GAlways", g_else) else None
                if g_then_eff:
                    self.body(s.body, g_then_eff)
                if g_else_eff:
                    self.body(s.orelse, g_else_eff)
            return
        if isinstance(s, (ast.FunctionDef, ast.AsyncFunctionDef, ast.ClassDef, ast.Lambda)):
            self.err(s, "nested definition in a sampling method")
        if isinstance(s, ast.Assign) or isinstance(s, ast.AugAssign) or isinstance(s, ast.AnnAssign):
            targets = s.targets if isinstance(s, ast.Assign) else [s.target]
            for t in targets:
                for n in ast.walk(t):
                    if _is_name(n, "rng"):
                        # only `rng = np.random` in the branch taken when rng is None
                        if not (isinstance(s, ast.Assign) and len(s.targets) == 1 and _is_name(s.targets[0], "rng")
                                and _is_np_random(s.value) and guard == "GRngAbsent"):
                            self.err(s, "rng is rebound outside an `rng is None` branch")
                        return
            if s.value is not None:
                if _is_np_random(s.value) or _is_name(s.value, "rng"):
                    self.err(s, "np.random / rng is aliased")
                v = s.value
                is_user = isinstance(v, ast.Attribute) and _is_name(v.value, "self") and v.attr in USER_CALLABLES
                is_partial = (isinstance(v, ast.Call) and _is_name(v.func, "partial") and v.args
                              and isinstance(v.args[0], ast.Attribute) and _is_name(v.args[0].value, "self") and v.args[0].attr in USER_CALLABLES)
                if is_user or is_partial:
                    if not (isinstance(s, ast.Assign) and len(s.targets) == 1 and isinstance(s.targets[0], ast.Name)):
                        self.err(s, "user callable bound to something else than a local name")
                    self.user_alias.add(s.targets[0].id)
                    if is_partial:
                        kws = [k for k in v.keywords if _is_name(k.value, "rng")]
                        if len(v.args) != 1 or len(kws) != len(v.keywords) or any(k.arg != "rng" for k in kws) or len(kws) > 1:
                            self.err(s, "unsupported partial(...) of a user callable")
                        if kws:
                            if guard != "GRngGiven":
                                self.err(s, "rng bound into a user callable outside an `rng is not None` branch")
                            # the user's function receives the generator; whether it draws from it is the user's business
                            self.add("SRng", guard, "partial(self.%s, rng=rng)" % v.args[0].attr)
                    return
                self.expr(s.value, guard)
            return
        if isinstance(s, (ast.While, ast.For)):
            if isinstance(s, ast.While):
                self.expr(s.test, guard)
            else:
                self.expr(s.iter, guard)
            self.body(s.body, guard)
            self.body(s.orelse, guard)
            return
        if isinstance(s, (ast.Return, ast.Expr)):
            if s.value is not None:
                self.expr(s.value, guard)
            return
        if isinstance(s, ast.Raise):
            return
        if isinstance(s, ast.Pass):
            return
        self.err(s, "unsupported statement %s" % type(s).__name__)

    def expr(self, e, guard):
        """walk an expression; every Call is classified; bare uses of rng / np.random outside calls are errors"""
        consumed = set()
        for node in ast.walk(e):
            if isinstance(node, (ast.Lambda, ast.ListComp, ast.GeneratorExp, ast.SetComp, ast.DictComp)):
                if isinstance(node, ast.Lambda):
                    self.err(node, "lambda in a sampling method")
            if isinstance(node, ast.Call):
                self.call(node, guard, consumed)
        for node in ast.walk(e):
            if _is_name(node, "rng") and id(node) not in consumed:
                self.err(node, "rng used other than as rng.<gen>(...), random_state=rng or handed to a sampling method")
            if _is_np_random(node) and id(node) not in consumed:
                self.err(node, "np.random used other than as np.random.<gen>(...)")
            if isinstance(node, ast.Name) and node.id in ("getattr", "setattr", "exec", "eval", "globals", "locals", "vars"):
                self.err(node, "reflection in a sampling method")

    def call(self, c, guard, consumed):
        f = c.func
        for a in c.args:
            if isinstance(a, ast.Starred):
                if mentions_rng(a):
                    self.err(c, "star-argument mentioning rng")
        for k in c.keywords:
            if k.arg is None and mentions_rng(k.value):
                self.err(c, "**kwargs mentioning rng")
        passes_rng = [a for a in c.args if _is_name(a, "rng")] + [k.value for k in c.keywords if k.arg in ("rng", "random_state") and _is_name(k.value, "rng")]
        bad_kw = [k for k in c.keywords if _is_name(k.value, "rng") and k.arg not in ("rng", "random_state")]
        if bad_kw:
            self.err(c, "rng passed under keyword %r" % bad_kw[0].arg)
        if isinstance(f, ast.Attribute):
            # np.random.<gen>(...)
            if _is_np_random(f.value):
                consumed.add(id(f.value))
                if passes_rng:
                    self.err(c, "rng handed to np.random.%s" % f.attr)
                if f.attr in ("seed", "set_state", "get_state"):
                    self.err(c, "np.random.%s in a sampling method" % f.attr)
                self.add("SGlobal", guard, "np.random." + f.attr)
                return
            # rng.<gen>(...)
            if _is_name(f.value, "rng"):
                consumed.add(id(f.value))
                if not self.has_rng:
                    self.err(c, "rng is not a parameter of this method")
                if f.attr in ("seed", "set_state"):
                    self.err(c, "rng.%s in a sampling method" % f.attr)
                self.add("SRng", guard, "rng." + f.attr)
                return
            # scipy:  <x>.rvs(...)
            if f.attr == "rvs":
                rs = [k for k in c.keywords if k.arg == "random_state"]
                if rs and _is_name(rs[0].value, "rng"):
                    consumed.add(id(rs[0].value))
                    if len(passes_rng) != 1:
                        self.err(c, "rng handed to rvs more than once")
                    # rng may be None here: scipy then falls back to the global state; the site is reached for both
                    self.add("SRng", "GRngGiven" if guard == "GAlways" else guard, ast.unparse(f) + "(random_state=rng)")
                    if guard in ("GAlways", "GRngAbsent"):
                        self.add("SGlobal", "GRngAbsent", ast.unparse(f) + "(random_state=None)")
                else:
                    if passes_rng:
                        self.err(c, "rng handed to rvs positionally")
                    self.add("SGlobal", guard, ast.unparse(f) + "()")
                return
            # delegation to another sampling method
            if is_sampling_name(f.attr):
                if passes_rng:
                    for p in passes_rng:
                        consumed.add(id(p))
                    if len(passes_rng) != 1:
                        self.err(c, "rng handed over more than once")
                    if not self.has_rng:
                        self.err(c, "rng is not a parameter of this method")
                    self.add("SDelegate", guard, ast.unparse(f))
                else:
                    self.add("SDelegateNoRng", guard, ast.unparse(f))
                return
            # user-supplied callable stored on self
            if _is_name(f.value, "self") and f.attr in USER_CALLABLES:
                if passes_rng:
                    self.err(c, "rng handed to a user callable")
                self.add("SOpaque", guard, "self." + f.attr)
                return
        if isinstance(f, ast.Name) and f.id in self.user_alias:
            if passes_rng:
                self.err(c, "rng handed positionally to a user callable")
            # statically this may be the bare user function (which cannot receive rng): opaque
            self.add("SOpaque", guard, f.id + "()")
            return
        if passes_rng:
            self.err(c, "rng handed to %s, which is not a sampling method" % ast.unparse(f))
        # any other call: arguments are visited by the enclosing ast.walk


def extract(repo):
    """-> (sites, methods) ; sites = list of (method, src, guard, what)"""
    base = os.path.join(repo, "cuqi", "distribution")
    sites, methods = [], []
    for fname in FILES:
        path = os.path.join(base, fname)
        tree = ast.parse(open(path).read(), filename=path)
        for node in tree.body:
            if isinstance(node, ast.FunctionDef) and is_sampling_name(node.name):
                raise TranslationError("%s: module-level sampling function %s" % (fname, node.name))
            if not isinstance(node, ast.ClassDef):
                continue
            for item in node.body:
                if isinstance(item, ast.FunctionDef) and is_sampling_name(item.name):
                    ms = MethodScan(node.name, item, path)
                    ms.body(item.body, "GAlways")
                    methods.append(ms.name)
                    sites += ms.sites
            # a sampling method assigned rather than defined (self._sample = other._sample) is a delegation
            for sub in ast.walk(node):
                if isinstance(sub, ast.Assign):
                    for t in sub.targets:
                        if isinstance(t, ast.Attribute) and is_sampling_name(t.attr):
                            v = sub.value
                            if isinstance(v, ast.Attribute) and is_sampling_name(v.attr):
                                sites.append(("%s.%s" % (node.name, t.attr), "SDelegate", "GAlways", "bound to " + ast.unparse(v)))
                                methods.append("%s.%s" % (node.name, t.attr))
                            else:
                                raise TranslationError("%s: %s assigned from %s" % (fname, ast.unparse(t), ast.unparse(v)))
    if not methods:
        raise TranslationError("no sampling methods found")
    return sites, sorted(set(methods))


def coq_site(s):
    m, src, g, what = s
    assert '"' not in m and '"' not in what
    return 'Site "%s" %s %s "%s"' % (m, src, g, what)


def coq_sites(sites):
    return "[" + ";\n   ".join(coq_site(s) for s in sites) + "]"


EXPECTED_NOT_ISOLATED = ["UserDefinedDistribution._sample"]


def render(sites, methods, repo):
    out = ["(* generated by harness/tr_rngflow.py from %s on every run; do not edit *)" % os.path.join(repo, "cuqi/distribution"),
           "From CV Require Import Base.Tac Model.C05_Sample Proofs.C05_Sample.",
           "From Coq Require String. Import String.StringSyntax. Open Scope string_scope.",
           "Definition sites : list site :=\n  %s." % coq_sites(sites),
           "Definition methods : list String.string := [%s]." % "; ".join('"%s"' % m for m in methods)]
    flt = "sites"
    for m in EXPECTED_NOT_ISOLATED:
        flt = '(not_method "%s" %s)' % (m, flt)
    out.append("(* every RNG call reachable when a generator is given goes through that generator (the user-defined\n"
               "   distribution, whose sample_func cannot receive rng, is the documented exception: finding) *)")
    out.append("Lemma gen_isolated : isolated %s = true.\nProof. vm_compute. reflexivity. Qed." % flt)
    out.append("(* hence (Proofs.C05_Sample.rng_isolated) draws are a function of the given generator's stream and the\n"
               "   global stream position is unchanged, for every control flow through these sites *)")
    out.append("Lemma gen_isolated_run : forall fuel g1 g2 r ctrl x,\n"
               "  (forall h s, ctrl h = Some s -> In s %s) ->\n"
               "  outs (run fuel true g1 r ctrl x) = outs (run fuel true g2 r ctrl x) /\\\n"
               "  rpos (run fuel true g1 r ctrl x) = rpos (run fuel true g2 r ctrl x) /\\\n"
               "  gpos (run fuel true g1 r ctrl x) = gpos x.\n"
               "Proof. intros. apply rng_isolated with (sites := %s); [exact gen_isolated | assumption]. Qed." % (flt, flt))
    for m in methods:
        if m in EXPECTED_NOT_ISOLATED:
            out.append('Lemma gen_not_isolated_%s : isolated (of_method "%s" sites) = false.\nProof. vm_compute. reflexivity. Qed.'
                       % (m.replace(".", "_"), m))
    out.append('Lemma gen_methods_nonempty : (12 <=? length methods)%nat = true.\nProof. vm_compute. reflexivity. Qed.')
    return "\n".join(out) + "\n"


if __name__ == "__main__":
    import sys
    repo = sys.argv[1] if len(sys.argv) > 1 else "/repo"
    s, m = extract(repo)
    for x in s:
        print(x)
    print(m)
