(* C16 -- the ordered part: soft-thresholding and the two projections ARE the proximal map /
   Euclidean projections they are named after (defining variational inequality and nearest-point /
   minimisation form, for all vectors of every length); a fixed point of the proximal-gradient
   map is a minimiser of 1/2|Ax-b|^2 + g(x) (and a point where the FISTA stopping test fires is
   an approximate one, with an explicit bound); the LM stopping rule in multiplicative form.

   Everything is proved once for an arbitrary carrier T with ring operations and a boolean <=
   that embeds into the reals by an order-reflecting ring homomorphism phi.  It is instantiated at
   Qc (phi = Q2R o this: the carrier on which the model RUNS in the correspondence check) and at
   R (phi = identity). *)
From CV Require Import Base.Tac Base.LinAlg Base.QcLin Model.C16_Solve.
From Coq Require Import Reals Lra Ring QArith Qcanon Qreals.

Local Open Scope R_scope.

Section Ordered.
Variable T : Type.
Variables (t0 t1 : T) (tadd tmul tsub : T -> T -> T) (topp : T -> T).
Hypothesis Tth : ring_theory t0 t1 tadd tmul tsub topp (@eq T).
Variable tleb : T -> T -> bool.
Variable phi : T -> R.
Hypothesis phi_0 : phi t0 = 0.
Hypothesis phi_1 : phi t1 = 1.
Hypothesis phi_add : forall a b, phi (tadd a b) = phi a + phi b.
Hypothesis phi_mul : forall a b, phi (tmul a b) = phi a * phi b.
Hypothesis phi_sub : forall a b, phi (tsub a b) = phi a - phi b.
Hypothesis phi_opp : forall a, phi (topp a) = - phi a.
Hypothesis phi_leb : forall a b, tleb a b = true <-> phi a <= phi b.

Local Notation vec := (list T).
Local Notation Dot := (dot t0 tadd tmul).
Local Notation Nsq := (normsq t0 tadd tmul).
Local Notation Vadd := (vadd tadd).
Local Notation Vsub := (vsub tsub).
Local Notation Vscale := (vscale tmul).
Local Notation soft := (soft T t0 t1 tmul tsub topp tleb).
Local Notation prox_l1 := (prox_l1 T t0 t1 tmul tsub topp tleb).
Local Notation project_nonneg := (project_nonneg T t0 tleb).
Local Notation project_box := (project_box T t0 t1 tleb).
Local Notation clip := (clip T tleb).
Local Notation clip_vec := (clip_vec T tleb).
Local Notation rmax := (rmax T tleb).
Local Notation rabs := (rabs T t0 topp tleb).

Lemma phi_leb_false a b : tleb a b = false -> phi b < phi a.
Proof.
  intros H. destruct (Rlt_le_dec (phi b) (phi a)) as [Hlt | Hle]; [exact Hlt|].
  apply phi_leb in Hle. congruence.
Qed.

Ltac leb_cases :=
  repeat match goal with
         | |- context [tleb ?a ?b] =>
             let E := fresh "E" in
             destruct (tleb a b) eqn:E; [apply phi_leb in E | apply phi_leb_false in E]
         | H : context [tleb ?a ?b] |- _ =>
             let E := fresh "E" in
             destruct (tleb a b) eqn:E; [apply phi_leb in E | apply phi_leb_false in E]
         end.
Ltac push_phi := repeat (progress (rewrite ?phi_mul, ?phi_add, ?phi_sub, ?phi_opp, ?phi_0, ?phi_1 in * )).


(* ---------- scalars ---------- *)
Lemma phi_rabs a : phi (rabs a) = Rabs (phi a).
Proof.
  unfold C16_Solve.rabs. leb_cases; push_phi.
  - rewrite Rabs_right; lra.
  - rewrite Rabs_left; lra.
Qed.

(* soft-thresholding, coordinate form *)
Lemma soft_cases gamma a : 0 <= phi gamma ->
  (phi gamma < phi a /\ phi (soft gamma a) = phi a - phi gamma) \/
  (phi a < - phi gamma /\ phi (soft gamma a) = phi a + phi gamma) \/
  (- phi gamma <= phi a <= phi gamma /\ phi (soft gamma a) = 0).
Proof.
  intros Hg. unfold C16_Solve.soft, rsign, C16_Solve.rmax, C16_Solve.rabs.
  leb_cases; push_phi; try lra;
    try (left; split; lra); try (right; left; split; lra); try (right; right; split; lra).
Qed.

(* the scalar prox inequality:  gamma|w| >= gamma|p| + (x - p)(w - p) *)
Lemma soft_vi gamma a w : 0 <= phi gamma ->
  phi gamma * Rabs (phi (soft gamma a)) + (phi a - phi (soft gamma a)) * (w - phi (soft gamma a))
  <= phi gamma * Rabs w.
Proof.
  intros Hg. destruct (soft_cases gamma a Hg) as [(H1 & ->) | [(H1 & ->) | (H1 & ->)]].
  - rewrite (Rabs_right (phi a - phi gamma)) by lra.
    pose proof (Rle_abs w). nra.
  - rewrite (Rabs_left (phi a + phi gamma)) by lra.
    pose proof (Rle_abs (- w)) as H. rewrite Rabs_Ropp in H. nra.
  - rewrite Rabs_R0.
    destruct (Rle_lt_dec 0 w) as [Hw | Hw].
    + rewrite (Rabs_right w) by lra. nra.
    + rewrite (Rabs_left w) by lra. nra.
Qed.

Lemma clip_cases l u a : phi l <= phi u ->
  phi l <= phi (clip l u a) <= phi u /\
  ((phi a < phi l /\ phi (clip l u a) = phi l) \/
   (phi u < phi a /\ phi (clip l u a) = phi u) \/
   (phi l <= phi a <= phi u /\ phi (clip l u a) = phi a)).
Proof.
  intros Hlu. unfold C16_Solve.clip, rmin, C16_Solve.rmax. leb_cases; (split; [lra|]);
    first [left; split; lra | right; left; split; lra | right; right; split; lra].
Qed.

Lemma clip_vi l u a z : phi l <= phi u -> phi l <= z <= phi u ->
  (phi a - phi (clip l u a)) * (z - phi (clip l u a)) <= 0.
Proof.
  intros Hlu Hz. destruct (clip_cases l u a Hlu) as (Hp & [(H1 & E) | [(H1 & E) | (H1 & E)]]); rewrite E; nra.
Qed.

Lemma clip_nearest l u a z : phi l <= phi u -> phi l <= z <= phi u ->
  (phi a - phi (clip l u a)) * (phi a - phi (clip l u a)) <= (phi a - z) * (phi a - z).
Proof.
  intros Hlu Hz. destruct (clip_cases l u a Hlu) as (Hp & [(H1 & E) | [(H1 & E) | (H1 & E)]]); rewrite E.
  - assert (0 <= (z - phi l) * (z + phi l - 2 * phi a)) by (apply Rmult_le_pos; lra). nra.
  - assert (0 <= (phi u - z) * (2 * phi a - phi u - z)) by (apply Rmult_le_pos; lra). nra.
  - replace (phi a - phi a) with 0 by ring. pose proof (Rle_0_sqr (phi a - z)) as Hs. unfold Rsqr in Hs. lra.
Qed.

Lemma max0_cases a :
  0 <= phi (rmax a t0) /\ ((phi a < 0 /\ phi (rmax a t0) = 0) \/ (0 <= phi a /\ phi (rmax a t0) = phi a)).
Proof.
  unfold C16_Solve.rmax. leb_cases; push_phi; (split; [lra|]); first [left; split; lra | right; split; lra].
Qed.

(* ---------- phi on sums ---------- *)
Fixpoint rdot (x y : list R) : R := match x, y with a :: x', b :: y' => a * b + rdot x' y' | _, _ => 0 end.
Lemma phi_dot x y : phi (Dot x y) = rdot (map phi x) (map phi y).
Proof. revert y; induction x as [|a x IH]; intros [|c y]; cbn; try exact phi_0. push_phi. rewrite IH. reflexivity. Qed.

(* |v|_1 computed in T *)
Definition norm1 (v : vec) : T := fold_right (fun a s => tadd (rabs a) s) t0 v.

(* ---------- soft-thresholding is the proximal map of gamma |.|_1 ---------- *)
(* variational (prox) inequality:  gamma|p|_1 + <x - p, w - p> <= gamma|w|_1  for every w *)
Theorem prox_l1_vi gamma : 0 <= phi gamma -> forall x w, length w = length x ->
  let p := prox_l1 x gamma in
  tleb (tadd (tmul gamma (norm1 p)) (Dot (Vsub x p) (Vsub w p))) (tmul gamma (norm1 w)) = true.
Proof.
  intros Hg x w Hlen. cbn zeta. apply phi_leb. push_phi.
  revert w Hlen. induction x as [|a x IH]; intros [|c w] Hlen; cbn in Hlen; try discriminate.
  - cbn. push_phi. lra.
  - cbn [C16_Solve.prox_l1 map norm1 fold_right vsub dot]. fold (norm1 (prox_l1 x gamma)) (norm1 w).
    push_phi. rewrite !phi_rabs.
    specialize (IH w ltac:(lia)). change (map (soft gamma) x) with (prox_l1 x gamma).
    pose proof (soft_vi gamma a (phi c) Hg). unfold norm1 in *. nra.
Qed.

(* minimisation form:  |p - x|^2 + 2 gamma|p|_1 <= |w - x|^2 + 2 gamma|w|_1  for every w *)
Theorem prox_l1_min gamma : 0 <= phi gamma -> forall x w, length w = length x ->
  let p := prox_l1 x gamma in
  tleb (tadd (Nsq (Vsub p x)) (tmul (tadd t1 t1) (tmul gamma (norm1 p))))
       (tadd (Nsq (Vsub w x)) (tmul (tadd t1 t1) (tmul gamma (norm1 w)))) = true.
Proof.
  intros Hg x w Hlen. cbn zeta. apply phi_leb. unfold normsq. push_phi.
  revert w Hlen. induction x as [|a x IH]; intros [|c w] Hlen; cbn in Hlen; try discriminate.
  - cbn. push_phi. lra.
  - cbn [C16_Solve.prox_l1 map norm1 fold_right vsub dot]. fold (norm1 (prox_l1 x gamma)) (norm1 w).
    push_phi. rewrite !phi_rabs.
    specialize (IH w ltac:(lia)). change (map (soft gamma) x) with (prox_l1 x gamma).
    pose proof (soft_vi gamma a (phi c) Hg).
    pose proof (Rle_0_sqr (phi c - phi (soft gamma a))) as Hs. unfold Rsqr in Hs. unfold norm1 in *. nra.
Qed.

Lemma prox_l1_length x gamma : length (prox_l1 x gamma) = length x.
Proof. apply map_length. Qed.

(* ---------- ProjectNonnegative is the Euclidean projection onto the orthant ---------- *)
Definition nonnegb (z : vec) : bool := forallb (fun a => tleb t0 a) z.

Theorem project_nonneg_exact x :
  let p := project_nonneg x in
  length p = length x /\ nonnegb p = true /\
  forall z, length z = length x -> nonnegb z = true ->
    tleb (Dot (Vsub x p) (Vsub z p)) t0 = true /\ tleb (Nsq (Vsub x p)) (Nsq (Vsub x z)) = true.
Proof.
  cbn zeta. split; [apply map_length|]. split.
  - induction x as [|a x IH]; [reflexivity|].
    cbn [C16_Solve.project_nonneg map nonnegb forallb].
    apply andb_true_iff; split; [ | exact IH].
    apply phi_leb. push_phi. destruct (max0_cases a) as (H & _). exact H.
  - intros z Hlen Hz. rewrite !phi_leb. unfold normsq. push_phi.
    revert z Hlen Hz. induction x as [|a x IH]; intros [|c z] Hlen Hz; cbn in Hlen; try discriminate.
    + cbn. push_phi. lra.
    + cbn [nonnegb forallb] in Hz. apply andb_true_iff in Hz as (Hc & Hz). apply phi_leb in Hc. push_phi.
      specialize (IH z ltac:(lia) Hz).
      cbn [C16_Solve.project_nonneg map vsub dot]. change (map (fun a0 => rmax a0 t0) x) with (project_nonneg x).
      push_phi. destruct (max0_cases a) as (H & [(H1 & E) | (H1 & E)]); rewrite E.
      * split; [nra|]. pose proof (Rle_0_sqr (phi c)) as Hs. unfold Rsqr in Hs. nra.
      * split; [nra|]. replace (phi a - phi a) with 0 by ring.
        pose proof (Rle_0_sqr (phi a - phi c)) as Hs. unfold Rsqr in Hs. nra.
Qed.

(* ---------- ProjectBox is the Euclidean projection onto the box ---------- *)
Fixpoint lebv (lo up : vec) : bool :=
  match lo, up with
  | [], [] => true
  | l :: lo', u :: up' => tleb l u && lebv lo' up'
  | _, _ => false
  end.
Fixpoint boxb (z lo up : vec) : bool :=
  match z, lo, up with
  | [], [], [] => true
  | a :: z', l :: lo', u :: up' => tleb l a && tleb a u && boxb z' lo' up'
  | _, _, _ => false
  end.

Theorem clip_vec_exact x : forall lo up, length lo = length x -> lebv lo up = true ->
  let p := clip_vec x lo up in
  boxb p lo up = true /\
  forall z, boxb z lo up = true ->
    tleb (Dot (Vsub x p) (Vsub z p)) t0 = true /\ tleb (Nsq (Vsub x p)) (Nsq (Vsub x z)) = true.
Proof.
  cbn zeta. induction x as [|a x IH]; intros [|l lo] [|u up] Hlen Hlu; cbn in Hlen, Hlu; try discriminate.
  - split; [reflexivity|]. intros [|c z] Hz; cbn in Hz; try discriminate. rewrite !phi_leb. cbn. push_phi. lra.
  - apply andb_true_iff in Hlu as (Hl1 & Hlu). apply phi_leb in Hl1.
    destruct (IH lo up ltac:(lia) Hlu) as (IH1 & IH2).
    destruct (clip_cases l u a Hl1) as (Hp & _).
    split.
    + cbn [C16_Solve.clip_vec boxb]. rewrite IH1, andb_true_r. apply andb_true_iff; split; apply phi_leb; lra.
    + intros [|c z] Hz; cbn in Hz; try discriminate.
      apply andb_true_iff in Hz as (Hz1 & Hz). apply andb_true_iff in Hz1 as (Hz1 & Hz2).
      apply phi_leb in Hz1, Hz2. destruct (IH2 z Hz) as (G1 & G2).
      rewrite phi_leb in G1, G2. unfold normsq in *. push_phi.
      rewrite !phi_leb. cbn [C16_Solve.clip_vec vsub dot]. push_phi.
      pose proof (clip_vi l u a (phi c) Hl1 (conj Hz1 Hz2)).
      pose proof (clip_nearest l u a (phi c) Hl1 (conj Hz1 Hz2)).
      split; lra.
Qed.

Definition bound_ok (k : nat) (bd : C16_Solve.bound T) : Prop := match bd with BVec _ v => length v = k | _ => True end.

Lemma expand_bound_length d k bd : bound_ok k bd -> length (expand_bound T d k bd) = k.
Proof. destruct bd; cbn; intros H; [apply repeat_length | apply repeat_length | exact H]. Qed.

(* ProjectBox(x, lower, upper) with None / scalar / vector bounds (vectors of x's length),
   lower <= upper componentwise (a non-empty box) *)
Theorem project_box_exact x lower upper :
  bound_ok (length x) lower -> bound_ok (length x) upper ->
  let lo := expand_bound T t0 (length x) lower in
  let up := expand_bound T t1 (length x) upper in
  lebv lo up = true ->
  let p := project_box x lower upper in
  boxb p lo up = true /\
  forall z, boxb z lo up = true ->
    tleb (Dot (Vsub x p) (Vsub z p)) t0 = true /\ tleb (Nsq (Vsub x p)) (Nsq (Vsub x z)) = true.
Proof.
  intros Hl Hu lo up Hlu. unfold C16_Solve.project_box. apply clip_vec_exact; [ | exact Hlu].
  apply expand_bound_length; exact Hl.
Qed.

Lemma boxb_length z lo up : boxb z lo up = true -> length z = length lo /\ length z = length up.
Proof.
  revert lo up; induction z as [|a z IH]; intros [|l lo] [|u up] H; cbn in H; try discriminate; [split; reflexivity|].
  apply andb_true_iff in H as (_ & H). destruct (IH _ _ H). cbn. split; lia.
Qed.

(* ====================== fixed point of the proximal-gradient map => minimiser ====================== *)
Section Minimiser.
Variables (n m : nat).
Variables (fwd adj : vec -> vec).
Hypothesis fwd_sub : forall x y, length x = n -> length y = n -> fwd (Vsub x y) = Vsub (fwd x) (fwd y).
Hypothesis fwd_len : forall x, length x = n -> length (fwd x) = m.
Hypothesis adj_len : forall y, length y = m -> length (adj y) = n.
Hypothesis adjoint : forall x y, length x = n -> length y = m -> Dot (fwd x) y = Dot x (adj y).
Variable b : vec.
Hypothesis b_len : length b = m.
Variable prox : vec -> T -> vec.
Variable t : T.
Hypothesis t_pos : 0 < phi t.

(* the regulariser: real-valued on its domain `dom` (a box, the orthant, or everything) *)
Variable g : vec -> R.
Variable dom : vec -> Prop.
Hypothesis dom_len : forall w, dom w -> length w = n.
(* g is given by the defining inequality of its proximal map (convex g):
   p = prox(z, t)  =>  p in dom  and  t (g w - g p) >= <z - p, w - p>  for all w in dom *)
Hypothesis prox_dom : forall z, length z = n -> dom (prox z t).
Hypothesis prox_ineq : forall z w, length z = n -> dom w ->
  phi (Dot (Vsub z (prox z t)) (Vsub w (prox z t))) <= phi t * (g w - g (prox z t)).

Local Notation pg := (pg_map T tmul tsub fwd adj b prox t).
Local Notation grad := (ls_grad T tsub fwd adj b).

(* the objective  1/2 |A x - b|^2 + g(x) *)
Definition objective (x : vec) : R := / 2 * phi (Nsq (Vsub (fwd x) b)) + g x.

Add Ring Tring16 : Tth.

Lemma vsub_len' (x y : vec) k : length x = k -> length y = k -> length (Vsub x y) = k.
Proof. intros Hx Hy. rewrite vsub_length; lia. Qed.

Lemma rdot_comm x y : rdot x y = rdot y x.
Proof. revert y; induction x as [|a x IH]; intros [|c y]; cbn; try reflexivity. rewrite IH. ring. Qed.

Lemma map_vsub x y : map phi (Vsub x y) = map (fun ab => fst ab - snd ab) (combine (map phi x) (map phi y)).
Proof. revert y; induction x as [|a x IH]; intros [|c y]; cbn; try reflexivity. rewrite phi_sub, IH. reflexivity. Qed.

(* real-side bilinearity facts, through phi *)
Lemma pdot_vsub_l x y z : length x = length y ->
  phi (Dot (Vsub x y) z) = phi (Dot x z) - phi (Dot y z).
Proof. intros H. rewrite (dot_vsub_l T t0 t1 tadd tmul tsub topp Tth x y z H). apply phi_sub. Qed.
Lemma pdot_vsub_r x y z : length y = length z ->
  phi (Dot x (Vsub y z)) = phi (Dot x y) - phi (Dot x z).
Proof. intros H. rewrite (dot_vsub_r T t0 t1 tadd tmul tsub topp Tth x y z H). apply phi_sub. Qed.
Lemma pdot_vscale_l c x y : phi (Dot (Vscale c x) y) = phi c * phi (Dot x y).
Proof. rewrite (dot_vscale_l T t0 t1 tadd tmul tsub topp Tth). apply phi_mul. Qed.
Lemma pdot_comm x y : phi (Dot x y) = phi (Dot y x).
Proof. rewrite (dot_comm T t0 t1 tadd tmul tsub topp Tth). reflexivity. Qed.

Lemma pnsq_nonneg x : 0 <= phi (Nsq x).
Proof.
  unfold normsq. rewrite phi_dot. induction (map phi x) as [|a l IH]; cbn; [lra|]. nra.
Qed.

(* |A w - b|^2 = |A y - b|^2 + 2 <A^T (A y - b), w - y> + |A (w - y)|^2 *)
Lemma quad_expand w y : length w = n -> length y = n ->
  phi (Nsq (Vsub (fwd w) b)) =
  phi (Nsq (Vsub (fwd y) b)) + 2 * phi (Dot (grad y) (Vsub w y)) + phi (Nsq (fwd (Vsub w y))).
Proof.
  intros Hw Hy. unfold ls_grad.
  assert (Lw := fwd_len w Hw). assert (Ly := fwd_len y Hy).
  rewrite (pdot_comm (adj (Vsub (fwd y) b)) (Vsub w y)).
  rewrite <- (adjoint (Vsub w y) (Vsub (fwd y) b)) by (apply vsub_len'; assumption || lia).
  rewrite (fwd_sub w y Hw Hy). unfold normsq.
  rewrite !pdot_vsub_l, !pdot_vsub_r by lia.
  rewrite (pdot_comm (fwd y) (fwd w)), (pdot_comm b (fwd w)), (pdot_comm b (fwd y)). lra.
Qed.

(* The key inequality.  For ANY y, with x = T(y) the proximal-gradient image:
      t (F(w) - F(x)) >= <y - x, w - x> - t/2 |A (x - y)|^2      for all w in dom.
   y = x (a fixed point) gives F(w) >= F(x); a point where FISTA's stopping test fired
   (|x - y| <= abstol) is a minimiser up to the explicit right-hand side. *)
Theorem pg_near_minimiser y w : length y = n -> dom w ->
  let x := pg y in
  dom x /\
  phi (Dot (Vsub y x) (Vsub w x)) - phi t / 2 * phi (Nsq (fwd (Vsub x y)))
  <= phi t * (objective w - objective x).
Proof.
  intros Hy Hw. cbn zeta. unfold pg_map.
  set (G := grad y). set (z := Vsub y (Vscale t G)).
  assert (HG : length G = n).
  { unfold G, ls_grad. apply adj_len. apply vsub_len'; [apply fwd_len; exact Hy | exact b_len]. }
  assert (Hz : length z = n).
  { unfold z. apply vsub_len'; [exact Hy|]. rewrite vscale_length; exact HG. }
  assert (Hdx := prox_dom z Hz). assert (Hp := prox_ineq z w Hz Hw). set (x := prox z t) in *.
  split; [exact Hdx|].
  assert (Hx := dom_len x Hdx). assert (Hwl := dom_len w Hw).
  unfold objective.
  rewrite (quad_expand w y Hwl Hy), (quad_expand x y Hx Hy). fold G.
  unfold z in Hp. rewrite pdot_vsub_l in Hp by (rewrite vsub_length; [lia | rewrite vscale_length; lia]).
  rewrite (pdot_vsub_l y (Vscale t G)) in Hp by (rewrite vscale_length; lia).
  rewrite pdot_vscale_l in Hp.
  rewrite (pdot_vsub_l y x) by lia.
  rewrite !(pdot_vsub_r G) by lia.
  rewrite (pdot_vsub_r G) in Hp by lia.
  pose proof (pnsq_nonneg (fwd (Vsub w y))).
  nra.
Qed.

Theorem fixed_point_is_minimiser x : length x = n -> pg x = x ->
  dom x /\ forall w, dom w -> objective x <= objective w.
Proof.
  intros Hx Hfix.
  split.
  - destruct (pg_near_minimiser x x Hx) as (Hd & _).
    + (* dom x: x = pg x is a prox image *)
      rewrite <- Hfix. unfold pg_map. apply prox_dom.
      apply vsub_len'; [exact Hx|]. rewrite vscale_length. unfold ls_grad. apply adj_len.
      apply vsub_len'; [apply fwd_len; exact Hx | exact b_len].
    + rewrite Hfix in Hd. exact Hd.
  - intros w Hw. destruct (pg_near_minimiser x w Hx Hw) as (_ & H). rewrite Hfix in H.
    assert (Hwl := dom_len w Hw).
    rewrite (pdot_vsub_l x x) in H by lia.
    rewrite (fwd_sub x x Hx Hx) in H. unfold normsq in H.
    rewrite (pdot_vsub_l (fwd x) (fwd x)) in H by lia.
    nra.
Qed.

End Minimiser.

(* ---------- the three shipped proximal callables satisfy the hypotheses ---------- *)
Section Instances.
Variables (n m : nat).
Variables (fwd adj : vec -> vec).
Hypothesis fwd_sub : forall x y, length x = n -> length y = n -> fwd (Vsub x y) = Vsub (fwd x) (fwd y).
Hypothesis fwd_len : forall x, length x = n -> length (fwd x) = m.
Hypothesis adj_len : forall y, length y = m -> length (adj y) = n.
Hypothesis adjoint : forall x y, length x = n -> length y = m -> Dot (fwd x) y = Dot x (adj y).
Variable b : vec.
Hypothesis b_len : length b = m.
Variable t : T.
Hypothesis t_pos : 0 < phi t.

Local Notation half_res x := (/ 2 * phi (Nsq (Vsub (fwd x) b))).

(* proximal = lambda z, gamma: ProximalL1(z, gamma*s)   (s = 1: ProximalL1 itself) *)
Theorem fista_l1_fixed_point_minimises s x : 0 <= phi s -> length x = n ->
  pg_map T tmul tsub fwd adj b (fun z gamma => prox_l1 z (tmul gamma s)) t x = x ->
  forall w, length w = n ->
    half_res x + phi s * phi (norm1 x) <= half_res w + phi s * phi (norm1 w).
Proof.
  intros Hs Hx Hfix w Hw.
  set (PROX := fun (z : vec) (gamma : T) => prox_l1 z (tmul gamma s)) in *.
  set (G := fun v : vec => phi s * phi (norm1 v)).
  set (DOM := fun v : vec => length v = n).
  assert (Hdl : forall v, DOM v -> length v = n) by (intros v Hv; exact Hv).
  assert (Hpd : forall z, length z = n -> DOM (PROX z t)).
  { intros z Hz. unfold DOM, PROX. rewrite prox_l1_length. exact Hz. }
  assert (Hpi : forall z v, length z = n -> DOM v ->
            phi (Dot (Vsub z (PROX z t)) (Vsub v (PROX z t))) <= phi t * (G v - G (PROX z t))).
  { intros z v Hz Hv. unfold DOM in Hv. unfold PROX, G.
    assert (Hg : 0 <= phi (tmul t s)) by (push_phi; nra).
    pose proof (prox_l1_vi (tmul t s) Hg z v ltac:(lia)) as H. cbn zeta in H.
    apply phi_leb in H. push_phi. nra. }
  destruct (fixed_point_is_minimiser n m fwd adj fwd_sub fwd_len adj_len adjoint b b_len
              PROX t t_pos G DOM Hdl Hpd Hpi x Hx Hfix) as (_ & H).
  specialize (H w Hw). unfold objective, G in H. exact H.
Qed.

(* proximal = lambda z, gamma: ProjectBox(z, lower, upper) : constrained least squares on the box *)
Theorem fista_box_fixed_point_minimises lower upper x :
  bound_ok n lower -> bound_ok n upper ->
  let lo := expand_bound T t0 n lower in
  let up := expand_bound T t1 n upper in
  lebv lo up = true -> length x = n ->
  pg_map T tmul tsub fwd adj b (fun z gamma => project_box z lower upper) t x = x ->
  boxb x lo up = true /\ forall w, boxb w lo up = true -> half_res x <= half_res w.
Proof.
  intros Hl Hu lo up Hlu Hx Hfix.
  set (PROX := fun (z : vec) (gamma : T) => project_box z lower upper) in *.
  set (G := fun v : vec => 0).
  set (DOM := fun v : vec => boxb v lo up = true).
  assert (Hlo : length lo = n) by (apply expand_bound_length; exact Hl).
  assert (Hdl : forall v, DOM v -> length v = n).
  { intros v Hv. apply boxb_length in Hv. lia. }
  assert (Hex : forall z, length z = n ->
            boxb (project_box z lower upper) lo up = true /\
            forall v, boxb v lo up = true ->
              tleb (Dot (Vsub z (project_box z lower upper)) (Vsub v (project_box z lower upper))) t0 = true /\
              tleb (Nsq (Vsub z (project_box z lower upper))) (Nsq (Vsub z v)) = true).
  { intros z Hz. pose proof (project_box_exact z lower upper) as H. rewrite Hz in H. apply H; assumption. }
  assert (Hpd : forall z, length z = n -> DOM (PROX z t)).
  { intros z Hz. apply (Hex z Hz). }
  assert (Hpi : forall z v, length z = n -> DOM v ->
            phi (Dot (Vsub z (PROX z t)) (Vsub v (PROX z t))) <= phi t * (G v - G (PROX z t))).
  { intros z v Hz Hv. destruct (Hex z Hz) as (_ & Hvi). destruct (Hvi v Hv) as (H1 & _).
    apply phi_leb in H1. unfold PROX, G. push_phi. lra. }
  destruct (fixed_point_is_minimiser n m fwd adj fwd_sub fwd_len adj_len adjoint b b_len
              PROX t t_pos G DOM Hdl Hpd Hpi x Hx Hfix) as (Hd & H).
  split; [exact Hd|]. intros w Hw. specialize (H w Hw). unfold objective, G in H. lra.
Qed.

(* proximal = lambda z, gamma: ProjectNonnegative(z) : non-negative least squares *)
Theorem fista_nonneg_fixed_point_minimises x : length x = n ->
  pg_map T tmul tsub fwd adj b (fun z gamma => project_nonneg z) t x = x ->
  nonnegb x = true /\ forall w, length w = n -> nonnegb w = true -> half_res x <= half_res w.
Proof.
  intros Hx Hfix.
  set (PROX := fun (z : vec) (gamma : T) => project_nonneg z) in *.
  set (G := fun v : vec => 0).
  set (DOM := fun v : vec => length v = n /\ nonnegb v = true).
  assert (Hdl : forall v, DOM v -> length v = n) by (intros v Hv; apply Hv).
  assert (Hpd : forall z, length z = n -> DOM (PROX z t)).
  { intros z Hz. destruct (project_nonneg_exact z) as (H1 & H2 & _). split; [unfold PROX; lia | exact H2]. }
  assert (Hpi : forall z v, length z = n -> DOM v ->
            phi (Dot (Vsub z (PROX z t)) (Vsub v (PROX z t))) <= phi t * (G v - G (PROX z t))).
  { intros z v Hz (Hv1 & Hv2). destruct (project_nonneg_exact z) as (_ & _ & Hvi).
    destruct (Hvi v ltac:(lia) Hv2) as (H1 & _). apply phi_leb in H1. unfold PROX, G. push_phi. lra. }
  destruct (fixed_point_is_minimiser n m fwd adj fwd_sub fwd_len adj_len adjoint b b_len
              PROX t t_pos G DOM Hdl Hpd Hpi x Hx Hfix) as (Hd & H).
  split; [apply Hd|]. intros w Hw1 Hw2. specialize (H w (conj Hw1 Hw2)). unfold objective, G in H. lra.
Qed.
End Instances.

(* ---------- LM: the stopping rule in multiplicative form ---------- *)
Variable tdiv : T -> T -> T.
Hypothesis phi_div : forall a b, phi b <> 0 -> phi (tdiv a b) = phi a / phi b.

Lemma ratio_le_mult a b c : 0 < phi b -> tleb (tdiv a b) c = true -> phi a <= phi c * phi b.
Proof.
  intros Hb H. apply phi_leb in H. rewrite phi_div in H by lra.
  unfold Rdiv in H. apply (Rmult_le_compat_r (phi b)) in H; [ | lra].
  rewrite Rmult_assoc, Rinv_l, Rmult_1_r in H by lra. exact H.
Qed.

End Ordered.

(* ====================== instance: Qc  (phi = Q2R o this) ====================== *)
Definition phiQ (q : Qc) : R := Q2R (this q).

Lemma phiQ_Q2Qc q : phiQ (Q2Qc q) = Q2R q.
Proof. unfold phiQ. cbn. apply Qeq_eqR, Qred_correct. Qed.
Lemma phiQ_0 : phiQ 0%Qc = 0.
Proof. unfold phiQ, Q2R; cbn. lra. Qed.
Lemma phiQ_1 : phiQ 1%Qc = 1.
Proof. unfold phiQ, Q2R; cbn. lra. Qed.
Lemma phiQ_add a b : phiQ (a + b)%Qc = phiQ a + phiQ b.
Proof. unfold Qcplus. rewrite phiQ_Q2Qc, Q2R_plus. reflexivity. Qed.
Lemma phiQ_mul a b : phiQ (a * b)%Qc = phiQ a * phiQ b.
Proof. unfold Qcmult. rewrite phiQ_Q2Qc, Q2R_mult. reflexivity. Qed.
Lemma phiQ_opp a : phiQ (- a)%Qc = - phiQ a.
Proof. unfold Qcopp. rewrite phiQ_Q2Qc, Q2R_opp. reflexivity. Qed.
Lemma phiQ_sub a b : phiQ (a - b)%Qc = phiQ a - phiQ b.
Proof. unfold Qcminus. rewrite phiQ_add, phiQ_opp. lra. Qed.
Lemma phiQ_leb a b : qc_leb a b = true <-> phiQ a <= phiQ b.
Proof.
  unfold qc_leb, phiQ. rewrite Qle_bool_iff. split; [apply Qle_Rle | apply Rle_Qle].
Qed.
Lemma phiQ_div a b : phiQ b <> 0 -> phiQ (a / b)%Qc = phiQ a / phiQ b.
Proof.
  intros Hb. unfold Qcdiv. rewrite phiQ_mul. unfold Qcinv. rewrite phiQ_Q2Qc.
  rewrite Q2R_inv; [reflexivity|]. intros E. apply Hb. unfold phiQ. rewrite (Qeq_eqR _ _ E). unfold Q2R; cbn. lra.
Qed.

(* ====================== instance: R  (phi = identity) ====================== *)
Definition Rleb (a b : R) : bool := if Rle_dec a b then true else false.
Lemma Rleb_iff a b : Rleb a b = true <-> a <= b.
Proof. unfold Rleb. destruct (Rle_dec a b); split; intros; try assumption; try reflexivity; try discriminate; contradiction. Qed.
