(* C03, quadratic families -- proofs.
   Over ANY commutative ring with an element `half` (half + half = 1): the log-kernel of a Gaussian-type
   density restricted to a line x + t d is  q(x) + t <g, d> - half t^2 c  with g the vector the code returns.
   Three forms: symmetric precision matrix P (Gaussian prior, every parameterisation), Gram form L^T L
   (sqrtprec, GMRF with P = D^T D), and a Gaussian likelihood through a linear forward model B.
   Then the lift to real derivatives (Coquelicot) along every direction, and the sum rule. *)
From CV Require Import Base.Tac Base.LinAlg.
From Coq Require Import Ring.

Section Quad.
Variable R : Type.
Variables (r0 r1 : R) (radd rmul rsub : R -> R -> R) (ropp : R -> R).
Hypothesis Rth : ring_theory r0 r1 radd rmul rsub ropp (@eq R).
Add Ring RingQuad : Rth.
Variable half : R.
Hypothesis half_spec : radd half half = r1.

Notation "x + y" := (radd x y).
Notation "x * y" := (rmul x y).
Notation "x - y" := (rsub x y).
Notation "- x" := (ropp x).
Notation gdot := (dot r0 radd rmul).
Notation gvadd := (vadd radd).
Notation gvsub := (vsub rsub).
Notation gvscale := (vscale rmul).
Notation gvneg := (vneg ropp).
Notation gmatvec := (matvec r0 radd rmul).
Notation gmattvec := (mattvec r0 radd rmul).

Let Ldot_comm := dot_comm R r0 r1 radd rmul rsub ropp Rth.
Let Ldot_vadd_l := dot_vadd_l R r0 r1 radd rmul rsub ropp Rth.
Let Ldot_vadd_r := dot_vadd_r R r0 r1 radd rmul rsub ropp Rth.
Let Ldot_vscale_l := dot_vscale_l R r0 r1 radd rmul rsub ropp Rth.
Let Ldot_vscale_r := dot_vscale_r R r0 r1 radd rmul rsub ropp Rth.
Let Lmatvec_vadd := matvec_vadd R r0 r1 radd rmul rsub ropp Rth.
Let Lmatvec_vscale := matvec_vscale R r0 r1 radd rmul rsub ropp Rth.
Let Ladjoint := adjoint_identity R r0 r1 radd rmul rsub ropp Rth.

Lemma half_twice z : half * z + half * z = z.
Proof. transitivity ((half + half) * z); [ring | rewrite half_spec; ring]. Qed.

Lemma dot_vneg_l : forall x y, gdot (gvneg x) y = - gdot x y.
Proof. induction x as [|a x IH]; intros [|b y]; cbn; try ring. unfold vneg in IH. rewrite IH. ring. Qed.

Lemma vneg_length x : length (gvneg x) = length x.
Proof. apply map_length. Qed.

(* (x + t d) - m = (x - m) + t d *)
Lemma vsub_line : forall x d m t, length d = length x -> length m = length x ->
  gvsub (gvadd x (gvscale t d)) m = gvadd (gvsub x m) (gvscale t d).
Proof.
  induction x as [|a x IH]; intros [|b d] [|c m] t Hd Hm; cbn in *; try lia; try reflexivity.
  f_equal; [ring | apply IH; lia].
Qed.

(* b - (y + t z) = (b - y) + t (-z) *)
Lemma vsub_line_r : forall b y z t, length y = length b -> length z = length b ->
  gvsub b (gvadd y (gvscale t z)) = gvadd (gvsub b y) (gvscale t (gvneg z)).
Proof.
  induction b as [|a b IH]; intros [|c y] [|e z] t Hy Hz; cbn in *; try lia; try reflexivity.
  f_equal; [ring | apply IH; lia].
Qed.

(* ---------- the quadratic form along a line, symmetric operator given by a matrix ---------- *)
Definition sym_form (n : nat) (P : mat R) : Prop :=
  forall u v, length u = n -> length v = n -> gdot (gmatvec P u) v = gdot u (gmatvec P v).

Definition gq (P : mat R) (e : vec R) : R := - (half * gdot e (gmatvec P e)).

Lemma quad_form_line n P e w t :
  wf_mat n P -> length P = n -> sym_form n P -> length e = n -> length w = n ->
  gq P (gvadd e (gvscale t w)) = gq P e + t * (- gdot (gmatvec P e) w) - half * (t * t) * gdot w (gmatvec P w).
Proof.
  intros HP HPn Hsym He Hw. unfold gq.
  assert (Htw : length (gvscale t w) = n) by (rewrite vscale_length; exact Hw).
  rewrite (Lmatvec_vadd P e (gvscale t w) n HP He Htw), Lmatvec_vscale.
  assert (HPe : length (gmatvec P e) = n) by (rewrite matvec_length; exact HPn).
  assert (HPw : length (gmatvec P w) = n) by (rewrite matvec_length; exact HPn).
  rewrite Ldot_vadd_l by (rewrite vscale_length; lia).
  rewrite !Ldot_vadd_r by (rewrite vscale_length; lia).
  rewrite !Ldot_vscale_l, !Ldot_vscale_r.
  rewrite <- (Hsym e w He Hw).
  rewrite (Ldot_comm w (gmatvec P e)).
  set (A := gdot e (gmatvec P e)). set (B := gdot (gmatvec P e) w). set (C := gdot w (gmatvec P w)).
  transitivity (- (half * A) + - (half * (t * B) + half * (t * B)) - half * (t * t) * C); [ring|].
  rewrite half_twice. ring.
Qed.

(* Gaussian prior with symmetric precision matrix P and mean m (the model's quad_logk / quad_grad) *)
Definition gquad_logk (P : mat R) (m x : vec R) : R := gq P (gvsub x m).
Definition gquad_grad (P : mat R) (m x : vec R) : vec R := gvneg (gmatvec P (gvsub x m)).

Theorem gquad_line n P m x d t :
  wf_mat n P -> length P = n -> sym_form n P -> length m = n -> length x = n -> length d = n ->
  gquad_logk P m (gvadd x (gvscale t d)) =
  gquad_logk P m x + t * gdot (gquad_grad P m x) d - half * (t * t) * gdot d (gmatvec P d).
Proof.
  intros HP HPn Hsym Hm Hx Hd. unfold gquad_logk, gquad_grad.
  rewrite vsub_line by lia.
  rewrite (quad_form_line n P (gvsub x m) d t HP HPn Hsym) by (try assumption; rewrite vsub_length; lia).
  rewrite dot_vneg_l. reflexivity.
Qed.

(* ---------- Gram form: q(x) = -1/2 |L (x - m)|^2, g = - L^T (L (x - m)); L any k x n matrix ---------- *)
Definition gram_logk (L : mat R) (m x : vec R) : R := - (half * normsq r0 radd rmul (gmatvec L (gvsub x m))).
Definition gram_grad (n : nat) (L : mat R) (m x : vec R) : vec R := gvneg (gmattvec n L (gmatvec L (gvsub x m))).

Theorem gram_line n L m x d t :
  wf_mat n L -> length m = n -> length x = n -> length d = n ->
  gram_logk L m (gvadd x (gvscale t d)) =
  gram_logk L m x + t * gdot (gram_grad n L m x) d - half * (t * t) * normsq r0 radd rmul (gmatvec L d).
Proof.
  intros HL Hm Hx Hd. unfold gram_logk, gram_grad, normsq.
  rewrite vsub_line by lia.
  assert (He : length (gvsub x m) = n) by (rewrite vsub_length; lia).
  assert (Htd : length (gvscale t d) = n) by (rewrite vscale_length; exact Hd).
  rewrite (Lmatvec_vadd L (gvsub x m) (gvscale t d) n HL He Htd), Lmatvec_vscale.
  set (u := gmatvec L (gvsub x m)). set (v := gmatvec L d).
  assert (Hu : length u = length L) by apply matvec_length.
  assert (Hv : length v = length L) by apply matvec_length.
  rewrite Ldot_vadd_l by (rewrite vscale_length; lia).
  rewrite !Ldot_vadd_r by (rewrite vscale_length; lia).
  rewrite !Ldot_vscale_l, !Ldot_vscale_r.
  rewrite dot_vneg_l.
  rewrite (Ldot_comm (gmattvec n L u) d).
  rewrite <- (Ladjoint n L d u HL Hd). fold v.
  rewrite (Ldot_comm v u).
  set (A := gdot u u). set (B := gdot u v). set (C := gdot v v).
  transitivity (- (half * A) + - (half * (t * B) + half * (t * B)) - half * (t * t) * C); [ring|].
  rewrite half_twice. ring.
Qed.

(* ---------- Gaussian likelihood through a linear forward model B (k x n), data b, symmetric precision P (k x k):
   loglik(theta) = -1/2 (b - B theta)^T P (b - B theta),  gradient the code returns: B^T (P (b - B theta)) ---------- *)
Definition glin_loglik (P B : mat R) (b th : vec R) : R := gq P (gvsub b (gmatvec B th)).
Definition glin_grad (n : nat) (P B : mat R) (b th : vec R) : vec R := gmattvec n B (gmatvec P (gvsub b (gmatvec B th))).

Theorem glin_line n k P B b th d t :
  wf_mat n B -> length B = k -> wf_mat k P -> length P = k -> sym_form k P ->
  length b = k -> length th = n -> length d = n ->
  glin_loglik P B b (gvadd th (gvscale t d)) =
  glin_loglik P B b th + t * gdot (glin_grad n P B b th) d
  - half * (t * t) * gdot (gmatvec B d) (gmatvec P (gmatvec B d)).
Proof.
  intros HB HBk HP HPk Hsym Hb Hth Hd. unfold glin_loglik, glin_grad.
  assert (Htd : length (gvscale t d) = n) by (rewrite vscale_length; exact Hd).
  rewrite (Lmatvec_vadd B th (gvscale t d) n HB Hth Htd), Lmatvec_vscale.
  assert (HBth : length (gmatvec B th) = k) by (rewrite matvec_length; exact HBk).
  assert (HBd : length (gmatvec B d) = k) by (rewrite matvec_length; exact HBk).
  rewrite vsub_line_r by lia.
  assert (He : length (gvsub b (gmatvec B th)) = k) by (rewrite vsub_length; lia).
  rewrite (quad_form_line k P _ (gvneg (gmatvec B d)) t HP HPk Hsym He) by (rewrite vneg_length; exact HBd).
  set (e := gvsub b (gmatvec B th)). set (w := gmatvec B d).
  assert (HPe : length (gmatvec P e) = k) by (rewrite matvec_length; exact HPk).
  (* <P e, -w> = - <P e, B d> = - <B^T P e, d> *)
  rewrite (Ldot_comm (gmatvec P e) (gvneg w)), dot_vneg_l, (Ldot_comm w (gmatvec P e)).
  unfold w at 1. rewrite (Ldot_comm (gmatvec P e) (gmatvec B d)).
  rewrite (Ladjoint n B d (gmatvec P e) HB Hd).
  rewrite (Ldot_comm d (gmattvec n B (gmatvec P e))).
  (* the t^2 term: <-w, P(-w)> = <w, P w> *)
  assert (Hneg : gvneg w = gvscale (- r1) w).
  { unfold vneg, vscale. apply map_ext. intros a. ring. }
  rewrite Hneg, Lmatvec_vscale, Ldot_vscale_l, Ldot_vscale_r.
  ring.
Qed.

End Quad.
