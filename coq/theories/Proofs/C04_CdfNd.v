(* C04 -- proofs, part 15: "the cumulative distribution function, where offered, is the integral of that density" in n dimensions.
   Normal / Cauchy (product form): the mass of prod [x_i - T, x_i] tends to the model's cdf at x (uses the limits at -infinity; for the
   Normal these come from the Gaussian integral).  Gamma / Beta with integer shapes: the cdf IS the box integral over prod (0, x_i). *)
From CV Require Import Base.Tac Model.C04_Dens Model.C04_Cdf Proofs.C04_Dens Proofs.C04_More Proofs.C04_Cdf Proofs.C04_Cdf2
  Proofs.C04_Norm Proofs.C04_Lim Proofs.C04_Beta Proofs.C04_Gauss Proofs.C04_Box Proofs.C04_GaussInt.
From Coq Require Import Reals Lra.
From Coquelicot Require Import Coquelicot.
Local Open Scope R_scope.

(* a finite product of functions with finite limits tends to the product of the limits *)
Lemma is_lim_rprod {A} (g : A -> R -> R) (l : A -> R) (ps : list A) :
  (forall p, In p ps -> is_lim (g p) p_infty (l p)) -> is_lim (fun T => rprod (map (fun p => g p T) ps)) p_infty (rprod (map l ps)).
Proof.
  induction ps as [|p ps IH]; intros H; cbn [map rprod fold_right].
  - apply is_lim_const.
  - apply (is_lim_mult (g p) (fun T => rprod (map (fun p => g p T) ps)) p_infty (l p) (rprod (map l ps))).
    + apply H. left. reflexivity.
    + apply IH. intros q Hq. apply H. right. exact Hq.
    + exact I.
Qed.

(* lower-orthant boxes prod [x_i - T, x_i] *)
Definition lower_box (T : R) (xs : list R) : list (R * R) := map (fun x => (x - T, x)) xs.

Lemma combine_zip3_lower (A B xs : list R) (T : R) (f : R * R * (R * R) -> R) :
  map f (combine (zip2 A B) (lower_box T xs)) = map (fun a : R * R * R => f (fst (fst a), snd (fst a), (snd a - T, snd a))) (zip3 A B xs).
Proof.
  revert B xs. induction A as [|a A IH]; intros [|b B] [|x xs]; cbn; try reflexivity. f_equal. apply IH.
Qed.

Section LocScaleCdf.
  Variables (cdf1 : R * R * R -> R) (P : R -> Prop).
  Hypothesis lim_m : forall l s x, P s -> is_lim (fun T => cdf1 (l, s, x - T)) p_infty 0.

  Theorem locscale_cdf_nd loc scale xs : List.Forall P scale ->
    is_lim (fun T => rprod (map (ls_mass1 cdf1) (combine (zip2 (bc (length xs) loc) (bc (length xs) scale)) (lower_box T xs))))
           p_infty (rprod (map cdf1 (zip3 (bc (length xs) loc) (bc (length xs) scale) xs))).
  Proof.
    intros Hpos. set (n := length xs).
    apply is_lim_ext with (f := fun T => rprod (map (fun a : R * R * R => (fun (a : R * R * R) T =>
             cdf1 (fst (fst a), snd (fst a), snd a) - cdf1 (fst (fst a), snd (fst a), snd a - T)) a T) (zip3 (bc n loc) (bc n scale) xs))).
    { intros T. rewrite combine_zip3_lower. reflexivity. }
    apply (is_lim_rprod (fun (a : R * R * R) T => cdf1 (fst (fst a), snd (fst a), snd a) - cdf1 (fst (fst a), snd (fst a), snd a - T)) cdf1).
    intros [[l s] x] Hin. cbn [fst snd].
    assert (Hs : P s).
    { pose proof (zip3_Forall2 P (bc n loc) (bc n scale) xs (bc_Forall _ _ _ Hpos)) as HF. rewrite Forall_forall in HF. apply (HF _ Hin). }
    evar_last; [apply is_lim_minus'; [apply is_lim_const | apply lim_m; exact Hs]|]. cbn. f_equal. ring.
  Qed.
End LocScaleCdf.

Lemma lim_shift_m x : is_lim (fun T => x - T) p_infty m_infty.
Proof.
  apply (is_lim_minus (fun _ => x) (fun T => T) p_infty x p_infty m_infty); [apply is_lim_const | apply is_lim_id |].
  unfold is_Rbar_minus, is_Rbar_plus; cbn. reflexivity.
Qed.

(* Normal.cdf (product of the 1-d cdfs, as the code computes it) is the integral of the n-d density over the lower orthant: the masses
   (normal_box_mass) of prod [x_i - T, x_i] tend to it *)
Theorem normal_cdf_nd mean std xs : List.Forall (fun s => 0 < s) std ->
  is_lim (fun T => rprod (map (ls_mass1 normal_cdf1) (combine (zip2 (bc (length xs) mean) (bc (length xs) std)) (lower_box T xs))))
         p_infty (normal_cdf mean std xs).
Proof.
  intros Hpos. unfold normal_cdf, normal_args. cbv zeta.
  apply (locscale_cdf_nd normal_cdf1 (fun s => 0 < s)); [|exact Hpos].
  intros l s x Hs. destruct (normal_cdf1_limits l s Hs) as [_ Hm].
  apply (is_lim_comp (fun u => normal_cdf1 (l, s, u)) (fun T => x - T) p_infty 0 m_infty); [exact Hm | apply lim_shift_m |].
  exists 0. intros y _. discriminate.
Qed.

Lemma lim_atan_m : is_lim atan m_infty (- (PI / 2)).
Proof.
  apply is_lim_ext with (f := fun y => - atan (- y)); [intros y; rewrite atan_opp; ring|].
  evar_last.
  - apply is_lim_opp. apply (is_lim_comp atan (fun y => - y) m_infty (PI / 2) p_infty); [apply lim_atan_p | |].
    + evar_last; [apply is_lim_opp; apply is_lim_id | reflexivity].
    + exists 0. intros y _. discriminate.
  - reflexivity.
Qed.

Lemma cauchy_cdf1_lim_m l s x : 0 < s -> is_lim (fun T => cauchy_cdf1 (l, s, x - T)) p_infty 0.
Proof.
  intros Hs. unfold cauchy_cdf1. pose proof PI_RGT_0.
  evar_last.
  - apply (is_lim_plus' (fun T => atan ((x - T - l) / s) / PI) (fun _ => / 2) p_infty (- (PI / 2) / PI) (/ 2)); [|apply is_lim_const].
    apply (is_lim_scal_r (fun T => atan ((x - T - l) / s)) (/ PI) p_infty (- (PI / 2))).
    apply (is_lim_comp atan (fun T => (x - T - l) / s) p_infty (- (PI / 2)) m_infty); [apply lim_atan_m | |].
    + apply is_lim_ext with (f := fun T => (- T - (l - x)) / s); [intros T; field; lra|]. apply lim_affine_m. exact Hs.
    + exists 0. intros y _. discriminate.
  - cbn. f_equal. field. lra.
Qed.

(* Cauchy: the PRODUCT of the 1-d cdfs (the repaired formula; the code's sum is the known finding Cauchy.cdf|dim>1) is the integral of the n-d
   density over the lower orthant *)
Theorem cauchy_cdf_nd loc scale xs : List.Forall (fun s => 0 < s) scale ->
  is_lim (fun T => rprod (map (ls_mass1 cauchy_cdf1) (combine (zip2 (bc (length xs) loc) (bc (length xs) scale)) (lower_box T xs))))
         p_infty (cauchy_cdf true loc scale xs).
Proof.
  intros Hpos. unfold cauchy_cdf, cauchy_args. cbv zeta.
  apply (locscale_cdf_nd cauchy_cdf1 (fun s => 0 < s)); [|exact Hpos].
  intros l s x Hs. apply cauchy_cdf1_lim_m. exact Hs.
Qed.

(* ---------- Gamma / Beta with integer shapes: the product of the 1-d cdfs (what the code returns) is the box integral of exp(logpdf)
   over prod (0, x_i) ---------- *)
Theorem gamma_int_cdf_nd (ps : list (nat * R)) (xs : list R) : length xs = length ps ->
  List.Forall (fun p => 0 < snd p) ps -> List.Forall (fun x => 0 < x) xs ->
  is_box_int (fun ts => exp (gamma_logpdf (map gamma_int_g ps) (map gamma_int_shape ps) (map snd ps) ts))
             (map (fun x => (0, x)) xs) (rprod (map (fun q => gamma_int_cdf1 (fst (fst q)) (snd (fst q)) (snd q)) (combine ps xs))).
Proof.
  intros Hl Hpos Hx. set (box := map (fun x : R => (0, x)) xs).
  assert (Hlb : length box = length ps) by (unfold box; rewrite map_length; exact Hl).
  apply (is_box_int_ext (fun ts => rprod (map (fun q => (fun (p : nat * R) t => exp (gamma_term (gamma_int_g p, gamma_int_shape p, snd p, t))) (fst q) (snd q)) (combine ps ts)))).
  { intros ts Hts. apply in_box_length in Hts. rewrite Hlb in Hts. unfold gamma_logpdf.
    rewrite !bc_same by (rewrite map_length; symmetry; exact Hts).
    rewrite zip4_map_combine, map_map, exp_rsum. reflexivity. }
  replace (rprod (map (fun q => gamma_int_cdf1 (fst (fst q)) (snd (fst q)) (snd q)) (combine ps xs)))
    with (rprod (map (fun q : (nat * R) * (R * R) => (fun (p : nat * R) (ab : R * R) => gamma_int_cdf1 (fst p) (snd p) (snd ab)) (fst q) (snd q)) (combine ps box))).
  2:{ f_equal. unfold box. clear. revert xs. induction ps as [|p ps IH]; intros [|x xs]; cbn; try reflexivity. f_equal. apply IH. }
  assert (Hbox : forall q, In q (combine ps box) -> fst (snd q) = 0 /\ 0 < snd (snd q)).
  { intros [p ab] Hq. apply in_combine_r in Hq. unfold box in Hq. apply in_map_iff in Hq. destruct Hq as [x [<- Hin]]. cbn.
    split; [reflexivity|]. rewrite Forall_forall in Hx. apply Hx. exact Hin. }
  apply (box_int_product_open (fun (p : nat * R) t => exp (gamma_term (gamma_int_g p, gamma_int_shape p, snd p, t)))
           (fun (p : nat * R) t => gamma_int_pdf (fst p) (snd p) t)
           (fun (p : nat * R) (ab : R * R) => gamma_int_cdf1 (fst p) (snd p) (snd ab)) ps box Hlb).
  - intros q Hq t Ht. destruct (Hbox q Hq) as [E0 Hp]. destruct Ht as [H1 H2]. rewrite E0 in H1. rewrite Rmin_left in H1 by lra.
    apply gamma_exp_term; [|lra]. apply (In_combine_Forall_l (fun p : nat * R => 0 < snd p) ps box q Hpos Hq).
  - intros q Hq. destruct (Hbox q Hq) as [E0 _]. rewrite E0. unfold gamma_int_cdf1.
    apply (@RInt_correct R_CompleteNormedModule). apply (@ex_RInt_continuous R_CompleteNormedModule). intros t _. apply gamma_int_pdf_cont.
Qed.

Theorem beta_int_cdf_nd (ps : list (nat * nat)) (xs : list R) : length xs = length ps ->
  List.Forall (fun x => 0 < x <= 1) xs ->
  is_box_int (fun ts => exp (beta_logpdf (map beta_int_ga ps) (map beta_int_gb ps) (map beta_int_gab ps)
                                         (map beta_int_alpha ps) (map beta_int_beta ps) ts))
             (map (fun x => (0, x)) xs) (rprod (map (fun q => beta_int_cdf1 (fst (fst q)) (snd (fst q)) (snd q)) (combine ps xs))).
Proof.
  intros Hl Hx. set (box := map (fun x : R => (0, x)) xs).
  assert (Hlb : length box = length ps) by (unfold box; rewrite map_length; exact Hl).
  apply (is_box_int_ext (fun ts => rprod (map (fun q => (fun (p : nat * nat) t =>
           exp (beta_term (beta_int_ga p, beta_int_gb p, beta_int_gab p) (beta_int_alpha p, beta_int_beta p, t))) (fst q) (snd q)) (combine ps ts)))).
  { intros ts Hts. apply in_box_length in Hts. rewrite Hlb in Hts. unfold beta_logpdf.
    rewrite !bc_same by (rewrite map_length; symmetry; exact Hts).
    rewrite zip3_map_self, zip3_map_combine.
    rewrite (combine_map_zip (fun p => (beta_int_ga p, beta_int_gb p, beta_int_gab p))
                             (fun q : (nat * nat) * R => (beta_int_alpha (fst q), beta_int_beta (fst q), snd q)) ps ts).
    rewrite map_map, exp_rsum. reflexivity. }
  replace (rprod (map (fun q => beta_int_cdf1 (fst (fst q)) (snd (fst q)) (snd q)) (combine ps xs)))
    with (rprod (map (fun q : (nat * nat) * (R * R) => (fun (p : nat * nat) (ab : R * R) => beta_int_cdf1 (fst p) (snd p) (snd ab)) (fst q) (snd q)) (combine ps box))).
  2:{ f_equal. unfold box. clear. revert xs. induction ps as [|p ps IH]; intros [|x xs]; cbn; try reflexivity. f_equal. apply IH. }
  assert (Hbox : forall q, In q (combine ps box) -> fst (snd q) = 0 /\ 0 < snd (snd q) <= 1).
  { intros [p ab] Hq. apply in_combine_r in Hq. unfold box in Hq. apply in_map_iff in Hq. destruct Hq as [x [<- Hin]]. cbn.
    split; [reflexivity|]. rewrite Forall_forall in Hx. apply Hx. exact Hin. }
  apply (box_int_product_open (fun (p : nat * nat) t => exp (beta_term (beta_int_ga p, beta_int_gb p, beta_int_gab p) (beta_int_alpha p, beta_int_beta p, t)))
           (fun (p : nat * nat) t => beta_int_pdf (fst p) (snd p) t)
           (fun (p : nat * nat) (ab : R * R) => beta_int_cdf1 (fst p) (snd p) (snd ab)) ps box Hlb).
  - intros q Hq t Ht. destruct (Hbox q Hq) as [E0 Hp]. destruct Ht as [H1 H2]. rewrite E0 in H1, H2.
    rewrite Rmin_left in H1 by lra. rewrite Rmax_right in H2 by lra. apply beta_exp_term. lra.
  - intros q Hq. destruct (Hbox q Hq) as [E0 _]. rewrite E0. unfold beta_int_cdf1.
    apply (@RInt_correct R_CompleteNormedModule). apply (@ex_RInt_continuous R_CompleteNormedModule). intros t _. apply beta_int_pdf_cont.
Qed.

(* ---------- the relational iterated integral determines the iterated RInt (Coquelicot's total integral function) ---------- *)
Fixpoint box_RInt (f : list R -> R) (box : list (R * R)) : R :=
  match box with
  | nil => f nil
  | ab :: rest => RInt (fun t => box_RInt (fun xs => f (t :: xs)) rest) (fst ab) (snd ab)
  end.

Theorem is_box_int_RInt f box v : is_box_int f box v -> box_RInt f box = v.
Proof.
  revert f v. induction box as [|ab box IH]; intros f v H; cbn [box_RInt is_box_int] in *; [exact H|].
  destruct H as [F [HF HI]].
  rewrite <- (is_RInt_unique F (fst ab) (snd ab) v HI).
  apply RInt_ext. intros t Ht. apply (IH (fun xs => f (t :: xs))). apply HF. exact Ht.
Qed.
