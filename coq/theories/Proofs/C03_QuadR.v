(* C03 -- real-analysis lift of the quadratic identities (Proofs/C03_Quad.v at the ring R), the sum rule,
   the refutation witness for the unshifted Cauchy-difference gradient, and the abstract chain rule of a
   Gaussian likelihood through a differentiable (non-linear) forward map. *)
From CV Require Import Base.Tac Base.LinAlg Model.C03_GradR Proofs.C03_GradR Proofs.C03_Quad.
From Coq Require Import Reals Lra RealField.
From Coquelicot Require Import Coquelicot.
Open Scope R_scope.

Lemma Rhalf : / 2 + / 2 = 1.
Proof. lra. Qed.

(* a function that is c0 + t a - 1/2 t^2 c has derivative a at 0 *)
Lemma poly2_derive (f : R -> R) (c0 a c : R) :
  (forall t, f t = c0 + t * a - / 2 * (t * t) * c) -> is_derive f 0 a.
Proof.
  intros H. apply (is_derive_ext (fun t => c0 + t * a - / 2 * (t * t) * c)); [intros t; symmetry; apply H|].
  auto_derive; [exact I | ring].
Qed.

(* the R instances of the definitions of Proofs/C03_Quad.v *)
Definition rsym_form := sym_form R 0 Rplus Rmult.
Definition rquad_logk := gquad_logk R 0 Rplus Rmult Rminus Ropp (/ 2).
Definition rquad_grad := gquad_grad R 0 Rplus Rmult Rminus Ropp.
Definition rgram_logk := gram_logk R 0 Rplus Rmult Rminus Ropp (/ 2).
Definition rgram_grad := gram_grad R 0 Rplus Rmult Rminus Ropp.
Definition rlin_loglik := glin_loglik R 0 Rplus Rmult Rminus Ropp (/ 2).
Definition rlin_grad := glin_grad R 0 Rplus Rmult Rminus.

(* Gaussian with symmetric precision matrix P, any mean: the vector -P(x - m) is the gradient of
   -1/2 (x-m)^T P (x-m): derivative along EVERY direction d, every dimension n *)
Theorem quad_prior_derive n P m x d :
  wf_mat n P -> length P = n -> rsym_form n P -> length m = n -> length x = n -> length d = n ->
  is_derive (fun t => rquad_logk P m (rvadd x (rvscale t d))) 0 (rdot (rquad_grad P m x) d).
Proof.
  intros HP HPn Hs Hm Hx Hd.
  apply (poly2_derive _ (rquad_logk P m x) _ (rdot d (rmatvec P d))). intros t.
  unfold rquad_logk, rquad_grad, rvadd, rvscale, rdot, rmatvec.
  rewrite (gquad_line R 0 1 Rplus Rmult Rminus Ropp RTheory (/ 2) Rhalf n P m x d t HP HPn Hs Hm Hx Hd).
  reflexivity.
Qed.

(* Gram form (sqrtprec L, GMRF with P = D^T D): -L^T L (x - m) is the gradient of -1/2 |L (x-m)|^2 *)
Theorem gram_prior_derive n L m x d :
  wf_mat n L -> length m = n -> length x = n -> length d = n ->
  is_derive (fun t => rgram_logk L m (rvadd x (rvscale t d))) 0 (rdot (rgram_grad n L m x) d).
Proof.
  intros HL Hm Hx Hd.
  apply (poly2_derive _ (rgram_logk L m x) _ (normsq 0 Rplus Rmult (rmatvec L d))). intros t.
  unfold rgram_logk, rgram_grad, rvadd, rvscale, rdot, rmatvec.
  rewrite (gram_line R 0 1 Rplus Rmult Rminus Ropp RTheory (/ 2) Rhalf n L m x d t HL Hm Hx Hd).
  reflexivity.
Qed.

(* Gaussian likelihood through a linear forward model B: B^T P (b - B theta) is the gradient in theta *)
Theorem linear_likelihood_derive n k P B b th d :
  wf_mat n B -> length B = k -> wf_mat k P -> length P = k -> rsym_form k P ->
  length b = k -> length th = n -> length d = n ->
  is_derive (fun t => rlin_loglik P B b (rvadd th (rvscale t d))) 0 (rdot (rlin_grad n P B b th) d).
Proof.
  intros HB HBk HP HPk Hs Hb Hth Hd.
  apply (poly2_derive _ (rlin_loglik P B b th) _ (rdot (rmatvec B d) (rmatvec P (rmatvec B d)))). intros t.
  unfold rlin_loglik, rlin_grad, rvadd, rvscale, rdot, rmatvec.
  rewrite (glin_line R 0 1 Rplus Rmult Rminus Ropp RTheory (/ 2) Rhalf n k P B b th d t HB HBk HP HPk Hs Hb Hth Hd).
  reflexivity.
Qed.

(* ---------- sum rule: posterior = likelihood + prior, multiple-likelihood posterior = sum of all densities,
   plus the folded additive constant ---------- *)
Fixpoint fsum (fs : list (R -> R)) (t : R) : R := match fs with [] => 0 | f :: r => f t + fsum r t end.

Theorem sum_rule (fs : list (R -> R)) (ls : list R) (c x : R) :
  Forall2 (fun f l => is_derive f x l) fs ls -> is_derive (fun t => c + fsum fs t) x (rsum ls).
Proof.
  intros H. induction H as [|f l fs ls Hf _ IH].
  - cbn. apply (is_derive_const (c + 0) x).
  - cbn [fsum rsum].
    apply (is_derive_ext (fun t => f t + (c + fsum fs t))); [intros t; cbn; ring|].
    apply (is_derive_plus f (fun t => c + fsum fs t) x l (rsum ls) Hf IH).
Qed.

(* the gradients are added coordinate by coordinate: <g1 + g2, d> = <g1, d> + <g2, d> *)
Lemma rdot_vadd g1 g2 d : length g1 = length g2 -> rdot (rvadd g1 g2) d = rdot g1 d + rdot g2 d.
Proof. apply (dot_vadd_l R 0 1 Rplus Rmult Rminus Ropp RTheory). Qed.

Theorem posterior_directional (flik fprior : R -> R) (glik gprior d : list R) :
  length glik = length gprior ->
  is_derive flik 0 (rdot glik d) -> is_derive fprior 0 (rdot gprior d) ->
  is_derive (fun t => flik t + fprior t) 0 (rdot (rvadd glik gprior) d).
Proof.
  intros Hl H1 H2. rewrite rdot_vadd by exact Hl.
  apply (is_derive_plus flik fprior 0 _ _ H1 H2).
Qed.

(* ---------- the unshifted Cauchy-difference formula is NOT the derivative once D loc <> 0 ---------- *)
Theorem cmrf_unshifted_refuted :
  exists (D : list (list R)) (loc x d : list R) (sc : R),
    wf_mat 1 D /\ sc <> 0 /\
    ~ is_derive (fun t => cmrf_logk D loc sc (rvadd x (rvscale t d))) 0 (rdot (cmrf_grad false D loc sc x) d).
Proof.
  exists ((1 :: nil) :: nil), (1 :: nil), (0 :: nil), (1 :: nil), 1.
  split; [repeat constructor|]. split; [lra|]. intros H.
  assert (H2 := cmrf_directional_derive 1 ((1 :: nil) :: nil) (1 :: nil) (0 :: nil) (1 :: nil) 1).
  assert (Hwf : wf_mat 1 ((1 :: nil) :: nil)) by (repeat constructor).
  specialize (H2 Hwf eq_refl eq_refl eq_refl ltac:(lra)).
  apply is_derive_unique in H. apply is_derive_unique in H2. rewrite H in H2. clear H.
  cbv [cmrf_grad rdot rmattvec rmatvec rvsub bcast length repeat mattvec matvec map dot vadd vscale vsub vzero cm_dk] in H2.
  assert (E1 : (-2 * (1 * 0 + 0) / ((1 * 0 + 0) ^ 2 + 1 ^ 2) * 1 + 0) * 1 + 0 = 0) by (field).
  assert (E2 : (-2 * (1 * (0 - 1) + 0) / ((1 * (0 - 1) + 0) ^ 2 + 1 ^ 2) * 1 + 0) * 1 + 0 = 1) by (field).
  rewrite E1, E2 in H2. lra.
Qed.

(* ---------- abstract chain rule: Gaussian log-likelihood through a differentiable forward map ----------
   F : parameters -> data space, given along the line theta + t d by its components Fk t; Jd = J_F(theta) d the
   directional derivative of F; r0 = b - F(theta).  Then d/dt [ -1/2 (b - F)^T P (b - F) ] = <P r0, Jd>,
   which equals <J^T P r0, d> = <model.gradient(P r0, theta), d> whenever the model's gradient is the
   transposed Jacobian (C12). *)
Fixpoint vderive (us : list (R -> R)) (x : R) (ls : list R) : Prop :=
  match us, ls with
  | [], [] => True
  | u :: us', l :: ls' => is_derive u x l /\ vderive us' x ls'
  | _, _ => False
  end.

Definition veval (us : list (R -> R)) (t : R) : list R := map (fun u => u t) us.

Lemma is_derive_eq (f : R -> R) (x l l' : R) : is_derive f x l -> l = l' -> is_derive f x l'.
Proof. intros H <-. exact H. Qed.

Lemma vderive_length us x ls : vderive us x ls -> length us = length ls.
Proof. revert ls; induction us as [|u us IH]; intros [|l ls] H; cbn in *; try tauto. f_equal. apply IH. tauto. Qed.

(* derivative of a dot product of two vector-valued functions *)
Lemma dot_derive : forall (us vs : list (R -> R)) (x : R) (dus dvs : list R),
  length us = length vs -> vderive us x dus -> vderive vs x dvs ->
  is_derive (fun t => rdot (veval us t) (veval vs t)) x (rdot dus (veval vs x) + rdot (veval us x) dvs).
Proof.
  induction us as [|u us IH]; intros [|v vs] x [|du dus] [|dv dvs] Hl Hu Hv; cbn in *; try tauto; try lia.
  - auto_derive; [exact I | ring].
  - destruct Hu as [Hu1 Hu2]. destruct Hv as [Hv1 Hv2].
    assert (IH' := IH vs x dus dvs ltac:(lia) Hu2 Hv2).
    assert (Hm : is_derive (fun t => u t * v t) x (du * v x + u x * dv)).
    { apply (is_derive_mult u v x du dv Hu1 Hv1). intros a b. apply Rmult_comm. }
    apply (is_derive_eq _ x _ _ (is_derive_plus (fun t => u t * v t) (fun t => rdot (veval us t) (veval vs t)) x _ _ Hm IH')).
    unfold plus; cbn. unfold rdot, veval. cbn. ring.
Qed.

(* matrix applied to a vector-valued function, differentiated row by row *)
Lemma row_derive : forall (row : list R) (us : list (R -> R)) (x : R) (dus : list R),
  vderive us x dus -> is_derive (fun t => rdot row (veval us t)) x (rdot row dus).
Proof.
  induction row as [|a row IH]; intros [|u us] x [|du dus] Hu; cbn in *; try tauto;
    try (auto_derive; [exact I | ring]).
  destruct Hu as [Hu1 Hu2].
  assert (Hm : is_derive (fun t => a * u t) x (a * du)) by (apply (is_derive_scal u x a du Hu1)).
  apply (is_derive_eq _ x _ _ (is_derive_plus (fun t => a * u t) (fun t => rdot row (veval us t)) x _ _ Hm (IH us x dus Hu2))).
  unfold plus; cbn. unfold rdot. ring.
Qed.

Definition mat_apply (P : list (list R)) (us : list (R -> R)) : list (R -> R) :=
  map (fun row => fun t => rdot row (veval us t)) P.

Lemma mat_apply_eval P us t : veval (mat_apply P us) t = rmatvec P (veval us t).
Proof. unfold veval, mat_apply, rmatvec, matvec. rewrite map_map. reflexivity. Qed.

Lemma mat_apply_derive : forall P us x dus, vderive us x dus -> vderive (mat_apply P us) x (rmatvec P dus).
Proof.
  induction P as [|row P IH]; intros us x dus H; cbn; [exact I|].
  split; [apply row_derive; exact H | apply IH; exact H].
Qed.

(* residual r(t) = b - F(t), componentwise *)
Fixpoint resid (b : list R) (Fs : list (R -> R)) : list (R -> R) :=
  match b, Fs with bk :: b', f :: Fs' => (fun t => bk - f t) :: resid b' Fs' | _, _ => [] end.

Lemma resid_derive : forall b Fs x Jd, length b = length Fs -> vderive Fs x Jd ->
  vderive (resid b Fs) x (map Ropp Jd).
Proof.
  induction b as [|bk b IH]; intros [|f Fs] x [|j Jd] Hl H; cbn in *; try tauto; try lia.
  destruct H as [H1 H2]. split.
  - apply (is_derive_eq _ x _ _ (is_derive_minus (fun _ => bk) f x 0 j (is_derive_const bk x) H1)).
    unfold minus, plus, opp; cbn. ring.
  - apply IH; [lia | exact H2].
Qed.

Lemma resid_length : forall b Fs, length b = length Fs -> length (resid b Fs) = length b.
Proof. induction b as [|bk b IH]; intros [|f Fs] H; cbn in *; try lia. f_equal. apply IH. lia. Qed.

Lemma rdot_map_opp_l : forall x y, rdot (map Ropp x) y = - rdot x y.
Proof. induction x as [|a x IH]; intros [|b y]; cbn; try ring. unfold rdot in *. rewrite IH. ring. Qed.
Lemma rdot_map_opp_r x y : rdot x (map Ropp y) = - rdot x y.
Proof. unfold rdot. rewrite (dot_comm R 0 1 Rplus Rmult Rminus Ropp RTheory). fold rdot. rewrite rdot_map_opp_l.
  unfold rdot. rewrite (dot_comm R 0 1 Rplus Rmult Rminus Ropp RTheory). reflexivity. Qed.

Theorem likelihood_chain_derive k (P : list (list R)) (b : list R) (Fs : list (R -> R)) (Jd : list R) :
  wf_mat k P -> length P = k -> rsym_form k P -> length b = k -> length Fs = k ->
  vderive Fs 0 Jd ->
  is_derive (fun t => - (/ 2 * rdot (veval (resid b Fs) t) (rmatvec P (veval (resid b Fs) t)))) 0
            (rdot (rmatvec P (veval (resid b Fs) 0)) Jd).
Proof.
  intros HP HPk Hs Hb HF HJ.
  set (rs := resid b Fs).
  assert (Hrl : length rs = k) by (unfold rs; rewrite resid_length; lia).
  assert (Hr : vderive rs 0 (map Ropp Jd)) by (apply resid_derive; [lia | exact HJ]).
  assert (HPr := mat_apply_derive P rs 0 _ Hr).
  assert (Hlen : length rs = length (mat_apply P rs)).
  { unfold mat_apply. rewrite map_length. transitivity k; [exact Hrl | symmetry; exact HPk]. }
  assert (Hd := dot_derive rs (mat_apply P rs) 0 _ _ Hlen Hr HPr).
  rewrite mat_apply_eval in Hd.
  assert (HJl : length Jd = k) by (rewrite <- (vderive_length _ _ _ HJ); exact HF).
  assert (Hd2 := is_derive_scal _ 0 (- / 2) _ Hd).
  apply (is_derive_ext (fun t => - / 2 * rdot (veval rs t) (veval (mat_apply P rs) t))).
  { intros t. rewrite mat_apply_eval. cbn. ring. }
  apply (is_derive_eq _ 0 _ _ Hd2).
  - idtac.
    assert (Hev : length (veval rs 0) = k) by (unfold veval; rewrite map_length; exact Hrl).
    assert (Hmo : length (map Ropp Jd) = k) by (rewrite map_length; exact HJl).
    (* <r, P(-Jd)> = <P r, -Jd> by symmetry *)
    pose proof (Hs (veval rs 0) (map Ropp Jd) Hev Hmo) as Hsym.
    change (rdot (rmatvec P (veval rs 0)) (map Ropp Jd) = rdot (veval rs 0) (rmatvec P (map Ropp Jd))) in Hsym.
    rewrite <- Hsym.
    rewrite (rdot_map_opp_l Jd (rmatvec P (veval rs 0))).
    rewrite rdot_map_opp_r.
    assert (Hc : rdot Jd (rmatvec P (veval rs 0)) = rdot (rmatvec P (veval rs 0)) Jd).
    { unfold rdot. apply (dot_comm R 0 1 Rplus Rmult Rminus Ropp RTheory). }
    rewrite Hc. lra.
Qed.
