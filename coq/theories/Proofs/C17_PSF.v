(* C17 (deepening) -- general facts about the shipped PSF generators: normalisation (sum = 1), symmetry about
   the centre index size//2 for both parities, position of the centre; symmetry of the built-in legacy rows. *)
From CV Require Import Base.Tac Base.LinAlg Base.Cmp Base.QcLin Model.C17_TP Proofs.C17_Legacy.
From Coq Require Import QArith Qcanon Qabs.

(* ---------------- the grid x = arange(-fix(n/2), ceil(n/2)) ---------------- *)
Lemma psf_grid_length n : length (psf_grid n) = n.
Proof. unfold psf_grid. rewrite map_length, seq_length. reflexivity. Qed.

Lemma psf_grid_nth n i : (i < n)%nat -> nth i (psf_grid n) 0%Z = (Z.of_nat i - Z.of_nat n / 2)%Z.
Proof. intros H. unfold psf_grid. rewrite (nth_map_seq _ _ _ _ H). reflexivity. Qed.

(* the centre (x = 0) is at index n/2 for even AND odd sizes *)
Theorem psf_grid_centre n : (0 < n)%nat -> nth (n / 2) (psf_grid n) 0%Z = 0%Z.
Proof.
  intros H. rewrite psf_grid_nth by (apply Nat.div_lt; lia).
  rewrite Nat2Z.inj_div. simpl (Z.of_nat 2). lia.
Qed.

Theorem psf_grid_symmetric n m : (m <= n / 2)%nat -> (n / 2 + m < n)%nat ->
  nth (n / 2 + m) (psf_grid n) 0%Z = Z.of_nat m /\ nth (n / 2 - m) (psf_grid n) 0%Z = (- Z.of_nat m)%Z.
Proof.
  intros H1 H2. rewrite !psf_grid_nth by lia.
  rewrite Nat2Z.inj_add, Nat2Z.inj_sub, Nat2Z.inj_div by lia. simpl (Z.of_nat 2). lia.
Qed.

(* ---------------- normalisation ---------------- *)
Lemma qsum_div (g : list Qc) (s : Qc) : s <> 0%Qc -> qsum (map (fun v => (v / s)%Qc) g) = (qsum g / s)%Qc.
Proof.
  intros Hs. induction g as [|a g IH]; simpl; [field; exact Hs|]. rewrite IH. field. exact Hs.
Qed.

Theorem normalize_sum_one (g p : list Qc) : normalize g = Some p -> qsum p = 1%Qc /\ length p = length g.
Proof.
  unfold normalize. destruct (qc_eqb (qsum g) 0%Qc) eqn:E; [discriminate|].
  intros H. inversion H; subst. split; [|apply map_length].
  assert (Hs : qsum g <> 0%Qc). { intro C. apply qc_eqb_eq in C. congruence. }
  rewrite qsum_div by exact Hs. field. exact Hs.
Qed.

Lemma qsum_map_qsum_div (g : list (list Qc)) (s : Qc) : s <> 0%Qc ->
  qsum (map qsum (map (map (fun v => (v / s)%Qc)) g)) = (qsum (map qsum g) / s)%Qc.
Proof.
  intros Hs. induction g as [|r g IH]; simpl; [field; exact Hs|]. rewrite IH, qsum_div by exact Hs. field. exact Hs.
Qed.

Theorem normalize2_sum_one (g p : list (list Qc)) : normalize2 g = Some p -> qsum (map qsum p) = 1%Qc.
Proof.
  unfold normalize2. destruct (qc_eqb (qsum (map qsum g)) 0%Qc) eqn:E; [discriminate|].
  intros H. inversion H; subst.
  assert (Hs : qsum (map qsum g) <> 0%Qc). { intro C. apply qc_eqb_eq in C. congruence. }
  rewrite qsum_map_qsum_div by exact Hs. field. exact Hs.
Qed.

(* ---------------- symmetry of any PSF that depends on x^2 only ---------------- *)
Lemma nth_map_grid (w : Z -> Qc) n i : (i < n)%nat ->
  nth i (map (fun x => w (x * x)%Z) (psf_grid n)) 0%Qc = w ((nth i (psf_grid n) 0%Z) * (nth i (psf_grid n) 0%Z))%Z.
Proof.
  intros H. rewrite (nth_indep _ 0%Qc (w (0 * 0)%Z)) by (rewrite map_length, psf_grid_length; exact H).
  rewrite (map_nth (fun x => w (x * x)%Z) (psf_grid n) 0%Z i). reflexivity.
Qed.

Lemma radial_symmetric (w : Z -> Qc) n m : (m <= n / 2)%nat -> (n / 2 + m < n)%nat ->
  nth (n / 2 + m) (map (fun x => w (x * x)%Z) (psf_grid n)) 0%Qc
  = nth (n / 2 - m) (map (fun x => w (x * x)%Z) (psf_grid n)) 0%Qc.
Proof.
  intros H1 H2. rewrite !nth_map_grid by lia.
  destruct (psf_grid_symmetric n m H1 H2) as [-> ->]. f_equal. ring.
Qed.

Lemma nth_map_div (g : list Qc) s i : nth i (map (fun v => (v / s)%Qc) g) 0%Qc = (nth i g 0%Qc / s)%Qc.
Proof.
  destruct (Nat.lt_ge_cases i (length g)) as [H|H].
  - rewrite (nth_indep _ 0%Qc (0 / s)%Qc) by (rewrite map_length; exact H).
    apply (map_nth (fun v => (v / s)%Qc)).
  - rewrite !nth_overflow by (try rewrite map_length; lia). unfold Qcdiv. ring.
Qed.

(* Moffat: normalised, symmetric about index n/2 (both parities), value at the centre = weight of x = 0 *)
Theorem moffat_1d_props n s P : moffat_psf_1d n s = Some P ->
  qsum P = 1%Qc /\ length P = n /\
  forall m, (m <= n / 2)%nat -> (n / 2 + m < n)%nat -> nth (n / 2 + m) P 0%Qc = nth (n / 2 - m) P 0%Qc.
Proof.
  unfold moffat_psf_1d. intros H.
  destruct (normalize_sum_one _ _ H) as [H1 H2]. split; [exact H1|].
  split; [rewrite H2, map_length; apply psf_grid_length|].
  intros m Hm1 Hm2. unfold normalize in H.
  destruct (qc_eqb _ _); [discriminate|]. inversion H; subst.
  rewrite (nth_map_div _ _ (n / 2 + m)), (nth_map_div _ _ (n / 2 - m)). f_equal. apply (radial_symmetric (moffat_w s)); assumption.
Qed.

(* Defocus after the repair: normalised and symmetric about index n/2 *)
Lemma defocus_fixed_raw_sym n r m : (m <= n / 2)%nat -> (n / 2 + m < n)%nat ->
  let raw := map (fun i => let d := (Z.of_nat i + 0 - Z.of_nat n / 2)%Z in if in_disc (d * d)%Z r then 1%Qc else 0%Qc) (seq 0 n) in
  nth (n / 2 + m) raw 0%Qc = nth (n / 2 - m) raw 0%Qc.
Proof.
  intros H1 H2 raw. unfold raw.
  rewrite (nth_map_seq _ n (n / 2 + m)) by lia. rewrite (nth_map_seq _ n (n / 2 - m)) by lia.
  cbv zeta.
  replace (Z.of_nat (n / 2 + m) + 0 - Z.of_nat n / 2)%Z with (Z.of_nat m)
    by (rewrite Nat2Z.inj_add, Nat2Z.inj_div; simpl (Z.of_nat 2); lia).
  replace (Z.of_nat (n / 2 - m) + 0 - Z.of_nat n / 2)%Z with (- Z.of_nat m)%Z
    by (rewrite Nat2Z.inj_sub, Nat2Z.inj_div by lia; simpl (Z.of_nat 2); lia).
  replace (- Z.of_nat m * - Z.of_nat m)%Z with (Z.of_nat m * Z.of_nat m)%Z by ring. reflexivity.
Qed.

Theorem defocus_fixed_1d_props n r P : r <> 0%Qc -> defocus_psf_1d true n r = Some P ->
  qsum P = 1%Qc /\ length P = n /\
  forall m, (m <= n / 2)%nat -> (n / 2 + m < n)%nat -> nth (n / 2 + m) P 0%Qc = nth (n / 2 - m) P 0%Qc.
Proof.
  intros Hr. unfold defocus_psf_1d.
  destruct (qc_eqb r 0%Qc) eqn:E; [apply qc_eqb_eq in E; contradiction|].
  cbn [defocus_off]. intros H.
  destruct (normalize_sum_one _ _ H) as [H1 H2]. split; [exact H1|].
  split; [rewrite H2, map_length, seq_length; reflexivity|].
  intros m Hm1 Hm2. clear H1 H2 E. revert H. unfold normalize.
  destruct (qc_eqb (qsum _) _); [discriminate|]. intros H. inversion H; subst.
  rewrite !nth_map_div. f_equal. apply (defocus_fixed_raw_sym n r m Hm1 Hm2).
Qed.

(* radius 0 after the repair: the delta at the centre index (the blurring matrix is the identity) *)
Theorem defocus_fixed_zero n : (0 < n)%nat ->
  exists P, defocus_psf_1d true n 0%Qc = Some P /\ nth (n / 2) P 0%Qc = 1%Qc /\
  forall i, (i < n)%nat -> i <> (n / 2)%nat -> nth i P 0%Qc = 0%Qc.
Proof.
  intros Hn. unfold defocus_psf_1d. cbn [qc_eqb]. change (qc_eqb 0%Qc 0%Qc) with true. cbv iota.
  eexists. split; [reflexivity|]. split.
  - rewrite (nth_map_seq _ n (n / 2)) by (apply Nat.div_lt; lia).
    rewrite Nat2Z.inj_div. simpl (Z.of_nat 2). rewrite Z.eqb_refl. reflexivity.
  - intros i Hi Hne. rewrite (nth_map_seq _ n i _ Hi).
    destruct (Z.of_nat i =? Z.of_nat n / 2)%Z eqn:E; [|reflexivity].
    apply Z.eqb_eq in E. exfalso. apply Hne. apply Nat2Z.inj. rewrite Nat2Z.inj_div. exact E.
Qed.

(* ---------------- built-in legacy rows: h ++ flipud(h[1:-1]) is a symmetric circulant row ---------------- *)
Section LegRow.
Variable R : Type.
Variable r0 : R.

Lemma removelast_length {B} (l : list B) : length (removelast l) = (length l - 1)%nat.
Proof. induction l as [|a [|b l] IH]; simpl in *; try reflexivity. rewrite IH. lia. Qed.

Lemma nth_removelast {B} (l : list B) i d : (i < length l - 1)%nat -> nth i (removelast l) d = nth i l d.
Proof.
  revert i; induction l as [|a [|b l] IH]; intros i H; simpl in *; try lia.
  destruct i; [reflexivity|]. apply IH. simpl. lia.
Qed.

(* hh has h+1 entries (grid 0..dim/2); the full row has 2h entries and row[m] = row[2h - m] *)
Theorem legacy_full_row_symmetric (hh : list R) h m : length hh = S h -> (0 < h)%nat -> (0 < m < 2 * h)%nat ->
  length (legacy_full_row hh) = (2 * h)%nat /\
  nth m (legacy_full_row hh) r0 = nth (2 * h - m) (legacy_full_row hh) r0.
Proof.
  intros HL Hh Hm. unfold legacy_full_row.
  destruct hh as [|a t]; [discriminate|]. simpl in HL. injection HL as HL. cbn [tl].
  assert (Hrl : length (rev (removelast t)) = (h - 1)%nat) by (rewrite rev_length, removelast_length; lia).
  split; [rewrite app_length, Hrl; simpl; lia|].
  assert (G : forall k, (0 < k <= h)%nat -> nth (2 * h - k) ((a :: t) ++ rev (removelast t)) r0 = nth k ((a :: t) ++ rev (removelast t)) r0).
  { intros k Hk. destruct (Nat.eq_dec k h) as [->|Hne]; [f_equal; lia|].
    rewrite (app_nth1 _ _ _ (n := k)) by (simpl; lia).
    rewrite app_nth2 by (simpl; lia). simpl (length (a :: t)).
    rewrite rev_nth by (rewrite removelast_length; lia). rewrite removelast_length.
    rewrite nth_removelast by lia.
    destruct k as [|k]; [lia|]. cbn [nth]. f_equal. lia. }
  destruct (Nat.le_gt_cases m h) as [L|L].
  - symmetry. apply G. lia.
  - replace m with (2 * h - (2 * h - m))%nat at 1 by lia. apply G. lia.
Qed.
End LegRow.

(* ---------------- constructor arguments: supplied values are used as supplied ---------------- *)
From CV Require Import Model.C17_More.
Lemma with_default_spec {A} (supplied : option A) (d : A) :
  (forall v, supplied = Some v -> with_default supplied d = v) /\ (supplied = None -> with_default supplied d = d).
Proof. split; [intros v -> | intros ->]; reflexivity. Qed.

Lemma cubic_args_respected (a : cubic_args) :
  (forall v, ca_data a = Some v -> cp_data (cubic_construct a) = v) /\
  (ca_data a = None -> cp_data (cubic_construct a) = 1%Qc) /\
  (forall s, ca_noise_std a = Some s -> cp_cov (cubic_construct a) = (s * s)%Qc) /\
  (ca_noise_std a = None -> cp_cov (cubic_construct a) = 1%Qc).
Proof.
  destruct a as [ns da]; cbn. repeat split.
  - intros v ->. reflexivity.
  - intros ->. reflexivity.
  - intros s ->. reflexivity.
  - intros ->. cbn. apply Qc_is_canon. reflexivity.
Qed.

(* a map given to a PDE/Abel test problem is never dropped: the domain geometry is a MappedGeometry for every
   field_type, names and instances alike, and wraps the class selected by field_type *)
Lemma domain_geometry_mapped_iff (f : ftype) (has_map : bool) :
  fst (fst (domain_geometry_desc f has_map)) = has_map /\
  snd (fst (domain_geometry_desc f has_map)) = gclass_code (base_class f) /\
  (forall c, f = FInstance c -> snd (domain_geometry_desc f has_map) = true /\ base_class f = c).
Proof.
  split; [reflexivity|]. split; [reflexivity|]. intros c Hc. subst f. split; reflexivity.
Qed.

(* the point the model takes as vonMises maximum is a mesh point of minimal modulus *)
Lemma argmin_abs_spec (l : list Q) (d : Q) :
  (argmin_abs l d = d \/ In (argmin_abs l d) l) /\ (Qabs (argmin_abs l d) <= Qabs d)%Q /\
  (forall x, In x l -> (Qabs (argmin_abs l d) <= Qabs x)%Q).
Proof.
  revert d. induction l as [|a l IH]; intros d.
  - cbn. split; [left; reflexivity|]. split; [apply Qle_refl | intros x []].
  - unfold argmin_abs in *. cbn [fold_left].
    set (d' := if Qle_bool (Qabs d) (Qabs a) then d else a).
    destruct (IH d') as [H1 [H2 H3]].
    assert (Hd : (Qabs d' <= Qabs d)%Q /\ (Qabs d' <= Qabs a)%Q /\ (d' = d \/ d' = a)).
    { unfold d'. destruct (Qle_bool (Qabs d) (Qabs a)) eqn:E.
      - apply Qle_bool_iff in E. split; [apply Qle_refl|]. split; [exact E | left; reflexivity].
      - assert (L : (Qabs a < Qabs d)%Q).
        { apply Qnot_le_lt. intro C. apply Qle_bool_iff in C. congruence. }
        split; [apply Qlt_le_weak; exact L|]. split; [apply Qle_refl | right; reflexivity]. }
    destruct Hd as [Hd1 [Hd2 Hd3]].
    split; [|split].
    + destruct H1 as [H1|H1]; [rewrite H1; destruct Hd3 as [->| ->]; [left; reflexivity | right; left; reflexivity] | right; right; exact H1].
    + eapply Qle_trans; [exact H2 | exact Hd1].
    + intros x [<-|Hx]; [eapply Qle_trans; [exact H2 | exact Hd2] | apply H3; exact Hx].
Qed.

(* the Heat1D step count taken from the implementation is accepted only inside the bracket
   r (1 - 2^-40) - 1 < steps <= r (1 + 2^-40),  r = max_time / ((5/11) dx^2)  (the exact ratio whose float floor the code takes) *)
Lemma heat_steps_bracket N ep T steps : heat_steps_ok N ep T steps = true ->
  (zq (Z.of_nat steps) <= heat_ratio N ep T * (1 + fuzz))%Qc /\
  (heat_ratio N ep T * (1 - fuzz) < zq (Z.of_nat steps) + 1)%Qc.
Proof.
  unfold heat_steps_ok. intros H. apply andb_true_iff in H as [H1 H2].
  apply Qle_bool_iff in H1. apply negb_true_iff in H2.
  split; [exact H1|].
  unfold Qclt. apply Qnot_le_lt. intro C. apply Qle_bool_iff in C. congruence.
Qed.
