(* C16 -- every exit path of the CGLS / PCGLS loop has a postcondition.
   `while (k < maxit) and (flag == 0)` with flag = (norms <= norms0*tol) or (normx*tol >= 1) can be left in exactly three ways:
     (R) the residual clause holds at the returned iterate;
     (X) the residual clause FAILS and the absolute clause |x| tol >= 1 holds there  (finding: returned like a converged run);
     (M) the iteration cap: k = maxit and both clauses fail at x_k (or maxit = 0 and x = x0);
   and in every case both clauses failed at all earlier iterates 1..k-1 (first exit).  Over any commutative ring, any comparison. *)
From CV Require Import Base.Tac Base.LinAlg Model.C16_Solve Proofs.C16_CG Proofs.C16_Spec.
From Coq Require Import Ring.

Section ExitLoop.
Variable T : Type.
Variables (t0 t1 : T) (tadd tmul : T -> T -> T).
Variable tleb : T -> T -> bool.
Variable step : cg_state T -> cg_state T.
Local Notation cg_loop := (cg_loop T t0 t1 tadd tmul tleb step).
Local Notation cg_stop := (cg_stop T t0 t1 tadd tmul tleb).

Fixpoint itn (k : nat) (st : cg_state T) : cg_state T := match k with O => st | S k' => step (itn k' st) end.
Lemma itn_shift k st : itn (S k) st = itn k (step st).
Proof. induction k as [|k IH]; [reflexivity|]. cbn [itn] in *. rewrite IH. reflexivity. Qed.

Lemma cg_loop_exit fuel : forall k tol g0 st x k',
  cg_loop fuel k tol g0 st = (x, k') ->
  exists j, k' = (k + j)%nat /\ (j <= fuel)%nat /\ x = cg_x T (itn j st) /\ (0 < fuel -> 0 < j)%nat /\
            (forall i, (0 < i < j)%nat -> cg_stop tol g0 (itn i st) = false) /\
            ((j < fuel)%nat -> cg_stop tol g0 (itn j st) = true).
Proof.
  induction fuel as [|f IH]; intros k tol g0 st x k' H; cbn [C16_Solve.cg_loop] in H.
  - inv H. exists 0%nat. repeat split; try lia.
  - destruct (cg_stop tol g0 (step st)) eqn:E.
    + inv H. exists 1%nat. repeat split; try lia. intros _. exact E.
    + apply IH in H as (j & -> & Hj & -> & Hpos & Hbefore & Hstop).
      exists (S j). rewrite itn_shift. repeat split; try lia.
      * intros i Hi. destruct i as [|i]; [lia|]. rewrite itn_shift.
        destruct i as [|i]; [exact E | apply Hbefore; lia].
      * intros Hlt. apply Hstop. lia.
Qed.
End ExitLoop.

Section Exit.
Variable T : Type.
Variables (t0 t1 : T) (tadd tmul tsub : T -> T -> T) (topp : T -> T).
Hypothesis Tth : ring_theory t0 t1 tadd tmul tsub topp (@eq T).
Variable tdiv : T -> T -> T.
Variable tleb : T -> T -> bool.
Variable teps : T.
Variables (n m : nat) (fwd adj : list T -> list T) (b : list T).
Hypothesis OP : linear_op T tadd tmul n m fwd adj.
Hypothesis b_len : length b = m.

Local Notation Nsq := (normsq t0 tadd tmul).

(* the three exits, for a residual function `res` (normal-equation residual / preconditioned residual) *)
Definition exit_paths (res : list T -> list T) (iterx : nat -> list T) (x0 : list T) (maxit : nat) (tol : T) (x : list T) (k : nat) : Prop :=
  let res_ok := fun v => tleb (Nsq (res v)) (tmul (Nsq (res x0)) (tmul tol tol)) in
  let normx := fun v => tleb t1 (tmul (Nsq v) (tmul tol tol)) in
  x = iterx k /\ (k <= maxit)%nat /\ ((0 < maxit)%nat -> (0 < k)%nat) /\
  (forall j, (0 < j < k)%nat -> res_ok (iterx j) = false /\ normx (iterx j) = false) /\
  (((0 < k)%nat /\ res_ok x = true) \/
   ((0 < k)%nat /\ res_ok x = false /\ normx x = true) \/
   (k = maxit /\ (k = 0%nat \/ (res_ok x = false /\ normx x = false)))).

Lemma exit_paths_of_loop (step : cg_state T -> cg_state T) (res : list T -> list T) st0 x0 maxit tol x k :
  cg_x T st0 = x0 -> cg_gamma T st0 = Nsq (res x0) ->
  (forall j, cg_gamma T (itn T step j st0) = Nsq (res (cg_x T (itn T step j st0)))) ->
  cg_loop T t0 t1 tadd tmul tleb step maxit 0 tol (cg_gamma T st0) st0 = (x, k) ->
  exit_paths res (fun j => cg_x T (itn T step j st0)) x0 maxit tol x k.
Proof.
  intros Hx0 Hg0 Hg H. apply cg_loop_exit in H as (j & -> & Hj & -> & Hpos & Hbefore & Hstop). cbn [Nat.add].
  assert (Hst : forall i, C16_Solve.cg_stop T t0 t1 tadd tmul tleb tol (cg_gamma T st0) (itn T step i st0) =
                          tleb (Nsq (res (cg_x T (itn T step i st0)))) (tmul (Nsq (res x0)) (tmul tol tol))
                          || tleb t1 (tmul (Nsq (cg_x T (itn T step i st0))) (tmul tol tol))).
  { intros i. unfold C16_Solve.cg_stop. rewrite Hg, Hg0. reflexivity. }
  unfold exit_paths. cbn zeta. split; [reflexivity|]. split; [exact Hj|]. split; [exact Hpos|]. split.
  - intros i Hi. specialize (Hbefore i Hi). rewrite Hst in Hbefore. apply orb_false_iff in Hbefore. exact Hbefore.
  - destruct (tleb (Nsq (res (cg_x T (itn T step j st0)))) (tmul (Nsq (res x0)) (tmul tol tol))) eqn:E1.
    + destruct j as [|j]; [ | left; split; [lia | reflexivity]].
      right. right. split; [ | left; reflexivity]. destruct maxit; [reflexivity | specialize (Hpos ltac:(lia)); lia].
    + destruct (tleb t1 (tmul (Nsq (cg_x T (itn T step j st0))) (tmul tol tol))) eqn:E2.
      * destruct j as [|j]; [ | right; left; split; [lia | split; reflexivity]].
        right. right. split; [ | left; reflexivity]. destruct maxit; [reflexivity | specialize (Hpos ltac:(lia)); lia].
      * right. right. split; [ | right; split; reflexivity].
        destruct (Nat.eq_dec j maxit) as [|Hne]; [assumption|]. specialize (Hstop ltac:(lia)). rewrite Hst, E1, E2 in Hstop. discriminate.
Qed.

Lemma itn_cgls shift k st : itn T (cgls_step T t0 tadd tmul tsub tdiv tleb teps fwd adj shift) k st = cgls_iter T t0 tadd tmul tsub tdiv tleb teps fwd adj shift k st.
Proof. induction k as [|k IH]; [reflexivity|]. cbn [itn cgls_iter]. rewrite IH. reflexivity. Qed.

Lemma itn_pcgls pinv pinvT k st : itn T (pcgls_step T t0 tadd tmul tsub tdiv tleb teps fwd adj pinv pinvT) k st = pcgls_iter T t0 tadd tmul tsub tdiv tleb teps fwd adj pinv pinvT k st.
Proof. induction k as [|k IH]; [reflexivity|]. cbn [itn pcgls_iter]. rewrite IH. reflexivity. Qed.

Theorem cgls_exit_paths shift x0 maxit tol x k : length x0 = n ->
  cgls_solve T t0 t1 tadd tmul tsub tdiv tleb teps fwd adj b shift x0 maxit tol = (x, k) ->
  exit_paths (fun v => vsub tsub (adj (vsub tsub b (fwd v))) (vscale tmul shift v))
             (fun j => cg_x T (cgls_iter T t0 tadd tmul tsub tdiv tleb teps fwd adj shift j (cgls_init T t0 tadd tmul tsub fwd adj b shift x0)))
             x0 maxit tol x k.
Proof.
  destruct OP as (H1 & H2 & H3 & H4). intros Hx0 H. unfold cgls_solve in H.
  set (st0 := cgls_init T t0 tadd tmul tsub fwd adj b shift x0) in *.
  pose proof (exit_paths_of_loop (cgls_step T t0 tadd tmul tsub tdiv tleb teps fwd adj shift)
                (fun v => vsub tsub (adj (vsub tsub b (fwd v))) (vscale tmul shift v)) st0 x0 maxit tol x k) as P.
  assert (Hinv : forall j, cgls_inv T t0 tadd tmul tsub n fwd adj b shift (cgls_iter T t0 tadd tmul tsub tdiv tleb teps fwd adj shift j st0)).
  { intros j. apply (cgls_iter_inv T t0 t1 tadd tmul tsub topp Tth tdiv tleb teps n m fwd adj H1 H2 H3 H4 b shift b_len).
    eapply cgls_init_inv; eassumption. }
  assert (Q : exit_paths (fun v => vsub tsub (adj (vsub tsub b (fwd v))) (vscale tmul shift v))
                (fun j => cg_x T (itn T (cgls_step T t0 tadd tmul tsub tdiv tleb teps fwd adj shift) j st0)) x0 maxit tol x k).
  { apply P; try reflexivity; [ | exact H].
    intros j. rewrite itn_cgls. destruct (Hinv j) as (_ & _ & _ & Hs & Hg). rewrite Hg, Hs. reflexivity. }
  unfold exit_paths in *. cbn zeta in *. destruct Q as (Q1 & Q2 & Q3 & Q4 & Q5). rewrite itn_cgls in Q1.
  split; [exact Q1|]. split; [exact Q2|]. split; [exact Q3|]. split; [ | exact Q5].
  intros j Hj. specialize (Q4 j Hj). rewrite itn_cgls in Q4. exact Q4.
Qed.

Theorem pcgls_exit_paths pinv pinvT shift x0 maxit tol x k :
  (forall y, length y = n -> length (pinv y) = n) -> (forall y, length y = n -> length (pinvT y) = n) ->
  length x0 = n ->
  pcgls_solve T t0 t1 tadd tmul tsub tdiv tleb teps fwd adj b pinv pinvT shift x0 maxit tol = (x, k) ->
  exit_paths (fun v => pinvT (adj (vsub tsub b (fwd v))))
             (fun j => cg_x T (pcgls_iter T t0 tadd tmul tsub tdiv tleb teps fwd adj pinv pinvT j (pcgls_init T t0 tadd tmul tsub fwd adj b pinvT x0)))
             x0 maxit tol x k.
Proof.
  destruct OP as (H1 & H2 & H3 & H4). intros Hp1 Hp2 Hx0 H. unfold pcgls_solve in H.
  set (st0 := pcgls_init T t0 tadd tmul tsub fwd adj b pinvT x0) in *.
  pose proof (exit_paths_of_loop (pcgls_step T t0 tadd tmul tsub tdiv tleb teps fwd adj pinv pinvT)
                (fun v => pinvT (adj (vsub tsub b (fwd v)))) st0 x0 maxit tol x k) as P.
  assert (Hinv : forall j, pcgls_inv T t0 tadd tmul tsub n fwd adj b pinvT (pcgls_iter T t0 tadd tmul tsub tdiv tleb teps fwd adj pinv pinvT j st0)).
  { intros j. apply (pcgls_iter_inv T t0 t1 tadd tmul tsub topp Tth tdiv tleb teps n m fwd adj H1 H2 H3 H4 b b_len pinv pinvT Hp1 Hp2).
    eapply pcgls_init_inv; eassumption. }
  assert (Q : exit_paths (fun v => pinvT (adj (vsub tsub b (fwd v))))
                (fun j => cg_x T (itn T (pcgls_step T t0 tadd tmul tsub tdiv tleb teps fwd adj pinv pinvT) j st0)) x0 maxit tol x k).
  { apply P; try reflexivity; [ | exact H].
    intros j. rewrite itn_pcgls. destruct (Hinv j) as (_ & _ & _ & Hs & Hg). rewrite Hg, Hs. reflexivity. }
  unfold exit_paths in *. cbn zeta in *. destruct Q as (Q1 & Q2 & Q3 & Q4 & Q5). rewrite itn_pcgls in Q1.
  split; [exact Q1|]. split; [exact Q2|]. split; [exact Q3|]. split; [ | exact Q5].
  intros j Hj. specialize (Q4 j Hj). rewrite itn_pcgls in Q4. exact Q4.
Qed.
End Exit.

(* what exit (X) says over an ordered carrier: the point is large, |x| >= 1/|tol|, and NOT converged: |res x| > |tol| |res x0| *)
From Coq Require Import Reals Lra.
Lemma normx_exit_reading (T : Type) (t0 t1 : T) (tadd tmul tsub : T -> T -> T) (topp : T -> T) (tleb : T -> T -> bool) (phi : T -> R) :
  embedding T t0 t1 tadd tmul tsub topp tleb phi ->
  forall (res : list T -> list T) (x0 x : list T) (tol : T),
  tleb (normsq t0 tadd tmul (res x)) (tmul (normsq t0 tadd tmul (res x0)) (tmul tol tol)) = false ->
  tleb t1 (tmul (normsq t0 tadd tmul x) (tmul tol tol)) = true ->
  (phi tol <> 0 /\ 0 < phi (normsq t0 tadd tmul x) /\
   / (phi tol * phi tol) <= phi (normsq t0 tadd tmul x) /\
   phi (normsq t0 tadd tmul (res x0)) * (phi tol * phi tol) < phi (normsq t0 tadd tmul (res x)))%R.
Proof.
  intros (E0 & E1 & Ea & Em & Es & Eo & El) res x0 x tol H1 H2.
  apply El in H2. rewrite E1, !Em in H2.
  assert (H1' : (phi (normsq t0 tadd tmul (res x0)) * (phi tol * phi tol) < phi (normsq t0 tadd tmul (res x)))%R).
  { apply Rnot_le_lt. intros Hle. rewrite <- !Em in Hle. apply El in Hle. congruence. }
  assert (Ht : phi tol <> 0%R) by (intros Ez; rewrite Ez in H2; lra).
  assert (Ht2 : (0 < phi tol * phi tol)%R) by nra.
  assert (Hx : (0 < phi (normsq t0 tadd tmul x))%R) by nra.
  repeat split; try assumption.
  apply (Rmult_le_reg_r (phi tol * phi tol)); [exact Ht2|]. rewrite Rinv_l by lra. exact H2.
Qed.

(* non-vacuity: the three exits are all realised by the model at Qc on the 3x2 matrix: (R) tol = 1e-6, maxit 10 (k = 2);
   (X) b = 1e9 [1,2,3], tol = 1e-6 (k = 1 < 10, residual clause false, |x| tol >= 1); (M) tol = 0, maxit = 1 (k = 1, both false) *)
From CV Require Import Base.QcLin Base.Cmp.
From Coq Require Import QArith Qcanon.
Lemma exit_paths_nonvacuous_ex :
  let A := qmat ((1 :: 0 :: nil) :: (0 :: 2 :: nil) :: (1 :: 1 :: nil) :: nil)%Q in
  let fwd := qmatvec A in let adj := qmattvec 2 A in
  let x0 := qvec (0 :: 0 :: nil)%Q in
  let res := fun b v => ne_residual 2 A b 0%Qc v in
  let res_ok := fun b tol v => qc_leb (qnormsq (res b v)) (qnormsq (res b x0) * (tol * tol))%Qc in
  let normx := fun tol v => qc_leb 1%Qc (qnormsq v * (tol * tol))%Qc in
  let b1 := qvec (1 :: 2 :: 3 :: nil)%Q in let b2 := qvec (1000000000 :: 2000000000 :: 3000000000 :: nil)%Q in
  let tol := qc (1 # 1000000) in
  (exists x, q_cgls_solve fwd adj b1 0%Qc x0 10 tol = (x, 2%nat) /\ res_ok b1 tol x = true) /\
  (exists x, q_cgls_solve fwd adj b2 0%Qc x0 10 tol = (x, 1%nat) /\ res_ok b2 tol x = false /\ normx tol x = true) /\
  (exists x, q_cgls_solve fwd adj b1 0%Qc x0 1 0%Qc = (x, 1%nat) /\ res_ok b1 0%Qc x = false /\ normx 0%Qc x = false).
Proof.
  cbn zeta. split; [ | split].
  - eexists. split; [vm_compute; reflexivity | vm_compute; reflexivity].
  - eexists. split; [vm_compute; reflexivity | split; vm_compute; reflexivity].
  - eexists. split; [vm_compute; reflexivity | split; vm_compute; reflexivity].
Qed.
