(* C08 -- dual averaging of the step size (NUTS.tune of cuqi.experimental.mcmc, the adaptation block of
   cuqi.sampler.NUTS._sample) over the reals, as the code computes it.  No proofs here.
     k = update_count + 1;  eta1 = 1/(k + t_0);  H_bar = (1 - eta1) H_bar + eta1 (delta - alpha)
     epsilon = exp(mu - (sqrt k / gamma) H_bar);  eta = k^(-kappa)
     epsilon_bar = exp(eta log epsilon + (1 - eta) log epsilon_bar)
   with gamma = 0.05, t_0 = 10, kappa = 0.75, mu = log(10 epsilon_0), H_bar_0 = 0, epsilon_bar_0 = 1. *)
From Coq Require Import Reals List ZArith.
Import ListNotations.
Local Open Scope R_scope.

Record da := mkDA { da_H : R; da_eps : R; da_bar : R }.

Definition da_gamma : R := 5 / 100.
Definition da_t0 : R := 10.
Definition da_kappa : R := 3 / 4.

Definition da_step (mu delta : R) (s : da) (ka : Z * R) : da :=
  let kr := IZR (fst ka) in
  let eta1 := 1 / (kr + da_t0) in
  let H' := (1 - eta1) * da_H s + eta1 * (delta - snd ka) in
  let e' := exp (mu - sqrt kr / da_gamma * H') in
  let eta := exp (- da_kappa * ln kr) in                      (* k ** (-kappa) *)
  mkDA H' e' (exp (eta * ln e' + (1 - eta) * ln (da_bar s))).

Fixpoint da_run (mu delta : R) (s : da) (l : list (Z * R)) : da :=
  match l with
  | [] => s
  | ka :: r => da_run mu delta (da_step mu delta s ka) r
  end.

(* the acceptance statistics alpha_k with their iteration numbers k, k+1, ... *)
Fixpoint numbered (k : Z) (al : list R) : list (Z * R) :=
  match al with [] => [] | a :: r => (k, a) :: numbered (k + 1) r end.

Definition da_init (eps0 : R) : da := mkDA 0 eps0 1.
Definition da_mu (eps0 : R) : R := ln (10 * eps0).
(* the adaptation state after the statistics alpha_1 .. alpha_n, starting from step size eps0 *)
Definition da_after (eps0 delta : R) (al : list R) : da := da_run (da_mu eps0) delta (da_init eps0) (numbered 1 al).

(* the two closed forms the generated cases evaluate (Proofs/C08_TuneR.v proves they are da_after's components):
   the step size after n statistics, and one update of epsilon_bar *)
Definition dsum (delta : R) (al : list R) : R := fold_right (fun a s => (delta - a) + s) 0 al.
Definition da_eps_closed (eps0 delta : R) (n : Z) (al : list R) : R :=
  exp (da_mu eps0 - sqrt (IZR n) / da_gamma * (dsum delta al / (IZR n + da_t0))).
Definition da_bar_step (k : Z) (eps_k bar_prev : R) : R :=
  exp (exp (- da_kappa * ln (IZR k)) * ln eps_k + (1 - exp (- da_kappa * ln (IZR k))) * ln bar_prev).
