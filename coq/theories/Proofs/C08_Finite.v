(* C08 -- finite state spaces.  On a finite state space on which the two directions of the integrator undo each other
   every orbit closes (pigeonhole), so C08_Closed.closed_orbit_stationary applies to the orbit of every target state, and
   states on other orbits cannot reach it: the uniform distribution on the slice {s : log u <= H(s)} of the WHOLE state
   space is invariant under the transition.  Then the step over the slice variable, as far as it is a finite sum: the
   transition depends on log u only through the slice and divergence tests (finitely many level sets), and for any finite
   family of levels with masses lambda_j the measure pi(s) = sum_j lambda_j [s in slice_j] is invariant under the mixture. *)
From CV Require Import Base.Tac Base.Cmp Base.Ext Model.C08_NUTS Proofs.C08_Prog Proofs.C08_Tree Proofs.C08_Top Proofs.C08_Law
                       Proofs.C08_Orbit Proofs.C08_Block Proofs.C08_Alive Proofs.C08_Sim Proofs.C08_Cycle Proofs.C08_SliceTop
                       Proofs.C08_Closed.
From Coq Require Import QArith Lqa Wf_nat.

(* ---------------- sums over lists ---------------- *)
Definition ssum {T} (g : T -> Q) (l : list T) : Q := fold_right (fun s acc => g s + acc) 0 l.

Lemma ssum_cons {T} (g : T -> Q) a l : ssum g (a :: l) = g a + ssum g l.
Proof. reflexivity. Qed.

Lemma ssum_ext {T} (g h : T -> Q) l : (forall s, In s l -> g s == h s) -> ssum g l == ssum h l.
Proof.
  induction l as [|a l IH]; intros Hx; [reflexivity|]. rewrite !ssum_cons, (Hx a (or_introl eq_refl)), IH; [reflexivity|].
  intros s Hs. apply Hx. right. exact Hs.
Qed.

Lemma ssum_zero {T} (g : T -> Q) l : (forall s, In s l -> g s == 0) -> ssum g l == 0.
Proof.
  induction l as [|a l IH]; intros Hx; [reflexivity|]. rewrite ssum_cons, (Hx a (or_introl eq_refl)), IH; [ring|].
  intros s Hs. apply Hx. right. exact Hs.
Qed.

Lemma ssum_plus {T} (g h : T -> Q) l : ssum (fun s => g s + h s) l == ssum g l + ssum h l.
Proof. induction l as [|a l IH]; [reflexivity | rewrite !ssum_cons, IH; ring]. Qed.

Lemma ssum_scale {T} c (g : T -> Q) l : ssum (fun s => c * g s) l == c * ssum g l.
Proof. induction l as [|a l IH]; [cbn; ring | rewrite !ssum_cons, IH; ring]. Qed.

Lemma ssum_swap {T T'} (f : T -> T' -> Q) l1 l2 :
  ssum (fun a => ssum (fun b => f a b) l2) l1 == ssum (fun b => ssum (fun a => f a b) l1) l2.
Proof.
  induction l1 as [|a l1 IH].
  - symmetry. apply ssum_zero. reflexivity.
  - rewrite ssum_cons, IH, <- ssum_plus. reflexivity.
Qed.

Lemma ssum_map_zr {T} (g : T -> Q) (phi : Z -> T) l : ssum g (map phi l) == qs (fun i => g (phi i)) l.
Proof. induction l as [|a l IH]; [reflexivity | cbn [map]; rewrite ssum_cons, qs_cons, IH; reflexivity]. Qed.

Section SumSub.
Variable T : Type.
Hypothesis eq_dec : forall a b : T, {a = b} + {a <> b}.

Lemma ssum_remove (g : T -> Q) a : forall l, NoDup l -> In a l -> ssum g l == g a + ssum g (remove eq_dec a l).
Proof.
  induction l as [|b l IH]; intros ND Hin; [destruct Hin|].
  inversion ND as [|b' l' Hnb ND']; subst. cbn [remove]. destruct (eq_dec a b) as [E | E].
  - subst b. rewrite ssum_cons, (notin_remove eq_dec l a Hnb). reflexivity.
  - destruct Hin as [E' | Hin]; [congruence|]. rewrite !ssum_cons, (IH ND' Hin). ring.
Qed.

Lemma NoDup_remove_dec a : forall l : list T, NoDup l -> NoDup (remove eq_dec a l).
Proof.
  induction l as [|b l IH]; intros ND; [constructor|]. inversion ND as [|b' l' Hnb ND']; subst. cbn.
  destruct (eq_dec a b); [apply IH, ND'|]. constructor; [|apply IH, ND'].
  intros Hin. apply in_remove in Hin. tauto.
Qed.

(* a sum over l is the sum over a duplicate-free sub-list outside which the summand vanishes *)
Lemma ssum_sub (g : T -> Q) : forall l' l, NoDup l -> NoDup l' -> incl l' l ->
  (forall s, In s l -> ~ In s l' -> g s == 0) -> ssum g l == ssum g l'.
Proof.
  induction l' as [|a l' IH]; intros l ND ND' Hi Hz.
  - apply ssum_zero. intros s Hs. apply Hz; [exact Hs | intros []].
  - inversion ND' as [|a' l'' Hna ND'']; subst.
    rewrite (ssum_remove g a l ND (Hi a (or_introl eq_refl))), ssum_cons.
    rewrite (IH (remove eq_dec a l)); [reflexivity | apply NoDup_remove_dec, ND | exact ND'' | |].
    + intros s Hs. apply in_in_remove; [intros ->; contradiction | apply Hi; right; exact Hs].
    + intros s Hs Hn. apply in_remove in Hs as [Hs Hne]. apply Hz; [exact Hs|]. intros [E | Hin]; [congruence | contradiction].
Qed.
End SumSub.

Lemma NoDup_map_inj_on {A B} (f : A -> B) : forall l, (forall x y, In x l -> In y l -> f x = f y -> x = y) ->
  NoDup l -> NoDup (map f l).
Proof.
  induction l as [|a l IH]; intros Hinj ND; [constructor|]. inversion ND as [|a' l' Hna ND']; subst. cbn. constructor.
  - intros Hin. apply in_map_iff in Hin as (x & Ex & Hx). apply Hna.
    rewrite <- (Hinj x a (or_intror Hx) (or_introl eq_refl) Ex). exact Hx.
  - apply IH; [|exact ND']. intros x y Hx Hy. apply Hinj; right; assumption.
Qed.

(* ---------------- the transition depends on log u only through the two tests ---------------- *)
Section Level.
Variable S : Type.
Variable leap : bool -> S -> S.
Variables ham lgd : S -> ext.
Variable uturn : S -> S -> bool.
Variable alpha : S -> Q.
Variables logu logu' : ext.
Hypothesis Esl : forall s, in_slice S ham logu' s = in_slice S ham logu s.
Hypothesis End_ : forall s, not_diverged S ham logu' s = not_diverged S ham logu s.

Theorem build_level : forall j s v,
  peq (build S leap ham uturn alpha logu' s v j) (build S leap ham uturn alpha logu s v j).
Proof.
  induction j as [|j IH]; intros s v.
  - cbn. rewrite Esl, End_. reflexivity.
  - cbn [build]. apply peq_bind; [apply IH|]. intros t1. destruct (t_ok t1); [|apply peq_refl].
    apply peq_bind; [apply IH|]. intros t2. apply peq_refl.
Qed.

Theorem transition_level guard md s0 :
  peq (transition S leap ham lgd uturn alpha logu' guard md s0) (transition S leap ham lgd uturn alpha logu guard md s0).
Proof.
  unfold transition. generalize (top_init s0). generalize (Datatypes.S md).
  induction n as [|k IH]; intros st; cbn [doublings]; [reflexivity|].
  destruct (p_s st); cbn [negb]; [|reflexivity].
  apply peq_bind; [|intros st1; apply IH].
  unfold doubling. cbn [peq]. repeat split. intros v. unfold doubling_dir.
  apply peq_bind; [apply build_level|]. intros t. apply peq_refl.
Qed.
End Level.

(* ---------------- finite state spaces ---------------- *)
Section Finite.
Variable S : Type.
Variable leap : bool -> S -> S.
Hypothesis leap_back : forall v s, leap (negb v) (leap v s) = s.
Variable eqb : S -> S -> bool.
Hypothesis eqb_spec : forall a b, eqb a b = true <-> a = b.
Variable states : list S.
Hypothesis states_nd : NoDup states.
Hypothesis states_all : forall s, In s states.

Notation F := (leap true).
Notation TrueInv := (fun _ : S => True).

Lemma S_eq_dec : forall a b : S, {a = b} + {a <> b}.
Proof.
  intros a b. destruct (eqb a b) eqn:E; [left; apply eqb_spec, E | right].
  intros ->. assert (eqb b b = true) by (apply eqb_spec; reflexivity). congruence.
Qed.

Lemma iter_add : forall a d (x : S), Nat.iter (a + d) F x = Nat.iter a F (Nat.iter d F x).
Proof.
  induction a as [|a IH]; intros d x; [reflexivity|].
  change (F (Nat.iter (a + d) F x) = F (Nat.iter a F (Nat.iter d F x))). rewrite IH. reflexivity.
Qed.

Lemma F_inj x y : F x = F y -> x = y.
Proof. intros E. rewrite <- (leap_back true x), <- (leap_back true y). cbn [negb]. rewrite E. reflexivity. Qed.

Lemma iter_inj : forall a x y, Nat.iter a F x = Nat.iter a F y -> x = y.
Proof.
  induction a as [|a IH]; intros x y E; [exact E|].
  change (F (Nat.iter a F x) = F (Nat.iter a F y)) in E. apply IH, F_inj, E.
Qed.

(* among h 0 .. h (m-1) either two coincide or all are distinct *)
Lemma repeat_or_nodup (h : nat -> S) : forall m,
  (exists a b, (a < b < m)%nat /\ h a = h b) \/ NoDup (map h (seq 0 m)).
Proof.
  induction m as [|m [(a & b & Hab & E) | ND]].
  - right. constructor.
  - left. exists a, b. split; [lia | exact E].
  - destruct (in_dec S_eq_dec (h m) (map h (seq 0 m))) as [Hin | Hnin].
    + left. apply in_map_iff in Hin as (a & Ea & Ha). apply in_seq in Ha. exists a, m. split; [lia | exact Ea].
    + right. rewrite seq_S, map_app. cbn [map plus].
      apply nodup_app; [exact ND | constructor; [intros [] | constructor] |].
      intros x Hx [<- | []]. contradiction.
Qed.

(* every orbit closes, and has a least period *)
Theorem orbit_closes (k : S) : exists N : nat,
  (0 < N)%nat /\ Nat.iter N F k = k /\ (forall n, (0 < n < N)%nat -> Nat.iter n F k <> k).
Proof.
  assert (Hex : exists n, (0 < n)%nat /\ Nat.iter n F k = k).
  { destruct (repeat_or_nodup (fun n => Nat.iter n F k) (Datatypes.S (length states))) as [(a & b & Hab & E) | ND].
    - exists (b - a)%nat. split; [lia|]. replace b with (a + (b - a))%nat in E by lia. rewrite iter_add in E.
      symmetry. exact (iter_inj a _ _ E).
    - exfalso.
      assert (Hi : incl (map (fun n => Nat.iter n F k) (seq 0 (Datatypes.S (length states)))) states) by (intros x _; apply states_all).
      pose proof (NoDup_incl_length ND Hi) as Hl. rewrite map_length, seq_length in Hl. lia. }
  set (P := fun n => (0 < n)%nat /\ Nat.iter n F k = k).
  assert (Pdec : forall n, {P n} + {~ P n}).
  { intros n. unfold P. destruct (lt_dec 0 n) as [Hn | Hn]; [|right; tauto].
    destruct (S_eq_dec (Nat.iter n F k) k) as [E | E]; [left; tauto | right; tauto]. }
  destruct (dec_inh_nat_subset_has_unique_least_element P (fun n => match Pdec n with left p => or_introl p | right q => or_intror q end) Hex)
    as (N & ((HN0 & HNk) & Hleast) & _).
  exists N. split; [exact HN0 | split; [exact HNk|]].
  intros n Hn E. assert (Pn : P n) by (split; [lia | exact E]). specialize (Hleast n Pn). lia.
Qed.

Variables ham lgd : S -> ext.
Variable uturn : S -> S -> bool.
Variable alpha : S -> Q.
Variable guard : bool.
Hypothesis Hfin : guard = false \/ (forall s, finite_logd S lgd s = true).

Notation P logu md s k := (dist (transition S leap ham lgd uturn alpha logu guard md s) (fun tp => if eqb (p_cur tp) k then 1 else 0)).

Lemma orb_leap_all s v i : leap v (orb S leap s i) = orb S leap s (zleap v i).
Proof. exact (orb_leap S leap TrueInv (fun _ _ _ => I) (fun v x _ => leap_back v x) s I v i). Qed.

(* the orbit map through a point of the orbit of s is the orbit map of s, shifted *)
Lemma orb_unique k (psi : Z -> S) : psi 0%Z = k -> (forall v j, leap v (psi j) = psi (zleap v j)) ->
  forall j, psi j = orb S leap k j.
Proof.
  intros E0 Hl j. pattern j. apply Z.peano_ind; clear j.
  - exact E0.
  - intros j IH. replace (Z.succ j) with (zleap true j) by (unfold zleap; lia). rewrite <- Hl, <- orb_leap_all, IH. reflexivity.
  - intros j IH. replace (Z.pred j) with (zleap false j) by (unfold zleap; lia). rewrite <- Hl, <- orb_leap_all, IH. reflexivity.
Qed.

Lemma orbit_sym s k i : orb S leap s i = k -> s = orb S leap k (- i)%Z.
Proof.
  intros E.
  pose proof (orb_unique k (fun j => orb S leap s (i + j)%Z)) as U. cbn beta in U.
  rewrite <- (U ltac:(rewrite Z.add_0_r; exact E)
               ltac:(intros v j; rewrite orb_leap_all; f_equal; unfold zleap; destruct v; lia) (- i)%Z).
  replace (i + - i)%Z with 0%Z by lia. reflexivity.
Qed.

(* the new state of a transition lies on the orbit of its start *)
Lemma transition_on_orbit logu md s :
  all_out (fun tp => exists i, p_cur tp = orb S leap s i) (transition S leap ham lgd uturn alpha logu guard md s).
Proof.
  eapply all_out_impl; [| apply (transition_states S leap ham lgd uturn alpha logu (fun x => exists i, x = orb S leap s i))].
  - intros tp (Hc & _). exact Hc.
  - intros v x (i & ->). exists (zleap v i). apply orb_leap_all.
  - exists 0%Z. reflexivity.
Qed.

(* INVARIANCE ON THE WHOLE FINITE STATE SPACE, one slice level *)
Theorem finite_stationary (logu : ext) :
  (forall s, in_slice S ham logu s = true -> not_diverged S ham logu s = true) ->
  forall (md : nat) (k : S), in_slice S ham logu k = true ->
  ssum (fun s => if in_slice S ham logu s then P logu md s k else 0) states == 1.
Proof.
  intros Hsl md k Hk.
  destruct (orbit_closes k) as (N & Npos & Hc & Hm).
  set (phi := orb S leap k).
  assert (Cl : (qs (fun i => if in_slice S ham logu (phi i)
                             then dist (transition S leap ham lgd uturn alpha logu guard md (phi i))
                                       (fun tp => b2q (eqb (p_cur tp) (phi 0%Z)))
                             else 0) (zr 0 N) == 1)%Q).
  { assert (Hfin' : guard = false \/ (forall i, finite_logd S lgd (orb S leap k i) = true))
      by (destruct Hfin as [Hf | Hf]; [left; exact Hf | right; intros i; apply Hf]).
    exact (closed_orbit_stationary S leap TrueInv (fun _ _ _ => I) (fun v s _ => leap_back v s) k I N Npos Hc Hm eqb eqb_spec
             ham lgd uturn alpha logu guard Hfin' (fun i => Hsl (orb S leap k i)) md 0%Z 0%Z Hk). }
  set (g := fun s => if in_slice S ham logu s then P logu md s k else 0).
  assert (Inj : forall i j, phi i = phi j -> ((i - j) mod Z.of_nat N = 0)%Z)
    by exact (phi_inj S leap TrueInv (fun _ _ _ => I) (fun v s _ => leap_back v s) k I N Npos Hc Hm eqb eqb_spec).
  assert (Per : forall q i, phi (i + q * Z.of_nat N)%Z = phi i)
    by exact (phi_per_mult S leap TrueInv (fun _ _ _ => I) (fun v s _ => leap_back v s) k I N Npos Hc Hm eqb eqb_spec).
  rewrite (ssum_sub S S_eq_dec g (map phi (zr 0 N)) states states_nd).
  - rewrite ssum_map_zr. rewrite <- Cl. apply qs_ext. intros i _. unfold g.
    destruct (in_slice S ham logu (phi i)); [|reflexivity].
    apply dist_ext. intros tp. change (phi 0%Z) with k. destruct (eqb (p_cur tp) k); reflexivity.
  - apply NoDup_map_inj_on; [|apply zr_NoDup].
    intros x y Hx Hy E. apply zr_In in Hx. apply zr_In in Hy. apply Inj in E.
    assert (Hxy : (- Z.of_nat N < x - y < Z.of_nat N)%Z) by lia.
    destruct (Z.eq_dec x y) as [|Hne]; [assumption | exfalso].
    pose proof (Z.div_mod (x - y) (Z.of_nat N) ltac:(lia)) as D. rewrite E in D.
    set (q := ((x - y) / Z.of_nat N)%Z) in *.
    destruct (Z_lt_le_dec q 0); [nia|]. destruct (Z.eq_dec q 0); [subst q; nia | nia].
  - intros s _. apply states_all.
  - intros s _ Hout. unfold g. destruct (in_slice S ham logu s); [|reflexivity].
    transitivity (dist (transition S leap ham lgd uturn alpha logu guard md s) (fun _ => 0)); [|apply dist_const].
    apply (dist_ext_out _ _ _ _ (transition_on_orbit logu md s)). intros tp (i & Ei).
    destruct (eqb (p_cur tp) k) eqn:E; [|reflexivity]. exfalso. apply eqb_spec in E. rewrite Ei in E.
    apply orbit_sym in E. apply Hout. apply in_map_iff.
    exists ((- i) mod Z.of_nat N)%Z. split.
    + fold phi in E. rewrite E.
      pose proof (Z.div_mod (- i) (Z.of_nat N) ltac:(lia)) as D.
      rewrite <- (Per ((- i) / Z.of_nat N)%Z ((- i) mod Z.of_nat N)%Z). f_equal. lia.
    + apply zr_In. pose proof (Z.mod_pos_bound (- i) (Z.of_nat N) ltac:(lia)). lia.
Qed.

(* THE SLICE VARIABLE, as far as it is a finite sum: levels (log u_j, lambda_j); pi(s) = sum_j lambda_j [s in slice_j];
   the mass arriving at k under the mixture of the transitions is pi(k) *)
Definition pi_of (levels : list (ext * Q)) (s : S) : Q :=
  ssum (fun lv => snd lv * (if in_slice S ham (fst lv) s then 1 else 0)) levels.

Theorem finite_mixture_invariant (levels : list (ext * Q)) :
  (forall lv, In lv levels -> forall s, in_slice S ham (fst lv) s = true -> not_diverged S ham (fst lv) s = true) ->
  forall (md : nat) (k : S),
  ssum (fun s => ssum (fun lv => snd lv * (if in_slice S ham (fst lv) s then P (fst lv) md s k else 0)) levels) states
  == pi_of levels k.
Proof.
  intros Hlv md k. rewrite ssum_swap. unfold pi_of. apply ssum_ext. intros [logu lam] Hin. cbn [fst snd].
  transitivity (lam * ssum (fun s => if in_slice S ham logu s then P logu md s k else 0) states);
    [rewrite <- ssum_scale; apply ssum_ext; intros; reflexivity|]. destruct (in_slice S ham logu k) eqn:Hk.
  - rewrite (finite_stationary logu (Hlv _ Hin) md k Hk). reflexivity.
  - rewrite ssum_zero; [reflexivity|]. intros s _. destruct (in_slice S ham logu s) eqn:Hs; [|reflexivity].
    apply (transition_out_of_slice_zero S leap ham lgd uturn alpha logu guard md s); [exact Hs|].
    intros tp Hc. destruct (eqb (p_cur tp) k) eqn:E; [|reflexivity]. apply eqb_spec in E. congruence.
Qed.
(* ---------------- the Markov kernel of the mixture, and any number of transitions ---------------- *)
(* every outcome has exactly one new state *)
Lemma ssum_eqb_one (x : S) : ssum (fun k => if eqb x k then 1 else 0) states == 1.
Proof.
  rewrite (ssum_sub S S_eq_dec _ [x] states states_nd).
  - rewrite ssum_cons. assert (E : eqb x x = true) by (apply eqb_spec; reflexivity). rewrite E. cbn. ring.
  - constructor; [intros [] | constructor].
  - intros y _. apply states_all.
  - intros y _ Hy. destruct (eqb x y) eqn:E; [|reflexivity]. apply eqb_spec in E. exfalso. apply Hy. left. exact E.
Qed.

Lemma dist_ssum {A T} (m : prog A) (f : T -> A -> Q) l :
  dist m (fun a => ssum (fun k => f k a) l) == ssum (fun k => dist m (f k)) l.
Proof.
  induction l as [|k l IH].
  - apply (dist_const m 0).
  - rewrite ssum_cons, <- IH, <- dist_plus. apply dist_ext. intros a. rewrite ssum_cons. reflexivity.
Qed.

Lemma P_rowsum logu md s : ssum (fun k => P logu md s k) states == 1.
Proof.
  rewrite <- (dist_ssum (transition S leap ham lgd uturn alpha logu guard md s) (fun k tp => if eqb (p_cur tp) k then 1 else 0)).
  transitivity (dist (transition S leap ham lgd uturn alpha logu guard md s) (fun _ => 1)); [|apply dist_const].
  apply dist_ext. intros tp. apply ssum_eqb_one.
Qed.

(* one NUTS step from s at fixed momentum: draw the level j with probability lambda_j [s in slice_j] / pi(s), then the
   transition at that level *)
Definition T_of (levels : list (ext * Q)) (md : nat) (s k : S) : Q :=
  ssum (fun lv => snd lv * (if in_slice S ham (fst lv) s then P (fst lv) md s k else 0)) levels / pi_of levels s.

Theorem T_stochastic levels md s : ~ pi_of levels s == 0 -> ssum (fun k => T_of levels md s k) states == 1.
Proof.
  intros Hpi. unfold T_of.
  rewrite (ssum_ext _ (fun k => / pi_of levels s * ssum (fun lv => snd lv * (if in_slice S ham (fst lv) s then P (fst lv) md s k else 0)) levels))
    by (intros; unfold Qdiv; ring).
  rewrite ssum_scale, ssum_swap.
  rewrite (ssum_ext _ (fun lv => snd lv * (if in_slice S ham (fst lv) s then 1 else 0))).
  - fold (pi_of levels s). field. exact Hpi.
  - intros lv _. rewrite ssum_scale. destruct (in_slice S ham (fst lv) s).
    + rewrite P_rowsum. reflexivity.
    + rewrite ssum_zero; [reflexivity | reflexivity].
Qed.

Theorem T_invariant levels md :
  (forall lv, In lv levels -> forall s, in_slice S ham (fst lv) s = true -> not_diverged S ham (fst lv) s = true) ->
  (forall s, ~ pi_of levels s == 0) ->
  forall k, ssum (fun s => pi_of levels s * T_of levels md s k) states == pi_of levels k.
Proof.
  intros Hlv Hpi k. rewrite <- (finite_mixture_invariant levels Hlv md k). apply ssum_ext. intros s _.
  unfold T_of. field. apply Hpi.
Qed.

(* any number of transitions, each preceded by a refreshment kernel R that preserves pi (momentum resampling) *)
Fixpoint push (R G : S -> S -> Q) (mu : S -> Q) (n : nat) : S -> Q :=
  match n with
  | O => mu
  | Datatypes.S n' => fun k => ssum (fun s' => ssum (fun s => push R G mu n' s * R s s') states * G s' k) states
  end.

Theorem chain_invariant levels md (R : S -> S -> Q) :
  (forall lv, In lv levels -> forall s, in_slice S ham (fst lv) s = true -> not_diverged S ham (fst lv) s = true) ->
  (forall s, ~ pi_of levels s == 0) ->
  (forall s', ssum (fun s => pi_of levels s * R s s') states == pi_of levels s') ->
  forall n k, push R (T_of levels md) (pi_of levels) n k == pi_of levels k.
Proof.
  intros Hlv Hpi HR. induction n as [|n IH]; intros k; [reflexivity|].
  cbn [push]. rewrite <- (T_invariant levels md Hlv Hpi k). apply ssum_ext. intros s' _.
  rewrite (ssum_ext _ (fun s => pi_of levels s * R s s')) by (intros s _; rewrite IH; reflexivity).
  rewrite HR. reflexivity.
Qed.
End Finite.

(* ---------------- refreshment of one component from its conditional law preserves pi ---------------- *)
(* states = positions x momenta; R((x,m),(x',m')) = [x = x'] pi(x',m') / sum_m'' pi(x',m''): the momentum is redrawn from
   its conditional law given the position (for pi = e^logd(x) e^-K(m) that is the law of the momentum, whatever x) *)
Lemma ssum_app {T} (g : T -> Q) l1 l2 : ssum g (l1 ++ l2) == ssum g l1 + ssum g l2.
Proof. induction l1 as [|a l1 IH]; [change (ssum g l2 == 0 + ssum g l2); ring | cbn [app]; rewrite !ssum_cons, IH; ring]. Qed.

Lemma ssum_map {T T'} (g : T' -> Q) (h : T -> T') l : ssum g (map h l) == ssum (fun a => g (h a)) l.
Proof. induction l as [|a l IH]; [reflexivity | cbn [map]; rewrite !ssum_cons, IH; reflexivity]. Qed.

Lemma ssum_list_prod {X M} (g : X * M -> Q) (xs : list X) (ms : list M) :
  ssum g (list_prod xs ms) == ssum (fun x => ssum (fun m => g (x, m)) ms) xs.
Proof.
  induction xs as [|x xs IH]; [reflexivity|]. cbn [list_prod]. rewrite ssum_app, ssum_cons, IH, ssum_map. reflexivity.
Qed.

Section Refresh.
Variables X M : Type.
Variable eqbX : X -> X -> bool.
Hypothesis eqbX_spec : forall a b, eqbX a b = true <-> a = b.
Variable xs : list X.
Variable ms : list M.
Hypothesis xs_nd : NoDup xs.
Variable pi : X * M -> Q.

Definition Zx (x : X) : Q := ssum (fun m => pi (x, m)) ms.
Definition gibbs (s s' : X * M) : Q := (if eqbX (fst s) (fst s') then 1 else 0) * pi s' / Zx (fst s').

Lemma X_eq_dec : forall a b : X, {a = b} + {a <> b}.
Proof.
  intros a b. destruct (eqbX a b) eqn:E; [left; apply eqbX_spec, E | right].
  intros ->. assert (eqbX b b = true) by (apply eqbX_spec; reflexivity). congruence.
Qed.

Theorem gibbs_preserves (s' : X * M) : In (fst s') xs -> ~ Zx (fst s') == 0 ->
  ssum (fun s => pi s * gibbs s s') (list_prod xs ms) == pi s'.
Proof.
  destruct s' as [x' m']. cbn [fst]. intros Hin Hz. rewrite ssum_list_prod. unfold gibbs. cbn [fst].
  rewrite (ssum_sub X X_eq_dec _ [x'] xs xs_nd).
  - rewrite ssum_cons. assert (E : eqbX x' x' = true) by (apply eqbX_spec; reflexivity). rewrite E.
    rewrite (ssum_ext _ (fun m => (pi (x', m') / Zx x') * pi (x', m))) by (intros; unfold Qdiv; ring).
    rewrite ssum_scale. fold (Zx x'). cbn [ssum fold_right]. field. exact Hz.
  - constructor; [intros [] | constructor].
  - intros y [<- | []]. exact Hin.
  - intros y _ Hy. apply ssum_zero. intros m _. destruct (eqbX y x') eqn:E.
    + apply eqbX_spec in E. exfalso. apply Hy. left. symmetry. exact E.
    + unfold Qdiv. ring.
Qed.
End Refresh.
