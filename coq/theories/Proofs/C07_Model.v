(* C07 -- LinearModel: adjointness of forward/adjoint through orthogonal geometries, get_matrix
   column by column, the transposed model.  All sizes; witnesses for the refuted classes. *)
From CV Require Import Base.Tac Base.LinAlg Base.Cmp Base.QcLin Model.C07_Adj Proofs.C07_Lists Proofs.C07_Geom.
From Coq Require Import QArith Qcanon.

Local Open Scope Qc_scope.

(* the two callables of the model are transposes of each other ON FUNCTION VALUES *)
Definition transposes (m : lmodel) : Prop :=
  forall xs ys, length xs = fun_dim (lm_D m) -> length ys = fun_dim (lm_R m) ->
  exists u v, lm_fwd m (funval (lm_D m) xs) = Some (funval (lm_R m) u) /\ length u = fun_dim (lm_R m) /\
              lm_adj m (funval (lm_R m) ys) = Some (funval (lm_D m) v) /\ length v = fun_dim (lm_D m) /\
              qdot u ys = qdot xs v.

Lemma funval_inj g a b : funval g a = funval g b -> a = b.
Proof. intros H. apply (f_equal flat) in H. rewrite !flat_funval in H. exact H. Qed.

(* ---------- adjointness ---------- *)
Theorem adjoint_through_geometries m :
  geom_adjoint_pair (lm_D m) -> geom_adjoint_pair (lm_R m) -> transposes m ->
  forall x y, length x = par_dim (lm_D m) -> length y = par_dim (lm_R m) ->
  exists fx ay, forward m (V1 x) = Some (V1 fx) /\ adjoint m (V1 y) = Some (V1 ay) /\
                length fx = par_dim (lm_R m) /\ length ay = par_dim (lm_D m) /\
                qdot fx y = qdot x ay.
Proof.
  intros HD HR HT x y Hx Hy.
  destruct (HD x (qvzero (fun_dim (lm_D m))) Hx (qvzero_length _)) as (xs & _ & E1 & L1 & _).
  destruct (HR y (qvzero (fun_dim (lm_R m))) Hy (qvzero_length _)) as (ys & _ & E2 & L2 & _).
  destruct (HT xs ys L1 L2) as (u & v & Ef & Lu & Ea & Lv & Duv).
  destruct (HR y u Hy Lu) as (ys' & q & E2' & _ & F2 & Lq & D2).
  destruct (HD x v Hx Lv) as (xs' & q' & E1' & _ & F1 & Lq' & D1).
  assert (ys' = ys) by (apply (funval_inj (lm_R m)); congruence). subst ys'.
  assert (xs' = xs) by (apply (funval_inj (lm_D m)); congruence). subst xs'.
  exists q, q'. unfold forward, adjoint, apply_func.
  rewrite E1, E2. cbn [obind]. rewrite Ef, Ea. cbn [obind]. rewrite F1, F2.
  repeat split; try assumption.
  rewrite (qdot_comm q y), <- D2, (qdot_comm ys u), Duv, D1. reflexivity.
Qed.

Lemma mat_model_transposes n A D R :
  wf_mat n A -> n = fun_dim D -> length A = fun_dim R -> vec_geom D -> vec_geom R ->
  transposes (mat_model n A D R).
Proof.
  intros HA Hn HL VD VR xs ys Lx Ly. cbn [mat_model lm_fwd lm_adj lm_D lm_R] in *.
  exists (qmatvec A xs), (qmattvec n A ys).
  rewrite !(funval_vec D), !(funval_vec R) by assumption. cbn [mat_fwd mat_adj].
  repeat split.
  - rewrite qmatvec_length. exact HL.
  - rewrite qmattvec_length by exact HA. exact Hn.
  - apply qc_adjoint; [exact HA | congruence].
Qed.

Lemma fun_model_transposes n M D R :
  wf_mat n M -> n = fun_dim D -> length M = fun_dim R -> transposes (fun_model n M D R).
Proof.
  intros HM Hn HL xs ys Lx Ly. cbn [fun_model lm_fwd lm_adj lm_D lm_R] in *.
  exists (qmatvec M xs), (qmattvec n M ys). rewrite !flat_funval.
  repeat split.
  - rewrite qmatvec_length. exact HL.
  - rewrite qmattvec_length by exact HM. exact Hn.
  - apply qc_adjoint; [exact HM | congruence].
Qed.

Theorem adjoint_orthogonal m : orth_geom (lm_D m) -> orth_geom (lm_R m) -> transposes m ->
  forall x y, length x = par_dim (lm_D m) -> length y = par_dim (lm_R m) ->
  exists fx ay, forward m (V1 x) = Some (V1 fx) /\ adjoint m (V1 y) = Some (V1 ay) /\
                length fx = par_dim (lm_R m) /\ length ay = par_dim (lm_D m) /\
                qdot fx y = qdot x ay.
Proof.
  intros HD HR. apply adjoint_through_geometries; apply orth_geom_adjoint_pair; assumption.
Qed.

Theorem adjoint_matrix_model n A D R :
  wf_mat n A -> n = fun_dim D -> length A = fun_dim R -> vec_geom D -> vec_geom R ->
  orth_geom D -> orth_geom R ->
  forall x y, length x = par_dim D -> length y = par_dim R ->
  exists fx ay, forward (mat_model n A D R) (V1 x) = Some (V1 fx) /\
                adjoint (mat_model n A D R) (V1 y) = Some (V1 ay) /\
                length fx = par_dim R /\ length ay = par_dim D /\ qdot fx y = qdot x ay.
Proof.
  intros HA Hn HL VD VR OD OR.
  apply (adjoint_orthogonal (mat_model n A D R)); try assumption.
  apply mat_model_transposes; assumption.
Qed.

Theorem adjoint_function_model n M D R :
  wf_mat n M -> n = fun_dim D -> length M = fun_dim R -> orth_geom D -> orth_geom R ->
  forall x y, length x = par_dim D -> length y = par_dim R ->
  exists fx ay, forward (fun_model n M D R) (V1 x) = Some (V1 fx) /\
                adjoint (fun_model n M D R) (V1 y) = Some (V1 ay) /\
                length fx = par_dim R /\ length ay = par_dim D /\ qdot fx y = qdot x ay.
Proof.
  intros HM Hn HL OD OR.
  apply (adjoint_orthogonal (fun_model n M D R)); try assumption.
  apply fun_model_transposes; assumption.
Qed.

(* refuted outside the class: a step expansion with two nodes per step, a linear expansion whose
   back-map is a left inverse but not the transpose, a scaling map c.x with inverse x/c, c = 2 *)
Definition adjoint_fails (m : lmodel) (x y : list Qc) : Prop :=
  exists fx ay, forward m (V1 x) = Some (V1 fx) /\ adjoint m (V1 y) = Some (V1 ay) /\ qdot fx y <> qdot x ay.

Definition wA36 := zm [[1; 2; 0; 1; 3; 1]; [0; 1; 1; 2; 0; 1]; [2; 0; 1; 0; 1; 1]]%Z.
Definition wA23 := zm [[1; 2; 3]; [0; 1; 1]]%Z.
Definition wA22 := zm [[1; 2]; [0; 1]]%Z.

Lemma adjoint_step_refuted :
  adjoint_fails (mat_model 6 wA36 (GStep [2; 2; 2]%nat) (GId 3)) (zv [1; 2; 3]%Z) (zv [1; -1; 2]%Z).
Proof.
  eexists; eexists. split; [vm_compute; reflexivity|]. split; [vm_compute; reflexivity|].
  apply qc_neq_of_eqb. vm_compute. reflexivity.
Qed.

Lemma adjoint_step_range_refuted :
  adjoint_fails (fun_model 3 (tr 6 wA36) (GId 3) (GStep [2; 2; 2]%nat)) (zv [1; -1; 2]%Z) (zv [1; 2; 3]%Z).
Proof.
  eexists; eexists. split; [vm_compute; reflexivity|]. split; [vm_compute; reflexivity|].
  apply qc_neq_of_eqb. vm_compute. reflexivity.
Qed.

(* expansion matrix G = [[2,0],[0,1]] with back-map G^-1 = [[1/2,0],[0,1]] (what KLExpansion does: a scaled
   sine transform and its inverse) *)
Lemma adjoint_linear_expansion_refuted :
  adjoint_fails (mat_model 2 wA22 (GLin 2 2 (zm [[2; 0]; [0; 1]]%Z) (qmat [[1 # 2; 0]; [0; 1]]%Q)) (GId 2))
                (zv [1; 2]%Z) (zv [1; -1]%Z).
Proof.
  eexists; eexists. split; [vm_compute; reflexivity|]. split; [vm_compute; reflexivity|].
  apply qc_neq_of_eqb. vm_compute. reflexivity.
Qed.

Lemma adjoint_scaling_refuted :
  adjoint_fails (mat_model 3 wA23 (GScale (qc 2) (qc (1 # 2)) (GId 3)) (GId 2)) (zv [1; 2; 3]%Z) (zv [1; -1]%Z).
Proof.
  eexists; eexists. split; [vm_compute; reflexivity|]. split; [vm_compute; reflexivity|].
  apply qc_neq_of_eqb. vm_compute. reflexivity.
Qed.

(* ---------- linear maps and their matrix of columns ---------- *)
Definition linear_map (n m : nat) (f : list Qc -> list Qc) : Prop :=
  (forall x y, length x = n -> length y = n -> f (qvadd x y) = qvadd (f x) (f y)) /\
  (forall c x, length x = n -> f (qvscale c x) = qvscale c (f x)) /\
  (forall x, length x = n -> length (f x) = m).

Lemma qvscale_0 v : qvscale 0 v = qvzero (length v).
Proof. induction v as [|a v IH]; [reflexivity|]. rewrite qvscale_cons, IH. cbn [length]. rewrite qvzero_S. f_equal. ring. Qed.

Lemma qvscale_vzero c n : qvscale c (qvzero n) = qvzero n.
Proof. induction n as [|n IH]; [reflexivity|]. rewrite qvzero_S, qvscale_cons, IH. f_equal. ring. Qed.

Lemma qvadd_vzero_l x n : length x = n -> qvadd (qvzero n) x = x.
Proof.
  revert n; induction x as [|a x IH]; intros [|n] H; simpl in H; try discriminate; [reflexivity|].
  rewrite qvzero_S, qvadd_cons, IH by lia. f_equal. ring.
Qed.

Lemma qunit_0 n : qunit (S n) 0 = 1 :: qvzero n. Proof. reflexivity. Qed.
Lemma qunit_S n i : qunit (S n) (S i) = 0 :: qunit n i. Proof. reflexivity. Qed.

(* a linear map is the combination of its values on the unit vectors: f x = sum_j x_j f(e_j) *)
Lemma linear_columns n m f : linear_map n m f -> forall x, length x = n ->
  f x = qmattvec m (map (fun i => f (qunit n i)) (seq 0 n)) x.
Proof.
  revert f; induction n as [|n IH]; intros f (Hadd & Hsc & Hlen) x Hx.
  - destruct x; [|discriminate]. cbn [seq map]. rewrite qmattvec_nil.
    pose proof (Hsc 0 [] eq_refl) as H0. rewrite qvscale_nil in H0. rewrite H0, qvscale_0, (Hlen [] eq_refl).
    reflexivity.
  - destruct x as [|a x]; [discriminate|]. simpl in Hx.
    set (f' := fun x' => f (0 :: x')).
    assert (Hf' : linear_map n m f').
    { unfold f'. repeat split.
      - intros u v Hu Hv. rewrite <- Hadd by (simpl; lia). rewrite qvadd_cons. replace (0 + 0) with 0 by ring. reflexivity.
      - intros c u Hu. rewrite <- Hsc by (simpl; lia). rewrite qvscale_cons. replace (c * 0) with 0 by ring. reflexivity.
      - intros u Hu. apply Hlen. simpl. lia. }
    assert (Ex : a :: x = qvadd (qvscale a (qunit (S n) 0)) (0 :: x)).
    { rewrite qunit_0, qvscale_cons, qvscale_vzero, qvadd_cons, qvadd_vzero_l by lia. f_equal. ring. }
    rewrite Ex at 1. rewrite Hadd, Hsc.
    + cbn [seq map]. rewrite qmattvec_cons. f_equal.
      change (f (0 :: x)) with (f' x). rewrite (IH f' Hf' x) by lia.
      f_equal. rewrite <- seq_shift, map_map. apply map_ext. intros i. reflexivity.
    + apply qunit_length.
    + rewrite qvscale_length. apply qunit_length.
    + simpl. lia.
Qed.

Lemma all_some_map_Some {A B} (g : A -> B) l : all_some (map (fun i => Some (g i)) l) = Some (map g l).
Proof. induction l as [|a l IH]; [reflexivity|]. cbn [map all_some]. rewrite IH. reflexivity. Qed.

Lemma qmatvec_unit n G j : wf_mat n G -> (j < n)%nat -> qmatvec G (qunit n j) = col 0 G j.
Proof.
  intros HG Hj. unfold qmatvec, matvec, col. apply map_ext_in. intros row Hr.
  unfold wf_mat in HG. rewrite Forall_forall in HG. specialize (HG row Hr).
  change (qdot row (qunit n j) = nth j row 0). rewrite qdot_comm. apply qdot_unit; assumption.
Qed.

(* get_matrix of a function-backed model whose forward (parameters to parameters) is linear:
   the assembled matrix has the right shape, reproduces forward on every input, and its j-th
   column is forward(e_j) *)
Theorem get_matrix_columns m f :
  lm_mat m = None ->
  (forall x, length x = par_dim (lm_D m) -> forward m (V1 x) = Some (V1 (f x))) ->
  linear_map (par_dim (lm_D m)) (par_dim (lm_R m)) f ->
  exists G, get_matrix m = Some G /\ wf_mat (par_dim (lm_D m)) G /\ length G = par_dim (lm_R m) /\
    (forall x, length x = par_dim (lm_D m) -> qmatvec G x = f x) /\
    (forall j, (j < par_dim (lm_D m))%nat -> col 0 G j = f (qunit (par_dim (lm_D m)) j)).
Proof.
  intros Hmat Hf Hlin.
  set (n := par_dim (lm_D m)) in *. set (mm := par_dim (lm_R m)) in *.
  set (cols := map (fun i => f (qunit n i)) (seq 0 n)).
  assert (Hcols : columns m = Some cols).
  { unfold columns, cols. fold n. rewrite <- all_some_map_Some. f_equal. apply map_ext. intros i.
    rewrite Hf by apply qunit_length. reflexivity. }
  assert (Wc : wf_mat mm cols).
  { unfold cols. apply Forall_forall. intros r Hr. apply in_map_iff in Hr as (i & <- & _).
    destruct Hlin as (_ & _ & Hlen). apply Hlen. apply qunit_length. }
  assert (Lc : length cols = n) by (unfold cols; rewrite map_length, seq_length; reflexivity).
  assert (WG : wf_mat n (tr mm cols)) by (pose proof (tr_rows mm cols) as HR; rewrite Lc in HR; exact HR).
  assert (Hall : forall x, length x = n -> qmatvec (tr mm cols) x = f x).
  { intros x Hx. rewrite (qmatvec_tr mm cols x Wc) by (transitivity n; [exact Hx | symmetry; exact Lc]). symmetry. apply linear_columns; assumption. }
  exists (tr mm cols). unfold get_matrix. rewrite Hmat, Hcols. cbn [option_map]. fold mm.
  repeat split.
  - exact WG.
  - apply tr_length. exact Wc.
  - exact Hall.
  - intros j Hj. rewrite <- (qmatvec_unit n) by assumption. apply Hall. apply qunit_length.
Qed.

(* stored-matrix branch: correct for identity geometries *)
Theorem get_matrix_stored n A k1 k2 :
  get_matrix (mat_model n A (GId k1) (GId k2)) = Some A /\
  forall x, forward (mat_model n A (GId k1) (GId k2)) (V1 x) = Some (V1 (qmatvec A x)).
Proof. split; [reflexivity | intros x; reflexivity]. Qed.

(* ... and refuted beyond: with a step expansion the stored matrix does not even have the shape of
   the parameter map; with a scaling map the shape is right but the matrix is not the forward map *)
Lemma get_matrix_stored_shape_refuted :
  exists m G, get_matrix m = Some G /\ ~ wf_mat (par_dim (lm_D m)) G.
Proof.
  exists (mat_model 6 wA36 (GStep [2; 2; 2]%nat) (GId 3)), wA36. split; [reflexivity|].
  intros H. inversion H as [|r l Hr Hl]; subst. vm_compute in Hr. discriminate.
Qed.

Lemma get_matrix_stored_value_refuted :
  exists m G x fx, get_matrix m = Some G /\ wf_mat (par_dim (lm_D m)) G /\ length G = par_dim (lm_R m) /\
                   forward m (V1 x) = Some (V1 fx) /\ qmatvec G x <> fx.
Proof.
  exists (mat_model 3 wA23 (GScale (qc 2) (qc (1 # 2)) (GId 3)) (GId 2)), wA23, (zv [1; 2; 3]%Z).
  eexists. split; [reflexivity|]. split; [repeat constructor|]. split; [reflexivity|].
  split; [vm_compute; reflexivity|].
  intros H. apply (f_equal (fun l => qcl_eqb l (zv [28; 10]%Z))) in H. vm_compute in H. discriminate.
Qed.

(* ---------- the transposed model ---------- *)
Theorem transpose_consistent k m : idem_geom (lm_D m) -> idem_geom (lm_R m) ->
  forall v, forward (lmT k m) v = adjoint m v /\ adjoint (lmT k m) v = forward m v.
Proof.
  intros [DP DF] [RP RF] v. unfold forward, adjoint, apply_func. cbn [lmT lm_fwd lm_adj lm_D lm_R].
  unfold forward, adjoint, apply_func. split.
  - destruct (p2f (lm_R m) v) as [F|] eqn:E; [|reflexivity]. cbn [obind]. rewrite (RP v F E). cbn [obind].
    destruct (lm_adj m F) as [w|]; [|reflexivity]. cbn [obind].
    destruct (f2p (lm_D m) w) as [q|] eqn:E2; [|reflexivity]. cbn [obind]. exact (DF w q E2).
  - destruct (p2f (lm_D m) v) as [F|] eqn:E; [|reflexivity]. cbn [obind]. rewrite (DP v F E). cbn [obind].
    destruct (lm_fwd m F) as [w|]; [|reflexivity]. cbn [obind].
    destruct (f2p (lm_R m) w) as [q|] eqn:E2; [|reflexivity]. cbn [obind]. exact (RF w q E2).
Qed.

Theorem transpose_geometries_and_matrix k m :
  lm_D (lmT k m) = lm_R m /\ lm_R (lmT k m) = lm_D m /\
  forall A, lm_mat m = Some A -> get_matrix (lmT k m) = Some (tr k A).
Proof. repeat split. intros A H. unfold get_matrix. cbn [lmT lm_mat]. rewrite H. reflexivity. Qed.

(* the copied matrix acts as the transpose of the stored one *)
Theorem transpose_stored_matrix_acts k A y : wf_mat k A -> length y = length A ->
  qmatvec (tr k A) y = qmattvec k A y.
Proof. apply qmatvec_tr. Qed.

Lemma dot_ext n u v : length u = n -> length v = n ->
  (forall x, length x = n -> qdot x u = qdot x v) -> u = v.
Proof.
  intros Hu Hv H. apply (nth_ext u v 0 0); [congruence|]. intros i Hi. rewrite Hu in Hi.
  rewrite <- (qdot_unit n i u Hu Hi), <- (qdot_unit n i v Hv Hi). apply H. apply qunit_length.
Qed.

(* function-backed model: the matrix T assembles acts as the transpose of the matrix the model
   assembles, provided forward/adjoint are linear and adjoint to each other *)
Theorem transpose_get_matrix k m f g :
  lm_mat m = None -> idem_geom (lm_D m) -> idem_geom (lm_R m) ->
  (forall x, length x = par_dim (lm_D m) -> forward m (V1 x) = Some (V1 (f x))) ->
  linear_map (par_dim (lm_D m)) (par_dim (lm_R m)) f ->
  (forall y, length y = par_dim (lm_R m) -> adjoint m (V1 y) = Some (V1 (g y))) ->
  linear_map (par_dim (lm_R m)) (par_dim (lm_D m)) g ->
  (forall x y, length x = par_dim (lm_D m) -> length y = par_dim (lm_R m) -> qdot (f x) y = qdot x (g y)) ->
  exists G GT, get_matrix m = Some G /\ get_matrix (lmT k m) = Some GT /\
    wf_mat (par_dim (lm_D m)) G /\ length G = par_dim (lm_R m) /\
    wf_mat (par_dim (lm_R m)) GT /\ length GT = par_dim (lm_D m) /\
    forall y, length y = par_dim (lm_R m) -> qmatvec GT y = qmattvec (par_dim (lm_D m)) G y.
Proof.
  intros Hmat ID IR Hf Lf Hg Lg Hadj.
  destruct (get_matrix_columns m f Hmat Hf Lf) as (G & EG & WG & LG & HG & _).
  destruct (get_matrix_columns (lmT k m) g) as (GT & EGT & WGT & LGT & HGT & _).
  - cbn [lmT lm_mat]. rewrite Hmat. reflexivity.
  - cbn [lmT lm_D]. intros y Hy. rewrite (proj1 (transpose_consistent k m ID IR (V1 y))). apply Hg. exact Hy.
  - cbn [lmT lm_D lm_R]. exact Lg.
  - cbn [lmT lm_D lm_R] in *. exists G, GT. repeat split; try assumption.
    intros y Hy. rewrite (HGT y Hy).
    apply (dot_ext (par_dim (lm_D m))).
    + destruct Lg as (_ & _ & Hl). apply Hl. exact Hy.
    + apply qmattvec_length. exact WG.
    + intros x Hx. rewrite <- Hadj by assumption. rewrite <- (HG x Hx). apply qc_adjoint; assumption.
Qed.

(* refuted outside the identity-like class: conversions are applied twice *)
Lemma transpose_scaling_refuted :
  exists m k y a b, adjoint m (V1 y) = Some (V1 a) /\ forward (lmT k m) (V1 y) = Some (V1 b) /\ a <> b.
Proof.
  exists (fun_model 3 wA23 (GScale (qc 2) (qc (1 # 2)) (GId 3)) (GId 2)), 3%nat, (zv [1; -1]%Z).
  eexists; eexists. split; [vm_compute; reflexivity|]. split; [vm_compute; reflexivity|].
  intros H. apply (f_equal (fun l => qcl_eqb l (qvec [1 # 2; 1 # 2; 1]%Q))) in H. vm_compute in H. discriminate.
Qed.

Lemma transpose_step_refuted :
  exists m k y a, adjoint m (V1 y) = Some (V1 a) /\ forward (lmT k m) (V1 y) = None.
Proof.
  exists (fun_model 6 wA36 (GStep [2; 2; 2]%nat) (GId 3)), 6%nat, (zv [1; -1; 2]%Z).
  eexists. split; vm_compute; reflexivity.
Qed.

(* ---------- plain geometries: function-backed models are linear, so everything above applies ---------- *)
Definition plain_geom (g : geom) : Prop :=
  match g with GId _ => True | GImage _ _ OC => True | _ => False end.

Lemma plain_p2f g x : plain_geom g -> length x = par_dim g -> p2f g (V1 x) = Some (funval g x).
Proof.
  destruct g as [n | r c o | | | | ]; cbn [plain_geom]; intros H Hx; try contradiction.
  - reflexivity.
  - destruct o; [|contradiction]. cbn [p2f funval par_dim] in *. rewrite Hx, Nat.eqb_refl. reflexivity.
Qed.

Lemma plain_f2p g l : plain_geom g -> f2p g (funval g l) = Some (V1 l).
Proof.
  destruct g as [n | r c o | | | | ]; cbn [plain_geom]; intros H; try contradiction.
  - reflexivity.
  - destruct o; [|contradiction]. reflexivity.
Qed.

Lemma plain_idlike g : plain_geom g -> idlike_geom g.
Proof. destruct g; cbn [plain_geom idlike_geom]; intros H; try contradiction; exact I. Qed.

Lemma plain_dims g : plain_geom g -> fun_dim g = par_dim g.
Proof. destruct g; cbn [plain_geom]; intros H; try contradiction; reflexivity. Qed.

Lemma fun_model_plain_forward n M D R x : plain_geom D -> plain_geom R -> length x = par_dim D ->
  forward (fun_model n M D R) (V1 x) = Some (V1 (qmatvec M x)).
Proof.
  intros PD PR Hx. unfold forward, apply_func. cbn [fun_model lm_fwd lm_D lm_R].
  rewrite (plain_p2f D x PD Hx). cbn [obind]. rewrite flat_funval, (plain_f2p R _ PR). reflexivity.
Qed.

Lemma fun_model_plain_adjoint n M D R y : plain_geom D -> plain_geom R -> length y = par_dim R ->
  adjoint (fun_model n M D R) (V1 y) = Some (V1 (qmattvec n M y)).
Proof.
  intros PD PR Hy. unfold adjoint, apply_func. cbn [fun_model lm_adj lm_D lm_R].
  rewrite (plain_p2f R y PR Hy). cbn [obind]. rewrite flat_funval, (plain_f2p D _ PD). reflexivity.
Qed.

Lemma qmatvec_linear n A : wf_mat n A -> linear_map n (length A) (qmatvec A).
Proof.
  intros HA. repeat split.
  - intros x y Hx Hy. apply (qmatvec_vadd A x y n); assumption.
  - intros c x _. apply qmatvec_vscale.
  - intros x _. apply qmatvec_length.
Qed.

Lemma linear_map_ext n m f g : (forall x, length x = n -> f x = g x) -> linear_map n m f -> linear_map n m g.
Proof.
  intros E (Ha & Hs & Hl). repeat split.
  - intros x y Hx Hy. rewrite <- !E; try assumption; [apply Ha; assumption|].
    rewrite qvadd_length; congruence.
  - intros c x Hx. rewrite <- !E; try assumption; [apply Hs; assumption|]. rewrite qvscale_length. exact Hx.
  - intros x Hx. rewrite <- E by exact Hx. apply Hl. exact Hx.
Qed.

Lemma qmattvec_linear n A : wf_mat n A -> linear_map (length A) n (qmattvec n A).
Proof.
  intros HA. apply (linear_map_ext (length A) n (qmatvec (tr n A))).
  - intros x Hx. apply qmatvec_tr; assumption.
  - pose proof (qmatvec_linear (length A) (tr n A) (tr_rows n A)) as H.
    rewrite tr_length in H by exact HA. exact H.
Qed.

(* function-backed model, identity / image (C order) geometries: the assembled matrices reproduce
   forward and adjoint, and T's matrix acts as the transpose *)
Theorem function_model_matrices k n M D R :
  wf_mat n M -> n = par_dim D -> length M = par_dim R -> plain_geom D -> plain_geom R ->
  exists G GT, get_matrix (fun_model n M D R) = Some G /\ get_matrix (lmT k (fun_model n M D R)) = Some GT /\
    (forall x, length x = par_dim D -> forward (fun_model n M D R) (V1 x) = Some (V1 (qmatvec G x))) /\
    (forall y, length y = par_dim R -> adjoint (fun_model n M D R) (V1 y) = Some (V1 (qmatvec GT y))) /\
    (forall y, length y = par_dim R -> qmatvec GT y = qmattvec (par_dim D) G y).
Proof.
  intros HM Hn HL PD PR. subst n.
  set (m := fun_model (par_dim D) M D R).
  assert (ID : idem_geom (lm_D m)) by (apply idlike_geom_idem, plain_idlike; exact PD).
  assert (IR : idem_geom (lm_R m)) by (apply idlike_geom_idem, plain_idlike; exact PR).
  assert (Lf : linear_map (par_dim (lm_D m)) (par_dim (lm_R m)) (qmatvec M)).
  { cbn [m fun_model lm_D lm_R]. rewrite <- HL. apply qmatvec_linear. exact HM. }
  assert (Lg : linear_map (par_dim (lm_R m)) (par_dim (lm_D m)) (qmattvec (par_dim D) M)).
  { cbn [m fun_model lm_D lm_R]. rewrite <- HL. apply qmattvec_linear. exact HM. }
  destruct (transpose_get_matrix k m (qmatvec M) (qmattvec (par_dim D) M)) as (G & GT & EG & EGT & WG & LG & WGT & LGT & HT); try assumption.
  - reflexivity.
  - intros x Hx. apply fun_model_plain_forward; assumption.
  - intros y Hy. apply fun_model_plain_adjoint; assumption.
  - intros x y Hx Hy. apply qc_adjoint; assumption.
  - exists G, GT. split; [exact EG|]. split; [exact EGT|].
    destruct (get_matrix_columns m (qmatvec M)) as (G' & EG' & _ & _ & HG' & _); try assumption; try reflexivity.
    { intros x Hx. apply fun_model_plain_forward; assumption. }
    assert (G' = G) by congruence. subst G'.
    repeat split.
    + intros x Hx. cbn [m fun_model lm_D] in HG'. rewrite (HG' x Hx). apply fun_model_plain_forward; assumption.
    + intros y Hy. cbn [m fun_model lm_D lm_R] in HT. rewrite (HT y Hy).
      unfold m. rewrite (fun_model_plain_adjoint _ M D R y PD PR Hy). do 2 f_equal.
      apply (dot_ext (par_dim D)).
      * apply qmattvec_length. exact HM.
      * apply qmattvec_length. exact WG.
      * intros x Hx. rewrite <- (qc_adjoint (par_dim D) M x y HM Hx).
        rewrite <- (qc_adjoint (par_dim D) G x y WG Hx). cbn [m fun_model lm_D] in HG'. rewrite (HG' x Hx). reflexivity.
    + exact HT.
Qed.
