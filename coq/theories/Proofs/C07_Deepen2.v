(* C07, second deepening round -- gradient of a LinearModel vs adjoint, KLExpansion's maps inside the model (dst/idst as
   matrices with the law as hypothesis), StepExpansion's index-list semantics vs the block-count model.  All sizes. *)
From CV Require Import Base.Tac Base.LinAlg Base.Cmp Base.QcLin Model.C07_Adj
  Proofs.C07_Lists Proofs.C07_Geom Proofs.C07_Model Proofs.C07_Conv Proofs.C07_Deconv1 Proofs.C07_Linear Proofs.C07_Defect Proofs.C07_Deepen.
From Coq Require Import QArith Qcanon.

Local Open Scope Qc_scope.

(* ---------- gradient ---------- *)
(* library geometries of identity type: gradient(direction, wrt) IS adjoint(direction), whatever wrt *)
Theorem gradient_is_adjoint m d : id_type (lm_R m) = true -> id_type (lm_D m) = true ->
  gradient None false m d = adjoint m d /\ gradient None true m d = adjoint_rep m RArrayFun d.
Proof. intros HR HD. unfold gradient. rewrite HR, HD. split; reflexivity. Qed.

(* ... and refused otherwise (expansions, mapped geometries without a gradient method) *)
Theorem gradient_refused m b d :
  (id_type (lm_R m) = false -> forall u, gradient u b m d = None) /\
  (id_type (lm_D m) = false -> gradient None b m d = None).
Proof.
  split; intros H; [intros u|]; unfold gradient; rewrite H; cbn [negb]; [reflexivity|].
  destruct (id_type (lm_R m)); reflexivity.
Qed.

Lemma id_type_adjoint_pair g : id_type g = true -> geom_adjoint_pair g.
Proof. intros H. apply orth_geom_adjoint_pair. destruct g; try discriminate; exact I. Qed.

(* so the gradient is the transposed forward map: <forward x, d> = <x, gradient(d, wrt)> *)
Theorem gradient_transposes_forward m : id_type (lm_R m) = true -> id_type (lm_D m) = true -> transposes m ->
  forall x d, length x = par_dim (lm_D m) -> length d = par_dim (lm_R m) ->
  exists fx g, forward m (V1 x) = Some (V1 fx) /\ gradient None false m (V1 d) = Some (V1 g) /\ qdot fx d = qdot x g.
Proof.
  intros HR HD HT x d Hx Hd.
  destruct (adjoint_through_geometries m (id_type_adjoint_pair _ HD) (id_type_adjoint_pair _ HR) HT x d Hx Hd)
    as (fx & ay & E1 & E2 & _ & _ & E).
  exists fx, ay. rewrite (proj1 (gradient_is_adjoint m (V1 d) HR HD)). repeat split; assumption.
Qed.

(* a user geometry c.x WITH its gradient method (g |-> c.g): the chain rule makes the gradient the TRUE transpose of forward,
   although adjoint (which divides by c) is not *)
Theorem gradient_chain_rule n A c cinv k r x d :
  wf_mat n A -> n = k -> length A = r -> length x = k -> length d = r ->
  exists fx g, forward (mat_model n A (GScale c cinv (GId k)) (GId r)) (V1 x) = Some (V1 fx) /\
               gradient (Some c) false (mat_model n A (GScale c cinv (GId k)) (GId r)) (V1 d) = Some (V1 g) /\
               qdot fx d = qdot x g.
Proof.
  intros WA Hn HL Hx Hd. subst k.
  exists (qmatvec A (qvscale c x)), (qvscale c (qmattvec n A d)). repeat split.
  rewrite qdot_vscale_r, (qc_adjoint n A (qvscale c x) d WA) by (rewrite qvscale_length; exact Hx).
  apply qdot_vscale_l.
Qed.

Lemma gradient_vs_adjoint_scaling_refuted :
  exists g a, gradient (Some (qc 2)) false (mat_model 3 wA23 (GScale (qc 2) (qc (1 # 2)) (GId 3)) (GId 2)) (V1 (zv [1; -1]%Z)) = Some (V1 g) /\
              adjoint (mat_model 3 wA23 (GScale (qc 2) (qc (1 # 2)) (GId 3)) (GId 2)) (V1 (zv [1; -1]%Z)) = Some (V1 a) /\ g <> a.
Proof.
  eexists; eexists. split; [vm_compute; reflexivity|]. split; [vm_compute; reflexivity|].
  intros H. apply (f_equal (fun l => qcl_eqb l (zv [2; 2; 4]%Z))) in H. vm_compute in H. discriminate.
Qed.

(* ---------- KLExpansion: the maps written out; the left-inverse law follows from dst(idst v) = 2N v ---------- *)
Lemma zipw_length {A B C} (f : A -> B -> C) a b n : length a = n -> length b = n -> length (zipw f a b) = n.
Proof.
  revert b n; induction a as [|x a IH]; intros [|y b] n Ha Hb; simpl in *; try lia.
  destruct n; [discriminate|]. f_equal. apply IH; lia.
Qed.

Lemma qdot_zipw_scale (k : Qc -> Qc) r cs p :
  qdot (zipw (fun s c => s * k c) r cs) p = qdot r (zipw (fun c x => k c * x) cs p).
Proof.
  revert cs p; induction r as [|s r IH]; intros [|c cs] [|x p]; cbn [zipw]; rewrite ?qdot_nil_r, ?qdot_nil_l; try reflexivity.
  rewrite !qdot_cons, IH. ring.
Qed.

Lemma qdot_firstn_pad r v m : length v = m -> (m <= length r)%nat ->
  qdot (firstn m r) v = qdot r (v ++ repeat 0 (length r - m)).
Proof.
  intros Hv Hm. rewrite <- (firstn_skipn m r) at 2.
  rewrite qdot_app by (rewrite firstn_length; lia).
  rewrite (qdot_comm (skipn m r)). rewrite <- qvzero_repeat, qdot_vzero_l. ring.
Qed.

Lemma qmatvec_kl_G N m coefs tau idstM p : wf_mat N idstM -> length p = m -> length coefs = m -> (m <= N)%nat ->
  qmatvec (kl_G m coefs tau idstM) p =
  qmatvec idstM (zipw (fun c x => c / (qcz 2 * tau) * x) coefs p ++ repeat 0 (N - m)).
Proof.
  intros W Hp Hc Hm. unfold kl_G, qmatvec, matvec. rewrite map_map. apply map_ext_in. intros row Hr.
  unfold wf_mat in W. rewrite Forall_forall in W. specialize (W row Hr).
  change (qdot (zipw (fun s c => s * (c / (qcz 2 * tau))) (firstn m row) coefs) p =
          qdot row (zipw (fun c x => c / (qcz 2 * tau) * x) coefs p ++ repeat 0 (N - m))).
  rewrite (qdot_zipw_scale (fun c => c / (qcz 2 * tau))).
  rewrite <- W. apply qdot_firstn_pad; [|lia].
  clear - Hp Hc. revert p m Hp Hc. induction coefs as [|c cs IH]; intros [|x p] m Hp Hc; cbn [zipw]; simpl in *; try lia.
  destruct m; [discriminate|]. f_equal. apply (IH p m); lia.
Qed.

Lemma qmatvec_kl_Ginv N coefs tau dstM u :
  qmatvec (kl_Ginv N coefs tau dstM) u =
  zipw (fun c t => qcz 2 * tau / (c * (qcz 2 * qcz (Z.of_nat N))) * t) coefs (qmatvec dstM u).
Proof.
  unfold kl_Ginv. revert dstM; induction coefs as [|c cs IH]; intros [|row M]; cbn [zipw]; try reflexivity.
  rewrite !qmatvec_cons. cbn [zipw]. rewrite qdot_vscale_l, IH. reflexivity.
Qed.

Theorem kl_left_inverse N m coefs tau dstM idstM :
  wf_mat N idstM -> length coefs = m -> (m <= N)%nat -> (0 < N)%nat ->
  Forall (fun c => c <> 0) coefs -> tau <> 0 ->
  (forall v, length v = N -> qmatvec dstM (qmatvec idstM v) = qvscale (qcz 2 * qcz (Z.of_nat N)) v) ->
  forall p, length p = m ->
  qmatvec (kl_Ginv N coefs tau dstM) (qmatvec (kl_G m coefs tau idstM) p) = p.
Proof.
  intros W Hc Hm HN Hnz Htau Hlaw p Hp.
  rewrite (qmatvec_kl_G N m coefs tau idstM p W Hp Hc Hm), qmatvec_kl_Ginv.
  rewrite Hlaw.
  2:{ rewrite app_length, repeat_length.
      assert (length (zipw (fun c x => c / (qcz 2 * tau) * x) coefs p) = m).
      { clear - Hp Hc. revert p m Hp Hc. induction coefs as [|c cs IH]; intros [|x p] m Hp Hc; cbn [zipw]; simpl in *; try lia.
        destruct m; [discriminate|]. f_equal. apply (IH p m); lia. }
      lia. }
  assert (H2 : qcz 2 <> 0) by (apply (qcz_nonzero 2); lia).
  assert (HNq : qcz (Z.of_nat N) <> 0) by (apply qcz_nonzero; exact HN).
  subst m. clear Hlaw W Hm. generalize (repeat 0 (N - length coefs)). intros t.
  revert p Hp. induction Hnz as [|c cs Hcnz Hnz IH]; intros [|x p] Hp; simpl in Hp; try lia; [reflexivity|].
  cbn [zipw app]. rewrite qvscale_cons. cbn [zipw]. f_equal.
  - field. repeat split; assumption.
  - apply IH. lia.
Qed.

(* the geometry that runs: a linear expansion in the sense of C07_left_inverse_expansion_refuted *)
Theorem kl_geom_is_left_inverse_expansion N m coefs tau dstM idstM :
  wf_mat N idstM -> length idstM = N -> length coefs = m -> (m <= N)%nat -> (0 < N)%nat -> (m <= length dstM)%nat ->
  Forall (fun c => c <> 0) coefs -> tau <> 0 ->
  (forall v, length v = N -> qmatvec dstM (qmatvec idstM v) = qvscale (qcz 2 * qcz (Z.of_nat N)) v) ->
  exists G Ginv, kl_geom N m coefs tau dstM idstM = GLin m N G Ginv /\ wf_mat m G /\ length G = N /\ length Ginv = m /\
    forall p, length p = m -> qmatvec Ginv (qmatvec G p) = p.
Proof.
  intros W LI Hc Hm HN Hd Hnz Htau Hlaw.
  exists (kl_G m coefs tau idstM), (kl_Ginv N coefs tau dstM). split; [reflexivity|]. repeat split.
  - unfold kl_G. apply Forall_forall. intros r Hr. apply in_map_iff in Hr as (row & <- & Hrow).
    unfold wf_mat in W. rewrite Forall_forall in W. specialize (W row Hrow).
    apply zipw_length; [rewrite firstn_length; lia | exact Hc].
  - unfold kl_G. rewrite map_length. exact LI.
  - unfold kl_Ginv. rewrite <- (firstn_skipn m dstM).
    assert (Lf : length (firstn m dstM) = m) by (rewrite firstn_length; lia).
    clear - Hc Lf. revert Lf. generalize (firstn m dstM) (skipn m dstM). intros a b Lf.
    revert m a Hc Lf. induction coefs as [|c cs IH]; intros m [|row a] Hc Lf; simpl in *; try lia.
    destruct m; [discriminate|]. f_equal. apply (IH m a); lia.
  - apply (kl_left_inverse N m coefs tau dstM idstM); assumption.
Qed.

(* ---------- StepExpansion by index lists (the code: fun[idx_i] = p_i ; par_i = mean f[idx_i]) vs the block-count model ---------- *)
(* C13's law, restated as hypothesis: the index lists of the steps are the consecutive blocks of 0..N-1
   (concat idx = seq 0 N).  Then gathering f by the index lists is cutting f into blocks of the lists' lengths, so
   fun2par(mean) is step_mean over the counts, and any array with fun[j] = p_i for j in idx_i is step_expand. *)
Definition gather (idx : list (list nat)) (f : list Qc) : list (list Qc) := map (map (fun j => nth j f 0)) idx.
Definition counts (idx : list (list nat)) : list nat := map (@length nat) idx.

Fixpoint blocks (cnt : list nat) (f : list Qc) : list (list Qc) :=
  match cnt with [] => [] | k :: cnt' => firstn k f :: blocks cnt' (skipn k f) end.

Lemma skipn_add {A} (a b : nat) (l : list A) : skipn a (skipn b l) = skipn (b + a) l.
Proof.
  revert l; induction b as [|b IH]; intros l; [reflexivity|].
  destruct l as [|x l]; [rewrite !skipn_nil; reflexivity|]. cbn [skipn Nat.add]. apply IH.
Qed.

Lemma app_eq_length {A} (a b c d : list A) : length a = length c -> a ++ b = c ++ d -> a = c /\ b = d.
Proof.
  revert c; induction a as [|x a IH]; intros [|y c] HL H; simpl in HL; try discriminate.
  - split; [reflexivity | exact H].
  - cbn [app] in H. inversion H; subst. destruct (IH c) as [E1 E2]; [lia | assumption |]. subst. split; reflexivity.
Qed.

Lemma map_nth_seq (f : list Qc) s k : (s + k <= length f)%nat ->
  map (fun j => nth j f 0) (seq s k) = firstn k (skipn s f).
Proof.
  revert f s; induction k as [|k IH]; intros f s H; [reflexivity|].
  cbn [seq map]. rewrite (IH f (S s)) by lia.
  destruct (skipn s f) as [|a l] eqn:E.
  - pose proof (skipn_length s f) as L. rewrite E in L. simpl in L. lia.
  - cbn [firstn]. f_equal.
    + rewrite <- (firstn_skipn s f) at 1. rewrite app_nth2 by (rewrite firstn_length; lia).
      rewrite firstn_length, E. replace (s - Nat.min s (length f))%nat with 0%nat by lia. reflexivity.
    + replace (skipn (S s) f) with l; [reflexivity|].
      replace (S s) with (s + 1)%nat by lia. rewrite <- skipn_add, E. reflexivity.
Qed.

Lemma gather_blocks_from idx s (f : list Qc) :
  concat idx = seq s (length (concat idx)) -> (s + length (concat idx) <= length f)%nat ->
  gather idx f = blocks (counts idx) (skipn s f).
Proof.
  revert s; induction idx as [|ids idx IH]; intros s H Hl; [reflexivity|].
  cbn [concat] in H, Hl. rewrite app_length in H, Hl.
  rewrite seq_app in H. apply app_eq_length in H; [|rewrite seq_length; reflexivity].
  destruct H as [H1 H2]. cbn [gather counts map blocks]. f_equal.
  - rewrite H1 at 1. apply map_nth_seq. lia.
  - rewrite skipn_add. apply (IH (s + length ids)%nat); [exact H2 | lia].
Qed.

Theorem gather_is_blocks idx (f : list Qc) : concat idx = seq 0 (length f) -> gather idx f = blocks (counts idx) f.
Proof.
  intros H. assert (L : length (concat idx) = length f) by (rewrite H, seq_length; reflexivity).
  rewrite (gather_blocks_from idx 0 f); [reflexivity | rewrite L; exact H | lia].
Qed.

(* fun2par with the mean projection over the index lists = step_mean over the counts *)
Lemma means_by_gather idx (f : list Qc) :
  map (fun ids => qsum (map (fun j => nth j f 0) ids) / qcz (Z.of_nat (length ids))) idx =
  zipw (fun b k => qsum b / qcz (Z.of_nat k)) (gather idx f) (counts idx).
Proof. induction idx as [|ids idx IH]; [reflexivity|]. cbn [map gather counts zipw]. f_equal. exact IH. Qed.

Lemma step_mean_by_blocks cnt f : step_mean cnt f = zipw (fun b k => qsum b / qcz (Z.of_nat k)) (blocks cnt f) cnt.
Proof. revert f; induction cnt as [|k cnt IH]; intros f; [reflexivity|]. cbn [step_mean blocks zipw]. f_equal. apply IH. Qed.

Theorem step_fun2par_by_indices idx (f : list Qc) : concat idx = seq 0 (length f) ->
  map (fun ids => qsum (map (fun j => nth j f 0) ids) / qcz (Z.of_nat (length ids))) idx = step_mean (counts idx) f.
Proof. intros H. rewrite means_by_gather, step_mean_by_blocks, (gather_is_blocks idx f H). reflexivity. Qed.

(* par2fun: an array of the right length in which every node of step i holds p_i IS step_expand over the counts *)
Lemma firstn_add {A} (k s : nat) (f : list A) : firstn (k + s) f = firstn k f ++ firstn s (skipn k f).
Proof.
  revert f; induction k as [|k IH]; intros f; [reflexivity|].
  destruct f as [|x f]; [rewrite skipn_nil, !firstn_nil; reflexivity|]. cbn [Nat.add firstn skipn app]. f_equal. apply IH.
Qed.

Lemma concat_blocks cnt (f : list Qc) : concat (blocks cnt f) = firstn (fold_right Nat.add 0%nat cnt) f.
Proof.
  revert f; induction cnt as [|k cnt IH]; intros f; [reflexivity|].
  cbn [blocks concat fold_right]. rewrite IH, firstn_add. reflexivity.
Qed.

Lemma counts_sum idx : fold_right Nat.add 0%nat (counts idx) = length (concat idx).
Proof. induction idx as [|ids idx IH]; [reflexivity|]. cbn [counts map fold_right concat]. rewrite app_length. unfold counts in IH. rewrite IH. reflexivity. Qed.

Lemma concat_repeats idx p : length p = length idx ->
  concat (zipw (fun (ids : list nat) a => repeat a (length ids)) idx p) = step_expand (counts idx) p.
Proof.
  revert p; induction idx as [|ids idx IH]; intros [|a p] H; simpl in H; try discriminate; [reflexivity|].
  cbn [zipw concat counts map step_expand]. f_equal. apply IH. lia.
Qed.

Theorem step_par2fun_by_indices idx p (fn : list Qc) : concat idx = seq 0 (length fn) -> length p = length idx ->
  gather idx fn = zipw (fun (ids : list nat) a => repeat a (length ids)) idx p ->      (* fun[j] = p_i for every j in idx_i *)
  fn = step_expand (counts idx) p.
Proof.
  intros H Hp Hg. rewrite <- (concat_repeats idx p Hp), <- Hg, (gather_is_blocks idx fn H), concat_blocks, counts_sum.
  rewrite H, seq_length, firstn_all. reflexivity.
Qed.

(* ---------- Deconvolution1D's model as it runs: the matrix is computed by the model from PSF and boundary mode ---------- *)
Theorem deconv1_model_runs m P n x y : length x = n -> length y = n ->
  forward (mat_model n (deconv1_matrix false m P n) (GId n) (GId n)) (V1 x) = Some (V1 (conv1 m P x)) /\
  exists ay, adjoint (mat_model n (deconv1_matrix false m P n) (GId n) (GId n)) (V1 y) = Some (V1 ay) /\
             qdot (conv1 m P x) y = qdot x ay.
Proof.
  intros Hx Hy. split.
  - unfold forward, apply_func. cbn [mat_model lm_fwd lm_D lm_R p2f f2p obind mat_fwd].
    change (deconv1_matrix false m P n) with (deconv1_cols m P n).
    rewrite (deconv1_cols_operator m P n x Hx). reflexivity.
  - exists (qmattvec n (deconv1_matrix false m P n) y). split; [reflexivity|].
    rewrite <- (deconv1_cols_operator m P n x Hx).
    destruct (deconv1_rows_shape m P n) as [W L].
    apply qc_adjoint; [|exact Hx].
    unfold deconv1_matrix, deconv1_cols. pose proof (tr_rows n (deconv1_rows m P n)) as HR. rewrite L in HR. exact HR.
Qed.
