(* C13 -- round trips, column-wise action and shapes of the geometry maps of Model/C13_Geom.v. *)
From CV Require Import Base.Tac Base.Cmp Base.LinAlg Base.QcLin Model.C13_Geom Proofs.C13_Lists Proofs.C13_Index.
From Coq Require Import QArith Qcanon.

(* ---------------- shapes: a single vector, or a batch of k columns ---------------- *)
(* vb_shape m k: the shape of "k columns of length m" as the maps return it: a batch of one comes back as a vector *)
Definition vb_shape (m k : nat) : list nat := if (k =? 1)%nat then [m] else [m; k].

Lemma np_squeeze_mk m k : (m <> 1)%nat -> np_squeeze [m; k] = vb_shape m k.
Proof.
  intros Hm. unfold np_squeeze, vb_shape. cbn [filter].
  destruct (m =? 1)%nat eqn:E; [apply Nat.eqb_eq in E; lia|]. cbn [negb].
  destruct (k =? 1)%nat; reflexivity.
Qed.

Lemma prodn_np_squeeze s : prodn (np_squeeze s) = prodn s.
Proof.
  induction s as [|k s IH]; [reflexivity|]. unfold np_squeeze in *. cbn [filter].
  destruct (k =? 1)%nat eqn:E; cbn [negb].
  - apply Nat.eqb_eq in E. subst k. rewrite prodn_cons, IH. lia.
  - rewrite !prodn_cons, IH. reflexivity.
Qed.

Lemma batch_in_vb {A} m k (D : list A) : batch_in m (mkArr (vb_shape m k) D) = Some k.
Proof.
  unfold batch_in, vb_shape. destruct (k =? 1)%nat eqn:E; cbn [shp]; rewrite Nat.eqb_refl; [|reflexivity].
  apply Nat.eqb_eq in E. subst. reflexivity.
Qed.

Lemma prodn_vb m k : prodn (vb_shape m k) = (m * k)%nat.
Proof. unfold vb_shape. destruct (k =? 1)%nat eqn:E; [apply Nat.eqb_eq in E; subst|]; cbn; lia. Qed.

(* ---------------- Continuous2D ---------------- *)
Section Cont2D.
Context {A : Type} (d : A).

Lemma reshape_tail_C pre (a : arr A) q : (prodn pre <> 0)%nat -> prodn (shp a) = (q * prodn pre)%nat ->
  reshape_tail d pre OC a = Some (mkArr (pre ++ [q]) (dat a)).
Proof.
  intros HP Hq. unfold reshape_tail. rewrite Hq.
  destruct (prodn pre =? 0)%nat eqn:E0; [apply Nat.eqb_eq in E0; lia|].
  rewrite Nat.mod_mul by exact HP. cbn [Nat.eqb negb]. rewrite Nat.div_mul by exact HP. reflexivity.
Qed.

(* par2fun on k columns: the data are untouched, the shape is squeeze((n1,n2,k)) *)
Lemma cont2d_par2fun_eq n1 n2 k (a : arr A) : (0 < n1 * n2)%nat -> prodn (shp a) = (n1 * n2 * k)%nat ->
  cont2d_par2fun d n1 n2 a = Some (mkArr (np_squeeze [n1; n2; k]) (dat a)).
Proof.
  intros Hp Hs. unfold cont2d_par2fun. rewrite (reshape_tail_C [n1; n2] a k).
  - reflexivity.
  - cbn; lia.
  - rewrite Hs. cbn; lia.
Qed.

Lemma cont2d_fun2par_eq n1 n2 k (a : arr A) : (0 < n1 * n2)%nat -> prodn (shp a) = (n1 * n2 * k)%nat ->
  cont2d_fun2par d n1 n2 a = Some (mkArr (np_squeeze [(n1 * n2)%nat; k]) (dat a)).
Proof.
  intros Hp Hs. unfold cont2d_fun2par. rewrite (reshape_tail_C [(n1 * n2)%nat] a k).
  - reflexivity.
  - cbn; lia.
  - rewrite Hs. cbn; lia.
Qed.

(* fun2par(par2fun(p)) = p for a vector and for every batch, unless the grid is the single point 1x1 *)
Theorem cont2d_roundtrip n1 n2 k (a : arr A) :
  (2 <= n1 * n2)%nat -> shp a = vb_shape (n1 * n2) k ->
  obind (cont2d_par2fun d n1 n2 a) (cont2d_fun2par d n1 n2) = Some a.
Proof.
  intros Hm Hs.
  assert (Hp : prodn (shp a) = (n1 * n2 * k)%nat) by (rewrite Hs; apply prodn_vb).
  rewrite (cont2d_par2fun_eq n1 n2 k) by (try exact Hp; lia). cbn [obind].
  rewrite (cont2d_fun2par_eq n1 n2 k); cbn [shp dat]; try lia.
  - rewrite np_squeeze_mk by lia. destruct a as [s x]; cbn [shp dat] in *; subst s. reflexivity.
  - rewrite prodn_np_squeeze. cbn; lia.
Qed.

(* function values back and forth: par2fun(fun2par(f)) = f on arrays of shape (n1,n2) / (n1,n2,k) *)
Theorem cont2d_roundtrip_fun n1 n2 k (a : arr A) :
  (2 <= n1)%nat -> (2 <= n2)%nat -> shp a = (if (k =? 1)%nat then [n1; n2] else [n1; n2; k]) ->
  obind (cont2d_fun2par d n1 n2 a) (cont2d_par2fun d n1 n2) = Some a.
Proof.
  intros H1 H2 Hs.
  assert (Hp : prodn (shp a) = (n1 * n2 * k)%nat).
  { rewrite Hs. destruct (k =? 1)%nat eqn:E; [apply Nat.eqb_eq in E; subst|]; cbn; lia. }
  rewrite (cont2d_fun2par_eq n1 n2 k) by (try exact Hp; nia). cbn [obind].
  rewrite (cont2d_par2fun_eq n1 n2 k); cbn [shp dat]; try nia.
  - destruct a as [s x]; cbn [shp dat] in *; subst s. f_equal. f_equal.
    unfold np_squeeze. cbn [filter].
    destruct (n1 =? 1)%nat eqn:E1; [apply Nat.eqb_eq in E1; lia|].
    destruct (n2 =? 1)%nat eqn:E2; [apply Nat.eqb_eq in E2; lia|].
    destruct (k =? 1)%nat; reflexivity.
  - rewrite prodn_np_squeeze. cbn; lia.
Qed.

(* shapes + column-wise action, for grids without a singleton axis *)
Theorem cont2d_par2fun_vec n1 n2 (a : arr A) : (2 <= n1)%nat -> (2 <= n2)%nat -> shp a = [(n1 * n2)%nat] ->
  cont2d_par2fun d n1 n2 a = Some (mkArr [n1; n2] (dat a)).
Proof.
  intros H1 H2 Hs. rewrite (cont2d_par2fun_eq n1 n2 1); [| nia | rewrite Hs; cbn; lia].
  unfold np_squeeze. cbn [filter].
  destruct (n1 =? 1)%nat eqn:E1; [apply Nat.eqb_eq in E1; lia|].
  destruct (n2 =? 1)%nat eqn:E2; [apply Nat.eqb_eq in E2; lia|]. reflexivity.
Qed.

Theorem cont2d_par2fun_batch n1 n2 k (a : arr A) : (2 <= n1)%nat -> (2 <= n2)%nat -> (k <> 1)%nat ->
  shp a = [(n1 * n2)%nat; k] -> cont2d_par2fun d n1 n2 a = Some (mkArr [n1; n2; k] (dat a)).
Proof.
  intros H1 H2 Hk Hs. rewrite (cont2d_par2fun_eq n1 n2 k); [| nia | rewrite Hs; cbn; lia].
  unfold np_squeeze. cbn [filter].
  destruct (n1 =? 1)%nat eqn:E1; [apply Nat.eqb_eq in E1; lia|].
  destruct (n2 =? 1)%nat eqn:E2; [apply Nat.eqb_eq in E2; lia|].
  destruct (k =? 1)%nat eqn:E3; [apply Nat.eqb_eq in E3; lia|]. reflexivity.
Qed.

(* member j of par2fun(batch) (the slice [...,j], C-order data col_of (n1*n2) k j) = par2fun(column j) *)
Theorem cont2d_columnwise n1 n2 k (a : arr A) : (2 <= n1)%nat -> (2 <= n2)%nat -> (k <> 1)%nat ->
  shp a = [(n1 * n2)%nat; k] ->
  exists b, cont2d_par2fun d n1 n2 a = Some b /\ shp b = [n1; n2; k] /\
    forall j, cont2d_par2fun d n1 n2 (mkArr [(n1 * n2)%nat] (col_of d (n1 * n2) k j (dat a)))
              = Some (mkArr [n1; n2] (col_of d (n1 * n2) k j (dat b))).
Proof.
  intros H1 H2 Hk Hs. exists (mkArr [n1; n2; k] (dat a)).
  split; [apply cont2d_par2fun_batch; assumption|]. split; [reflexivity|].
  intros j. rewrite cont2d_par2fun_vec by (try assumption; reflexivity). reflexivity.
Qed.

Theorem cont2d_fun2par_columnwise n1 n2 k (a : arr A) : (2 <= n1)%nat -> (2 <= n2)%nat -> (k <> 1)%nat ->
  shp a = [n1; n2; k] ->
  exists b, cont2d_fun2par d n1 n2 a = Some b /\ shp b = [(n1 * n2)%nat; k] /\
    forall j, cont2d_fun2par d n1 n2 (mkArr [n1; n2] (col_of d (n1 * n2) k j (dat a)))
              = Some (mkArr [(n1 * n2)%nat] (col_of d (n1 * n2) k j (dat b))).
Proof.
  intros H1 H2 Hk Hs. exists (mkArr [(n1 * n2)%nat; k] (dat a)). split; [|split; [reflexivity|]].
  - rewrite (cont2d_fun2par_eq n1 n2 k); [| nia | rewrite Hs; cbn; lia].
    rewrite np_squeeze_mk by nia. unfold vb_shape.
    destruct (k =? 1)%nat eqn:E3; [apply Nat.eqb_eq in E3; lia|]. reflexivity.
  - intros j. rewrite (cont2d_fun2par_eq n1 n2 1); [| nia | cbn; lia].
    rewrite np_squeeze_mk by nia. reflexivity.
Qed.
End Cont2D.

(* the defects (squeeze() removes every singleton axis) *)
Theorem cont2d_shape_refuted : exists n1 n2 (a b : arr nat),
  shp a = [(n1 * n2)%nat] /\ length (dat a) = (n1 * n2)%nat /\
  cont2d_par2fun 0%nat n1 n2 a = Some b /\ shp b <> [n1; n2].
Proof.
  exists 1%nat, 3%nat, (mkArr [3%nat] [1; 2; 3]%nat), (mkArr [3%nat] [1; 2; 3]%nat).
  repeat split; try reflexivity. discriminate.
Qed.

Theorem cont2d_roundtrip_refuted : exists n1 n2 (a : arr nat),
  shp a = [(n1 * n2)%nat] /\ length (dat a) = (n1 * n2)%nat /\
  obind (cont2d_par2fun 0%nat n1 n2 a) (cont2d_fun2par 0%nat n1 n2) <> Some a.
Proof.
  exists 1%nat, 1%nat, (mkArr [1%nat] [5%nat]). repeat split; try reflexivity. vm_compute. discriminate.
Qed.

(* ---------------- maps that act on the columns of a (m,k) matrix: KLExpansion, StepExpansion ---------------- *)
Definition colwise (N m : nat) (f : list Qc -> list Qc) (a : arr Qc) : option (arr Qc) :=
  match batch_in m a with
  | None => None
  | Some k => Some (squeeze_arr (mkArr [N; k] (of_cols 0%Qc N (map f (cols_of 0%Qc m k (dat a))))))
  end.

Lemma colwise_eq N m f k (a : arr Qc) : (N <> 1)%nat -> shp a = vb_shape m k ->
  colwise N m f a = Some (mkArr (vb_shape N k) (of_cols 0%Qc N (map f (cols_of 0%Qc m k (dat a))))).
Proof.
  intros HN Hs. unfold colwise. destruct a as [s x]; cbn [shp dat] in *; subst s.
  rewrite batch_in_vb. unfold squeeze_arr. cbn [shp dat]. rewrite np_squeeze_mk by exact HN. reflexivity.
Qed.

(* a single vector *)
Lemma colwise_vec N m f (a : arr Qc) : (N <> 1)%nat -> shp a = [m] -> length (dat a) = m -> length (f (dat a)) = N ->
  colwise N m f a = Some (mkArr [N] (f (dat a))).
Proof.
  intros HN Hs Hl Hf. rewrite (colwise_eq N m f 1) by assumption. unfold vb_shape. cbn [Nat.eqb].
  unfold cols_of. cbn [seq map]. rewrite col_of_single by exact Hl. rewrite of_cols_single by exact Hf. reflexivity.
Qed.

(* column j of the image of a batch is the image of column j *)
Theorem colwise_columnwise N m f k (a : arr Qc) :
  (N <> 1)%nat -> (k <> 1)%nat -> shp a = [m; k] -> (forall c, length c = m -> length (f c) = N) ->
  exists b, colwise N m f a = Some b /\ shp b = [N; k] /\ length (dat b) = (N * k)%nat /\
    forall j, (j < k)%nat ->
      colwise N m f (mkArr [m] (col_of 0%Qc m k j (dat a))) = Some (mkArr [N] (col_of 0%Qc N k j (dat b))).
Proof.
  intros HN Hk Hs Hf.
  assert (Hvb : forall n, vb_shape n k = [n; k]) by (intros n; unfold vb_shape; destruct (k =? 1)%nat eqn:E; [apply Nat.eqb_eq in E; lia | reflexivity]).
  exists (mkArr [N; k] (of_cols 0%Qc N (map f (cols_of 0%Qc m k (dat a))))).
  split; [rewrite (colwise_eq N m f k) by (try assumption; rewrite Hvb; exact Hs); rewrite Hvb; reflexivity|].
  split; [reflexivity|]. cbn [dat]. split; [rewrite of_cols_length, map_length, cols_of_length; reflexivity|].
  intros j Hj.
  rewrite colwise_vec; cbn [shp dat]; try assumption; try reflexivity; try apply col_of_length;
    [|apply Hf; apply col_of_length].
  f_equal. f_equal.
  pose proof (col_of_of_cols 0%Qc N (map f (cols_of 0%Qc m k (dat a))) j) as E.
  rewrite map_length, cols_of_length in E. rewrite E.
  - rewrite nth_indep with (d' := f []) by (rewrite map_length, cols_of_length; exact Hj).
    rewrite map_nth. rewrite nth_cols_of by exact Hj. reflexivity.
  - exact Hj.
  - rewrite nth_indep with (d' := f []) by (rewrite map_length, cols_of_length; exact Hj).
    rewrite map_nth. apply Hf. rewrite nth_cols_of by exact Hj. apply col_of_length.
Qed.

(* g after f, column by column, is the identity *)
Theorem colwise_roundtrip N m f g k (a : arr Qc) :
  (N <> 1)%nat -> (m <> 1)%nat -> shp a = vb_shape m k -> length (dat a) = (m * k)%nat ->
  (forall c, length c = m -> length (f c) = N /\ g (f c) = c) ->
  obind (colwise N m f a) (colwise m N g) = Some a.
Proof.
  intros HN Hm Hs Hl Hfg. rewrite (colwise_eq N m f k) by assumption. cbn [obind].
  rewrite (colwise_eq m N g k) by (try assumption; reflexivity). cbn [dat].
  destruct a as [s x]; cbn [shp dat] in *; subst s. f_equal. f_equal.
  pose proof (cols_of_of_cols 0%Qc N (map f (cols_of 0%Qc m k x))) as E.
  rewrite map_length, cols_of_length in E. rewrite E.
  - rewrite map_map. rewrite map_ext_in with (g := fun c => c).
    + rewrite map_id. apply of_cols_cols_of. exact Hl.
    + intros c Hc. apply Hfg. pose proof (cols_of_Forall 0%Qc m k x) as HF. rewrite Forall_forall in HF. apply HF. exact Hc.
  - apply Forall_forall. intros c Hc. apply in_map_iff in Hc as [c0 [<- Hc0]]. apply Hfg.
    pose proof (cols_of_Forall 0%Qc m k x) as HF. rewrite Forall_forall in HF. apply HF. exact Hc0.
Qed.

(* ---------------- KLExpansion ---------------- *)
Lemma obind_ext {X Y} (x : option X) (f g : X -> option Y) : (forall y, f y = g y) -> obind x f = obind x g.
Proof. intros H. destruct x; [apply H | reflexivity]. Qed.

Lemma qcn_neq0 n : (n <> 0)%nat -> qcn n <> 0%Qc.
Proof.
  intros Hn E. unfold qcn, qcz in E. change 0%Qc with (Q2Qc 0) in E. apply Q2Qc_eq_iff in E.
  unfold Qeq, inject_Z in E. cbn in E. lia.
Qed.

Lemma map2_length {X Y Z} (f : X -> Y -> Z) x y : length (map2 f x y) = Nat.min (length x) (length y).
Proof. revert y. induction x as [|a x IH]; intros [|b y]; cbn; try reflexivity. rewrite IH. reflexivity. Qed.

Lemma kl_modes_le N nm : (kl_modes N nm <= N)%nat.
Proof. unfold kl_modes. destruct nm as [k|]; [|lia]. destruct (N <? k)%nat eqn:E; [lia|]. apply Nat.ltb_ge in E. exact E. Qed.

Lemma kl_par2fun_colwise (idst : list Qc -> list Qc) N m coefs tau a : (m <> 0)%nat ->
  kl_par2fun idst N m coefs tau a = colwise N m (kl_par2fun_col idst N coefs tau) a.
Proof. intros Hm. unfold kl_par2fun, colwise. destruct (m =? 0)%nat eqn:E; [apply Nat.eqb_eq in E; lia | reflexivity]. Qed.

Lemma kl_fun2par_colwise (dst : list Qc -> list Qc) N m coefs tau a : (m <> 0)%nat ->
  kl_fun2par dst N m coefs tau a = colwise m N (kl_fun2par_col dst N m coefs tau) a.
Proof. intros Hm. unfold kl_fun2par, colwise. destruct (m =? 0)%nat eqn:E; [apply Nat.eqb_eq in E; lia | reflexivity]. Qed.

Section KLProofs.
Variables (dst idst : list Qc -> list Qc) (N : nat).
(* the laws of scipy.fftpack's unnormalised DST-II / its inverse on vectors of length N *)
Hypothesis idst_length : forall x, length x = N -> length (idst x) = N.
Hypothesis dst_idst : forall x, length x = N -> dst (idst x) = map (fun v => qcn 2 * qcn N * v)%Qc x.

Lemma kl_col_roundtrip m coefs tau p :
  (N <> 0)%nat -> (m <= N)%nat -> length coefs = m -> length p = m -> Forall (fun c => c <> 0%Qc) coefs -> tau <> 0%Qc ->
  length (kl_par2fun_col idst N coefs tau p) = N /\
  kl_fun2par_col dst N m coefs tau (kl_par2fun_col idst N coefs tau p) = p.
Proof.
  intros HN Hm Hc Hp Hnz Ht.
  set (q := map2 (fun c x => c * x / tau)%Qc coefs p).
  assert (Hq : length q = m) by (unfold q; rewrite map2_length, Hc, Hp; apply Nat.min_id).
  assert (Hz : length (pad_to N q) = N) by (unfold pad_to; rewrite app_length, repeat_length; lia).
  unfold kl_par2fun_col, kl_fun2par_col. fold q. split; [rewrite map_length; apply idst_length; exact Hz|].
  rewrite map_map. rewrite map_ext with (g := fun v => v) by (intros v; field; apply (qcn_neq0 2); lia).
  rewrite map_id. rewrite dst_idst by exact Hz.
  unfold pad_to. rewrite map_app, firstn_app, map_length, Hq, Nat.sub_diag. cbn [firstn]. rewrite app_nil_r.
  rewrite firstn_all2 by (rewrite map_length; lia).
  unfold q. clear q Hq Hz. revert p m Hc Hp Hm. induction coefs as [|c cs IH]; intros [|x p] m Hc Hp Hm; cbn in *; try reflexivity; try lia.
  inversion Hnz as [|? ? Hc0 Hcs]; subst. f_equal.
  - field. repeat split; try assumption; apply qcn_neq0; lia.
  - apply (IH Hcs p (length cs)); lia.
Qed.

(* fun2par(par2fun(p)) = p for a vector and for every batch; any number of modes 2 <= m <= N *)
Theorem kl_roundtrip m coefs tau k (a : arr Qc) :
  (2 <= m)%nat -> (m <= N)%nat -> length coefs = m -> Forall (fun c => c <> 0%Qc) coefs -> tau <> 0%Qc ->
  shp a = vb_shape m k -> length (dat a) = (m * k)%nat ->
  obind (kl_par2fun idst N m coefs tau a) (kl_fun2par dst N m coefs tau) = Some a.
Proof.
  intros Hm2 HmN Hc Hnz Ht Hs Hl.
  rewrite kl_par2fun_colwise by lia.
  rewrite (obind_ext _ _ (colwise m N (kl_fun2par_col dst N m coefs tau))) by (intros y; apply kl_fun2par_colwise; lia).
  apply (colwise_roundtrip N m _ _ k); try assumption; try lia.
  intros c Hcl. apply kl_col_roundtrip; try assumption; lia.
Qed.

End KLProofs.

(* column j of par2fun(batch) = par2fun(column j) *)
Theorem kl_par2fun_columnwise (idst : list Qc -> list Qc) N m coefs tau k (a : arr Qc) :
  (forall x, length x = N -> length (idst x) = N) ->
  (1 <= m)%nat -> (m <= N)%nat -> (2 <= N)%nat -> (k <> 1)%nat -> shp a = [m; k] ->
  exists b, kl_par2fun idst N m coefs tau a = Some b /\ shp b = [N; k] /\ length (dat b) = (N * k)%nat /\
    forall j, (j < k)%nat ->
      kl_par2fun idst N m coefs tau (mkArr [m] (col_of 0%Qc m k j (dat a))) = Some (mkArr [N] (col_of 0%Qc N k j (dat b))).
Proof.
  intros idst_length Hm HmN HN Hk Hs.
  destruct (colwise_columnwise N m (kl_par2fun_col idst N coefs tau) k a) as [b [E1 [E2 [E3 E4]]]]; try assumption; try lia.
  - intros c Hc. unfold kl_par2fun_col. rewrite map_length. apply idst_length.
    unfold pad_to. rewrite app_length, repeat_length. pose proof (map2_length (fun c0 x => (c0 * x / tau)%Qc) coefs c). lia.
  - exists b. rewrite kl_par2fun_colwise by lia. split; [exact E1|]. split; [exact E2|]. split; [exact E3|].
    intros j Hj. rewrite kl_par2fun_colwise by lia. apply E4. exact Hj.
Qed.
