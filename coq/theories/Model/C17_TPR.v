(* C17 -- real-valued formulas of the shipped test problems: the Gaussian PSF, the built-in legacy
   PSFs, and the posterior log-density "Gaussian log-likelihood of the stated noise + log-prior".
   These are evaluated per case by an `interval` proof (ENCLOSURE, tactic in C17_Encl.v).  No proofs here. *)
From Coq Require Import Reals List ZArith.
Import ListNotations.
Local Open Scope R_scope.

Definition rsum (l : list R) : R := fold_right Rplus 0 l.

(* _GaussPSF_1D: exp(-x^2 / (2 s^2)) on the grid x, divided by its sum *)
Definition gauss_w (s : R) (x : Z) : R := exp (- (IZR x * IZR x) / (2 * (s * s))).
Definition gauss_psf_R (grid : list Z) (s : R) (i : nat) : R :=
  gauss_w s (nth i grid 0%Z) / rsum (map (gauss_w s) grid).

(* _getCirculantMatrix built-ins, grid point g = m/dim, m = 0..dim/2 *)
Definition legacy_gauss_R (p g : R) : R := exp (- ((p * g) * (p * g))).
Definition legacy_vonmises_R (p g : R) : R := exp (p * (cos (2 * PI * g) - 1)).   (* (exp(cos t)/exp(1))^p *)
Definition legacy_sinc_R (p g : R) : R := sin (PI * (p * g)) / (PI * (p * g)).     (* np.sinc, g <> 0 *)

(* log N(d ; m, s2 I) and the vector-variance form; r = list of (d_i, m_i) *)
Definition sq (a : R) : R := a * a.
Definition ssq (dm : list (R * R)) : R := rsum (map (fun p => sq (fst p - snd p)) dm).
Definition gauss_iid_logpdf (s2 : R) (dm : list (R * R)) : R :=
  - INR (length dm) / 2 * ln (2 * PI * s2) - ssq dm / (2 * s2).
(* r = list of ((d_i, m_i), s2_i) *)
Definition gauss_diag_logpdf (dms : list ((R * R) * R)) : R :=
  rsum (map (fun p => - ln (2 * PI * snd p) / 2 - sq (fst (fst p) - snd (fst p)) / (2 * snd p)) dms).

(* posterior.logd(x) = log-likelihood(data | model(x), stated noise) + log-prior(x) *)
Definition post_logd_iid (s2 : R) (dm : list (R * R)) (ps2 : R) (xmu : list (R * R)) : R :=
  gauss_iid_logpdf s2 dm + gauss_iid_logpdf ps2 xmu.
Definition post_logd_diag (dms : list ((R * R) * R)) (ps2 : R) (xmu : list (R * R)) : R :=
  gauss_diag_logpdf dms + gauss_iid_logpdf ps2 xmu.

(* string phantoms of _getExactSolution with transcendental values; t = the mesh point linspace(-1,1,dim)[i] *)
Definition ph_gauss_R (p t : R) : R := exp (- ((p * t) * (p * t))).
Definition ph_sinc_R (p t : R) : R := sin (PI * (p * t)) / (PI * (p * t)).           (* t <> 0; np.sinc(0) = 1 *)
Definition ph_vonmises_R (p t tm : R) : R := exp (p * (cos (PI * t) - cos (PI * tm))).  (* tm = mesh point of the maximum *)
(* bumps: grid point g = i + 1/2, h = pi/dim *)
Definition ph_bumps_R (dim g : R) : R :=
  exp (- 12 * ((- PI / 2 + g * (PI / dim) - 8 / 10) * (- PI / 2 + g * (PI / dim) - 8 / 10)))
  + 1 / 2 * exp (- 5 * ((- PI / 2 + g * (PI / dim) + 1 / 2) * (- PI / 2 + g * (PI / dim) + 1 / 2))).
(* derivGauss: diff of the Gauss phantom on dim+1 points, divided by its maximum (attained between ta and tb) *)
Definition ph_dgauss_R (p t0 t1 ta tb : R) : R :=
  (ph_gauss_R p t1 - ph_gauss_R p t0) / (ph_gauss_R p tb - ph_gauss_R p ta).

(* default exact solutions of Poisson1D (conductivity) and Heat1D (initial condition) at a grid point g *)
Definition poisson_default_R (ep g : R) : R := exp (5 * g * exp (- 2 * g) * sin (ep - g)).
Definition heat_default_R (ep g : R) : R := g * exp (- 2 * g) * sin (ep - g).
(* increments of the Gauss phantom (derivGauss before normalisation) *)
Definition dgauss_inc_R (p t0 t1 : R) : R := ph_gauss_R p t1 - ph_gauss_R p t0.

(* the reduction + interval tactic used by the generated ENCLOSURE cases lives in Model/C17_Encl.v, so that the
   property theorems (and coqchk on them) do not depend on the Interval library *)

(* WangCubic over R (same two lines as the Qc model in C17_TP.v) *)
Definition cubic_forward_R (x0 x1 : R) : R := 10 * x1 - 10 * (x0 * x0 * x0) + 5 * (x0 * x0) + 6 * x0.
Definition cubic_jacobian_R (x0 x1 : R) : R * R := (- 30 * (x0 * x0) + 10 * x0 + 6, 10).

(* Abel1D as coded: tvec = linspace(h/2, endpoint - h/2, N) (= h/2 + j h), svec = tvec + h/2,
   A[i,j] = h / sqrt(|s_i - t_j|) where t_j < s_i, else 0 *)
Definition abel_t (h : R) (j : nat) : R := h / 2 + INR j * h.
Definition abel_s (h : R) (i : nat) : R := abel_t h i + h / 2.
Definition abel_entry_R (n : nat) (ep : R) (i j : nat) : R :=
  let h := ep / INR n in
  if Rlt_dec (abel_t h j) (abel_s h i) then h / sqrt (Rabs (abel_s h i - abel_t h j)) else 0.
