(* C08 -- checker for the kernel-law cells: the LAW of the new point of one transition of the concrete phase-space model
   (c_transition of Model/C08_NUTS.v: the same program the scripted cells run and the orbit / closed-orbit theorems speak
   about) against the exact law of the real sampler, enumerated by the harness over every outcome of the random
   decisions.  No proofs here. *)
From CV Require Import Base.Tac Base.Cmp Base.Ext Base.LinAlg Base.QcLin Model.C08_NUTS.
From Coq Require Import QArith Qcanon.

(* model probability that the transition from (x, momentum z, slice draw e) ends at the point pt *)
Definition kernel_prob (t : target) (guard : bool) (max_depth : nat) (heps : Qc) (x z : list Q) (e : Q) (pt : list Q) : Q :=
  dist (c_transition t guard max_depth heps (qvec x) (qvec z) e)
       (fun tp => if ql_eqb (map this (ps_x (p_cur tp))) pt then 1 else 0).

(* obs: the enumerated law of the implementation, (new point, probability); the probabilities must sum to 1 and each must
   EQUAL the model's (exact rational arithmetic on both sides; the observed points are distinct) *)
Definition check_kernel (t : target) (guard : bool) (max_depth : nat) (heps : Qc) (x z : list Q) (e : Q)
           (obs : list (list Q * Q)) : bool :=
  Qeq_bool (fold_right Qplus 0 (map snd obs)) 1 &&
  forallb (fun pq => Qeq_bool (kernel_prob t guard max_depth heps x z e (fst pq)) (snd pq)) obs.

(* equality of concrete phase-space states (decides Leibniz equality: Qc is canonical) *)
Definition cs_eqb (s t : cstate) : bool :=
  qcl_eqb (ps_x s) (ps_x t) && qcl_eqb (ps_r s) (ps_r t) && qcl_eqb (ps_g s) (ps_g t).

(* closed-orbit cells: the leapfrog orbit of the MODEL through (x, momentum z) closes after exactly N steps (the harness has
   computed the orbit and N with its own rational arithmetic); these are the hypotheses of C08_concrete_closed_orbit_checked *)
Definition check_cycle (t : target) (heps : Qc) (x z : list Q) (N : nat) : bool :=
  let s0 := c_init t (qvec x) (qvec z) in
  (0 <? N)%nat && (length x =? length z)%nat &&
  cs_eqb (Nat.iter N (c_leap t heps true) s0) s0 &&
  forallb (fun n => negb (cs_eqb (Nat.iter n (c_leap t heps true) s0) s0)) (seq 1 (N - 1)).
