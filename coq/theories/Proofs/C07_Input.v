(* C07 -- input forms of forward / adjoint (Model._apply_func): handing the identity matrix over as Samples reads off the
   matrix of the map column by column -- forward(Samples(I)).samples IS get_matrix() and adjoint(Samples(I)).samples its
   transpose -- and the dtype numpy attaches to the result: float64 for every Samples call, never an integer / bool type
   unless BOTH the operator data and the input are integer / bool.  All sizes, all geometries. *)
From CV Require Import Base.Tac Base.LinAlg Base.Cmp Base.QcLin Model.C07_Adj Model.C07_Input
  Proofs.C07_Lists Proofs.C07_Geom Proofs.C07_Model Proofs.C07_Conv Proofs.C07_Deconv1 Proofs.C07_Linear Proofs.C07_Defect
  Proofs.C07_Deepen.
From Coq Require Import QArith Qcanon.

Local Open Scope Qc_scope.

(* ---------- plumbing ---------- *)
Lemma obind_all_some {A B C} (f : A -> option B) (g : B -> option C) l :
  obind (all_some (map f l)) (fun vs => all_some (map g vs)) = all_some (map (fun x => obind (f x) g) l).
Proof.
  induction l as [|a l IH]; [reflexivity|].
  cbn [map all_some]. destruct (f a) as [b|]; [|reflexivity]. cbn [obind].
  rewrite <- IH. destruct (all_some (map f l)) as [vs|]; cbn [option_map obind map all_some]; destruct (g b); reflexivity.
Qed.

Lemma as_vec_obind o : as_vec o = obind o vec_of.
Proof. destruct o as [[l|r c l]|]; reflexivity. Qed.

Lemma samples_array_of_map {A} n (F : A -> option val) l :
  samples_array n (all_some (map F l)) = option_map (tr n) (all_some (map (fun x => as_vec (F x)) l)).
Proof.
  unfold samples_array.
  transitivity (option_map (tr n) (obind (all_some (map F l)) (fun vs => all_some (map vec_of vs)))).
  - destruct (all_some (map F l)); reflexivity.
  - rewrite obind_all_some. reflexivity.
Qed.

(* ---------- forward(Samples(I)) / adjoint(Samples(I)) are the column assemblies ---------- *)
(* for EVERY model (any backing, any geometry, also where a column raises): the array of forward(Samples(I)) is the
   column assembly get_matrix performs *)
Theorem forward_of_identity_columns m :
  forward_of_identity m = option_map (tr (par_dim (lm_R m))) (columns m).
Proof.
  unfold forward_of_identity, forward_samples, units. rewrite map_map, samples_array_of_map. reflexivity.
Qed.

Theorem forward_of_identity_get_matrix m : lm_mat m = None -> forward_of_identity m = get_matrix m.
Proof. intros H. rewrite forward_of_identity_columns. unfold get_matrix. rewrite H. reflexivity. Qed.

(* ... and adjoint(Samples(I)) is the column assembly of the transposed model (T built from the underlying callables) *)
Theorem adjoint_of_identity_columns k m :
  adjoint_of_identity m = option_map (tr (par_dim (lm_D m))) (columns (lmT2 k m)).
Proof.
  unfold adjoint_of_identity, adjoint_samples, units. rewrite map_map, samples_array_of_map. reflexivity.
Qed.

Theorem adjoint_of_identity_get_matrix_T k m : lm_mat m = None -> adjoint_of_identity m = get_matrix (lmT2 k m).
Proof.
  intros H. rewrite (adjoint_of_identity_columns k). unfold get_matrix. cbn [lmT2 lm_mat lm_R]. rewrite H. reflexivity.
Qed.

(* ---------- the transpose relation ---------- *)
Lemma obind_Some_r {A} (x : option A) : obind x (fun a => Some a) = x.
Proof. destruct x; reflexivity. Qed.

(* the parameter-to-parameter maps of m, repackaged as a function-backed model between identity geometries *)
Definition par_model (m : lmodel) : lmodel :=
  mkLM (fun v => forward m v) (fun v => adjoint m v) None (GId (par_dim (lm_D m))) (GId (par_dim (lm_R m))).

Lemma par_model_forward m v : forward (par_model m) v = forward m v.
Proof. unfold forward at 1, apply_func. cbn [par_model lm_fwd lm_D lm_R p2f obind]. destruct (forward m v); reflexivity. Qed.
Lemma par_model_adjoint m v : adjoint (par_model m) v = adjoint m v.
Proof. unfold adjoint at 1, apply_func. cbn [par_model lm_adj lm_D lm_R p2f obind]. destruct (adjoint m v); reflexivity. Qed.

Lemma par_model_columns m : columns (par_model m) = columns m.
Proof.
  unfold columns. cbn [par_model lm_D par_dim]. f_equal. apply map_ext. intros i. rewrite par_model_forward. reflexivity.
Qed.

Lemma gid_idem n : idem_geom (GId n).
Proof. apply idlike_geom_idem. exact I. Qed.

(* whenever forward and adjoint are linear maps between parameter vectors that satisfy the inner-product identity --
   no condition on the geometries, on the backing or on how T is built -- the two arrays are transposes of each other,
   forward's reproduces forward, and it is what get_matrix assembles *)
Theorem samples_identity_transpose m f g :
  (forall x, length x = par_dim (lm_D m) -> forward m (V1 x) = Some (V1 (f x))) ->
  linear_map (par_dim (lm_D m)) (par_dim (lm_R m)) f ->
  (forall y, length y = par_dim (lm_R m) -> adjoint m (V1 y) = Some (V1 (g y))) ->
  linear_map (par_dim (lm_R m)) (par_dim (lm_D m)) g ->
  (forall x y, length x = par_dim (lm_D m) -> length y = par_dim (lm_R m) -> qdot (f x) y = qdot x (g y)) ->
  exists G, forward_of_identity m = Some G /\ adjoint_of_identity m = Some (tr (par_dim (lm_D m)) G) /\
            wf_mat (par_dim (lm_D m)) G /\ length G = par_dim (lm_R m) /\
            (forall x, length x = par_dim (lm_D m) -> qmatvec G x = f x) /\
            (lm_mat m = None -> get_matrix m = Some G).
Proof.
  intros Hf Lf Hg Lg Hadj.
  set (m' := par_model m).
  assert (Hf' : forall x, length x = par_dim (lm_D m') -> forward m' (V1 x) = Some (V1 (f x))).
  { intros x Hx. unfold m'. rewrite par_model_forward. apply Hf. exact Hx. }
  assert (Hg' : forall y, length y = par_dim (lm_R m') -> adjoint m' (V1 y) = Some (V1 (g y))).
  { intros y Hy. unfold m'. rewrite par_model_adjoint. apply Hg. exact Hy. }
  destruct (transpose_get_matrix_eq 0 m' f g eq_refl (gid_idem _) (gid_idem _) Hf' Lf Hg' Lg Hadj) as (G & EG & EGT).
  destruct (get_matrix_columns m' f eq_refl Hf' Lf) as (G' & EG' & WG & LG & HG & _).
  assert (G' = G) by congruence. subst G'.
  assert (EF : forward_of_identity m = Some G).
  { rewrite forward_of_identity_columns, <- par_model_columns. exact EG. }
  exists G. split; [exact EF|]. split; [|split; [exact WG|split; [exact LG|split; [exact HG|]]]].
  - rewrite (adjoint_of_identity_columns 0). transitivity (get_matrix (lmT 0 m')); [|rewrite EGT; reflexivity].
    unfold get_matrix. cbn [lmT lm_mat m' par_model option_map lm_R lm_D par_dim].
    f_equal. unfold columns. cbn [lmT lmT2 lm_D lm_R m' par_model par_dim]. f_equal. apply map_ext. intros i.
    f_equal. destruct (transpose_consistent 0 m' (gid_idem _) (gid_idem _) (V1 (qunit (par_dim (lm_R m)) i))) as [E _].
    change (forward (lmT2 0 m) (V1 (qunit (par_dim (lm_R m)) i))) with (adjoint m (V1 (qunit (par_dim (lm_R m)) i))).
    symmetry. etransitivity; [exact E|]. apply par_model_adjoint.
  - intros Hm. rewrite <- (forward_of_identity_get_matrix m Hm). exact EF.
Qed.

(* instance 1: every function pair through orthogonal geometries on either side (images in C or F order, identity-like
   geometries, one-node steps, ...) *)
Theorem fun_model_samples_identity n M D R :
  wf_geom D -> wf_geom R -> wf_mat n M -> n = fun_dim D -> length M = fun_dim R -> orth_geom D -> orth_geom R ->
  exists G, get_matrix (fun_model n M D R) = Some G /\
            forward_of_identity (fun_model n M D R) = Some G /\
            adjoint_of_identity (fun_model n M D R) = Some (tr (par_dim D) G) /\
            (forall x, length x = par_dim D -> forward (fun_model n M D R) (V1 x) = Some (V1 (qmatvec G x))).
Proof.
  intros WD WR WM Hn HL OD OR.
  destruct (samples_identity_transpose (fun_model n M D R) (fm_forward M D R) (fm_adjoint n M D R)) as (G & EF & EA & _ & _ & HG & Hgm).
  - intros x Hx. apply fun_model_forward; assumption.
  - apply (fm_forward_linear n); assumption.
  - intros y Hy. apply fun_model_adjoint; assumption.
  - apply fm_adjoint_linear; assumption.
  - intros x y Hx Hy. cbn [fun_model lm_D lm_R] in Hx, Hy.
    destruct (adjoint_function_model n M D R WM Hn HL OD OR x y Hx Hy) as (fx & ay & E1 & E2 & _ & _ & E).
    rewrite (fun_model_forward n M D R x) in E1 by assumption. rewrite (fun_model_adjoint n M D R y) in E2 by assumption.
    inversion E1; inversion E2; subst. exact E.
  - exists G. split; [apply Hgm; reflexivity|]. split; [exact EF|]. split; [exact EA|].
    intros x Hx. cbn [fun_model lm_D] in HG. rewrite (HG x Hx). apply fun_model_forward; assumption.
Qed.

(* instance 2: a stored matrix between identity geometries: forward(Samples(I)) hands back the very matrix, adjoint its transpose *)
Theorem mat_model_samples_identity n A k :
  wf_mat n A -> length A = k ->
  forward_of_identity (mat_model n A (GId n) (GId k)) = Some A /\
  adjoint_of_identity (mat_model n A (GId n) (GId k)) = Some (tr n A) /\
  get_matrix (mat_model n A (GId n) (GId k)) = Some A.
Proof.
  intros WA HL.
  destruct (samples_identity_transpose (mat_model n A (GId n) (GId k)) (qmatvec A) (qmattvec n A)) as (G & EF & EA & WG & LG & HG & _).
  - intros x _. reflexivity.
  - cbn [mat_model lm_D lm_R par_dim]. rewrite <- HL. apply qmatvec_linear. exact WA.
  - intros y _. reflexivity.
  - cbn [mat_model lm_D lm_R par_dim]. rewrite <- HL. apply qmattvec_linear. exact WA.
  - intros x y Hx Hy. cbn [mat_model lm_D lm_R par_dim] in Hx, Hy. apply qc_adjoint; assumption.
  - cbn [mat_model lm_D lm_R par_dim] in *.
    assert (G = A).
    { apply (mat_ext n); [exact WG | exact WA | transitivity k; [exact LG | symmetry; exact HL] | exact HG]. }
    subst G. split; [exact EF|]. split; [exact EA|]. reflexivity.
Qed.

(* ---------- dtype flow ---------- *)
Lemma weak_float_float d : is_float (weak_float d) = true.
Proof. destruct d; reflexivity. Qed.

Lemma p2f_dt_float g d : is_float d = true -> is_float (p2f_dt g d) = true.
Proof. revert d; induction g; intros d H; cbn [p2f_dt]; try exact H; try reflexivity. apply weak_float_float. Qed.

Lemma f2p_dt_float g d : is_float d = true -> is_float (f2p_dt g d) = true.
Proof. revert d; induction g; intros d H; cbn [f2p_dt]; try exact H; try reflexivity. apply IHg, weak_float_float. Qed.

Lemma f2p_dt_float64 g : f2p_dt g DF64 = DF64.
Proof. induction g; cbn [f2p_dt weak_float is_float]; try reflexivity. exact IHg. Qed.

Lemma promote_float_l a b : is_float a = true -> is_float (promote a b) = true.
Proof. destruct a, b; intros H; try discriminate; reflexivity. Qed.
Lemma promote_float_r a b : is_float b = true -> is_float (promote a b) = true.
Proof. destruct a, b; intros H; try discriminate; reflexivity. Qed.
Lemma promote_comm a b : promote a b = promote b a.
Proof. destruct a, b; reflexivity. Qed.
Lemma promote_idem a : promote a a = a.
Proof. destruct a; reflexivity. Qed.
Lemma promote_float64 a : promote DF64 a = DF64.
Proof. destruct a; reflexivity. Qed.

(* the Samples branch: float64 whatever is handed in, whatever the operator stores *)
Theorem samples_result_float64 is_fun opdt rg dg xdt : apply_dt FSamples is_fun opdt rg dg xdt = DF64.
Proof. reflexivity. Qed.

(* float64 operator data (every shipped test problem, every float matrix): float64 for every form, dtype and geometry *)
Theorem float64_operator_result f is_fun rg dg xdt : apply_dt f is_fun DF64 rg dg xdt = DF64.
Proof. destruct f; cbn [apply_dt]; try reflexivity; rewrite promote_float64; apply f2p_dt_float64. Qed.

(* a float operator or a float input always gives a float result *)
Theorem float_result f is_fun opdt rg dg xdt :
  is_float opdt = true \/ is_float xdt = true -> is_float (apply_dt f is_fun opdt rg dg xdt) = true.
Proof.
  intros H. destruct f; cbn [apply_dt]; try reflexivity; apply f2p_dt_float;
    (destruct H as [H|H]; [apply promote_float_l; exact H | apply promote_float_r; destruct is_fun; [exact H | apply p2f_dt_float; exact H]]).
Qed.

(* ... hence an integer / bool result needs integer / bool operator data AND integer / bool input, and never comes out of the
   Samples branch *)
Theorem integer_result_only_from_integers f is_fun opdt rg dg xdt :
  is_float (apply_dt f is_fun opdt rg dg xdt) = false -> f <> FSamples /\ is_float opdt = false /\ is_float xdt = false.
Proof.
  intros H. split; [intros ->; discriminate H|].
  split.
  - destruct (is_float opdt) eqn:E; [|reflexivity]. rewrite (float_result f is_fun opdt rg dg xdt (or_introl E)) in H. discriminate.
  - destruct (is_float xdt) eqn:E; [|reflexivity]. rewrite (float_result f is_fun opdt rg dg xdt (or_intror E)) in H. discriminate.
Qed.

(* ---------- further instances of the Samples(I) theorem ---------- *)
Lemma mat_model_adjoint n A D R y : wf_geom D -> wf_geom R -> vec_geom D -> vec_geom R -> wf_mat n A -> n = fun_dim D ->
  length y = par_dim R -> adjoint (mat_model n A D R) (V1 y) = Some (V1 (fm_adjoint n A D R y)).
Proof.
  intros WD WR VD VR WA Hn Hy. unfold adjoint, apply_func, fm_adjoint. cbn [mat_model lm_adj lm_D lm_R].
  rewrite (p2f_pmap R y Hy). cbn [obind]. rewrite (funval_vec R _ VR). cbn [mat_adj obind].
  rewrite <- (funval_vec D (qmattvec n A (pmap R y)) VD). apply f2p_fmap; [exact WD|].
  rewrite qmattvec_length by exact WA. exact Hn.
Qed.

(* instance 3: a stored matrix through vector-valued orthogonal geometries (one-node steps, transposing expansions, ...):
   forward(Samples(I)) is the matrix of the PARAMETER map -- what the repaired get_matrix assembles -- and adjoint(Samples(I))
   its transpose *)
Theorem mat_model_vec_samples_identity n A D R :
  wf_geom D -> wf_geom R -> vec_geom D -> vec_geom R -> wf_mat n A -> n = fun_dim D -> length A = fun_dim R ->
  orth_geom D -> orth_geom R ->
  exists G, forward_of_identity (mat_model n A D R) = Some G /\
            adjoint_of_identity (mat_model n A D R) = Some (tr (par_dim D) G) /\
            get_matrix_gen false (mat_model n A D R) = Some G /\
            (forall x, length x = par_dim D -> forward (mat_model n A D R) (V1 x) = Some (V1 (qmatvec G x))).
Proof.
  intros WD WR VD VR WA Hn HL OD OR.
  destruct (samples_identity_transpose (mat_model n A D R) (fm_forward A D R) (fm_adjoint n A D R)) as (G & EF & EA & _ & _ & HG & _).
  - intros x Hx. apply mat_model_forward; assumption.
  - apply (fm_forward_linear n); assumption.
  - intros y Hy. apply mat_model_adjoint; assumption.
  - apply fm_adjoint_linear; assumption.
  - intros x y Hx Hy. cbn [mat_model lm_D lm_R] in Hx, Hy.
    destruct (adjoint_matrix_model n A D R WA Hn HL VD VR OD OR x y Hx Hy) as (fx & ay & E1 & E2 & _ & _ & E).
    rewrite (mat_model_forward n A D R x) in E1 by assumption. rewrite (mat_model_adjoint n A D R y) in E2 by assumption.
    inversion E1; inversion E2; subst. exact E.
  - exists G. split; [exact EF|]. split; [exact EA|]. split.
    + rewrite get_matrix_gen_false. rewrite <- forward_of_identity_get_matrix by reflexivity. exact EF.
    + intros x Hx. cbn [mat_model lm_D] in HG. rewrite (HG x Hx). apply mat_model_forward; assumption.
Qed.

(* instance 4: Deconvolution1D's model as the check runs it (matrix computed from PSF and boundary mode, all five modes, every
   PSF): forward(Samples(I)) is that matrix, whose action is the documented convolution, and adjoint(Samples(I)) its transpose *)
Theorem deconv1_samples_identity m P n :
  forward_of_identity (mat_model n (deconv1_matrix false m P n) (GId n) (GId n)) = Some (deconv1_matrix false m P n) /\
  adjoint_of_identity (mat_model n (deconv1_matrix false m P n) (GId n) (GId n)) = Some (tr n (deconv1_matrix false m P n)) /\
  (forall x, length x = n -> qmatvec (deconv1_matrix false m P n) x = conv1 m P x).
Proof.
  destruct (deconv1_rows_shape m P n) as [W L].
  assert (WA : wf_mat n (deconv1_matrix false m P n)).
  { unfold deconv1_matrix, deconv1_cols. pose proof (tr_rows n (deconv1_rows m P n)) as HR. rewrite L in HR. exact HR. }
  assert (LA : length (deconv1_matrix false m P n) = n).
  { unfold deconv1_matrix, deconv1_cols. apply tr_length. exact W. }
  destruct (mat_model_samples_identity n (deconv1_matrix false m P n) n WA LA) as (E1 & E2 & _).
  split; [exact E1|]. split; [exact E2|]. intros x Hx. apply deconv1_cols_operator. exact Hx.
Qed.

(* ---------- the transposed model swaps the two, also on Samples(I) and in the dtype of the result ---------- *)
Theorem transpose_swaps_samples_identity k m :
  forward_of_identity (lmT2 k m) = adjoint_of_identity m /\ adjoint_of_identity (lmT2 k m) = forward_of_identity m /\
  (forall f is_fun opdt xdt, forward_dt f is_fun opdt (lmT2 k m) xdt = adjoint_dt f is_fun opdt m xdt) /\
  (forall f is_fun opdt xdt, adjoint_dt f is_fun opdt (lmT2 k m) xdt = forward_dt f is_fun opdt m xdt).
Proof. repeat split. Qed.

(* ---------- 2-d batches through a matrix: (A X) e = A (X e), so column j of the result is A applied to column j ---------- *)
Lemma mmul_assoc c (A X : list (list Qc)) e : wf_mat c X -> length e = c ->
  qmatvec (mmul c A X) e = qmatvec A (qmatvec X e).
Proof.
  intros WX He. unfold mmul. unfold qmatvec at 1 3, matvec. rewrite map_map. apply map_ext. intros arow.
  change (qdot (qmattvec c X arow) e = qdot arow (qmatvec X e)).
  rewrite (qdot_comm arow), (qc_adjoint c X e arow WX He). apply qdot_comm.
Qed.

Theorem matrix_batch_columnwise n (A : list (list Qc)) k c l :
  wf_mat n A -> length l = (c * n)%nat ->
  let X := chunks c n l in
  forward (mat_model n A (GId n) (GId k)) (V2 n c l) = Some (V2 (length A) c (concat (mmul c A X))) /\
  wf_mat c (mmul c A X) /\ length (mmul c A X) = length A /\
  (forall e, length e = c -> qmatvec (mmul c A X) e = qmatvec A (qmatvec X e)) /\
  (forall j, (j < c)%nat -> col 0 (mmul c A X) j = qmatvec A (col 0 X j)).
Proof.
  intros WA Hl X.
  assert (WX : wf_mat c X) by (apply chunks_wf; exact Hl).
  destruct (mmul_shape c A X WX) as [WM LM].
  split; [|split; [exact WM|split; [exact LM|split]]].
  - unfold forward, apply_func. cbn [mat_model lm_fwd lm_D lm_R p2f f2p obind mat_fwd].
    rewrite (forallb_rows n A WA). reflexivity.
  - intros e He. apply mmul_assoc; assumption.
  - intros j Hj. rewrite <- (qmatvec_unit c (mmul c A X) j WM Hj), <- (qmatvec_unit c X j WX Hj).
    apply mmul_assoc; [exact WX | apply qunit_length].
Qed.
