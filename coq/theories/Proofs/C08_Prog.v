(* C08 -- lemmas about the probabilistic-program monad of Model/C08_NUTS.v:
   all_out / all_pos / dist / run and how they compose with bind. *)
From CV Require Import Base.Tac Model.C08_NUTS.
From Coq Require Import QArith Qabs Qminmax Lqa Morphisms Setoid.

Lemma all_out_impl {A} (P Q : A -> Prop) (m : prog A) :
  (forall a, P a -> Q a) -> all_out P m -> all_out Q m.
Proof.
  intros HPQ; induction m as [a | st p k IH]; simpl; [apply HPQ|].
  intros [H1 H2]; split; apply IH; assumption.
Qed.

Lemma all_out_and {A} (P Q : A -> Prop) (m : prog A) :
  all_out P m -> all_out Q m -> all_out (fun a => P a /\ Q a) m.
Proof.
  induction m as [a | st p k IH]; simpl; [tauto|].
  intros [H1 H2] [H3 H4]; split; apply IH; assumption.
Qed.

Lemma all_out_bind {A B} (P : B -> Prop) (m : prog A) (f : A -> prog B) :
  all_out P (bind m f) <-> all_out (fun a => all_out P (f a)) m.
Proof.
  induction m as [a | st p k IH]; simpl; [tauto|].
  rewrite (IH true), (IH false). tauto.
Qed.

Lemma all_out_true {A} (m : prog A) : all_out (fun _ => True) m.
Proof. induction m; simpl; auto. Qed.

Lemma all_out_all_pos {A} (P : A -> Prop) (m : prog A) : all_out P m -> all_pos P m.
Proof. induction m as [a | st p k IH]; simpl; [tauto|]. intros [H1 H2]; split; intros _; apply IH; assumption. Qed.

Lemma all_pos_impl {A} (P Q : A -> Prop) (m : prog A) :
  (forall a, P a -> Q a) -> all_pos P m -> all_pos Q m.
Proof.
  intros HPQ; induction m as [a | st p k IH]; simpl; [apply HPQ|].
  intros [H1 H2]; split; intros Hp; apply IH; auto.
Qed.

(* on the outcomes where the everywhere-property R holds, P implies Q *)
Lemma all_pos_impl_out {A} (R P Q : A -> Prop) (m : prog A) :
  all_out R m -> (forall a, R a -> P a -> Q a) -> all_pos P m -> all_pos Q m.
Proof.
  intros HR HPQ; induction m as [a | st p k IH]; simpl in *; [apply HPQ; assumption|].
  destruct HR as [HR1 HR2]. intros [H1 H2]; split; intros Hp; apply IH; auto.
Qed.

Lemma all_pos_bind {A B} (P : B -> Prop) (m : prog A) (f : A -> prog B) :
  all_pos P (bind m f) <-> all_pos (fun a => all_pos P (f a)) m.
Proof.
  induction m as [a | st p k IH]; simpl; [tauto|].
  rewrite (IH true), (IH false). tauto.
Qed.

Lemma wf_bind {A B} (m : prog A) (f : A -> prog B) :
  wf_prog m -> all_out (fun a => wf_prog (f a)) m -> wf_prog (bind m f).
Proof.
  induction m as [a | st p k IH]; simpl; [tauto|].
  intros (Hp & W1 & W2) (O1 & O2). repeat split; try apply Hp; apply IH; assumption.
Qed.

(* ---------------- dist ---------------- *)
Lemma dist_ext {A} (m : prog A) (f g : A -> Q) :
  (forall a, f a == g a) -> dist m f == dist m g.
Proof.
  intros H; induction m as [a | st p k IH]; simpl; [apply H|].
  rewrite (IH true), (IH false). reflexivity.
Qed.

(* equality of the integrands is only needed on the outcomes *)
Lemma dist_ext_out {A} (P : A -> Prop) (m : prog A) (f g : A -> Q) :
  all_out P m -> (forall a, P a -> f a == g a) -> dist m f == dist m g.
Proof.
  intros HP H; induction m as [a | st p k IH]; simpl in *; [apply H; assumption|].
  destruct HP as [H1 H2]. rewrite (IH true H1), (IH false H2). reflexivity.
Qed.

Lemma dist_bind {A B} (m : prog A) (f : A -> prog B) (g : B -> Q) :
  dist (bind m f) g == dist m (fun a => dist (f a) g).
Proof.
  induction m as [a | st p k IH]; simpl; [reflexivity|].
  rewrite (IH true), (IH false). reflexivity.
Qed.

Lemma dist_const {A} (m : prog A) (c : Q) : dist m (fun _ => c) == c.
Proof. induction m as [a | st p k IH]; simpl; [reflexivity|]. rewrite (IH true), (IH false). ring. Qed.

Lemma dist_lin {A} (m : prog A) (f g : A -> Q) (c d : Q) :
  dist m (fun a => c * f a + d * g a) == c * dist m f + d * dist m g.
Proof.
  induction m as [a | st p k IH]; simpl; [reflexivity|]. rewrite (IH true), (IH false). ring.
Qed.

Lemma dist_scale {A} (m : prog A) (f : A -> Q) (c : Q) :
  dist m (fun a => c * f a) == c * dist m f.
Proof.
  induction m as [a | st p k IH]; simpl; [reflexivity|]. rewrite (IH true), (IH false). ring.
Qed.

Lemma dist_plus {A} (m : prog A) (f g : A -> Q) :
  dist m (fun a => f a + g a) == dist m f + dist m g.
Proof.
  induction m as [a | st p k IH]; simpl; [reflexivity|]. rewrite (IH true), (IH false). ring.
Qed.

Lemma dist_affine {A} (m : prog A) (f : A -> Q) (c d : Q) :
  dist m (fun a => c + d * f a) == c + d * dist m f.
Proof.
  induction m as [a | st p k IH]; simpl; [reflexivity|]. rewrite (IH true), (IH false). ring.
Qed.

Lemma dist_nonneg {A} (m : prog A) (f : A -> Q) :
  wf_prog m -> (forall a, 0 <= f a) -> 0 <= dist m f.
Proof.
  intros W H; induction m as [a | st p k IH]; simpl in *; [apply H|].
  destruct W as ((Hp0 & Hp1) & W1 & W2).
  specialize (IH true W1) as I1. specialize (IH false W2) as I2.
  assert (0 <= p * dist (k true) f) by (apply Qmult_le_0_compat; assumption).
  assert (0 <= (1 - p) * dist (k false) f) by (apply Qmult_le_0_compat; [lra | assumption]).
  lra.
Qed.

(* an event that fails on every positive-probability outcome has probability zero *)
Lemma dist_zero_pos {A} (P : A -> Prop) (m : prog A) (f : A -> Q) :
  wf_prog m -> all_pos P m -> (forall a, P a -> f a == 0) -> dist m f == 0.
Proof.
  intros W HP H; induction m as [a | st p k IH]; simpl in *; [apply H; assumption|].
  destruct W as ((Hp0 & Hp1) & W1 & W2). destruct HP as [H1 H2].
  assert (E1 : p * dist (k true) f == 0).
  { destruct (Qlt_le_dec 0 p) as [Hp | Hp].
    - rewrite (IH true W1 (H1 Hp)). ring.
    - assert (E : p == 0) by (apply Qle_antisym; assumption). rewrite E. ring. }
  assert (E2 : (1 - p) * dist (k false) f == 0).
  { destruct (Qlt_le_dec p 1) as [Hp | Hp].
    - rewrite (IH false W2 (H2 Hp)). ring.
    - assert (E : p == 1) by (apply Qle_antisym; assumption). rewrite E. ring. }
  rewrite E1, E2. ring.
Qed.

(* ---------------- run ---------------- *)
(* a scripted run with uniforms strictly inside (0,1) ends in a positive-probability outcome *)
Lemma run_all_pos {A} (P : A -> Prop) (m : prog A) :
  all_pos P m -> forall us log a rest log',
  Forall (fun u => 0 < u /\ u < 1) us -> run m us log = Some (a, rest, log') -> P a.
Proof.
  induction m as [a0 | st p k IH]; simpl; intros HP us log a rest log' Hu Hr.
  - inversion Hr; subst. exact HP.
  - destruct us as [|u us']; [discriminate|].
    inversion Hu as [|u0 l0 (Hu0 & Hu1) Hrest]; subst.
    destruct HP as [H1 H2].
    apply (IH (decide st p u)) with (us := us') (log := log ++ [(st, p, u)]) (rest := rest) (log' := log'); try assumption.
    unfold decide. destruct st.
    + destruct (Qle_bool p u) eqn:E; simpl.
      * apply H2. apply Qle_bool_iff in E. lra.
      * apply H1. assert (~ p <= u) by (rewrite <- Qle_bool_iff; congruence). lra.
    + destruct (Qle_bool u p) eqn:E; simpl.
      * apply H1. apply Qle_bool_iff in E. lra.
      * apply H2. assert (~ u <= p) by (rewrite <- Qle_bool_iff; congruence). lra.
Qed.

Lemma run_all_out {A} (P : A -> Prop) (m : prog A) :
  all_out P m -> forall us log a rest log', run m us log = Some (a, rest, log') -> P a.
Proof.
  induction m as [a0 | st p k IH]; simpl; intros HP us log a rest log' Hr.
  - inversion Hr; subst. exact HP.
  - destruct us as [|u us']; [discriminate|]. destruct HP as [H1 H2].
    apply (IH (decide st p u)) with (us := us') (log := log ++ [(st, p, u)]) (rest := rest) (log' := log');
      [destruct (decide st p u); assumption | exact Hr].
Qed.
