(* C09 -- the stacked rows a least-squares block builds from the factor list ARE the conditional of the surrogate joint:
   -1/2 sum_r W_r (c_r - <a_r, p>)^2 over ls_rows = sum of the Gaussian factors of the spec at (others, block i := p). *)
From CV Require Import Base.Tac Base.Cmp Base.QcLin Model.C09_Rto Model.C09_Gibbs Model.C09_Gibbs2.
From Coq Require Import QArith Qabs Qcanon Setoid Morphisms.
Local Open Scope Q_scope.

Definition qsumf {A} (F : A -> Q) (l : list A) : Q := fold_right (fun x acc => F x + acc) 0 l.

Lemma fold_left_qsum {A} (F : A -> Q) l a0 : fold_left (fun acc x => acc + F x) l a0 == a0 + qsumf F l.
Proof.
  unfold qsumf. revert a0. induction l as [|x l IH]; intros a0; cbn [fold_left fold_right].
  - ring.
  - rewrite IH. ring.
Qed.

Lemma qsumf_ext {A} (F G : A -> Q) l : (forall x, In x l -> F x == G x) -> qsumf F l == qsumf G l.
Proof.
  unfold qsumf. induction l as [|x l IH]; intros H; cbn [fold_right]; [reflexivity | ].
  rewrite (H x (or_introl eq_refl)), IH; [reflexivity | intros y Hy; apply H; right; exact Hy].
Qed.

Lemma qsumf_app {A} (F : A -> Q) l1 l2 : qsumf F (l1 ++ l2) == qsumf F l1 + qsumf F l2.
Proof. unfold qsumf. induction l1 as [|x l1 IH]; cbn [app fold_right]; [ring | rewrite IH; ring]. Qed.

Lemma qsumf_map {A B} (F : B -> Q) (g : A -> B) l : qsumf F (map g l) = qsumf (fun x => F (g x)) l.
Proof. unfold qsumf. induction l as [|x l IH]; cbn [map fold_right]; [reflexivity | rewrite IH; reflexivity]. Qed.

Lemma qsumf_flat_map {A B} (F : B -> Q) (g : A -> list B) l : qsumf F (flat_map g l) == qsumf (fun x => qsumf F (g x)) l.
Proof.
  induction l as [|x l IH]; cbn [flat_map]; [reflexivity | ].
  rewrite qsumf_app, IH. unfold qsumf at 4. cbn [fold_right]. reflexivity.
Qed.

Lemma qsumf_scale {A} (c : Q) (F : A -> Q) l : qsumf (fun x => c * F x) l == c * qsumf F l.
Proof. unfold qsumf. induction l as [|x l IH]; cbn [fold_right]; [ring | rewrite IH; ring]. Qed.

Lemma qdot_zerov c n : qdot c (zerov n) == 0.
Proof.
  unfold zerov. revert n. induction c as [|x c IH]; intros [|n]; cbn [qdot repeat]; try reflexivity.
  rewrite IH. ring.
Qed.

(* the contribution of block i to a row separates *)
Lemma row_dot_upd co : forall a i p, (i < length a)%nat ->
  row_dot co (upd a i p) == row_dot co (upd a i (zerov (length p))) + qdot (nth i co []) p.
Proof.
  induction co as [|c co IH]; intros a i p Hi.
  - destruct (upd a i p), (upd a i (zerov (length p))), i; cbn [row_dot nth qdot]; ring.
  - destruct a as [|x a]; [cbn in Hi; lia | ]. destruct i as [|i]; cbn [row_dot upd nth].
    + rewrite qdot_zerov. ring.
    + rewrite (IH a i p) by (cbn in Hi; lia). ring.
Qed.

Lemma nth_error_upd_other {A} (l : list A) i b v : b <> i -> nth_error (upd l i v) b = nth_error l b.
Proof.
  revert i b. induction l as [|x l IH]; intros i b Hb; destruct i, b; cbn; try reflexivity; try congruence.
  apply IH. congruence.
Qed.

Lemma gweight_upd a i p f : g_w f <> inl i -> gweight (upd a i p) f = gweight a f.
Proof.
  unfold gweight. destruct (g_w f) as [b | c]; [ | reflexivity].
  intros H. rewrite nth_error_upd_other; [reflexivity | congruence].
Qed.

Lemma upd_upd {A} (l : list A) i u v : upd (upd l i u) i v = upd l i v.
Proof. revert i. induction l as [|x l IH]; intros [|i]; cbn; try reflexivity. rewrite IH. reflexivity. Qed.

Lemma gfac_val_gweight a f :
  gfac_val a f == - (gweight a f / 2) * qsumf (fun r => (gr_c r - row_dot (gr_co r) a) * (gr_c r - row_dot (gr_co r) a)) (g_rows f).
Proof.
  unfold gfac_val, gweight.
  rewrite (fold_left_qsum (fun r => (gr_c r - row_dot (gr_co r) a) * (gr_c r - row_dot (gr_co r) a)) (g_rows f) 0).
  ring.
Qed.

Theorem ls_rows_conditional (sp : lsspec) (i : nat) (a : list vec) (p : vec) :
  (i < length a)%nat -> length p = length (nth i a []) ->
  (forall gl, In gl sp -> g_w (fst gl) <> inl i) ->
  ls_q (ls_rows sp i a) p == qsumf (fun gl => gfac_val (upd a i p) (fst gl)) sp.
Proof.
  intros Hi Hp Hw. unfold ls_q, ls_rows.
  rewrite fold_left_qsum. rewrite qsumf_flat_map.
  setoid_replace (0 + qsumf (fun x : gfac * option Q => qsumf (fun row : vec * Q * Q * option Q =>
       snd (fst row) * ((snd (fst (fst row)) - qdot (fst (fst (fst row))) p) * (snd (fst (fst row)) - qdot (fst (fst (fst row))) p)))
       (map (fun r : grow => (nth i (gr_co r) [], gr_c r - row_dot (gr_co r) (upd a i (zerov (length (nth i a [])))), gweight a (fst x),
              match snd x with Some beta => let t := gr_c r - row_dot (gr_co r) a in Some (t * t + beta) | None => None end)) (g_rows (fst x)))) sp)
    with (qsumf (fun gl : gfac * option Q => gweight a (fst gl) * qsumf (fun r => (gr_c r - row_dot (gr_co r) (upd a i p)) * (gr_c r - row_dot (gr_co r) (upd a i p))) (g_rows (fst gl))) sp).
  - rewrite <- qsumf_scale. apply qsumf_ext. intros gl Hgl.
    rewrite gfac_val_gweight, (gweight_upd a i p (fst gl) (Hw gl Hgl)). field.
  - rewrite Qplus_0_l. apply qsumf_ext. intros gl Hgl. rewrite qsumf_map. cbn [fst snd].
    rewrite <- qsumf_scale. apply qsumf_ext. intros r Hr.
    rewrite (row_dot_upd (gr_co r) a i p Hi), Hp. ring.
Qed.
