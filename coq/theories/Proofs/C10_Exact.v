(* C10 -- the conjugate samplers' Gamma vs the target's own density, for every supported pair, all
   dimensions, data, forward-model outputs and prior parameters; and the exact class where it fails. *)
From CV Require Import Base.Tac Base.LinAlg Model.C10_Conj Model.C10_ConjR Proofs.C10_Kernel.
From Coq Require Import Reals Lra RealField.
Open Scope R_scope.

Section Exact.
Variable lnGamma : R -> R.
Notation gpdf := (gamma_logpdf lnGamma).
Notation post := (post_logd lnGamma).
Notation sampler := (sampler_logpdf lnGamma).

(* the shape of every proof below: bring the likelihood to the form (rank/2) ln s - s q/2 + c *)
Lemma prop_from_core (lik : R -> R) (rank q c alpha beta shape rate : R) :
  (forall s, 0 < s -> lik s = rank / 2 * ln s - s * (q / 2) + c) ->
  shape = rank / 2 + alpha -> rate = q / 2 + beta ->
  proportional_on_pos (post lik alpha beta) (gpdf shape rate).
Proof.
  intros Hlik -> -> s s' Hs Hs'. unfold post_logd. rewrite (Hlik s Hs), (Hlik s' Hs').
  apply kernel_identity.
Qed.

Lemma core_unique (lik : R -> R) (rank q c alpha beta shape rate : R) :
  (forall s, 0 < s -> lik s = rank / 2 * ln s - s * (q / 2) + c) ->
  proportional_on_pos (post lik alpha beta) (gpdf shape rate) ->
  shape = rank / 2 + alpha /\ rate = q / 2 + beta.
Proof.
  intros Hlik H. apply (kernel_unique lnGamma rank q c alpha beta shape rate).
  intros s s' Hs Hs'. specialize (H s s' Hs Hs'). unfold post_logd in H.
  rewrite (Hlik s Hs), (Hlik s' Hs') in H. exact H.
Qed.

Lemma r_shape_eq m alpha : r_shape m alpha = INR m / 2 + alpha.
Proof. unfold r_shape, gg_shape. field. Qed.

Lemma r_rate_eq L Ax b beta : r_rate L Ax b beta = Rnormsq (Rmatvec L (Rvsub Ax b)) / 2 + beta.
Proof. unfold r_rate, gg_rate, Rnormsq, Rmatvec, Rvsub. field. Qed.

Lemma sqrt_sq s : 0 <= s -> sqrt s * sqrt s = s.
Proof. apply sqrt_sqrt. Qed.

(* ---------------- Gaussian, cov = 1/s ---------------- *)

Lemma lik_gauss_cov_core cov_fun Ax b s :
  0 < s -> cov_fun s = 1 / s -> length Ax = length b ->
  lik_gauss_cov cov_fun Ax b s
  = INR (length b) / 2 * ln s - s * (Rnormsq (Rvsub b Ax) / 2) + - (1 / 2) * INR (length b) * ln (2 * PI).
Proof.
  intros Hs Hc Hl. unfold lik_gauss_cov, from_cov_scalar, gaussian_of, gaussian_logpdf. rewrite Hc.
  rewrite Rmatvec_mscale, Rmatvec_ident by (rewrite Rvsub_length; lia).
  rewrite Rnormsq_vscale.
  replace (1 / (1 / s)) with s by (field; lra).
  rewrite sqrt_sq by lra.
  replace (1 / s) with (/ s) by (field; lra). rewrite ln_Rinv by exact Hs.
  field.
Qed.

Lemma unit_cov_sqrtprec_rate n Ax b beta :
  length Ax = length b -> length b = n ->
  r_rate (sqrtprec_of (from_cov_scalar n (1 / 1))) Ax b beta = Rnormsq (Rvsub b Ax) / 2 + beta.
Proof.
  intros Hl Hn. rewrite r_rate_eq. unfold sqrtprec_of, from_cov_scalar; cbn [snd].
  rewrite Rmatvec_mscale, Rmatvec_ident by (rewrite Rvsub_length; lia).
  rewrite Rnormsq_vscale.
  replace (1 / (1 / 1)) with 1 by field. rewrite sqrt_1.
  rewrite <- (Rmatvec_ident (length (Rvsub Ax b)) (Rvsub Ax b) eq_refl).
  rewrite Rnormsq_matvec_swap.
  rewrite Rvsub_length by lia. rewrite Rmatvec_ident by (rewrite Rvsub_length; lia).
  field.
Qed.

(* _GaussianGammaPair.sample on Gaussian(mean = Ax, cov = lambda s: 1/s), data b, prior Gamma(alpha, beta):
   m = len(b), L = distribution(1).sqrtprec *)
Theorem gauss_cov_exact cov_fun Ax b alpha beta :
  (forall s, 0 < s -> cov_fun s = 1 / s) -> length Ax = length b ->
  proportional_on_pos (post (lik_gauss_cov cov_fun Ax b) alpha beta)
    (sampler (length b) (sqrtprec_of (from_cov_scalar (length b) (cov_fun 1))) Ax b alpha beta).
Proof.
  intros Hc Hl. unfold sampler_logpdf.
  apply prop_from_core with (rank := INR (length b)) (q := Rnormsq (Rvsub b Ax))
                            (c := - (1 / 2) * INR (length b) * ln (2 * PI)).
  - intros s Hs. apply lik_gauss_cov_core; auto.
  - apply r_shape_eq.
  - rewrite (Hc 1) by lra. apply unit_cov_sqrtprec_rate; auto.
Qed.

(* ---------------- Gaussian, prec = s ---------------- *)

Lemma lik_gauss_prec_core prec_fun Ax b s :
  0 < s -> prec_fun s = s -> length Ax = length b ->
  lik_gauss_prec prec_fun Ax b s
  = INR (length b) / 2 * ln s - s * (Rnormsq (Rvsub b Ax) / 2) + - (1 / 2) * INR (length b) * ln (2 * PI).
Proof.
  intros Hs Hc Hl. unfold lik_gauss_prec, from_prec_scalar, gaussian_of, gaussian_logpdf. rewrite Hc.
  rewrite Rmatvec_mscale, Rmatvec_ident by (rewrite Rvsub_length; lia).
  rewrite Rnormsq_vscale, sqrt_sq by lra.
  field.
Qed.

Lemma unit_prec_sqrtprec_rate n Ax b beta :
  length Ax = length b -> length b = n ->
  r_rate (sqrtprec_of (from_prec_scalar n 1)) Ax b beta = Rnormsq (Rvsub b Ax) / 2 + beta.
Proof.
  intros Hl Hn. rewrite r_rate_eq. unfold sqrtprec_of, from_prec_scalar; cbn [snd].
  rewrite Rmatvec_mscale, Rmatvec_ident by (rewrite Rvsub_length; lia).
  rewrite Rnormsq_vscale, sqrt_1.
  rewrite <- (Rmatvec_ident (length (Rvsub Ax b)) (Rvsub Ax b) eq_refl).
  rewrite Rnormsq_matvec_swap.
  rewrite Rvsub_length by lia. rewrite Rmatvec_ident by (rewrite Rvsub_length; lia).
  field.
Qed.

Theorem gauss_prec_exact prec_fun Ax b alpha beta :
  (forall s, 0 < s -> prec_fun s = s) -> length Ax = length b ->
  proportional_on_pos (post (lik_gauss_prec prec_fun Ax b) alpha beta)
    (sampler (length b) (sqrtprec_of (from_prec_scalar (length b) (prec_fun 1))) Ax b alpha beta).
Proof.
  intros Hc Hl. unfold sampler_logpdf.
  apply prop_from_core with (rank := INR (length b)) (q := Rnormsq (Rvsub b Ax))
                            (c := - (1 / 2) * INR (length b) * ln (2 * PI)).
  - intros s Hs. apply lik_gauss_prec_core; auto.
  - apply r_shape_eq.
  - rewrite (Hc 1) by lra. apply unit_prec_sqrtprec_rate; auto.
Qed.

(* ---------------- any Gaussian with precision s * L1^T L1 (the class the legacy sampler is exact on) ------- *)

Lemma lik_gauss_homog_core rank logdet1 L1 Ax b s :
  0 < s ->
  lik_gauss_homog rank logdet1 L1 Ax b s
  = INR rank / 2 * ln s - s * (Rnormsq (Rmatvec L1 (Rvsub Ax b)) / 2)
    + - (1 / 2) * (INR rank * ln (2 * PI) + logdet1).
Proof.
  intros Hs. unfold lik_gauss_homog, gaussian_logpdf.
  rewrite Rmatvec_mscale, Rnormsq_vscale, sqrt_sq by lra.
  rewrite (Rnormsq_matvec_swap L1 b Ax). field.
Qed.

Lemma homog_unit_rate L1 Ax b beta :
  r_rate (Rmscale (sqrt 1) L1) Ax b beta = Rnormsq (Rmatvec L1 (Rvsub Ax b)) / 2 + beta.
Proof. rewrite r_rate_eq, Rmatvec_mscale, Rnormsq_vscale, sqrt_1. field. Qed.

Theorem gauss_homog_exact_iff rank logdet1 L1 Ax b alpha beta m :
  proportional_on_pos (post (lik_gauss_homog rank logdet1 L1 Ax b) alpha beta)
    (sampler m (Rmscale (sqrt 1) L1) Ax b alpha beta)
  <-> m = rank.
Proof.
  split.
  - intros H. unfold sampler_logpdf in H.
    destruct (core_unique _ _ _ _ alpha beta _ _ (fun s Hs => lik_gauss_homog_core rank logdet1 L1 Ax b s Hs) H) as [Hk _].
    rewrite r_shape_eq in Hk. apply INR_eq. lra.
  - intros ->. unfold sampler_logpdf.
    eapply prop_from_core.
    + intros s Hs. apply lik_gauss_homog_core. exact Hs.
    + apply r_shape_eq.
    + apply homog_unit_rate.
Qed.

(* ---------------- GMRF, prec = s ---------------- *)

(* law of the Cholesky oracle: cholT^T cholT = P (as operators on vectors of the right length) *)
Definition chol_law (n : nat) (cholT P : Rmat) : Prop :=
  wf_mat n cholT /\ forall v, length v = n -> Rmattvec n cholT (Rmatvec cholT v) = Rmatvec P v.

Lemma chol_quadratic n cholT P v : chol_law n cholT P -> length v = n ->
  Rnormsq (Rmatvec cholT v) = Rdot v (Rmatvec P v).
Proof. intros [Hwf H] Hv. rewrite (Rnormsq_matvec n) by assumption. rewrite H by exact Hv. reflexivity. Qed.

Lemma lik_gmrf_core prec_fun rank logdet P Ax b s :
  prec_fun s = s ->
  lik_gmrf prec_fun rank logdet P Ax b s
  = INR rank / 2 * ln s - s * (Rdot (Rvsub b Ax) (Rmatvec P (Rvsub b Ax)) / 2)
    + 1 / 2 * (logdet - INR rank * ln (2 * PI)).
Proof. intros Hc. unfold lik_gmrf, gmrf_logpdf. rewrite Hc. field. Qed.

Lemma gmrf_unit_rate n cholT P Ax b beta :
  chol_law n cholT P -> length Ax = n -> length b = n ->
  r_rate (gmrf_sqrtprec cholT 1) Ax b beta = Rdot (Rvsub b Ax) (Rmatvec P (Rvsub b Ax)) / 2 + beta.
Proof.
  intros Hch Ha Hb. rewrite r_rate_eq. unfold gmrf_sqrtprec.
  rewrite Rmatvec_mscale, Rnormsq_vscale, sqrt_1, Rnormsq_matvec_swap.
  rewrite (chol_quadratic n cholT P) by (auto; rewrite Rvsub_length; lia).
  field.
Qed.

(* the sampler draws from the exact conditional iff the rank stored by the GMRF equals len(b) *)
Theorem gmrf_exact_iff prec_fun rank logdet cholT P Ax b alpha beta :
  (forall s, 0 < s -> prec_fun s = s) ->
  chol_law (length b) cholT P -> length Ax = length b ->
  (proportional_on_pos (post (lik_gmrf prec_fun rank logdet P Ax b) alpha beta)
     (sampler (length b) (gmrf_sqrtprec cholT (prec_fun 1)) Ax b alpha beta)
   <-> rank = length b).
Proof.
  intros Hc Hch Hl. rewrite (Hc 1) by lra. split.
  - intros H. unfold sampler_logpdf in H.
    destruct (core_unique _ _ _ _ alpha beta _ _
               (fun s Hs => lik_gmrf_core prec_fun rank logdet P Ax b s (Hc s Hs)) H) as [Hk _].
    rewrite r_shape_eq in Hk. apply INR_eq. lra.
  - intros Hr. unfold sampler_logpdf. eapply prop_from_core.
    + intros s Hs. apply lik_gmrf_core. apply Hc; exact Hs.
    + rewrite r_shape_eq, Hr. reflexivity.
    + apply (gmrf_unit_rate (length b)); auto.
Qed.

(* what the rank-respecting Gamma would be (the repaired sampler): exact for every rank *)
Theorem gmrf_rank_shape_exact prec_fun rank logdet cholT P Ax b alpha beta :
  (forall s, 0 < s -> prec_fun s = s) ->
  chol_law (length b) cholT P -> length Ax = length b ->
  proportional_on_pos (post (lik_gmrf prec_fun rank logdet P Ax b) alpha beta)
     (sampler rank (gmrf_sqrtprec cholT (prec_fun 1)) Ax b alpha beta).
Proof.
  intros Hc Hch Hl. rewrite (Hc 1) by lra. unfold sampler_logpdf. eapply prop_from_core.
  - intros s Hs. apply lik_gmrf_core. apply Hc; exact Hs.
  - apply r_shape_eq.
  - apply (gmrf_unit_rate (length b)); auto.
Qed.


(* ---------------- periodic / neumann: the factor is taken of P + sqrt(eps) I ---------------- *)

Definition Rvadd := vadd Rplus.

Definition chol_law_reg (n : nat) (cholT P : Rmat) (eps : R) : Prop :=
  wf_mat n cholT /\ length P = n
  /\ forall v, length v = n -> Rmattvec n cholT (Rmatvec cholT v) = Rvadd (Rmatvec P v) (Rvscale eps v).

(* the rate the sampler uses exceeds the rate implied by the target's density by eps ||Ax - b||^2 / 2 *)
Theorem gmrf_regularised_rate n cholT P eps Ax b beta :
  chol_law_reg n cholT P eps -> length Ax = n -> length b = n ->
  r_rate (gmrf_sqrtprec cholT 1) Ax b beta
  = (Rdot (Rvsub b Ax) (Rmatvec P (Rvsub b Ax)) / 2 + beta) + eps * Rnormsq (Rvsub b Ax) / 2.
Proof.
  intros (Hwf & HP & H) Ha Hb. rewrite r_rate_eq. unfold gmrf_sqrtprec.
  rewrite Rmatvec_mscale, Rnormsq_vscale, sqrt_1, Rnormsq_matvec_swap.
  assert (Hv : length (Rvsub b Ax) = n) by (rewrite Rvsub_length; lia).
  rewrite (Rnormsq_matvec n) by assumption. rewrite H by exact Hv.
  unfold Rdot, Rvadd.
  rewrite (dot_vadd_r R 0 1 Rplus Rmult Rminus Ropp RTheory).
  - rewrite (dot_vscale_r R 0 1 Rplus Rmult Rminus Ropp RTheory). unfold Rnormsq, normsq. field.
  - unfold Rmatvec, Rvscale. rewrite matvec_length, vscale_length.
    etransitivity; [exact HP | symmetry; exact Hv].
Qed.

Corollary gmrf_regularised_never_exact prec_fun rank logdet cholT P eps Ax b alpha beta m :
  (forall s, 0 < s -> prec_fun s = s) ->
  chol_law_reg (length b) cholT P eps -> length Ax = length b ->
  eps * Rnormsq (Rvsub b Ax) <> 0 ->
  ~ proportional_on_pos (post (lik_gmrf prec_fun rank logdet P Ax b) alpha beta)
      (sampler m (gmrf_sqrtprec cholT (prec_fun 1)) Ax b alpha beta).
Proof.
  intros Hc Hch Hl Hne H. rewrite (Hc 1) in H by lra. unfold sampler_logpdf in H.
  destruct (core_unique _ _ _ _ alpha beta _ _
             (fun s Hs => lik_gmrf_core prec_fun rank logdet P Ax b s (Hc s Hs)) H) as [_ Hr].
  rewrite (gmrf_regularised_rate (length b) cholT P eps) in Hr by auto. apply Hne. lra.
Qed.

(* ---------------- the legacy sampler: blind to the dependence ---------------- *)

(* it evaluates the likelihood's distribution at s = 1 only: two dependences with the same value there get the
   same Gamma *)
Theorem legacy_blind prec_fun prec_fun' m n Ax b alpha beta s :
  prec_fun 1 = prec_fun' 1 ->
  sampler m (sqrtprec_of (from_prec_scalar n (prec_fun 1))) Ax b alpha beta s
  = sampler m (sqrtprec_of (from_prec_scalar n (prec_fun' 1))) Ax b alpha beta s.
Proof. intros ->. reflexivity. Qed.

Lemma lik_gauss_prec_at prec_fun Ax b s p :
  0 < p -> prec_fun s = p -> length Ax = length b ->
  lik_gauss_prec prec_fun Ax b s
  = INR (length b) / 2 * ln p - p * (Rnormsq (Rvsub b Ax) / 2) + - (1 / 2) * INR (length b) * ln (2 * PI).
Proof.
  intros Hs Hc Hl. unfold lik_gauss_prec, from_prec_scalar, gaussian_of, gaussian_logpdf. rewrite Hc.
  rewrite Rmatvec_mscale, Rmatvec_ident by (rewrite Rvsub_length; lia).
  rewrite Rnormsq_vscale, sqrt_sq by lra.
  field.
Qed.

Lemma ln2_lt_1 : ln 2 < 1.
Proof.
  rewrite <- (ln_exp 1). apply ln_increasing; [lra|].
  pose proof (exp_ineq1 1 ltac:(lra)). lra.
Qed.

(* prec = lambda s: s**2 (accepted by the legacy sampler, same value at 1 as the identity): the Gamma it draws
   from is NOT proportional to the target *)
Theorem legacy_refuted_witness :
  let prec_fun := fun s : R => s * s in
  prec_fun 1 = 1 /\
  ~ proportional_on_pos (post (lik_gauss_prec prec_fun [0] [1]) 1 1)
      (sampler 1 (sqrtprec_of (from_prec_scalar 1 (prec_fun 1))) [0] [1] 1 1).
Proof.
  intros prec_fun. split; [unfold prec_fun; ring|]. intros H.
  specialize (H 1 2 ltac:(lra) ltac:(lra)). unfold post_logd, sampler_logpdf in H.
  rewrite (lik_gauss_prec_at prec_fun [0] [1] 1 1) in H by (unfold prec_fun; simpl; try lra; reflexivity).
  rewrite (lik_gauss_prec_at prec_fun [0] [1] 2 4) in H by (unfold prec_fun; simpl; try lra; reflexivity).
  replace (prec_fun 1) with 1 in H by (unfold prec_fun; ring).
  rewrite (unit_prec_sqrtprec_rate 1 [0] [1] 1 eq_refl eq_refl), r_shape_eq in H.
  unfold gamma_logpdf in H. simpl length in H. simpl INR in H.
  replace (Rnormsq (Rvsub [1] [0])) with 1 in H by (unfold Rnormsq, Rvsub, normsq; simpl; ring).
  rewrite ln_1 in H. replace 4 with (2 * 2) in H by ring. rewrite (ln_mult 2 2) in H by lra.
  pose proof ln2_lt_1. lra.
Qed.

End Exact.

(* the code's rank bookkeeping under either rule *)
Lemma gmrf_code_rank_zero rule order pd n : gmrf_code_rank rule BZero order pd n = n.
Proof. unfold gmrf_code_rank. simpl. lia. Qed.

Lemma gmrf_code_rank_deficient rule bc order pd n :
  (0 < gmrf_nullity rule bc order pd)%nat -> (0 < n)%nat -> gmrf_code_rank rule bc order pd n <> n.
Proof. unfold gmrf_code_rank. lia. Qed.

Lemma gmrf_nullity_legacy bc order pd : bc <> BZero -> gmrf_nullity RuleDimMinus1 bc order pd = 1%nat.
Proof. destruct bc; simpl; congruence. Qed.

(* the repaired rule: which fields are rank-deficient at all *)
Lemma gmrf_nullity_new_pos bc order pd :
  (0 < gmrf_nullity RuleNullity bc order pd)%nat <-> bc <> BZero /\ order <> 0%nat.
Proof.
  destruct bc; simpl.
  - split; [lia | intros [H _]; congruence].
  - destruct order as [|[|[|o]]]; simpl; split; intros; try lia; try (split; [discriminate | lia]); destruct H; congruence.
  - destruct order as [|[|[|o]]]; simpl; split; intros; try lia; try (split; [discriminate | lia]);
      try (destruct H; congruence).
    pose proof (Nat.pow_nonzero 2 pd). lia.
Qed.

(* ---------------- a concrete member of the refuted class, and non-vacuity ---------------- *)

Definition wit_cholT : Rmat := [[1; -1]; [0; 0]].
Definition wit_P : Rmat := [[1; -1]; [-1; 1]].

Lemma wit_chol_law : chol_law 2 wit_cholT wit_P.
Proof.
  split.
  - repeat constructor.
  - intros v Hv. destruct v as [|a [|b [|c v]]]; simpl in Hv; try discriminate.
    unfold Rmattvec, Rmatvec, wit_cholT, wit_P. simpl. f_equal; [ring | f_equal; ring].
Qed.

Theorem gmrf_refuted_witness :
  exists (bc : bc_type) (cholT P : Rmat) (Ax b : Rvec),
    chol_law (length b) cholT P /\ length Ax = length b /\
    forall (lnG : R -> R) (logdet alpha beta : R),
    ~ proportional_on_pos (post_logd lnG (lik_gmrf (fun s => s) (gmrf_code_rank RuleDimMinus1 bc 1 1 (length b)) logdet P Ax b) alpha beta)
        (sampler_logpdf lnG (length b) (gmrf_sqrtprec cholT 1) Ax b alpha beta).
Proof.
  exists BNeumann, wit_cholT, wit_P, [0; 0], [1; 0].
  split; [exact wit_chol_law | split; [reflexivity|]].
  intros lnG logdet alpha beta H.
  pose proof (proj1 (gmrf_exact_iff lnG (fun s => s) (gmrf_code_rank RuleDimMinus1 BNeumann 1 1 2) logdet wit_cholT wit_P [0; 0] [1; 0]
                       alpha beta (fun s _ => eq_refl) wit_chol_law eq_refl) H) as E.
  simpl in E. discriminate.
Qed.

Theorem nonvacuous :
  (exists (cov_fun : R -> R) (Ax b : Rvec), (forall s, 0 < s -> cov_fun s = 1 / s) /\ length Ax = length b /\ (0 < length b)%nat)
  /\ (exists (cholT P : Rmat) (b : Rvec), chol_law (length b) cholT P /\ (0 < length b)%nat)
  /\ (exists t key, validate_exp t = Accept key).
Proof.
  split; [|split].
  - exists (fun s => 1 / s), [0; 0], [1; 2]. repeat split; simpl; auto.
  - exists wit_cholT, wit_P, [1; 0]. split; [exact wit_chol_law | simpl; lia].
  - exists {| t_is_posterior := true; t_lik := KGMRF; t_prior := KGamma; t_prior_dim := 1;
              t_par_name := s_scale; t_mutable := [(s_empty, AConst); (s_prec, ACallable [s_scale] [DVar])];
              t_preset_nonneg := false; t_location_sum_zero := true |}, s_prec.
    vm_compute. reflexivity.
Qed.
