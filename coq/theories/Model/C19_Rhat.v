(* C19 -- the R-hat value arviz is expected to compute from the chains it is handed, for the two
   variants that are rational functions of the draws: method="identity" (classic potential scale
   reduction) and method="split" (the same on half-chains).  Formula as in arviz.stats.diagnostics._rhat:
     chain_mean_j, chain_var_j (ddof=1),  B = n * var(chain_means, ddof=1),  W = mean(chain_var),
     Rhat = sqrt((B / W + n - 1) / n);
   the model returns Rhat^2 (exact rational); the harness squares the observed value.
   The default method="rank" rank-normalises through the normal quantile function first: not modelled
   (see the registry note).  No proofs here. *)
From CV Require Import Base.Tac Base.Cmp Model.C19_Stats.
From Coq Require Import QArith Qabs.

Definition qlen (l : list Q) : Q := inject_Z (Z.of_nat (length l)).
Definition qmean (l : list Q) : Q := qsum l / qlen l.
(* sample variance, ddof = 1 *)
Definition qvar1 (l : list Q) : Q :=
  qsum (map (fun x => (x - qmean l) * (x - qmean l)) l) / (qlen l - 1).
Definition zq (l : list Z) : list Q := map inject_Z l.

(* chains: list of chains (all of the same length n), one list of draws each *)
Definition rhat_sq (chains : list (list Z)) : Q :=
  let n := inject_Z (zlen (hd [] chains)) in
  let B := n * qvar1 (map (fun c => qmean (zq c)) chains) in
  let W := qmean (map (fun c => qvar1 (zq c)) chains) in
  (B / W + n - 1) / n.
Definition rhat_W (chains : list (list Z)) : Q := qmean (map (fun c => qvar1 (zq c)) chains).

(* _split_chains: first halves of all chains, then last halves (the middle draw of an odd chain is dropped) *)
Definition split_chains (chains : list (list Z)) : list (list Z) :=
  let half := (length (hd [] chains) / 2)%nat in
  map (firstn half) chains ++ map (fun c => skipn (length c - half) c) chains.

(* ---------------- rank-normalised split R-hat (arviz's default, method="rank") ----------------
   _rhat_rank: split the chains; z-scale the pooled draws: average rank r (ties share the mean of their ranks),
   u = (r - 3/8) / (N + 1/4) with N the number of pooled draws, z = Phi^-1(u); bulk = _rhat(z);
   fold: |x - median(pooled)|, z-scale again, tail = _rhat(z'); result max(bulk, tail).
   Everything but Phi^-1 is rational and computed here.  Phi^-1 (scipy.stats.norm.ppf) is an ORACLE: the harness records
   the pairs (u, z) of the actual calls and hands them over as a table; the model computes every u itself, looks it up
   (so the arguments of Phi^-1 are checked, to 1e-12), requires the table to be increasing, and takes z from it. *)
(* the same formula on rational chains, every intermediate result reduced to lowest terms (the z-scores are binary64
   numbers with 52-bit denominators: unreduced sums grow without bound); equal to rhat_sq on injected integer chains
   (Proofs/C19_Rhat.v, rhat_sq_as_q) *)
Definition qsumr (l : list Q) : Q := fold_right (fun x acc => Qred (x + acc)) 0 l.
Definition qmeanr (l : list Q) : Q := Qred (qsumr l / qlen l).
Definition qvar1r (l : list Q) : Q :=
  let m := qmeanr l in Qred (qsumr (map (fun x => Qred ((x - m) * (x - m))) l) / (qlen l - 1)).
Definition rhat_sq_q (chains : list (list Q)) : Q :=
  let n := qlen (hd [] chains) in
  let B := n * qvar1r (map qmeanr chains) in
  let W := qmeanr (map qvar1r chains) in
  Qred ((B / W + n - 1) / n).

Definition qcount (p : Q -> bool) (l : list Q) : Q := inject_Z (Z.of_nat (length (filter p l))).
Definition avg_rank (pool : list Q) (x : Q) : Q :=
  qcount (fun y => negb (Qle_bool x y)) pool + (qcount (fun y => Qeq_bool y x) pool + 1) / (2 # 1).
Definition blom (pool : list Q) (x : Q) : Q := (avg_rank pool x - (3 # 8)) / (qlen pool + (1 # 4)).

Definition tol12q : Q := 1 # 1000000000000.
Fixpoint ppf_lookup (tab : list (Q * Q)) (u : Q) : option Q :=
  match tab with
  | [] => None
  | (u', z) :: r => if Qle_bool (Qabs (u' - u)) tol12q then Some z else ppf_lookup r u
  end.
Fixpoint ppf_increasing (tab : list (Q * Q)) : bool :=
  match tab with
  | (u1, z1) :: (((u2, z2) :: _) as r) => Qle_bool u1 u2 && Qle_bool z1 z2 && ppf_increasing r
  | _ => true
  end.

Fixpoint all_some {A} (l : list (option A)) : option (list A) :=
  match l with
  | [] => Some []
  | Some a :: r => match all_some r with Some t => Some (a :: t) | None => None end
  | None :: _ => None
  end.

Definition z_scale (tab : list (Q * Q)) (chains : list (list Q)) : option (list (list Q)) :=
  let pool := concat chains in
  all_some (map (fun c => all_some (map (fun x => ppf_lookup tab (blom pool x)) c)) chains).

(* median of a list of rationals that are integers here: the pooled draws *)
Definition rank_rhat_sq (tab : list (Q * Q)) (chains : list (list Z)) : option (option Q) :=
  let sp := split_chains chains in
  let med := median (concat sp) in
  let spq := map zq sp in
  let folded := map (map (fun x => Qabs (x - med))) spq in
  match z_scale tab spq, z_scale tab folded with
  | Some zb, Some zt =>
      if ppf_increasing tab then
        (* a zero within-chain variance of the z-scores (e.g. constant folded half-chains) makes the value inf / nan
           (and Python's max(bulk, tail) keeps bulk when tail is nan = 0/0) *)
        if Qeq_bool (qmeanr (map qvar1r zb)) 0 then Some None
        else if Qeq_bool (qmeanr (map qvar1r zt)) 0
             then (if Qeq_bool (qvar1r (map qmeanr zt)) 0 then Some (Some (rhat_sq_q zb)) else Some None)
        else let b := rhat_sq_q zb in let t := rhat_sq_q zt in Some (Some (if Qle_bool b t then t else b))
      else None
  | _, _ => None
  end.

(* RRank carries the table of Phi^-1 values (empty: the numbers are not modelled) *)
Inductive rmethod := RRank (ppf : list (Q * Q)) | RSplit | RIdentity.

(* None = arviz returns nan (fewer than 4 draws or fewer than 2 chains) or the within-chain variance is zero
   (0/0 or x/0 in floating point: not compared) *)
Definition rhat_sq_opt (m : rmethod) (chains : list (list Z)) : option Q :=
  if ((length (hd [] chains) <? 4) || (length chains <? 2))%nat then None
  else match m with
       | RRank tab => match rank_rhat_sq tab chains with
                      | Some r => r
                      | None => Some (-1 # 1)     (* table incomplete / not increasing: matches no observed value *)
                      end
       | _ => let cs := match m with RSplit => split_chains chains | _ => chains end in
              if Qeq_bool (rhat_W cs) 0 then None else Some (rhat_sq cs)
       end.
