(* C05 -- link between the mathcomp covariance theorems (mc/C05_Cov.v, 'M[F]_n) and matrices as LISTS OF ROWS, the
   representation of the executable model (Model/C05_Sample.v: qdot / qcol / qtr / qmm / qid have exactly the recursion
   written here, over Q instead of an abstract field F).  The list functions are interpreted as mathcomp matrices (mx),
   products / transposes / identity commute with the interpretation, the interpretation is injective on well-shaped lists,
   and so the covariance theorems hold verbatim for the list functions, for every size.
   What remains outside Coq: the carrier (stdlib Q with its setoid equality and the 1e-9 tolerance of the certificate
   checks, instead of Leibniz equality in a field), and that Model.qdot (common-denominator integer arithmetic) evaluates
   the same sum as ldot. *)
From mathcomp Require Import all_ssreflect all_algebra.
From CVmc Require Import C05_Cov.
Set Implicit Arguments.
Unset Strict Implicit.
Unset Printing Implicit Defensive.
Import GRing.Theory.
Local Open Scope ring_scope.

Section Link.
Variable F : fieldType.
Definition lmat := seq (seq F).

Fixpoint ldot (x y : seq F) : F :=
  match x, y with a :: x', b :: y' => a * b + ldot x' y' | _, _ => 0 end.
Definition lcol (A : lmat) (j : nat) : seq F := [seq nth 0 r j | r <- A].
Definition ltr (n : nat) (A : lmat) : lmat := [seq lcol A j | j <- iota 0 n].            (* A has n columns *)
Definition lmm (n : nat) (A B : lmat) : lmat := [seq [seq ldot r c | c <- ltr n B] | r <- A].   (* B has n columns *)
Definition lid (n : nat) : lmat := [seq [seq (if i == j then 1 else 0 : F) | j <- iota 0 n] | i <- iota 0 n].
Definition wf (m n : nat) (A : lmat) : bool := (size A == m) && all (fun r => size r == n) A.
Definition mx (m n : nat) (A : lmat) : 'M[F]_(m, n) := \matrix_(i, j) nth 0 (nth [::] A i) j.

Lemma ldot_sum n (x y : seq F) : size x = n -> size y = n ->
  ldot x y = \sum_(k < n) nth 0 x k * nth 0 y k.
Proof.
elim: n x y => [|n IH] [|a x] [|b y] //= Hx Hy; first by rewrite big_ord0.
by rewrite big_ord_recl /= (IH x y) //; [case: Hx | case: Hy].
Qed.

Lemma wf_size m n A : wf m n A -> size A = m.
Proof. by case/andP=> /eqP. Qed.

Lemma wf_row m n A i : wf m n A -> (i < m)%N -> size (nth [::] A i) = n.
Proof.
case/andP=> /eqP Hs /allP Ha Hi; apply/eqP/Ha/mem_nth; by rewrite Hs.
Qed.

Lemma nth_lcol m n A j k : wf m n A -> (k < m)%N -> nth 0 (lcol A j) k = nth 0 (nth [::] A k) j.
Proof. by move=> H Hk; rewrite /lcol (nth_map [::]) // (wf_size H). Qed.

Lemma size_lcol A j : size (lcol A j) = size A.
Proof. by rewrite size_map. Qed.

Lemma wf_ltr m n A : wf m n A -> wf n m (ltr n A).
Proof.
move=> H; rewrite /wf /ltr size_map size_iota eqxx /=.
by apply/allP=> r /mapP [j _ ->]; rewrite size_lcol (wf_size H).
Qed.

Lemma wf_lmm m p n A B : wf m p A -> wf p n B -> wf m n (lmm n A B).
Proof.
move=> HA HB; rewrite /wf /lmm size_map (wf_size HA) eqxx /=.
by apply/allP=> r /mapP [r' _ ->]; rewrite !size_map size_iota.
Qed.

Lemma wf_lid n : wf n n (lid n).
Proof.
rewrite /wf /lid size_map size_iota eqxx /=.
by apply/allP=> r /mapP [i _ ->]; rewrite size_map size_iota.
Qed.

Lemma nth_ltr m n A (j : 'I_n) : wf m n A -> nth [::] (ltr n A) j = lcol A j.
Proof. by move=> _; rewrite /ltr (nth_map 0%N) ?size_iota // nth_iota. Qed.

Lemma mx_ltr m n A : wf m n A -> mx n m (ltr n A) = (mx m n A)^T.
Proof.
move=> H; apply/matrixP=> j i; rewrite !mxE (nth_ltr _ H).
by rewrite (nth_lcol _ H).
Qed.

Lemma mx_lmm m p n A B : wf m p A -> wf p n B -> mx m n (lmm n A B) = mx m p A *m mx p n B.
Proof.
move=> HA HB; apply/matrixP=> i j; rewrite !mxE.
rewrite /lmm (nth_map [::]) ?(wf_size HA) // (nth_map [::]) ?size_map ?size_iota //.
rewrite (nth_ltr _ HB) (@ldot_sum p) ?(wf_row HA) ?size_lcol ?(wf_size HB) //.
by apply: eq_bigr => k _; rewrite !mxE (nth_lcol _ HB).
Qed.

Lemma mx_lid n : mx n n (lid n) = 1%:M.
Proof.
apply/matrixP=> i j; rewrite !mxE /lid (nth_map 0%N) ?size_iota // (nth_map 0%N) ?size_iota // !nth_iota //=.
by rewrite !add0n -val_eqE /=; case: (_ == _); rewrite ?mulr1n ?mulr0n.
Qed.

Lemma mx_inj m n A B : wf m n A -> wf m n B -> mx m n A = mx m n B -> A = B.
Proof.
move=> HA HB E; apply: (@eq_from_nth _ [::]); first by rewrite (wf_size HA) (wf_size HB).
move=> i; rewrite (wf_size HA) => Hi.
apply: (@eq_from_nth _ 0); first by rewrite (wf_row HA) // (wf_row HB).
move=> j; rewrite (wf_row HA) // => Hj.
by move/matrixP/(_ (Ordinal Hi) (Ordinal Hj)): E; rewrite !mxE.
Qed.

(* the Gaussian covariance theorem for lists of rows, every size:  S T = I  =>  (S^T S) (T T^T) = I *)
Theorem list_gaussian_cov n (S T : lmat) : wf n n S -> wf n n T ->
  lmm n S T = lid n -> lmm n (lmm n (ltr n S) S) (lmm n T (ltr n T)) = lid n.
Proof.
move=> HS HT H.
have HSt := wf_ltr HS; have HTt := wf_ltr HT.
apply: (@mx_inj n n); [exact: (wf_lmm (wf_lmm HSt HS) (wf_lmm HT HTt)) | exact: wf_lid |].
rewrite (mx_lmm (wf_lmm HSt HS) (wf_lmm HT HTt)) (mx_lmm HSt HS) (mx_lmm HT HTt) !mx_ltr // mx_lid.
by apply: prec_times_cov; rewrite -(mx_lmm HS HT) H mx_lid.
Qed.

(* GMRF, neumann: A T = B  =>  A (T T^T) A^T = B B^T  for lists of rows (A is n x n, T and B are n x m) *)
Theorem list_sandwich_cov n m (A T B : lmat) : wf n n A -> wf n m T -> wf n m B ->
  lmm m A T = B -> lmm n (lmm n A (lmm n T (ltr m T))) (ltr n A) = lmm n B (ltr m B).
Proof.
move=> HA HT HB H.
have HTt := wf_ltr HT; have HAt := wf_ltr HA; have HBt := wf_ltr HB.
apply: (@mx_inj n n); [exact: (wf_lmm (wf_lmm HA (wf_lmm HT HTt)) HAt) | exact: (wf_lmm HB HBt) |].
rewrite (mx_lmm (wf_lmm HA (wf_lmm HT HTt)) HAt) (mx_lmm HA (wf_lmm HT HTt)) (mx_lmm HT HTt) (mx_lmm HB HBt) !mx_ltr //.
by apply: sandwich_cov; rewrite -(mx_lmm HA HT) H.
Qed.

(* non-vacuity: the identity is a well-shaped matrix satisfying the hypothesis, for every n *)
Lemma lid_idem n : lmm n (lid n) (lid n) = lid n.
Proof.
apply: (@mx_inj n n); [exact: (wf_lmm (wf_lid n) (wf_lid n)) | exact: wf_lid |].
by rewrite (mx_lmm (wf_lid n) (wf_lid n)) mx_lid mulmx1.
Qed.

End Link.
