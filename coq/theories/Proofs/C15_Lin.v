(* C15 -- linear algebra on lists over Qc needed for the closed-form MAP: instances of Base/LinAlg at Qc and the
   few extra lemmas (sums of matrices, A C A^T as a composition, quadratic forms).  Every size. *)
From CV Require Import Base.Tac Base.LinAlg Base.Cmp Base.QcLin Model.C15_MAP.
From Coq Require Import QArith Qcanon.
Local Open Scope Qc_scope.

(* ---- instances ---- *)
Definition q_adjoint := qc_adjoint.
Lemma q_dot_comm x y : qdot x y = qdot y x.
Proof. apply (dot_comm Qc 0 1 Qcplus Qcmult Qcminus Qcopp Qcrt). Qed.
Lemma q_dot_vadd_l x y z : length x = length y -> qdot (qvadd x y) z = qdot x z + qdot y z.
Proof. apply (dot_vadd_l Qc 0 1 Qcplus Qcmult Qcminus Qcopp Qcrt). Qed.
Lemma q_dot_vadd_r x y z : length y = length z -> qdot x (qvadd y z) = qdot x y + qdot x z.
Proof. apply (dot_vadd_r Qc 0 1 Qcplus Qcmult Qcminus Qcopp Qcrt). Qed.
Lemma q_dot_vsub_l x y z : length x = length y -> qdot (qvsub x y) z = qdot x z - qdot y z.
Proof. apply (dot_vsub_l Qc 0 1 Qcplus Qcmult Qcminus Qcopp Qcrt). Qed.
Lemma q_dot_vsub_r x y z : length y = length z -> qdot x (qvsub y z) = qdot x y - qdot x z.
Proof. apply (dot_vsub_r Qc 0 1 Qcplus Qcmult Qcminus Qcopp Qcrt). Qed.
Lemma q_dot_vzero_r n y : qdot y (qvzero n) = 0.
Proof. apply (dot_vzero_r Qc 0 1 Qcplus Qcmult Qcminus Qcopp Qcrt). Qed.
Lemma q_matvec_vadd A x y n : wf_mat n A -> length x = n -> length y = n ->
  qmatvec A (qvadd x y) = qvadd (qmatvec A x) (qmatvec A y).
Proof. apply (matvec_vadd Qc 0 1 Qcplus Qcmult Qcminus Qcopp Qcrt). Qed.
Lemma q_matvec_vsub A x y n : wf_mat n A -> length x = n -> length y = n ->
  qmatvec A (qvsub x y) = qvsub (qmatvec A x) (qmatvec A y).
Proof. apply (matvec_vsub Qc 0 1 Qcplus Qcmult Qcminus Qcopp Qcrt). Qed.
Lemma q_matvec_vscale A c x : qmatvec A (qvscale c x) = qvscale c (qmatvec A x).
Proof. apply (matvec_vscale Qc 0 1 Qcplus Qcmult Qcminus Qcopp Qcrt). Qed.
Lemma q_mattvec_length n A y : wf_mat n A -> length (qmattvec n A y) = n.
Proof. apply (mattvec_length Qc 0 Qcplus Qcmult). Qed.
Lemma q_matvec_length A x : length (qmatvec A x) = length A.
Proof. apply matvec_length. Qed.
Lemma q_vadd_length x y : length x = length y -> length (qvadd x y) = length x.
Proof. apply vadd_length. Qed.
Lemma q_vsub_length x y : length x = length y -> length (qvsub x y) = length x.
Proof. apply vsub_length. Qed.
Lemma q_vscale_length c x : length (qvscale c x) = length x.
Proof. apply vscale_length. Qed.
Lemma q_vzero_length n : length (qvzero n) = n.
Proof. apply vzero_length. Qed.

(* ---- vectors ---- *)
Ltac vsimp := cbn [qvadd vadd qvsub vsub qvzero vzero repeat length qmatvec matvec map qmadd combine fst snd] in *.
Lemma q_vsub_vadd_cancel a w : length a = length w -> qvsub (qvadd a w) a = w.
Proof.
  revert w; induction a as [|x a IH]; intros [|y w] H; vsimp; try discriminate; [reflexivity|].
  f_equal; [ring | apply IH; lia].
Qed.

Lemma q_vsub_self a : qvsub a a = qvzero (length a).
Proof. induction a as [|x a IH]; vsimp; [reflexivity|]. f_equal; [ring | exact IH]. Qed.

Lemma q_vadd_vsub_cancel a h : length a = length h -> qvadd a (qvsub h a) = h.
Proof.
  revert h; induction a as [|x a IH]; intros [|y h] H; vsimp; try discriminate; [reflexivity|].
  f_equal; [ring | apply IH; lia].
Qed.

(* u + v = b - c  ->  v = b - (c + u) *)
Lemma q_vec_rearrange u v b c : length u = length v -> length b = length u -> length c = length u ->
  qvadd u v = qvsub b c -> v = qvsub b (qvadd c u).
Proof.
  revert v b c; induction u as [|u0 u IH]; intros [|v0 v] [|b0 b] [|c0 c] H1 H2 H3 E; vsimp; try discriminate; [reflexivity|].
  assert (E0 : u0 + v0 = b0 - c0) by congruence.
  assert (E1 : qvadd u v = qvsub b c) by congruence. f_equal.
  - replace (b0 - (c0 + u0)) with ((b0 - c0) - u0) by ring. rewrite <- E0. ring.
  - apply IH; try lia. exact E1.
Qed.

Lemma q_vsub_vadd_distr b c u : length b = length c -> length c = length u ->
  qvsub b (qvadd c u) = qvsub (qvsub b c) u.
Proof.
  revert c u; induction b as [|b0 b IH]; intros [|c0 c] [|u0 u] H1 H2; vsimp; try discriminate; [reflexivity|].
  f_equal; [ring | apply IH; lia].
Qed.

Lemma q_vadd_assoc_sub a w x0 : length a = length w -> length w = length x0 ->
  qvsub (qvadd a w) x0 = qvadd (qvsub a x0) w.
Proof.
  revert w x0; induction a as [|a0 a IH]; intros [|w0 w] [|y0 x0] H1 H2; vsimp; try discriminate; [reflexivity|].
  f_equal; [ring | apply IH; lia].
Qed.

(* ---- matrices ---- *)
Lemma q_matvec_vzero C n : wf_mat n C -> qmatvec C (qvzero n) = qvzero (length C).
Proof.
  intros H; induction H as [|row C Hr HC IH]; vsimp; [reflexivity|].
  f_equal; [apply q_dot_vzero_r | exact IH].
Qed.

Lemma q_matvec_qmadd k M N z : wf_mat k M -> wf_mat k N -> length M = length N ->
  qmatvec (qmadd M N) z = qvadd (qmatvec M z) (qmatvec N z).
Proof.
  intros HM; revert N; induction HM as [|r M Hr HM IH]; intros [|s N] HN HL; vsimp; try discriminate; [reflexivity|].
  inversion HN as [|? ? Hs HN']; subst. f_equal.
  - apply q_dot_vadd_l. lia.
  - apply IH; [exact HN' | lia].
Qed.

Lemma q_matvec_rowbroadcast k M (c z : list Qc) : wf_mat k M -> length c = k ->
  qmatvec (map (fun row => qvadd row c) M) z = map (fun a => a + qdot c z) (qmatvec M z).
Proof.
  intros HM Hc; induction HM as [|r M Hr HM IH]; vsimp; [reflexivity|].
  f_equal; [apply q_dot_vadd_l; lia | exact IH].
Qed.

(* A^T applied to z commutes with a matrix applied to every row *)
Lemma q_mattvec_map_matvec n A C z : wf_mat n A -> wf_mat n C -> length C = n ->
  qmattvec n (map (qmatvec C) A) z = qmatvec C (qmattvec n A z).
Proof.
  intros HA HC HL; revert z; induction HA as [|row A Hr HA IH]; intros [|b z]; simpl;
    try (symmetry; rewrite <- HL at 2; apply q_matvec_vzero; exact HC).
  change (mattvec 0 Qcplus Qcmult n (map (qmatvec C) A) z) with (qmattvec n (map (qmatvec C) A) z).
  change (mattvec 0 Qcplus Qcmult n A z) with (qmattvec n A z).
  change (vadd Qcplus ?a ?b) with (qvadd a b).
  change (vscale Qcmult ?a ?b) with (qvscale a b).
  rewrite IH. rewrite (q_matvec_vadd C _ _ n HC).
  - rewrite q_matvec_vscale. reflexivity.
  - rewrite q_vscale_length. exact Hr.
  - apply q_mattvec_length. exact HA.
Qed.

(* (A C A^T) z = A (C (A^T z)) *)
Lemma q_acat_matvec n A C z : wf_mat n A -> wf_mat n C -> length C = n ->
  qmatvec (acat A C) z = qmatvec A (qmatvec C (qmattvec n A z)).
Proof.
  intros HA HC HL.
  assert (HB : wf_mat n (map (qmatvec C) A)).
  { unfold wf_mat. apply Forall_forall. intros r Hr. apply in_map_iff in Hr. destruct Hr as [r0 [<- _]].
    rewrite q_matvec_length. exact HL. }
  rewrite <- (q_mattvec_map_matvec n A C z HA HC HL).
  remember (map (qmatvec C) A) as B eqn:EB.
  change (qmatvec (acat A C) z) with (map (fun row => qdot row z) (map (fun ri => qmatvec (map (qmatvec C) A) ri) A)).
  rewrite <- EB.
  change (qmatvec A (qmattvec n B z)) with (map (fun row => qdot row (qmattvec n B z)) A).
  rewrite map_map. apply map_ext_in. intros ri Hin.
  assert (Hri : length ri = n) by (eapply Forall_forall in HA; eauto).
  rewrite (q_adjoint n B ri z HB Hri). reflexivity.
Qed.

Lemma q_acat_wf A C : wf_mat (length A) (acat A C).
Proof.
  unfold acat, wf_mat. apply Forall_forall. intros r Hr. apply in_map_iff in Hr. destruct Hr as [r0 [<- _]].
  rewrite q_matvec_length, map_length. reflexivity.
Qed.

Lemma q_acat_length A C : length (acat A C) = length A.
Proof. unfold acat. apply map_length. Qed.

(* ---- quadratic forms with a symmetric matrix ---- *)
Definition q_sym (k : nat) (P : list (list Qc)) : Prop :=
  forall u v, length u = k -> length v = k -> qdot u (qmatvec P v) = qdot (qmatvec P u) v.

Lemma q_quad_vsub k P u v : wf_mat k P -> length P = k -> q_sym k P -> length u = k -> length v = k ->
  qdot (qvsub u v) (qmatvec P (qvsub u v)) =
  qdot u (qmatvec P u) - (1 + 1) * qdot v (qmatvec P u) + qdot v (qmatvec P v).
Proof.
  intros HP HL HS Hu Hv.
  rewrite (q_matvec_vsub P u v k HP Hu Hv).
  rewrite q_dot_vsub_l by lia.
  rewrite !q_dot_vsub_r by (rewrite !q_matvec_length; lia).
  rewrite (HS u v Hu Hv). rewrite (q_dot_comm (qmatvec P u) v). ring.
Qed.

Lemma q_quad_vadd k P u v : wf_mat k P -> length P = k -> q_sym k P -> length u = k -> length v = k ->
  qdot (qvadd u v) (qmatvec P (qvadd u v)) =
  qdot u (qmatvec P u) + (1 + 1) * qdot v (qmatvec P u) + qdot v (qmatvec P v).
Proof.
  intros HP HL HS Hu Hv.
  rewrite (q_matvec_vadd P u v k HP Hu Hv).
  rewrite q_dot_vadd_l by lia.
  rewrite !q_dot_vadd_r by (rewrite !q_matvec_length; lia).
  rewrite (HS u v Hu Hv). rewrite (q_dot_comm (qmatvec P u) v). ring.
Qed.

(* ---- A^T P A as assembled by [atpa] acts as the composition (symmetric P) ---- *)
Lemma q_dot_nil_r x : qdot x [] = 0.
Proof. destruct x; reflexivity. Qed.

Lemma map_const_vzero (s : list nat) : map (fun _ : nat => (0 : Qc)) s = qvzero (length s).
Proof. induction s as [|a s IH]; [reflexivity|]. cbn [map length qvzero vzero repeat]. f_equal. exact IH. Qed.

Lemma list_as_nth_map (row : list Qc) : row = map (fun i => nth i row 0) (seq 0 (length row)).
Proof.
  induction row as [|a row IH]; [reflexivity|].
  cbn [length seq map nth]. f_equal. rewrite <- seq_shift, map_map. exact IH.
Qed.

Lemma vadd_vscale_map (b : Qc) (f g : nat -> Qc) (s : list nat) :
  qvadd (qvscale b (map f s)) (map g s) = map (fun i => b * f i + g i) s.
Proof. induction s as [|a s IH]; [reflexivity|]. cbn [map qvscale vscale qvadd vadd]. f_equal. exact IH. Qed.

Lemma q_mattvec_as_cols n A w : wf_mat n A ->
  qmattvec n A w = map (fun i => qdot (col 0 A i) w) (seq 0 n).
Proof.
  intros HA; revert w; induction HA as [|row A Hr HA IH]; intros w.
  - cbn [qmattvec mattvec col map]. rewrite <- (seq_length n 0) at 1. rewrite <- map_const_vzero.
    apply map_ext. intros i. reflexivity.
  - destruct w as [|b w].
    + cbn [qmattvec mattvec]. rewrite <- (seq_length n 0) at 1. rewrite <- map_const_vzero.
      apply map_ext. intros i. symmetry. apply q_dot_nil_r.
    + cbn [qmattvec mattvec].
      change (mattvec 0 Qcplus Qcmult n A w) with (qmattvec n A w).
      change (vadd Qcplus ?a ?c) with (qvadd a c). change (vscale Qcmult ?a ?c) with (qvscale a c).
      rewrite IH. rewrite (list_as_nth_map row) at 1. rewrite Hr.
      rewrite vadd_vscale_map. apply map_ext. intros i.
      cbn [col map qdot dot]. change (dot 0 Qcplus Qcmult ?a ?c) with (qdot a c).
      change (map (fun row0 : list Qc => nth i row0 0) A) with (col 0 A i). ring.
Qed.

Lemma q_col_length (A : list (list Qc)) i : length (col 0 A i) = length A.
Proof. unfold col. apply map_length. Qed.

Lemma q_atpa_matvec m n A P x : wf_mat n A -> length A = m -> wf_mat m P -> length P = m -> q_sym m P ->
  length x = n ->
  qmatvec (atpa n A P) x = qmattvec n A (qmatvec P (qmatvec A x)).
Proof.
  intros HA HAm HP HPm HS Hx.
  rewrite (q_mattvec_as_cols n A (qmatvec P (qmatvec A x)) HA).
  unfold atpa. change (qmatvec (map ?f ?s) x) with (map (fun row => qdot row x) (map f s)).
  rewrite map_map. apply map_ext. intros i.
  rewrite q_dot_comm. rewrite <- (q_adjoint n A x _ HA Hx).
  rewrite (HS (qmatvec A x) (col 0 A i)).
  - apply q_dot_comm.
  - rewrite q_matvec_length. exact HAm.
  - rewrite q_col_length. exact HAm.
Qed.

(* ---- identity, products, linearity of A^T y in y ---- *)
Lemma q_vsub_map (f g : nat -> Qc) (s : list nat) : qvsub (map f s) (map g s) = map (fun i => f i - g i) s.
Proof. induction s as [|a s IH]; [reflexivity|]. cbn [map qvsub vsub]. f_equal. exact IH. Qed.

Lemma q_vadd_map (f g : nat -> Qc) (s : list nat) : qvadd (map f s) (map g s) = map (fun i => f i + g i) s.
Proof. induction s as [|a s IH]; [reflexivity|]. cbn [map qvadd vadd]. f_equal. exact IH. Qed.

Lemma q_mattvec_vsub n A u v : wf_mat n A -> length u = length v ->
  qmattvec n A (qvsub u v) = qvsub (qmattvec n A u) (qmattvec n A v).
Proof.
  intros HA H. rewrite !(q_mattvec_as_cols n A _ HA). rewrite q_vsub_map. apply map_ext. intros i.
  apply q_dot_vsub_r. exact H.
Qed.

Lemma q_mattvec_vadd n A u v : wf_mat n A -> length u = length v ->
  qmattvec n A (qvadd u v) = qvadd (qmattvec n A u) (qmattvec n A v).
Proof.
  intros HA H. rewrite !(q_mattvec_as_cols n A _ HA). rewrite q_vadd_map. apply map_ext. intros i.
  apply q_dot_vadd_r. exact H.
Qed.

Lemma q_matvec_ident n v : length v = n -> qmatvec (qident n) v = v.
Proof.
  intros H. unfold qident. change (qmatvec (map ?f ?s) v) with (map (fun row => qdot row v) (map f s)).
  rewrite map_map. transitivity (map (fun i => nth i v 0) (seq 0 n)).
  - apply map_ext_in. intros i Hi. apply in_seq in Hi.
    apply (dot_unit_vec Qc 0 1 Qcplus Qcmult Qcminus Qcopp Qcrt); lia.
  - rewrite <- H. symmetry. apply list_as_nth_map.
Qed.

Lemma q_matvec_matmul k M N v : wf_mat k N -> length v = k ->
  qmatvec (qmatmul k M N) v = qmatvec M (qmatvec N v).
Proof.
  intros HN Hv. unfold qmatmul, matmul.
  change (qmatvec (map ?f M) v) with (map (fun row => qdot row v) (map f M)).
  rewrite map_map. change (qmatvec M (qmatvec N v)) with (map (fun row => qdot row (qmatvec N v)) M).
  apply map_ext. intros row.
  change (mattvec 0 Qcplus Qcmult k N row) with (qmattvec k N row).
  rewrite q_dot_comm. rewrite <- (q_adjoint k N v row HN Hv). apply q_dot_comm.
Qed.

(* a left inverse as a matrix is a left inverse as a map *)
Lemma q_left_inverse k P C v : wf_mat k C -> length C = k -> length v = k ->
  qmatmul k P C = qident k -> qmatvec P (qmatvec C v) = v.
Proof.
  intros HC HL Hv E. rewrite <- (q_matvec_matmul k P C v HC Hv). rewrite E. apply q_matvec_ident. exact Hv.
Qed.

Lemma q_vsub_zero_eq u v : length u = length v -> qvsub u v = qvzero (length u) -> u = v.
Proof.
  revert v; induction u as [|a u IH]; intros [|c v] H E; vsimp; try discriminate; [reflexivity|].
  pose proof (f_equal (@hd Qc 0) E) as E0. pose proof (f_equal (@tl Qc) E) as E1. cbn [hd tl] in E0, E1.
  f_equal; [|apply IH; [lia | exact E1]].
  replace a with ((a - c) + c) by ring. rewrite E0. ring.
Qed.

(* a - c = d - e  ->  c + d = a + e *)
Lemma q_vec_balance a c d e : length a = length c -> length c = length d -> length d = length e ->
  qvsub a c = qvsub d e -> qvadd c d = qvadd a e.
Proof.
  revert c d e; induction a as [|a0 a IH]; intros [|c0 c] [|d0 d] [|e0 e] H1 H2 H3 E; vsimp; try discriminate; [reflexivity|].
  assert (E0 : a0 - c0 = d0 - e0) by congruence. assert (E1 : qvsub a c = qvsub d e) by congruence.
  f_equal; [|apply IH; try lia; exact E1].
  replace (c0 + d0) with (c0 + (d0 - e0) + e0) by ring. rewrite <- E0. ring.
Qed.
