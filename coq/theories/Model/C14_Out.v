(* C14 -- what the samplers hand out (get_samples() results, returned chains) are VALUES: the chain recorded at the
   time of the hand-out.  The generated cases compare what the harness re-reads from those objects after all later
   operations with these lists.  No proofs. *)
From CV Require Import Base.Tac Base.Cmp Model.C14_Chain.

Section Outputs.
Variables Cfg St Rnd Pt Acc : Type.
Variable step : Cfg -> St -> Rnd -> St * Acc.
Variable tune : Cfg -> St -> list Acc -> nat -> nat -> St.
Variable point : St -> Pt.

(* the chain handed out by get_samples() after each operation of a sequence *)
Fixpoint outputs (c : Cfg) (s : @sampler St Pt Acc) (ops : list (op Rnd)) : list (list Pt) :=
  match ops with
  | [] => []
  | o :: r => let s' := run_op Cfg St Rnd Pt Acc step tune point c s o in smp s' :: outputs c s' r
  end.

(* Gibbs: the stored chain returned by each of a sequence of sample calls *)
Fixpoint gibbs_outputs (c : Cfg) (init : St) (warm stored : list St) (calls : list (list Rnd)) : list (list St) :=
  match calls with
  | [] => []
  | rs :: r => let st' := gibbs_sample Cfg St Rnd Acc step c init warm stored rs in st' :: gibbs_outputs c init warm st' r
  end.
End Outputs.

(* trace instance *)
Fixpoint t_outputs (ref : list Z) (s : tsampler) (ops : list top) : list (list Z) :=
  match ops with
  | [] => []
  | o :: r => let s' := t_run_op ref s o in smp s' :: t_outputs ref s' r
  end.

(* obs[j] = ids re-read, after the whole sequence, from the object get_samples() handed out after operation j
   ([] where nothing was recorded yet) *)
Definition check_outputs (ref : list Z) (ops : list top) (obs : list (list Z)) : bool :=
  zll_eqb (t_outputs ref t_init ops) obs.

(* obs[j] = ids re-read, after all calls, from the chain returned by call j *)
Definition check_gibbs_outputs (ref : list Z) (nb : nat) (calls : list nat) (obs : list (list Z)) : bool :=
  let warm := states unit nat unit unit tr_step tt 0%nat (units nb) in
  zll_eqb (map (map (tr_point ref)) (gibbs_outputs unit nat unit unit tr_step tt 0%nat warm [] (map units calls))) obs.
