(* C19 -- statistics commute with a positive rescaling of the chain.  Justifies the exact treatment of
   dyadic function values: a chain whose values are multiples of 2^-k is represented by the integer
   chain 2^k * values (histories with non-integer-valued maps, check_conv); the observed statistics are
   multiplied by 2^k (variance: 4^k) before they are compared with the statistics of the integer chain. *)
From CV Require Import Base.Tac Base.Cmp Model.C19_Stats Proofs.C19_Stats Proofs.C19_Percentile.
From Coq Require Import QArith Qabs Sorting.Sorted Sorting.Permutation.

Definition scale (c : Z) (l : list Z) : list Z := map (Z.mul c) l.

Lemma zsum_scale c l : zsum (scale c l) = (c * zsum l)%Z.
Proof. induction l as [|x l IH]; cbn [scale map zsum fold_right]; [lia|]. fold (scale c l) (zsum (scale c l)) (zsum l). rewrite IH. lia. Qed.

Lemma zlen_scale c l : zlen (scale c l) = zlen l.
Proof. unfold zlen, scale. rewrite map_length. reflexivity. Qed.

Lemma zlen_nonzero l : l <> [] -> ~ inject_Z (zlen l) == 0.
Proof. intros Hl. unfold zlen. destruct l; [congruence|]. cbn [length]. unfold Qeq, inject_Z; cbn. lia. Qed.

Theorem mean_scale c l : l <> [] -> mean (scale c l) == inject_Z c * mean l.
Proof.
  intros Hl. unfold mean. rewrite zsum_scale, zlen_scale, inject_Z_mult. field. apply zlen_nonzero, Hl.
Qed.

Lemma zsum_sq_scale c l : zsum (map (fun x => x * x)%Z (scale c l)) = (c * c * zsum (map (fun x => x * x)%Z l))%Z.
Proof.
  induction l as [|x l IH]; cbn [scale map zsum fold_right]; [lia|].
  fold (scale c l) (zsum (map (fun x0 => (x0 * x0)%Z) (scale c l))) (zsum (map (fun x0 => (x0 * x0)%Z) l)).
  rewrite IH. lia.
Qed.

Theorem variance_scale c l : l <> [] -> variance (scale c l) == inject_Z (c * c) * variance l.
Proof.
  intros Hl.
  assert (Hl' : scale c l <> []) by (destruct l; [congruence | discriminate]).
  rewrite (variance_alt _ Hl'), (variance_alt _ Hl), (mean_scale c l Hl), zsum_sq_scale, zlen_scale.
  rewrite !inject_Z_mult. field. apply zlen_nonzero, Hl.
Qed.

(* order statistics *)
Lemma scale_sorted c s : (0 < c)%Z -> StronglySorted Z.le s -> StronglySorted Z.le (scale c s).
Proof.
  intros Hc. induction 1 as [|x s Hs IH Hall]; cbn [scale map]; constructor; [exact IH|].
  apply Forall_map. eapply Forall_impl; [|exact Hall]. intros y Hy. cbn in *. nia.
Qed.

Theorem isort_scale c l : (0 < c)%Z -> isort (scale c l) = scale c (isort l).
Proof.
  intros Hc. apply sorted_perm_unique.
  - apply isort_sorted.
  - apply scale_sorted; [exact Hc | apply isort_sorted].
  - eapply perm_trans; [apply Permutation_sym, isort_perm|]. apply Permutation_map, isort_perm.
Qed.

Lemma znth_scale c s k : znth (scale c s) k = (c * znth s k)%Z.
Proof.
  unfold znth, scale. replace 0%Z with (c * 0)%Z at 1 by lia. apply map_nth.
Qed.

Lemma interpZ_scale c s B a : interpZ (scale c s) B a = (c * interpZ s B a)%Z.
Proof. unfold interpZ. cbv zeta. rewrite !znth_scale. generalize (znth s (a / B)) (znth s (a / B + 1)) (a mod B)%Z. intros x y r. ring. Qed.

Theorem percentile_scale c l pn pd : (0 < c)%Z ->
  percentile (scale c l) pn pd == inject_Z c * percentile l pn pd.
Proof.
  intros Hc. unfold percentile. rewrite isort_scale by exact Hc. rewrite zlen_scale, interpZ_scale.
  rewrite inject_Z_mult. field. unfold Qeq, inject_Z; cbn; lia.
Qed.

Corollary median_ci_scale c l cn cd : (0 < c)%Z ->
  median (scale c l) == inject_Z c * median l /\
  ci_lo (scale c l) cn cd == inject_Z c * ci_lo l cn cd /\
  ci_hi (scale c l) cn cd == inject_Z c * ci_hi l cn cd /\
  ci_width (scale c l) cn cd == inject_Z c * ci_width l cn cd.
Proof.
  intros Hc. unfold ci_width, median, ci_lo, ci_hi. rewrite !percentile_scale by exact Hc.
  repeat split; ring.
Qed.

(* a shift by an integer: mean, percentiles move along, the variance does not *)
Definition shift (b : Z) (l : list Z) : list Z := map (Z.add b) l.

Lemma zsum_shift b l : zsum (shift b l) = (b * zlen l + zsum l)%Z.
Proof.
  induction l as [|x l IH]; cbn [shift map zsum fold_right]; [unfold zlen; cbn; lia|].
  fold (shift b l) (zsum (shift b l)) (zsum l). rewrite IH. unfold zlen. cbn [length]. lia.
Qed.

Theorem mean_shift b l : l <> [] -> mean (shift b l) == inject_Z b + mean l.
Proof.
  intros Hl. unfold mean. rewrite zsum_shift. unfold zlen, shift. rewrite map_length. fold (zlen l).
  rewrite inject_Z_plus, inject_Z_mult. field. apply zlen_nonzero, Hl.
Qed.

Lemma shift_sorted b s : StronglySorted Z.le s -> StronglySorted Z.le (shift b s).
Proof.
  induction 1 as [|x s Hs IH Hall]; cbn [shift map]; constructor; [exact IH|].
  apply Forall_map. eapply Forall_impl; [|exact Hall]. intros y Hy. cbn in *. lia.
Qed.

Theorem isort_shift b l : isort (shift b l) = shift b (isort l).
Proof.
  apply sorted_perm_unique.
  - apply isort_sorted.
  - apply shift_sorted, isort_sorted.
  - eapply perm_trans; [apply Permutation_sym, isort_perm|]. apply Permutation_map, isort_perm.
Qed.
