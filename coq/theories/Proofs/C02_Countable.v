(* C02 -- invariance beyond finite state spaces, part 1: COUNTABLE state spaces (states enumerated by nat), over R with
   Coquelicot series.  The Metropolis-Hastings kernel with its rejection atom,
       K(x,y) = q(x,y) a(x,y) + [x = y] (1 - sum_z q(x,z) a(x,z)),     a = min(1, pi(y)q(y,x) / (pi(x)q(x,y)))  (1 where the forward flow is 0),
   is a stochastic kernel (non-negative, every row is a convergent series with sum 1), satisfies detailed balance for every
   pair and leaves pi invariant:  sum_x pi(x) K(x,y) = pi(y)  as a convergent series, for every y, every set of states and
   after any number of transitions.
   Hypotheses (exactly these): pi >= 0 pointwise (NOT positive: the target may vanish on part of the space, and pi need not be
   normalised nor even summable for the pointwise statement); q >= 0 pointwise (bounded-support proposals allowed); every row
   q(x,.) is a convergent series with sum 1.  The set statement additionally assumes that pi is summable. *)
From Coq Require Import Reals Lra Lia Arith.
From Coquelicot Require Import Coquelicot.
Local Open Scope R_scope.

(* ---- the acceptance probability in terms of the forward flow a = pi(x)q(x,y) and the backward flow b = pi(y)q(y,x) ---- *)
Definition acc0 (a b : R) : R := if Req_EM_T a 0 then 1 else Rmin 1 (b / a).

Lemma acc0_range a b : 0 <= a -> 0 <= b -> 0 <= acc0 a b <= 1.
Proof.
  intros Ha Hb. unfold acc0. destruct (Req_EM_T a 0) as [E|E]; [lra|].
  assert (Pa : 0 < a) by lra. split.
  - apply Rmin_glb; [lra|]. apply Rmult_le_pos; [exact Hb|]. left. apply Rinv_0_lt_compat. exact Pa.
  - apply Rmin_l.
Qed.

(* pi(x) q(x,y) alpha(x,y) = min(forward flow, backward flow): symmetric in x <-> y, and CONTINUOUS in the flows *)
Lemma flow_acc0 a b : 0 <= a -> 0 <= b -> a * acc0 a b = Rmin a b.
Proof.
  intros Ha Hb. unfold acc0. destruct (Req_EM_T a 0) as [E|E].
  - rewrite E. rewrite Rmin_left by lra. ring.
  - assert (Pa : 0 < a) by lra. destruct (Rle_dec a b) as [H|H].
    + assert (1 <= b / a). { apply (Rmult_le_reg_r a); [exact Pa|]. unfold Rdiv. rewrite Rmult_assoc, Rinv_l; lra. }
      rewrite (Rmin_left 1 (b / a)), (Rmin_left a b) by assumption. ring.
    + assert (b / a <= 1). { apply (Rmult_le_reg_r a); [exact Pa|]. unfold Rdiv. rewrite Rmult_assoc, Rinv_l; lra. }
      rewrite (Rmin_right 1 (b / a)), (Rmin_right a b) by lra. field. lra.
Qed.

Lemma acc0_balance a b : 0 <= a -> 0 <= b -> a * acc0 a b = b * acc0 b a.
Proof. intros Ha Hb. rewrite (flow_acc0 a b Ha Hb), (flow_acc0 b a Hb Ha). apply Rmin_comm. Qed.

(* ---- a point mass as a series ------------------------------------------------------------------------ *)
Lemma sum_n_point (x : nat) (c : R) (n : nat) :
  sum_n (fun y => if Nat.eqb x y then c else 0) n = if Nat.leb x n then c else 0.
Proof.
  induction n as [|n IH].
  - rewrite sum_O. destruct x; reflexivity.
  - rewrite sum_Sn, IH. unfold plus; simpl.
    destruct (Nat.eqb_spec x (S n)); destruct (Nat.leb_spec x n); destruct (Nat.leb_spec x (S n)); try lia; lra.
Qed.

Lemma is_series_point (x : nat) (c : R) : is_series (fun y => if Nat.eqb x y then c else 0) c.
Proof.
  unfold is_series. apply filterlim_ext_loc with (f := fun _ : nat => c).
  - exists x. intros n Hn. rewrite sum_n_point. destruct (Nat.leb_spec x n); [reflexivity | lia].
  - apply filterlim_const.
Qed.

Section Countable.
Variable pi : nat -> R.                  (* unnormalised target weights *)
Variable q : nat -> nat -> R.            (* q x y : probability of proposing y from x *)
Hypothesis pi_nonneg : forall x, 0 <= pi x.
Hypothesis q_nonneg : forall x y, 0 <= q x y.
Hypothesis q_stochastic : forall x, is_series (q x) 1.

Definition alphaR (x y : nat) : R := acc0 (pi x * q x y) (pi y * q y x).
Definition move (x y : nat) : R := q x y * alphaR x y.            (* propose y and accept *)

Lemma flowR_nonneg x y : 0 <= pi x * q x y.
Proof. apply Rmult_le_pos; [apply pi_nonneg | apply q_nonneg]. Qed.

Lemma alphaR_range x y : 0 <= alphaR x y <= 1.
Proof. apply acc0_range; apply flowR_nonneg. Qed.

Lemma move_bounds x y : 0 <= move x y <= q x y.
Proof.
  unfold move. pose proof (alphaR_range x y) as [A0 A1]. pose proof (q_nonneg x y) as Q. split.
  - apply Rmult_le_pos; assumption.
  - rewrite <- (Rmult_1_r (q x y)) at 2. apply Rmult_le_compat_l; assumption.
Qed.

Lemma ex_move x : ex_series (move x).
Proof.
  apply (ex_series_le (move x) (q x)); [|exists 1; apply q_stochastic].
  intro n. pose proof (move_bounds x n) as [M0 M1]. unfold norm; simpl. unfold abs; simpl. rewrite Rabs_pos_eq; assumption.
Qed.

Definition accmass (x : nat) : R := Series (move x).             (* probability that the move from x is accepted *)
Definition rejR (x : nat) : R := 1 - accmass x.                  (* the rejection atom *)

Lemma accmass_le1 x : accmass x <= 1.
Proof.
  unfold accmass. rewrite <- (is_series_unique (q x) 1 (q_stochastic x)).
  apply Series_le; [intro n; apply move_bounds | exists 1; apply q_stochastic].
Qed.

Lemma rejR_nonneg x : 0 <= rejR x.
Proof. unfold rejR. pose proof (accmass_le1 x). lra. Qed.

Definition KR (x y : nat) : R := move x y + (if Nat.eqb x y then rejR x else 0).

Lemma KR_nonneg x y : 0 <= KR x y.
Proof.
  unfold KR. pose proof (move_bounds x y) as [M0 _]. pose proof (rejR_nonneg x).
  destruct (Nat.eqb x y); lra.
Qed.

(* every row of K is a convergent series with sum 1 *)
Theorem KR_stochastic x : is_series (KR x) 1.
Proof.
  unfold KR. replace 1 with (plus (accmass x) (rejR x)) by (unfold plus, rejR; simpl; ring).
  apply (is_series_plus (move x) (fun y => if Nat.eqb x y then rejR x else 0)).
  - apply Series_correct. apply ex_move.
  - apply is_series_point.
Qed.

(* detailed balance, rejection atom included, for every pair of states *)
Theorem KR_reversible x y : pi x * KR x y = pi y * KR y x.
Proof.
  unfold KR. destruct (Nat.eqb_spec x y) as [E|E].
  - subst y. rewrite Nat.eqb_refl. reflexivity.
  - destruct (Nat.eqb_spec y x) as [E'|E']; [exfalso; apply E; symmetry; exact E'|].
    unfold move, alphaR. rewrite !Rplus_0_r, <- !Rmult_assoc.
    apply acc0_balance; apply flowR_nonneg.
Qed.

(* INVARIANCE on a countable state space: sum_x pi(x) K(x,y) converges and equals pi(y) *)
Theorem KR_invariant y : is_series (fun x => pi x * KR x y) (pi y).
Proof.
  apply is_series_ext with (fun x => scal (pi y) (KR y x)).
  - intro x. unfold scal; simpl. unfold mult; simpl. symmetry. apply KR_reversible.
  - pose proof (is_series_scal (pi y) (KR y) 1 (KR_stochastic y)) as H.
    assert (T : forall l, is_series (fun x => scal (pi y) (KR y x)) l -> l = pi y -> is_series (fun x => scal (pi y) (KR y x)) (pi y))
      by (intros l Hl ->; exact Hl).
    apply (T _ H). unfold scal; simpl. unfold mult; simpl. ring.
Qed.

Corollary KR_invariant_Series y : Series (fun x => pi x * KR x y) = pi y.
Proof. apply is_series_unique. apply KR_invariant. Qed.

(* the law after one transition from the law mu, and after n transitions *)
Definition push (mu : nat -> R) (y : nat) : R := Series (fun x => mu x * KR x y).

Theorem KR_invariant_iter n : forall y, Nat.iter n push pi y = pi y.
Proof.
  induction n as [|n IH]; intro y; [reflexivity|].
  change (Nat.iter (S n) push pi y) with (push (Nat.iter n push pi) y). unfold push at 1.
  transitivity (Series (fun x => pi x * KR x y)); [|apply KR_invariant_Series].
  apply Series_ext. intro x. rewrite IH. reflexivity.
Qed.

(* sets of states (any subset Y of the countable space, given by its indicator): (pi K)(Y) = pi(Y) *)
Definition indic (Y : nat -> bool) (y : nat) : R := if Y y then 1 else 0.

Lemma ex_series_restrict (Y : nat -> bool) : ex_series pi -> ex_series (fun y => indic Y y * pi y).
Proof.
  intro H. apply (ex_series_le (fun y => indic Y y * pi y) pi); [|exact H].
  intro n. unfold norm; simpl. unfold abs; simpl. pose proof (pi_nonneg n). unfold indic.
  destruct (Y n); rewrite Rabs_pos_eq; lra.
Qed.

Theorem KR_invariant_sets (Y : nat -> bool) : ex_series pi ->
  is_series (fun y => indic Y y * push pi y) (Series (fun y => indic Y y * pi y)).
Proof.
  intro H. apply is_series_ext with (fun y => indic Y y * pi y).
  - intro y. unfold push. rewrite KR_invariant_Series. reflexivity.
  - apply Series_correct. apply ex_series_restrict. exact H.
Qed.
End Countable.

(* ---- non-vacuity: geometric target pi(x) = 2^-x on nat, independence proposal q(x,y) = 2^-(y+1) -------- *)
Definition geo_pi (x : nat) : R := (1 / 2) ^ x.
Definition geo_q (_ y : nat) : R := (1 / 2) ^ S y.

Lemma geo_hyps : (forall x, 0 <= geo_pi x) /\ (forall x y, 0 <= geo_q x y) /\ (forall x, is_series (geo_q x) 1) /\ ex_series geo_pi.
Proof.
  assert (G : is_series (fun n => (1 / 2) ^ n) 2).
  { assert (G0 : is_series (fun n => (1 / 2) ^ n) (/ (1 - 1 / 2))) by (apply is_series_geom; rewrite Rabs_pos_eq; lra).
    assert (E : / (1 - 1 / 2) = 2) by field. rewrite E in G0. exact G0. }
  repeat split.
  - intro x. unfold geo_pi. apply pow_le. lra.
  - intros x y. unfold geo_q. apply pow_le. lra.
  - intro x. unfold geo_q.
    apply is_series_ext with (fun n => scal (1 / 2) ((1 / 2) ^ n)).
    + intro n. unfold scal; simpl. unfold mult; simpl. ring.
    + pose proof (is_series_scal (1 / 2) (fun n => (1 / 2) ^ n) 2 G) as H.
      assert (T : forall l, is_series (fun n => scal (1 / 2) ((1 / 2) ^ n)) l -> l = 1 -> is_series (fun n => scal (1 / 2) ((1 / 2) ^ n)) 1)
        by (intros l Hl ->; exact Hl).
      apply (T _ H). unfold scal; simpl. unfold mult; simpl. field.
  - exists 2. exact G.
Qed.

(* ---- a SWEEP on a countable state space (CWMH on a lattice of any dimension: one MH kernel per coordinate, each with a proposal that
        moves one coordinate): propagating the law through any sequence of kernels that each leave pi invariant gives pi again.  Stated
        for the law (push-forward), which needs no composed kernel and hence no interchange of double series. ---------------------- *)
Definition pushK (K : nat -> nat -> R) (mu : nat -> R) (y : nat) : R := Series (fun x => mu x * K x y).
Definition inv_series (pi : nat -> R) (K : nat -> nat -> R) : Prop := forall y, is_series (fun x => pi x * K x y) (pi y).

Theorem sweep_invariant_countable (pi : nat -> R) (Ks : list (nat -> nat -> R)) :
  List.Forall (inv_series pi) Ks ->
  forall mu, (forall x, mu x = pi x) -> forall y, List.fold_left (fun m K => pushK K m) Ks mu y = pi y.
Proof.
  induction Ks as [|K r IH]; intros HF mu Hmu y; [apply Hmu|].
  inversion HF as [|? ? HK Hr]; subst. cbn [List.fold_left]. apply IH; [exact Hr|].
  intro z. unfold pushK. rewrite (Series_ext _ (fun x => pi x * K x z)) by (intro x; rewrite Hmu; reflexivity).
  apply is_series_unique. apply HK.
Qed.

(* the MH kernels of any list of proposals (one per coordinate) *)
Corollary mh_sweep_invariant_countable (pi : nat -> R) (qs : list (nat -> nat -> R)) :
  (forall x, 0 <= pi x) ->
  List.Forall (fun q => (forall x y, 0 <= q x y) /\ (forall x, is_series (q x) 1)) qs ->
  forall y, List.fold_left (fun m K => pushK K m) (List.map (KR pi) qs) pi y = pi y.
Proof.
  intros Hp HF y. apply sweep_invariant_countable; [|reflexivity].
  induction qs as [|q r IH]; [constructor|]. inversion HF as [|? ? [Hq Hs] Hr]; subst. cbn [List.map]. constructor.
  - intro z. apply KR_invariant; assumption.
  - apply IH. exact Hr.
Qed.
