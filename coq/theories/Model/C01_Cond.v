(* C01 -- executable model of CUQIpy's conditioning algebra:
     cuqi/density/_density.py          Density.logd, EvaluatedDensity
     cuqi/distribution/_distribution.py  Distribution.logd / _condition / to_likelihood /
                                         get_conditioning_variables / _parse_args_add_to_kwargs
     cuqi/likelihood/_likelihood.py    Likelihood.logd (_logd, _constant) / _condition
     cuqi/distribution/_posterior.py   Posterior.logpdf
     cuqi/distribution/_joint_distribution.py   JointDistribution.logd / _condition /
                                         _parse_args_add_to_kwargs / _reduce_to_single_density (all branches) /
                                         _add_constants_to_density, _StackedJointDistribution.logd,
                                         MultipleLikelihoodPosterior
   No proofs here.  `None` always means "the call raised an exception" (refused).

   Values of variables are opaque (`val`): the glue only routes them.  Log-densities live in a
   carrier with an addition and a zero (`Mon`); the proofs assume commutative-monoid laws, the
   correspondence runs the model at Q (exact rationals of the observed floats). *)
From CV Require Import Base.Tac Base.Cmp.
From Coq Require Import QArith.

Record Mon := mkMon { car : Type; madd : car -> car -> car; mzero : car }.
Definition ZM : Mon := mkMon Z Z.add 0%Z.
Definition QM : Mon := mkMon Q Qplus 0%Q.

Definition var := nat.                       (* variable names *)
Definition mem (v : var) (l : list var) : bool := existsb (Nat.eqb v) l.

Fixpoint nodupb (l : list var) : bool :=
  match l with [] => true | x :: r => negb (mem x r) && nodupb r end.

(* ------------------------------------------------------------------------------------------ *)
(* Slots of a Distribution: its mutable variables in attribute order.  A mutable variable is a
   value (SFixed), None (SUnset v: the conditioning variable is the attribute name v itself), or a
   callable whose non-default arguments are conditioning variables (SFn args; functools.partial
   keeps the remaining arguments in order).                                                      *)
Inductive slot := SFixed | SUnset (v : var) | SFn (args : list var).

Definition slot_unset (s : slot) : list var := match s with SUnset v => [v] | _ => [] end.
Definition slot_args (s : slot) : list var := match s with SFn a => a | _ => [] end.

(* keep first occurrences (get_indirect_variables: `if key not in attributes: append`) *)
Fixpoint dedup (l : list var) : list var :=
  match l with [] => [] | x :: r => x :: filter (fun y => negb (Nat.eqb y x)) (dedup r) end.

(* Distribution.get_conditioning_variables: the None attributes, then callable arguments in order
   of first appearance *)
Definition cond_vars (ss : list slot) : list var :=
  flat_map slot_unset ss ++ dedup (flat_map slot_args ss).

(* Distribution._condition on the slots: a None attribute named in kwargs is assigned; a callable
   with all its arguments given is evaluated, with some of them given becomes a partial *)
Definition bind_slot (keys : list var) (s : slot) : slot :=
  match s with
  | SFixed => SFixed
  | SUnset v => if mem v keys then SFixed else s
  | SFn a => match filter (fun v => negb (mem v keys)) a with [] => SFixed | r => SFn r end
  end.

Section Model.
Variable val : Type.
Variable M : Mon.
(* np.split(x, cumsum(dims)[:-1]) on a stacked vector -- only the stacked view needs to look inside a value *)
Variable vsplit : list nat -> val -> list val.
Notation V := (car M).
Notation vadd := (madd M).
Notation v0 := (mzero M).

(* ---------------- keyword assignments (Python dicts in insertion order) ---------------- *)
Definition asg := list (var * val).
Definition dom (a : asg) : list var := map fst a.
Definition amem (v : var) (a : asg) : bool := mem v (dom a).
Fixpoint lookup (v : var) (a : asg) : option val :=
  match a with [] => None | (k, x) :: r => if Nat.eqb v k then Some x else lookup v r end.
(* {key: value for key, value in kwargs.items() if key in names} *)
Definition restrict (a : asg) (ps : list var) : asg := filter (fun kx => mem (fst kx) ps) a.
(* set(names) == set(kwargs.keys())  (dict keys are distinct, names are distinct under wf) *)
Definition keys_ok (a : asg) (ps : list var) : bool :=
  (length a =? length ps)%nat && forallb (fun p => amem p a) ps.
Fixpoint lookup_all (vs : list var) (a : asg) : option (list val) :=
  match vs with
  | [] => Some []
  | v :: r => match lookup v a, lookup_all r a with
              | Some x, Some xs => Some (x :: xs)
              | _, _ => None
              end
  end.

(* sums of results that may have raised *)
Definition oadd (a b : option V) : option V :=
  match a, b with Some x, Some y => Some (vadd x y) | _, _ => None end.
Definition osum (l : list (option V)) : option V := fold_left oadd l (Some v0).   (* logd = 0; logd += ... *)

Fixpoint map_opt {A B} (f : A -> option B) (l : list A) : option (list B) :=
  match l with
  | [] => Some []
  | a :: r => match f a, map_opt f r with Some b, Some bs => Some (b :: bs) | _, _ => None end
  end.

(* ---------------- distributions ---------------- *)
(* dvars: conditioning variables at construction, in the order of get_conditioning_variables;
   dbound: those fixed so far; df: logpdf as a function of the values of (dvars ++ [name]) -- local
   by construction; dconst: Density._constant; dattrs: the attribute names of the mutable variables
   (get_mutable_variables: a None attribute is named after its conditioning variable, the others
   have names of their own) -- a keyword naming a mutable variable that is not (or no longer) a
   conditioning variable is refused by Distribution._condition *)
Record dist := mkDist { dname : var; ddim : nat; dvars : list var; dattrs : list var; dbound : asg; dconst : V;
                        df : list val -> V }.

Definition dfree (d : dist) : list var := filter (fun v => negb (amem v (dbound d))) (dvars d).
Definition dparams (d : dist) : list var := dfree d ++ [dname d].      (* get_parameter_names *)
Definition is_cond (d : dist) : bool := match dfree d with [] => false | _ => true end.

Definition dist_bind (d : dist) (kw : asg) : dist :=
  mkDist (dname d) (ddim d) (dvars d) (dattrs d) (dbound d ++ restrict kw (dfree d)) (dconst d) (df d).
Definition add_const (d : dist) (c : V) : dist :=                       (* density._constant += c *)
  mkDist (dname d) (ddim d) (dvars d) (dattrs d) (dbound d) (vadd (dconst d) c) (df d).

(* (fully conditioned copy).logd(x) = logpdf(x) + _constant, conditioning values taken from env *)
Definition dist_eval (d : dist) (env : asg) (x : val) : option V :=
  match lookup_all (dvars d) (dbound d ++ env) with
  | Some vs => Some (vadd (df d (vs ++ [x])) (dconst d))
  | None => None
  end.

(* Distribution built from its slots *)
Definition mk_dist (name : var) (dim : nat) (ss : list slot) (attrs : list var) (c : V) (f : list val -> V) : dist :=
  mkDist name dim (cond_vars ss) attrs [] c f.

(* ---------------- densities ---------------- *)
Inductive dens := D (d : dist) | L (d : dist) (data : val) | E (n : var) (v : V).

Definition dens_name (f : dens) : var := match f with D d => dname d | L d _ => dname d | E n _ => n end.
Definition dens_params (f : dens) : list var :=
  match f with D d => dparams d | L d _ => dfree d | E _ _ => [] end.
Definition isD (f : dens) := match f with D _ => true | _ => false end.
Definition isL (f : dens) := match f with L _ _ => true | _ => false end.
Definition isE (f : dens) := match f with E _ _ => true | _ => false end.

(* value of a density when env supplies its parameters.
   Likelihood: Density.logd adds Likelihood._constant = distribution._constant to
   distribution(...).logd(data), which already contains it: counted twice (faithful). *)
Definition dens_val (f : dens) (env : asg) : option V :=
  match f with
  | D d => match lookup (dname d) env with Some x => dist_eval d env x | None => None end
  | L d data => match dist_eval d env data with Some v => Some (vadd v (dconst d)) | None => None end
  | E _ v => Some v
  end.

(* logd(keywords kw): at every level accepted iff the keys are exactly the parameter names *)
Definition dens_logd_kw (f : dens) (kw : asg) : option V :=
  if keys_ok kw (dens_params f) then dens_val f kw else None.

(* Distribution.to_likelihood *)
Definition to_likelihood (d : dist) (x : val) : option dens :=
  if is_cond d then Some (L d x)
  else match dist_eval d [] x with Some v => Some (E (dname d) v) | None => None end.

(* density(keywords kw) with kw already filtered to the density's parameter names (as the joint does) *)
Definition cond_dens (f : dens) (kw : asg) : option dens :=
  match f with
  | D d => let d' := dist_bind d kw in
           match lookup (dname d) kw with
           | Some x => to_likelihood d' x
           | None => Some (D d')
           end
  | L d data => let d' := dist_bind d kw in
                if is_cond d' then Some (L d' data) else to_likelihood d' data
  | E _ _ => Some f
  end.

(* ---------------- positional arguments ---------------- *)
(* JointDistribution._parse_args_add_to_kwargs: IndexError / "passed as both" -> None *)
Fixpoint jparse (keys : list var) (args : list val) (kw : asg) : option asg :=
  match args with
  | [] => Some kw
  | a :: args' => match keys with
                  | [] => None
                  | k :: keys' => if amem k kw then None else jparse keys' args' (kw ++ [(k, a)])
                  end
  end.

(* Distribution._parse_args_add_to_kwargs(cond_vars, ...): the argument after the conditioning
   variables is "_main_parameter" *)
Fixpoint dparse (cond : list var) (args : list val) (kw : asg) : option (asg * option val) :=
  match args with
  | [] => Some (kw, None)
  | a :: args' => match cond with
                  | k :: cond' => if amem k kw then None else dparse cond' args' (kw ++ [(k, a)])
                  | [] => match args' with [] => Some (kw, Some a) | _ => None end
                  end
  end.

(* Distribution.logd(args, keywords kw).  strict = false is the code as it stands: when the main
   parameter is passed positionally, keywords other than the conditioning variables are ignored
   (an unknown name, or the distribution's own name given a second time, is NOT refused).
   strict = true is the behaviour after fixes/C01_logd_extra_keywords.diff. *)
Definition dist_logd (strict : bool) (d : dist) (args : list val) (kw : asg) : option V :=
  if is_cond d then
    match dparse (dfree d) args kw with
    | None => None
    | Some (kw', main) =>
        let n := (length kw' + match main with Some _ => 1 | None => 0 end)%nat in
        if (n <? length (dfree d) + 1)%nat then None
        else if negb (forallb (fun v => amem v kw') (dfree d)) then None
        else match main with
             | Some x => if strict && negb (length kw' =? length (dfree d))%nat then None
                         else dist_eval d kw' x
             | None =>
                 let mainkw := filter (fun kx => negb (mem (fst kx) (dfree d))) kw' in
                 match mainkw with
                 | [] => None
                 | _ => if keys_ok mainkw [dname d]
                        then match lookup (dname d) mainkw with Some x => dist_eval d kw' x | None => None end
                        else None
                 end
             end
    end
  else
    match kw with
    | [] => match args with [x] => dist_eval d [] x | _ => None end
    | _ => match args with
           | [] => if keys_ok kw [dname d]
                   then match lookup (dname d) kw with Some x => dist_eval d [] x | None => None end
                   else None
           | _ => None
           end
    end.

(* Likelihood.logd(args, keywords kw) = Density.logd; _logd(args) = distribution(args).logd(data) is
   refused unless exactly the conditioning variables are given *)
Definition lik_logd (d : dist) (data : val) (args : list val) (kw : asg) : option V :=
  let run (a : list val) :=
      if (length a =? length (dfree d))%nat
      then match dist_eval d (combine (dfree d) a) data with Some v => Some (vadd v (dconst d)) | None => None end
      else None in
  match kw with
  | [] => run args
  | _ => match args with
         | [] => if keys_ok kw (dfree d)
                 then match lookup_all (dfree d) kw with Some a => run a | None => None end
                 else None
         | _ => None
         end
  end.

Definition dens_logd (strict : bool) (f : dens) (args : list val) (kw : asg) : option V :=
  match f with
  | D d => dist_logd strict d args kw
  | L d data => lik_logd d data args kw
  | E _ v => match args, kw with [], [] => Some v | _, _ => None end
  end.

(* ---------------- joint distributions ---------------- *)
Definition jparams (J : list dens) : list var := map dens_name (filter isD J).   (* get_parameter_names *)

Definition jlogd_kw (J : list dens) (kw : asg) : option V :=
  if keys_ok kw (jparams J)
  then osum (map (fun f => dens_logd_kw f (restrict kw (dens_params f))) J)
  else None.

Definition jlogd (J : list dens) (args : list val) (kw : asg) : option V :=
  match jparse (jparams J) args kw with Some kw' => jlogd_kw J kw' | None => None end.

Inductive flavor := FJoint | FMLP | FStacked.   (* class of the joint object: JointDistribution / MultipleLikelihoodPosterior /
                                                  _StackedJointDistribution (copy(self) keeps the class when conditioning) *)

(* what conditioning returns *)
Inductive obj :=
  | OJ (fl : flavor) (J : list dens)
  | OP (ld : dist) (data : val) (pr : dist) (c : V)       (* Posterior(likelihood, prior), _constant = c *)
  | OD (f : dens).                                       (* a single Distribution / Likelihood / EvaluatedDensity *)

(* _sum_evaluated_densities: sum([...]) = 0 + e1 + e2 + ... *)
Definition evsum (J : list dens) : V :=
  fold_left (fun acc f => match f with E _ v => vadd acc v | _ => acc end) J v0.

Definition set_eqb (l1 l2 : list var) : bool :=
  forallb (fun v => mem v l2) l1 && forallb (fun v => mem v l1) l2.

(* JointDistribution.__init__ (run again by MultipleLikelihoodPosterior(densities)): unique names,
   every parameter has a distribution; MLP: at least three densities *)
Definition joint_init_ok (J : list dens) : bool :=
  nodupb (map dens_name J) && forallb (fun f => forallb (fun p => mem p (jparams J)) (dens_params f)) J.

(* JointDistribution._reduce_to_single_density, branch by branch *)
Definition reduce (fl : flavor) (J : list dens) : option obj :=
  let nd := length (filter isD J) in
  let nl := length (filter isL J) in
  if (1 <? nd)%nat then Some (OJ fl J)
  else if (nd =? 1)%nat && (1 <? nl)%nat then
    (if joint_init_ok J && (3 <=? length J)%nat then Some (OJ FMLP J) else None)
  else if (nd =? 1)%nat && (nl =? 1)%nat then
    match filter isL J, filter isD J with
    | [L ld data], [D pr] =>
        if negb (set_eqb (dfree ld) (dparams pr)) then Some (OJ fl J)
        else if (1 <? length (dfree ld))%nat || is_cond pr then None      (* Posterior.__init__ raises *)
        else Some (OP ld data pr (evsum J))
    | _, _ => None
    end
  else if (nd =? 1)%nat && (nl =? 0)%nat then
    match filter isD J with [D d] => Some (OD (D (add_const d (evsum J)))) | _ => None end
  else if (nl =? 1)%nat && (nd =? 0)%nat then
    match filter isL J with [f] => Some (OD f) | _ => None end           (* constants NOT folded in *)
  else if (nd =? 0)%nat && (nl =? 0)%nat then Some (OJ fl J)
  else None.                                                             (* falls off the end: returns None *)

(* JointDistribution._condition(keywords kw) *)
Definition jcond_kw (fl : flavor) (J : list dens) (kw : asg) : option obj :=
  match map_opt (fun f => cond_dens f (restrict kw (dens_params f))) J with
  | Some J' => reduce fl J'
  | None => None
  end.
Definition jcond (fl : flavor) (J : list dens) (args : list val) (kw : asg) : option obj :=
  match jparse (jparams J) args kw with Some kw' => jcond_kw fl J kw' | None => None end.

(* Posterior.logd(args, keywords kw): Distribution.logd of a non-conditional distribution = Density.logd;
   logpdf(x) = likelihood.logd(x) + prior.logd(x) *)
Definition post_logd (strict : bool) (ld : dist) (data : val) (pr : dist) (c : V)
           (args : list val) (kw : asg) : option V :=
  let run (x : val) := oadd (oadd (lik_logd ld data [x] []) (dist_logd strict pr [x] [])) (Some c) in
  match kw with
  | [] => match args with [x] => run x | _ => None end
  | _ => match args with
         | [] => if keys_ok kw (dparams pr)
                 then match lookup (dname pr) kw with Some x => run x | None => None end
                 else None
         | _ => None
         end
  end.

(* Distribution._condition / Likelihood._condition / EvaluatedDensity._condition called directly.
   Keys that are neither conditioning variables nor the name: ignored when the name is also given
   (to_likelihood is taken first), ValueError otherwise. *)
Definition attrs_ok (d : dist) (kw : asg) : bool :=      (* "The mutable variable ... is not a conditioning variable" *)
  forallb (fun k => negb (mem k (dattrs d)) || mem k (dfree d)) (dom kw).

Definition dens_cond (f : dens) (args : list val) (kw : asg) : option dens :=
  match f with
  | D d =>
      match dparse (dfree d) args kw with
      | None => None
      | Some (kw', main) =>
          if negb (attrs_ok d kw') then None else
          let d' := dist_bind d kw' in
          match main with
          | Some x => to_likelihood d' x
          | None => match lookup (dname d) kw' with
                    | Some x => to_likelihood d' x
                    | None => if forallb (fun k => mem k (dfree d)) (dom kw') then Some (D d') else None
                    end
          end
      end
  | L d data =>
      match dparse (dfree d) args kw with
      | None => None
      | Some (_, Some _) => None                 (* distribution(...) returned a Likelihood/EvaluatedDensity: AttributeError *)
      | Some (kw', None) =>
          if forallb (fun k => mem k (dfree d)) (dom kw')
          then cond_dens (L d data) kw'
          else None
      end
  | E _ _ => Some f
  end.

Definition obj_params (o : obj) : list var :=
  match o with OJ _ J => jparams J | OP _ _ pr _ => dparams pr | OD f => dens_params f end.

Definition jdims (J : list dens) : list nat :=
  flat_map (fun f => match f with D d => [ddim d] | _ => [] end) J.

(* _StackedJointDistribution.logd(stacked_input): exactly one positional argument, split at the
   cumulative dimensions, zipped with the parameter names, JointDistribution.logd(keywords) *)
Definition stacked_key : var := 78%nat.        (* the keyword `stacked_input` *)
Definition stacked_call (J : list dens) (args : list val) (kw : asg) : option V :=
  match args, kw with
  | [x], [] => jlogd_kw J (combine (jparams J) (vsplit (jdims J) x))
  | [], [(k, x)] => if Nat.eqb k stacked_key then jlogd_kw J (combine (jparams J) (vsplit (jdims J) x)) else None
  | _, _ => None
  end.

Definition obj_logd (strict : bool) (o : obj) (args : list val) (kw : asg) : option V :=
  match o with
  | OJ FStacked J => stacked_call J args kw
  | OJ _ J => jlogd J args kw
  | OP ld data pr c => post_logd strict ld data pr c args kw
  | OD f => dens_logd strict f args kw
  end.

(* JointDistribution._as_stacked(): _StackedJointDistribution(densities) runs the constructor checks again *)
Definition obj_stack (o : obj) : option obj :=
  match o with
  | OJ _ J => if joint_init_ok J then Some (OJ FStacked J) else None
  | _ => None
  end.

(* BayesianProblem.likelihood / .prior: views of the Posterior target (0 = likelihood, 1 = prior);
   refused unless the target is a Posterior *)
Definition obj_view (which : nat) (o : obj) : option obj :=
  match o, which with
  | OP ld data _ _, O => Some (OD (L ld data))
  | OP _ _ pr _, S O => Some (OD (D pr))
  | _, _ => None
  end.

Definition obj_logd_kw (o : obj) (kw : asg) : option V :=
  match o with
  | OJ _ J => jlogd_kw J kw
  | OP ld data pr c =>
      if keys_ok kw (dparams pr)
      then match lookup (dname pr) kw with
           | Some x => oadd (oadd (dens_val (L ld data) (combine (dfree ld) [x])) (dens_val (D pr) kw)) (Some c)
           | None => None
           end
      else None
  | OD f => dens_logd_kw f kw
  end.

(* Conditioning a Posterior on its own parameter.  Positionally it works (the "_main_parameter"
   route of Distribution._condition -> to_likelihood -> EvaluatedDensity(self.logd(value))).  By
   KEYWORD the code compares the keyword with self.name; the Posterior built by the reduction has no
   name of its own, so the name is inferred from the Python stack and the call is refused
   (pnamed = false: the code as it stands, finding Posterior._condition|own-parameter-by-keyword).
   pnamed = true: the Posterior carries its prior's name (fixes/C01_posterior_name.diff). *)
Definition post_cond (pnamed strict : bool) (ld : dist) (data : val) (pr : dist) (c : V)
           (args : list val) (kw : asg) : option obj :=
  let ev (x : val) := match post_logd strict ld data pr c [x] [] with
                      | Some v => Some (OD (E (dname pr) v))
                      | None => None
                      end in
  match args, kw with
  | [], [] => Some (OP ld data pr c)
  | [x], [] => ev x
  | [], [(k, x)] => if pnamed && Nat.eqb k (dname pr) then ev x else None
  | _, _ => None
  end.

Definition obj_cond (pnamed strict : bool) (o : obj) (args : list val) (kw : asg) : option obj :=
  match o with
  | OJ fl J => jcond fl J args kw
  | OP ld data pr c => post_cond pnamed strict ld data pr c args kw
  | OD f => match dens_cond f args kw with Some f' => Some (OD f') | None => None end
  end.

Definition obj_cond_kw (pnamed : bool) (o : obj) (kw : asg) : option obj :=
  match o with
  | OJ fl J => jcond_kw fl J kw
  | OP ld data pr c => post_cond pnamed false ld data pr c [] kw
  | OD f => match cond_dens f (restrict kw (dens_params f)) with Some f' => Some (OD f') | None => None end
  end.

Fixpoint run_steps_kw (pnamed : bool) (o : obj) (steps : list asg) : option obj :=
  match steps with
  | [] => Some o
  | kw :: r => match obj_cond_kw pnamed o kw with Some o' => run_steps_kw pnamed o' r | None => None end
  end.

(* BayesianProblem.set_data: refuses unless the target is still a JointDistribution *)
Definition bp_set_data (o : obj) (kw : asg) : option obj :=
  match o with OJ fl J => jcond_kw fl J kw | _ => None end.

(* kind of the returned object: 0 JointDistribution, 1 MultipleLikelihoodPosterior, 2 Posterior,
   3 Distribution, 4 Likelihood, 5 EvaluatedDensity *)
Definition obj_kind (o : obj) : nat :=
  match o with
  | OJ FJoint _ => 0 | OJ FMLP _ => 1 | OJ FStacked _ => 6 | OP _ _ _ _ => 2
  | OD (D _) => 3 | OD (L _ _) => 4 | OD (E _ _) => 5
  end%nat.

(* Density._constant of the returned single density *)
Definition obj_const (o : obj) : option V :=
  match o with
  | OJ _ _ => None | OP _ _ _ c => Some c
  | OD (D d) => Some (dconst d) | OD (L d _) => Some (dconst d) | OD (E _ _) => Some v0
  end.

(* a new joint assembled from single densities of the history (e.g. a reduced Distribution that
   carries folded constants): the constructor checks run again *)
Definition obj_join (os : list (option obj)) : option obj :=
  match map_opt (fun o => match o with Some (OD f) => Some f | _ => None end) os with
  | Some fs => if joint_init_ok fs then Some (OJ FJoint fs) else None
  | None => None
  end.

Definition obj_factor (o : obj) (k : nat) : option obj :=
  match o with OJ _ J => match nth_error J k with Some f => Some (OD f) | None => None end | _ => None end.

(* Posterior.__init__: the likelihood has one parameter, the prior is not conditional; _constant = 0 *)
Definition obj_mkpost (l p : obj) : option obj :=
  match l, p with
  | OD (L ld data), OD (D pr) =>
      if (1 <? length (dfree ld))%nat || is_cond pr then None else Some (OP ld data pr (mzero M))
  | _, _ => None
  end.

(* BayesianProblem.likelihood / .prior setters: refused unless the target is a Posterior; the object is
   stored without any check *)
Definition obj_setlik (t n : obj) : option obj :=
  match t, n with OP _ _ pr c, OD (L ld data) => Some (OP ld data pr c) | _, _ => None end.
Definition obj_setprior (t n : obj) : option obj :=
  match t, n with OP ld data _ c, OD (D pr) => Some (OP ld data pr c) | _, _ => None end.

End Model.

Arguments D {val M}. Arguments L {val M}. Arguments E {val M}.
Arguments OJ {val M}. Arguments OP {val M}. Arguments OD {val M}.
Arguments mkDist {val M}. Arguments mk_dist {val M}.
Arguments dname {val M}. Arguments ddim {val M}. Arguments dvars {val M}. Arguments dbound {val M}.
Arguments dconst {val M}. Arguments df {val M}. Arguments dattrs {val M}.
Arguments lookup {val}. Arguments dom {val}. Arguments amem {val}. Arguments restrict {val}.
Arguments keys_ok {val}. Arguments lookup_all {val}. Arguments jparse {val}. Arguments dparse {val}.
Arguments oadd {M}. Arguments osum {M}. Arguments map_opt {A B}.
Arguments dfree {val M}. Arguments dparams {val M}. Arguments is_cond {val M}. Arguments dist_bind {val M}.
Arguments add_const {val M}. Arguments dist_eval {val M}.
Arguments dens_name {val M}. Arguments dens_params {val M}. Arguments isD {val M}. Arguments isL {val M}.
Arguments isE {val M}. Arguments dens_val {val M}. Arguments dens_logd_kw {val M}.
Arguments to_likelihood {val M}. Arguments cond_dens {val M}. Arguments dist_logd {val M}.
Arguments lik_logd {val M}. Arguments dens_logd {val M}. Arguments jparams {val M}.
Arguments jlogd_kw {val M}. Arguments jlogd {val M}. Arguments evsum {val M}.
Arguments joint_init_ok {val M}. Arguments reduce {val M}. Arguments jcond_kw {val M}. Arguments jcond {val M}.
Arguments post_logd {val M}. Arguments dens_cond {val M}. Arguments obj_params {val M}.
Arguments obj_logd {val M}. Arguments obj_logd_kw {val M}. Arguments obj_cond {val M}.
Arguments obj_cond_kw {val M}. Arguments run_steps_kw {val M}. Arguments obj_kind {val M}.
Arguments obj_const {val M}.
Arguments jdims {val M}. Arguments stacked_call {val M}. Arguments obj_stack {val M}. Arguments obj_view {val M}.
Arguments post_cond {val M}. Arguments bp_set_data {val M}.
Arguments attrs_ok {val M}. Arguments obj_join {val M}. Arguments obj_factor {val M}. Arguments obj_mkpost {val M}. Arguments obj_setlik {val M}. Arguments obj_setprior {val M}.

(* ------------------------------------------------------------------------------------------ *)
(* _StackedJointDistribution.logd(stacked_input): np.split(x, cumsum(dims)[:-1]) -- the last piece
   takes whatever is left -- then dict(zip(names, pieces)) and JointDistribution.logd(keywords) *)
Section Stacked.
Context {A : Type} {M : Mon}.
Fixpoint split_at (dims : list nat) (x : list A) : list (list A) :=
  match dims with
  | [] => []
  | [_] => [x]
  | d :: ds => firstn d x :: split_at ds (skipn d x)
  end.
Definition stacked_logd (J : list (dens (list A) M)) (x : list A) : option (car M) :=
  jlogd_kw J (combine (jparams J) (split_at (jdims J) x)).
End Stacked.

(* ------------------------------------------------------------------------------------------ *)
(* Instantiation used by the correspondence: values are rational vectors; a factor's logpdf is a
   finite table from the values of (dvars ++ [name]) to the value obtained from the UNTOUCHED
   factor (harness oracle); a key that is not in the table (the glue routed a wrong value) yields
   the poison value and the case disagrees.  Log-densities: exact rationals (QM; integer-valued test
   distributions, compared exactly, or within a tolerance), or binary64 floats with IEEE addition
   (FM; real families: the model's order of summation -- 0 + f1 + f2 + ... over the factors in
   order, (likelihood + prior) + constant, constant = 0 + e1 + e2 + ... -- is then compared with the
   implementation BIT FOR BIT). *)
From Coq Require Import Floats.

Definition qval := list Q.
Definition qsplit : list nat -> qval -> list qval := split_at.
Definition qasg := list (var * qval).
Definition call := (list qval * qasg)%type.

Definition FM : Mon := mkMon float PrimFloat.add 0%float.
Definition feq (a b : float) : bool := PrimFloat.eqb a b.

Section Tables.
Context {T : Type}.
Fixpoint tbl (t : list (list qval * T)) (poison : T) (key : list qval) : T :=
  match t with
  | [] => poison
  | (k, v) :: r => if qll_eqb k key then v else tbl r poison key
  end.
End Tables.

Definition poison : Q := 999983 # 1.
(* attribute names of the harness distributions: the i-th mutable variable is a None attribute named
   after its variable, or has the private name 100+i *)
Fixpoint slot_attrs (i : nat) (ss : list slot) : list var :=
  match ss with
  | [] => []
  | SUnset v :: r => v :: slot_attrs (S i) r
  | _ :: r => (100 + i)%nat :: slot_attrs (S i) r
  end.
Definition qmk (name : var) (dim : nat) (ss : list slot) (c : Q) (t : list (list qval * Q)) : dist qval QM :=
  @mk_dist qval QM name dim ss (slot_attrs 0 ss) c (tbl t poison).
(* explicit attribute names: a callable attribute may be named like one of its own arguments
   (scale = lambda scale: 1/scale): the keyword then names BOTH the attribute and the callable's argument;
   the code assigns the raw value first and overwrites it with the evaluated callable *)
Definition qmka (name : var) (dim : nat) (ss : list slot) (attrs : list var) (c : Q) (t : list (list qval * Q)) : dist qval QM :=
  @mk_dist qval QM name dim ss attrs c (tbl t poison).
(* Scope guard (open finding Distribution._condition|keyword-names-attribute-and-variable): the model binds
   a keyword v in every callable that has v among its arguments and assigns it to the None attribute
   named v -- nothing else.  The code as it stands ALSO assigns v to any other mutable attribute that
   happens to be named v (destroying the value or callable it holds); with
   fixes/C01_condition_attribute_collision.diff it does what the model does.  attrs_own says that no
   such other attribute exists: an attribute named like a conditioning variable of its own
   distribution is the None attribute itself or a callable with that variable among its arguments. *)
Fixpoint attrs_own (cv : list var) (ss : list slot) (attrs : list var) : bool :=
  match ss, attrs with
  | s :: ss', a :: attrs' =>
      (negb (mem a cv) ||
       match s with SUnset v => Nat.eqb v a | SFn args => mem a args | SFixed => false end)
      && attrs_own cv ss' attrs'
  | _, _ => true
  end.
Definition slots_attrs_own (ss : list slot) (attrs : list var) : bool := attrs_own (cond_vars ss) ss attrs.

Definition qD (d : dist qval QM) : dens qval QM := D d.
Definition qL (d : dist qval QM) (data : qval) : dens qval QM := L d data.
Definition fmk (name : var) (dim : nat) (ss : list slot) (t : list (list qval * float)) : dist qval FM :=
  @mk_dist qval FM name dim ss (slot_attrs 0 ss) 0%float (tbl t 999983%float).
Definition fmka (name : var) (dim : nat) (ss : list slot) (attrs : list var) (t : list (list qval * float)) : dist qval FM :=
  @mk_dist qval FM name dim ss attrs 0%float (tbl t 999983%float).
Definition fD (d : dist qval FM) : dens qval FM := D d.
Definition qdens := dens qval QM.
Definition qobj := obj qval QM.

Section Check.
Variable M : Mon.
Variable veq : car M -> car M -> bool.          (* observed value vs model value *)
Variable pnamed strict : bool.                  (* which repair state the implementation is in *)
Notation mobj := (obj qval M).
Notation mdens := (dens qval M).

Definition ov_eq (obs model : option (car M)) : bool :=
  match obs, model with
  | Some a, Some b => veq a b
  | None, None => true
  | _, _ => false
  end.

(* observation of one stage: None = the call raised; else (kind, parameter names in order,
   _constant of a reduced single density if any) *)
Definition stage_obs := option (nat * list var * option (car M))%type.

Definition stage_of (o : option mobj) (obs : stage_obs) : bool :=
  match o, obs with
  | None, None => true
  | Some o, Some (k, ps, c) =>
      Nat.eqb (obj_kind o) k && list_eqb Nat.eqb (obj_params o) ps &&
      match obj_const o, c with
      | Some a, Some b => veq b a
      | None, None => true
      | _, _ => false
      end
  | _, _ => false
  end.

Definition mcond (o : mobj) (c : call) : option mobj := obj_cond pnamed strict o (fst c) (snd c).
Definition mlogd (o : mobj) (c : call) : option (car M) := obj_logd qsplit strict o (fst c) (snd c).

(* run the conditioning calls; after a refused call nothing else is observed *)
Fixpoint check_stages (o : mobj) (steps : list call) (obs : list stage_obs) : option (option mobj) :=
  match steps, obs with
  | [], [] => Some (Some o)
  | c :: steps', ob :: obs' =>
      let o' := mcond o c in
      if stage_of o' ob
      then match o' with
           | Some o1 => check_stages o1 steps' obs'
           | None => match steps' with [] => Some None | _ => None end
           end
      else None
  | _, _ => None
  end.

Definition check_from (o : mobj) (steps : list call) (obs : list stage_obs)
           (evals : list (call * option (car M))) : bool :=
  match check_stages o steps obs with
  | Some (Some o) => forallb (fun e => ov_eq (snd e) (mlogd o (fst e))) evals
  | Some None => match evals with [] => true | _ => false end
  | None => false
  end.

Fixpoint run_calls (o : mobj) (s : list call) : option mobj :=
  match s with
  | [] => Some o
  | c :: r => match mcond o c with Some o' => run_calls o' r | None => None end
  end.

(* Programs over live objects: the harness keeps every object alive.  Object 0 is the start
   object; every creating op appends its result (None if the call raised) as a new object; an EARLIER
   object may be evaluated after later objects were derived from it, the same parent may be
   conditioned several times.  The model is a pure function, so in the model an object never
   changes: a disagreement on a re-evaluation means the implementation's objects share mutable state. *)
Inductive hop :=
  | OpCond (src : nat) (c : call) (ob : stage_obs)            (* obj(args, keywords) *)
  | OpEval (src : nat) (c : call) (v : option (car M))        (* obj.logd(args, keywords) *)
  | OpStack (src : nat) (ob : stage_obs)                      (* obj._as_stacked() *)
  | OpView (which src : nat) (ob : stage_obs)                 (* BayesianProblem.likelihood / .prior of the target *)
  | OpSetData (src : nat) (kw : qasg) (ob : stage_obs)        (* BayesianProblem.set_data *)
  | OpJoin (srcs : list nat) (ob : stage_obs)                 (* JointDistribution( objects ): re-assembly from reduced objects *)
  | OpFactor (src k : nat) (ob : stage_obs)                   (* the k-th factor object of joint src (the very object the joint holds) *)
  | OpMkPost (lsrc psrc : nat) (ob : stage_obs)               (* Posterior(likelihood, prior, name=prior.name) built by the user *)
  | OpSetLik (src from : nat) (ob : stage_obs)                (* problem.likelihood = obj: writes into the Posterior target IN PLACE *)
  | OpSetPrior (src from : nat) (ob : stage_obs).             (* problem.prior = obj *)

Definition get_obj (objs : list (option mobj)) (src : nat) : option mobj :=
  match nth_error objs src with Some (Some o) => Some o | _ => None end.

Fixpoint set_nth {A} (l : list A) (i : nat) (x : A) : list A :=
  match l, i with
  | [], _ => []
  | _ :: r, O => x :: r
  | a :: r, S j => a :: set_nth r j x
  end.

Fixpoint check_prog (objs : list (option mobj)) (ops : list hop) : bool :=
  match ops with
  | [] => true
  | op :: r =>
      match op with
      | OpEval src c v =>
          match get_obj objs src with
          | Some o => ov_eq v (mlogd o c) && check_prog objs r
          | None => false
          end
      | OpCond src c ob =>
          match get_obj objs src with
          | Some o => let o' := mcond o c in stage_of o' ob && check_prog (objs ++ [o']) r
          | None => false
          end
      | OpStack src ob =>
          match get_obj objs src with
          | Some o => let o' := obj_stack o in stage_of o' ob && check_prog (objs ++ [o']) r
          | None => false
          end
      | OpView which src ob =>
          match get_obj objs src with
          | Some o => let o' := obj_view which o in stage_of o' ob && check_prog (objs ++ [o']) r
          | None => false
          end
      | OpSetData src kw ob =>
          match get_obj objs src with
          | Some o => let o' := bp_set_data o kw in stage_of o' ob && check_prog (objs ++ [o']) r
          | None => false
          end
      | OpJoin srcs ob =>
          let o' := obj_join (map (get_obj objs) srcs) in stage_of o' ob && check_prog (objs ++ [o']) r
      | OpFactor src k ob =>
          match get_obj objs src with
          | Some o => let o' := obj_factor o k in stage_of o' ob && check_prog (objs ++ [o']) r
          | None => false
          end
      | OpMkPost lsrc psrc ob =>
          match get_obj objs lsrc, get_obj objs psrc with
          | Some l, Some p => let o' := obj_mkpost l p in stage_of o' ob && check_prog (objs ++ [o']) r
          | _, _ => false
          end
      | OpSetLik src from ob =>
          match get_obj objs src, get_obj objs from with
          | Some t, Some n => let o' := obj_setlik t n in
                              stage_of o' ob && check_prog (match o' with Some _ => set_nth objs src o' | None => objs end) r
          | _, _ => false
          end
      | OpSetPrior src from ob =>
          match get_obj objs src, get_obj objs from with
          | Some t, Some n => let o' := obj_setprior t n in
                              stage_of o' ob && check_prog (match o' with Some _ => set_nth objs src o' | None => objs end) r
          | _, _ => false
          end
      end
  end.

Definition check_history_from (o : mobj) (ops : list hop) : bool := check_prog [Some o] ops.
End Check.

Arguments OpCond {M}. Arguments OpEval {M}. Arguments OpStack {M}. Arguments OpView {M}. Arguments OpSetData {M}. Arguments OpJoin {M}. Arguments OpFactor {M}. Arguments OpMkPost {M}.
Arguments OpSetLik {M}. Arguments OpSetPrior {M}.

(* ---- Q instances (exact when tol = 0) ---- *)
Definition qCond := @OpCond QM. Definition qEval := @OpEval QM. Definition qStack := @OpStack QM.
Definition qView := @OpView QM. Definition qSetData := @OpSetData QM. Definition qJoin := @OpJoin QM.
Definition qFactor := @OpFactor QM. Definition qMkPost := @OpMkPost QM. Definition qSetLik := @OpSetLik QM. Definition qSetPrior := @OpSetPrior QM.
Definition fCond := @OpCond FM. Definition fEval := @OpEval FM. Definition fStack := @OpStack FM.
Definition fView := @OpView FM. Definition fSetData := @OpSetData FM. Definition fJoin := @OpJoin FM.
Definition fFactor := @OpFactor FM. Definition fMkPost := @OpMkPost FM. Definition fSetLik := @OpSetLik FM. Definition fSetPrior := @OpSetPrior FM.
Definition qeq (tol : Q) (obs model : Q) : bool := q_close tol obs model.

Definition check_run (pnamed strict : bool) (tol : Q) (J : list qdens) steps obs evals : bool :=
  check_from QM (qeq tol) pnamed strict (OJ FJoint J) steps obs evals.
Definition check_run_dens (pnamed strict : bool) (tol : Q) (f : qdens) steps obs evals : bool :=
  check_from QM (qeq tol) pnamed strict (OD f) steps obs evals.
Definition check_history (pnamed strict : bool) (tol : Q) (J : list qdens) (ops : list (hop QM)) : bool :=
  check_history_from QM (qeq tol) pnamed strict (OJ FJoint J) ops.
Definition check_history_dens (pnamed strict : bool) (tol : Q) (f : qdens) (ops : list (hop QM)) : bool :=
  check_history_from QM (qeq tol) pnamed strict (OD f) ops.

(* stacked view of the joint reached after the steps *)
Definition check_stacked (pnamed strict : bool) (tol : Q) (J : list qdens) (steps : list call) (x : list Q) (v : option Q) : bool :=
  match run_calls QM pnamed strict (OJ FJoint J) steps with
  | Some (OJ _ J') => ov_eq QM (qeq tol) v (stacked_logd J' x)
  | _ => false
  end.

(* ---- float instance: bit-for-bit ---- *)
Definition check_history_f (pnamed strict : bool) (J : list (dens qval FM)) (ops : list (hop FM)) : bool :=
  check_history_from FM feq pnamed strict (OJ FJoint J) ops.

(* conditioning variables of a distribution given by its slots, before and after binding *)
Definition check_slots (ss : list slot) (keys : list var) (obs_before obs_after : list var) : bool :=
  list_eqb Nat.eqb (cond_vars ss) obs_before && list_eqb Nat.eqb (cond_vars (map (bind_slot keys) ss)) obs_after.
