"""What MANIFEST.json claims, per property: one file harness/registry.d/Cxx.json each
({"technique","text","note"}); bin/manifest.py turns them into MANIFEST.json."""
import os, json, glob
HERE = os.path.dirname(os.path.abspath(__file__))
SOURCE_COMMITS = []
NOTES = ("Every check: (1) rebuilds and re-checks the property theorems in coq/theories/Props/<id>*.v (Print Assumptions against an allow-list), "
         "(2) runs the real implementation from /repo's working tree and the executable Coq model on the same generated inputs, "
         "(3) runs an independent oracle of the property on the implementation; see DESIGN.md sections 2 and 4.")
NOT_YET = {}
CHECKS = {}
# only properties the lead has integrated (check verified green on the unchanged tree) are claimed
_claimed = set(open(os.path.join(HERE, "claimed.txt")).read().split())
for f in sorted(glob.glob(os.path.join(HERE, "registry.d", "C*.json"))):
    if os.path.basename(f)[:-5] not in _claimed:
        continue
    _r = json.load(open(f))
    if _r.get("text", "").strip().lower() in ("", "in progress"):
        continue        # builder has not finished: not claimed
    CHECKS[os.path.basename(f)[:-5]] = _r
