(* C10 -- the validation clauses over the life cycle of a sampler object: any history of target assignments. *)
From CV Require Import Base.Tac Base.Cmp Model.C10_Conj Proofs.C10_Valid.
From Coq Require Import QArith.

(* the verdict of an assignment never depends on the state of the object it is made on *)
Theorem set_target_verdict k i smp t : snd (set_target k i smp t) = validate i t.
Proof. reflexivity. Qed.

Theorem set_target_keeps_initialized k i smp t : es_initialized (fst (set_target k i smp t)) = es_initialized smp.
Proof. reflexivity. Qed.

(* ... hence along any history of assignments, from any initial state, every target gets exactly the verdict a fresh
   sampler would give it *)
Theorem assign_all_verdicts k i smp ts : snd (assign_all k i smp ts) = map (validate i) ts.
Proof.
  revert smp; induction ts as [|t r IH]; intros smp; simpl; [reflexivity|].
  specialize (IH (fst (set_target k i smp t))).
  unfold set_target in *. simpl in *.
  destruct (assign_all k i _ r) as [smp2 vs]. simpl in *. rewrite IH. reflexivity.
Qed.

(* an accepted assignment in any state has the supported structure (composition with validate_exp_accept) *)
Corollary retarget_accept_structure k smp t key :
  snd (set_target k IExp smp t) = Accept key -> accepted_structure t key.
Proof. rewrite set_target_verdict. apply validate_exp_accept. Qed.

(* the object after a history: with the repaired setter it always holds the last ACCEPTED target (or its initial one) *)
Fixpoint last_accepted (i : iface) (init : option target) (ts : list target) : option target :=
  match ts with
  | [] => init
  | t :: r => last_accepted i (if is_reject (validate i t) then init else Some t) r
  end.

Theorem assign_all_restoring_holds_last_accepted i smp ts :
  es_target (fst (assign_all false i smp ts)) = last_accepted i (es_target smp) ts.
Proof.
  revert smp; induction ts as [|t r IH]; intros smp; simpl; [reflexivity|].
  specialize (IH (fst (set_target false i smp t))).
  unfold set_target in *. simpl in *.
  destruct (assign_all false i _ r) as [smp2 vs]. simpl in *. rewrite IH.
  destruct (is_reject (validate i t)); reflexivity.
Qed.

(* the setter of the tree today: a refused target stays in the object *)
Theorem refused_target_retained :
  exists smp t r, snd (set_target true IExp smp t) = Reject r /\ es_target (fst (set_target true IExp smp t)) = Some t
                  /\ es_target smp <> Some t.
Proof.
  exists {| es_initialized := true; es_target := None |}, (witness_target [DMul DVar DVar]), RWrongFun.
  split; [vm_compute; reflexivity | split; [reflexivity | discriminate]].
Qed.
