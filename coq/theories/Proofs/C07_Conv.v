(* C07 -- the convolution operators of the shipped test problems: for periodic (wrap) and zero
   (constant) boundary conditions the transpose of "shift by d" is "shift by -d", hence for an odd
   PSF size the operator built from the flipped PSF is the exact transpose -- 1-d for every signal
   length and PSF length, 2-d for every image shape and PSF size.  Witnesses for even PSF sizes and
   for the replicate / symmetric / reflect paddings. *)
From CV Require Import Base.Tac Base.LinAlg Base.Cmp Base.QcLin Model.C07_Adj
  Proofs.C07_Lists Proofs.C07_Geom Proofs.C07_Model.
From Coq Require Import QArith Qcanon.

Local Open Scope Qc_scope.
Local Notation flip2 := C07_Adj.flip2.   (* Coq.Classes.Morphisms also has a flip2 *)

Definition periodic_or_zero (m : bc) : Prop := m = BWrap \/ m = BConstant.

(* ---------- list facts ---------- *)
Lemma Forall_firstn' {A} (P : A -> Prop) k l : Forall P l -> Forall P (firstn k l).
Proof. intros H; revert k; induction H as [|a l Ha H IH]; intros [|k]; cbn [firstn]; constructor; auto. Qed.

Lemma Forall_skipn' {A} (P : A -> Prop) k l : Forall P l -> Forall P (skipn k l).
Proof. intros H; revert k; induction H as [|a l Ha H IH]; intros [|k]; cbn [skipn]; try constructor; auto. Qed.

Lemma Forall_repeat' {A} (P : A -> Prop) z k : P z -> Forall P (repeat z k).
Proof. intros H; induction k; cbn [repeat]; constructor; auto. Qed.

Lemma map_repeat' {A B} (f : A -> B) z k : map f (repeat z k) = repeat (f z) k.
Proof. induction k as [|k IH]; [reflexivity|]. cbn [repeat map]. rewrite IH. reflexivity. Qed.

Lemma all_eq_repeat {A} (z : A) l : Forall (fun a => a = z) l -> l = repeat z (length l).
Proof. induction 1 as [|a l Ha H IH]; [reflexivity|]. subst. cbn [length repeat]. f_equal. exact IH. Qed.

(* ---------- shifts: shape, closure, commutation with map ---------- *)
Section ShiftFacts.
Context {A : Type} (zero : A).

Lemma rotl_length k (l : list A) : (k <= length l)%nat -> length (rotl k l) = length l.
Proof. intros H. unfold rotl. rewrite app_length, skipn_length, firstn_length. lia. Qed.

Lemma zshift_length d (l : list A) : length (zshift zero d l) = length l.
Proof.
  unfold zshift. destruct (0 <=? d)%Z.
  - rewrite app_length, skipn_length, repeat_length. lia.
  - rewrite app_length, firstn_length, repeat_length. lia.
Qed.

Lemma shift_length m d (l : list A) : length (shift zero m d l) = length l.
Proof.
  destruct m; cbn [shift]; try (rewrite map_length, seq_length; reflexivity).
  - apply zshift_length.
  - destruct (length l) as [|n'] eqn:E.
    + destruct l; [reflexivity | discriminate].
    + rewrite rotl_length; [exact E|]. rewrite E.
      pose proof (Z.mod_pos_bound d (Z.of_nat (S n'))). lia.
Qed.

Lemma shift_Forall (P : A -> Prop) m d l : periodic_or_zero m -> P zero -> Forall P l ->
  Forall P (shift zero m d l).
Proof.
  intros [-> | ->] Hz Hl; cbn [shift].
  - destruct (length l); [constructor|]. unfold rotl. apply Forall_app. split; [apply Forall_skipn' | apply Forall_firstn']; exact Hl.
  - unfold zshift. destruct (0 <=? d)%Z; apply Forall_app; split;
      try (apply Forall_repeat'; exact Hz); [apply Forall_skipn' | apply Forall_firstn']; exact Hl.
Qed.
End ShiftFacts.

Lemma map_shift {A B} (f : A -> B) (zero : A) m d l : periodic_or_zero m ->
  map f (shift zero m d l) = shift (f zero) m d (map f l).
Proof.
  intros [-> | ->]; cbn [shift].
  - rewrite map_length. destruct (length l); [reflexivity|]. unfold rotl. rewrite map_app, skipn_map, firstn_map. reflexivity.
  - unfold zshift. rewrite map_length. destruct (0 <=? d)%Z; rewrite map_app, map_repeat', ?skipn_map, ?firstn_map; reflexivity.
Qed.

(* ---------- the transpose of a shift is the opposite shift (periodic / zero) ---------- *)
Section ShiftAdj.
Context {A : Type} (zero : A) (ip : A -> A -> Qc).
Hypothesis ip_zero_l : forall a, ip zero a = 0.
Hypothesis ip_zero_r : forall a, ip a zero = 0.

Lemma ldot_swap (X1 X2 Y1 Y2 : list A) : length X2 = length Y1 -> length X1 = length Y2 ->
  ldot ip (X2 ++ X1) (Y1 ++ Y2) = ldot ip (X1 ++ X2) (Y2 ++ Y1).
Proof. intros H1 H2. rewrite !ldot_app by assumption. ring. Qed.

Lemma rotl_adj k k' (x y : list A) : length x = length y -> (k + k' = length x)%nat ->
  ldot ip (rotl k x) y = ldot ip x (rotl k' y).
Proof.
  intros HL Hk. unfold rotl.
  pose proof (ldot_swap (firstn k x) (skipn k x) (firstn k' y) (skipn k' y)) as H.
  rewrite !firstn_skipn in H. apply H.
  - rewrite skipn_length, firstn_length. lia.
  - rewrite skipn_length, firstn_length. lia.
Qed.

Lemma ldot_zs (X1 X2 Y1 Y2 : list A) k : length X2 = length Y1 -> length X1 = k ->
  ldot ip (X2 ++ repeat zero k) (Y1 ++ Y2) = ldot ip (X1 ++ X2) (repeat zero k ++ Y1).
Proof.
  intros H1 H2. rewrite !ldot_app by (try assumption; rewrite repeat_length; exact H2).
  rewrite ldot_repeat_l, ldot_repeat_r by assumption. ring.
Qed.

Lemma ldot_zs' (X1 X2 Y1 Y2 : list A) k : length Y1 = k -> length X1 = length Y2 ->
  ldot ip (repeat zero k ++ X1) (Y1 ++ Y2) = ldot ip (X1 ++ X2) (Y2 ++ repeat zero k).
Proof.
  intros H1 H2. rewrite !ldot_app by (try assumption; rewrite repeat_length; symmetry; exact H1).
  rewrite ldot_repeat_l, ldot_repeat_r by assumption. ring.
Qed.

Lemma zshift_adj d (x y : list A) : length x = length y ->
  ldot ip (zshift zero d x) y = ldot ip x (zshift zero (- d) y).
Proof.
  intros HL. unfold zshift. rewrite <- HL.
  destruct (0 <=? d)%Z eqn:E1; destruct (0 <=? - d)%Z eqn:E2.
  - assert (d = 0%Z) by lia. subst d. cbn [Z.opp Z.to_nat Nat.min skipn repeat]. rewrite !app_nil_r. reflexivity.
  - replace (Z.to_nat (- - d)) with (Z.to_nat d) by (f_equal; lia).
    set (k := Nat.min (Z.to_nat d) (length x)).
    pose proof (ldot_zs (firstn k x) (skipn k x) (firstn (length x - k) y) (skipn (length x - k) y) k) as H.
    rewrite !firstn_skipn in H. apply H.
    + rewrite skipn_length, firstn_length. lia.
    + rewrite firstn_length. lia.
  - set (k := Nat.min (Z.to_nat (- d)) (length x)).
    pose proof (ldot_zs' (firstn (length x - k) x) (skipn (length x - k) x) (firstn k y) (skipn k y) k) as H.
    rewrite !firstn_skipn in H. apply H.
    + rewrite firstn_length. lia.
    + rewrite skipn_length, firstn_length. lia.
  - lia.
Qed.

Lemma shift_adj m d (x y : list A) : periodic_or_zero m -> length x = length y ->
  ldot ip (shift zero m d x) y = ldot ip x (shift zero m (- d) y).
Proof.
  intros [-> | ->] HL; cbn [shift].
  - rewrite <- HL. destruct (length x) as [|n'] eqn:E.
    + destruct x; [|discriminate]. reflexivity.
    + set (N := Z.of_nat (S n')). assert (HN : (N <> 0)%Z) by (unfold N; lia).
      pose proof (Z.mod_pos_bound d N ltac:(unfold N; lia)) as Hb.
      destruct (Z.eq_dec (d mod N) 0) as [Hz | Hnz].
      * rewrite (Z.mod_opp_l_z d N HN Hz), Hz. cbn [Z.to_nat]. unfold rotl. cbn [skipn firstn]. rewrite !app_nil_r. reflexivity.
      * rewrite (Z.mod_opp_l_nz d N HN Hnz). apply rotl_adj; [congruence|]. rewrite E. unfold N in *. lia.
  - apply zshift_adj. exact HL.
Qed.
End ShiftAdj.

Lemma qshift_adj m d x y : periodic_or_zero m -> length x = length y ->
  qdot (shift 0 m d x) y = qdot x (shift 0 m (- d) y).
Proof.
  intros Hm HL. rewrite <- !ldot_qdot. apply shift_adj; try assumption; intros a; ring.
Qed.

Lemma shift_zero_row m d n : periodic_or_zero m -> shift 0 m d (qvzero n) = qvzero n.
Proof.
  intros Hm. rewrite qvzero_repeat.
  rewrite (all_eq_repeat 0 (shift 0 m d (repeat 0 n))).
  - rewrite shift_length, repeat_length. reflexivity.
  - apply shift_Forall; [exact Hm | reflexivity | apply Forall_repeat'; reflexivity].
Qed.

(* ---------- 1-d convolution ---------- *)
Lemma conv1_terms_cons m cd w x :
  conv1_terms m (cd :: w) x = qvadd (qvscale (fst cd) (shift 0 m (snd cd) x)) (conv1_terms m w x).
Proof. reflexivity. Qed.

Lemma conv1_terms_length m w x : length (conv1_terms m w x) = length x.
Proof.
  induction w as [|cd w IH]; [apply qvzero_length|].
  rewrite conv1_terms_cons, qvadd_length; rewrite qvscale_length, shift_length; [reflexivity | symmetry; exact IH].
Qed.

Lemma conv1_dot_l m w x y :
  qdot (conv1_terms m w x) y = wsum (fun d => qdot (shift 0 m d x) y) w.
Proof.
  induction w as [|cd w IH]; [apply qdot_vzero_l|].
  rewrite conv1_terms_cons, wsum_cons, qdot_vadd_l, qdot_vscale_l, IH; [reflexivity|].
  rewrite qvscale_length, shift_length, conv1_terms_length. reflexivity.
Qed.

Lemma conv1_dot_r m w x y :
  qdot x (conv1_terms m w y) = wsum (fun d => qdot x (shift 0 m d y)) w.
Proof.
  rewrite qdot_comm, conv1_dot_l. apply wsum_ext. intros cd _. apply qdot_comm.
Qed.

Definition negw (cd : Qc * Z) : Qc * Z := (fst cd, (- snd cd)%Z).

(* the transpose of the operator with weights (c_k, d_k) is the operator with weights (c_k, -d_k) *)
Lemma conv1_terms_adjoint m w x y : periodic_or_zero m -> length x = length y ->
  qdot (conv1_terms m w x) y = qdot x (conv1_terms m (map negw w) y).
Proof.
  intros Hm HL. rewrite conv1_dot_l, conv1_dot_r. unfold negw. rewrite wsum_map.
  apply wsum_ext. intros cd _. apply qshift_adj; assumption.
Qed.

Lemma offsets_length L : length (offsets L) = L.
Proof. unfold offsets. rewrite map_length, seq_length. reflexivity. Qed.

Lemma half_odd h : ((2 * h + 1) / 2 = h)%nat.
Proof. rewrite (Nat.mul_comm 2 h), Nat.div_add_l by discriminate. cbn. lia. Qed.

Lemma offsets_rev_odd h : rev (offsets (2 * h + 1)) = map Z.opp (offsets (2 * h + 1)).
Proof.
  unfold offsets. rewrite half_odd, <- map_rev, rev_seq, !map_map.
  apply map_ext_in. intros k Hk. apply in_seq in Hk. lia.
Qed.

Theorem conv1_flip_adjoint m P h x y : periodic_or_zero m -> length P = (2 * h + 1)%nat ->
  length x = length y -> qdot (conv1 m P x) y = qdot x (conv1 m (rev P) y).
Proof.
  intros Hm HP HL. unfold conv1. rewrite rev_length, HP, conv1_dot_l, conv1_dot_r.
  rewrite (wsum_flip _ Z.opp).
  - apply wsum_ext. intros cd _. apply qshift_adj; assumption.
  - rewrite offsets_length. exact HP.
  - apply offsets_rev_odd.
Qed.

(* refuted: even PSF size (periodic and zero), and the other three boundary conditions with an odd PSF *)
Definition conv1_flip_fails (m : bc) (P x y : list Qc) : Prop :=
  qdot (conv1 m P x) y <> qdot x (conv1 m (rev P) y).

Lemma conv1_even_periodic_refuted : conv1_flip_fails BWrap (zv [1; 2; 3; 4]%Z) (zv [1; 0; 0; 0; 0]%Z) (zv [0; 1; 0; 0; 0]%Z).
Proof. apply qc_neq_of_eqb. vm_compute. reflexivity. Qed.
Lemma conv1_even_zero_refuted : conv1_flip_fails BConstant (zv [1; 2]%Z) (zv [1; 0; 0]%Z) (zv [1; 0; 0]%Z).
Proof. apply qc_neq_of_eqb. vm_compute. reflexivity. Qed.
Lemma conv1_edge_refuted : conv1_flip_fails BEdge (zv [1; 2; 3]%Z) (zv [1; 0; 0; 0]%Z) (zv [1; 0; 0; 0]%Z).
Proof. apply qc_neq_of_eqb. vm_compute. reflexivity. Qed.
Lemma conv1_symmetric_refuted : conv1_flip_fails BSymmetric (zv [1; 2; 3]%Z) (zv [1; 0; 0; 0]%Z) (zv [1; 0; 0; 0]%Z).
Proof. apply qc_neq_of_eqb. vm_compute. reflexivity. Qed.
Lemma conv1_reflect_refuted : conv1_flip_fails BReflect (zv [1; 2; 1]%Z) (zv [1; 0; 0; 0]%Z) (zv [0; 1; 0; 0]%Z).
Proof. apply qc_neq_of_eqb. vm_compute. reflexivity. Qed.

(* ---------- 2-d: matrices as lists of rows ---------- *)
Lemma madd_cons a X b Y : madd (a :: X) (b :: Y) = qvadd a b :: madd X Y. Proof. reflexivity. Qed.
Lemma madd_nil_l Y : madd [] Y = []. Proof. reflexivity. Qed.
Lemma mscale_cons c a X : mscale c (a :: X) = qvscale c a :: mscale c X. Proof. reflexivity. Qed.
Lemma mzero_rows r c : wf_mat c (mzero r c).
Proof. apply Forall_repeat'. apply qvzero_length. Qed.
Lemma mzero_length r c : length (mzero r c) = r.
Proof. apply repeat_length. Qed.

Lemma madd_shape c X Y : wf_mat c X -> wf_mat c Y -> length X = length Y ->
  wf_mat c (madd X Y) /\ length (madd X Y) = length X.
Proof.
  intros HX; revert Y; induction HX as [|a X Ha HX IH]; intros [|b Y] HY HL; simpl in HL; try discriminate.
  - split; [constructor | reflexivity].
  - inversion HY; subst. destruct (IH Y) as [W Ln]; [assumption | lia |].
    rewrite madd_cons. split; [constructor; [rewrite qvadd_length; congruence | exact W] | simpl; lia].
Qed.

Lemma mscale_shape k c X : wf_mat c X -> wf_mat c (mscale k X) /\ length (mscale k X) = length X.
Proof.
  unfold mscale. split; [|apply map_length].
  apply Forall_forall. intros r Hr. apply in_map_iff in Hr as (r0 & <- & Hr0).
  rewrite qvscale_length. unfold wf_mat in H. rewrite Forall_forall in H. apply H. exact Hr0.
Qed.

Lemma fdot_madd_l c X Y Z : wf_mat c X -> wf_mat c Y -> length X = length Y ->
  fdot (madd X Y) Z = fdot X Z + fdot Y Z.
Proof.
  intros HX; revert Y Z; induction HX as [|a X Ha HX IH]; intros [|b Y] Z HY HL; simpl in HL; try discriminate.
  - cbn. ring.
  - inversion HY; subst. destruct Z as [|z Z].
    + rewrite !fdot_nil_r. ring.
    + rewrite madd_cons, !fdot_cons, qdot_vadd_l by congruence. rewrite (IH Y Z) by (try assumption; lia). ring.
Qed.

Lemma fdot_mscale_l k X Z : fdot (mscale k X) Z = k * fdot X Z.
Proof.
  revert Z; induction X as [|a X IH]; intros [|z Z]; try (cbn; ring).
  rewrite mscale_cons, !fdot_cons, qdot_vscale_l, IH. ring.
Qed.

Lemma fdot_mzero_l r c Z : fdot (mzero r c) Z = 0.
Proof. apply ldot_repeat_l. intros a. apply qdot_vzero_l. Qed.

Lemma fdot_map_adj c (S S' : list Qc -> list Qc) X Y :
  (forall x y, length x = c -> length y = c -> qdot (S x) y = qdot x (S' y)) ->
  wf_mat c X -> wf_mat c Y -> fdot (map S X) Y = fdot X (map S' Y).
Proof.
  intros HS HX; revert Y; induction HX as [|a X Ha HX IH]; intros [|b Y] HY; try reflexivity.
  pose proof (Forall_inv HY) as Hb. pose proof (Forall_inv_tail HY) as HY'.
  cbn [map]. rewrite !fdot_cons, HS, IH by assumption. reflexivity.
Qed.

Lemma shift2_shape m nc d X : periodic_or_zero m -> wf_mat nc X ->
  wf_mat nc (shift2 m nc d X) /\ length (shift2 m nc d X) = length X.
Proof.
  intros Hm HX. unfold shift2. split.
  - apply shift_Forall; [exact Hm | apply qvzero_length |].
    apply Forall_forall. intros r Hr. apply in_map_iff in Hr as (r0 & <- & Hr0).
    rewrite shift_length. unfold wf_mat in HX. rewrite Forall_forall in HX. apply HX. exact Hr0.
  - rewrite shift_length, map_length. reflexivity.
Qed.

Lemma shift2_adj m nc a b X Y : periodic_or_zero m -> wf_mat nc X -> wf_mat nc Y -> length X = length Y ->
  fdot (shift2 m nc (a, b) X) Y = fdot X (shift2 m nc (- a, - b)%Z Y).
Proof.
  intros Hm HX HY HL. unfold shift2. cbn [fst snd]. unfold fdot.
  rewrite (shift_adj (qvzero nc) qdot) by
    (try exact Hm; try (intros r; apply qdot_vzero_l); try (intros r; apply qdot_vzero_r); rewrite map_length; exact HL).
  fold (fdot (map (shift 0 m b) X) (shift (qvzero nc) m (- a) Y)).
  rewrite (fdot_map_adj nc (shift 0 m b) (shift 0 m (- b))).
  - rewrite (map_shift (shift 0 m (- b)) (qvzero nc)) by exact Hm. rewrite shift_zero_row by exact Hm. reflexivity.
  - intros x y Hx Hy. apply qshift_adj; [exact Hm | congruence].
  - exact HX.
  - apply shift_Forall; [exact Hm | apply qvzero_length | exact HY].
Qed.

Lemma conv2_terms_cons m nr nc cd w X :
  conv2_terms m nr nc (cd :: w) X = madd (mscale (fst cd) (shift2 m nc (snd cd) X)) (conv2_terms m nr nc w X).
Proof. reflexivity. Qed.

Lemma conv2_terms_shape m nr nc w X : periodic_or_zero m -> wf_mat nc X -> length X = nr ->
  wf_mat nc (conv2_terms m nr nc w X) /\ length (conv2_terms m nr nc w X) = nr.
Proof.
  intros Hm HX HL. induction w as [|cd w [IW IL]].
  - split; [apply mzero_rows | apply mzero_length].
  - rewrite conv2_terms_cons.
    destruct (shift2_shape m nc (snd cd) X Hm HX) as [SW SL].
    destruct (mscale_shape (fst cd) nc _ SW) as [MW ML].
    destruct (madd_shape nc _ _ MW IW) as [AW AL].
    { etransitivity; [exact ML|]. etransitivity; [exact SL|]. etransitivity; [exact HL|]. symmetry; exact IL. }
    split; [exact AW|]. etransitivity; [exact AL|]. etransitivity; [exact ML|]. etransitivity; [exact SL|]. exact HL.
Qed.

Lemma conv2_dot_l m nr nc w X Y : periodic_or_zero m -> wf_mat nc X -> length X = nr ->
  fdot (conv2_terms m nr nc w X) Y = wsum (fun d => fdot (shift2 m nc d X) Y) w.
Proof.
  intros Hm HX HL. induction w as [|cd w IH]; [apply fdot_mzero_l|].
  rewrite conv2_terms_cons, wsum_cons.
  destruct (shift2_shape m nc (snd cd) X Hm HX) as [SW SL].
  destruct (mscale_shape (fst cd) nc _ SW) as [MW ML].
  destruct (conv2_terms_shape m nr nc w X Hm HX HL) as [CW CL].
  rewrite (fdot_madd_l nc); try assumption;
    [| etransitivity; [exact ML|]; etransitivity; [exact SL|]; etransitivity; [exact HL|]; symmetry; exact CL].
  rewrite fdot_mscale_l, IH. reflexivity.
Qed.

Lemma conv2_dot_r m nr nc w X Y : periodic_or_zero m -> wf_mat nc Y -> length Y = nr ->
  fdot X (conv2_terms m nr nc w Y) = wsum (fun d => fdot X (shift2 m nc d Y)) w.
Proof.
  intros Hm HY HL. rewrite fdot_comm, conv2_dot_l by assumption. apply wsum_ext. intros cd _. apply fdot_comm.
Qed.

Definition opp2 (d : Z * Z) : Z * Z := (- fst d, - snd d)%Z.

Lemma rev_pairs {A B} (l1 : list A) (l2 : list B) :
  rev (flat_map (fun a => map (pair a) l2) l1) = flat_map (fun a => map (pair a) (rev l2)) (rev l1).
Proof.
  induction l1 as [|a l1 IH]; [reflexivity|].
  cbn [flat_map rev]. rewrite rev_app_distr, IH, flat_map_app. cbn [flat_map]. rewrite app_nil_r, map_rev. reflexivity.
Qed.

Lemma map_pairs {A B} (f : A -> A) (g : B -> B) (l1 : list A) (l2 : list B) :
  flat_map (fun a => map (pair a) (map g l2)) (map f l1) =
  map (fun ab => (f (fst ab), g (snd ab))) (flat_map (fun a => map (pair a) l2) l1).
Proof.
  induction l1 as [|a l1 IH]; [reflexivity|].
  cbn [flat_map map]. rewrite map_app, IH, !map_map. reflexivity.
Qed.

Lemma offsets2_rev_odd h : rev (offsets2 (2 * h + 1)) = map opp2 (offsets2 (2 * h + 1)).
Proof. unfold offsets2. rewrite rev_pairs, offsets_rev_odd, map_pairs. reflexivity. Qed.

Lemma pairs_length {A B} (l1 : list A) (l2 : list B) :
  length (flat_map (fun a => map (pair a) l2) l1) = (length l1 * length l2)%nat.
Proof. induction l1 as [|a l1 IH]; [reflexivity|]. cbn [flat_map length]. rewrite app_length, map_length, IH. lia. Qed.

Lemma offsets2_length L : length (offsets2 L) = (L * L)%nat.
Proof. unfold offsets2. rewrite pairs_length, offsets_length. reflexivity. Qed.

Lemma concat_flip2 (P : list (list Qc)) : concat (flip2 P) = rev (concat P).
Proof.
  unfold flip2. induction P as [|a P IH]; [reflexivity|].
  cbn [map rev concat]. rewrite concat_app, IH. cbn [concat]. rewrite app_nil_r, rev_app_distr. reflexivity.
Qed.

(* the 2-d operator with the flipped PSF is the transpose, every image shape, every odd PSF size *)
Theorem conv2_flip_adjoint m h nr nc P X Y :
  periodic_or_zero m -> wf_mat (2 * h + 1) P -> length P = (2 * h + 1)%nat ->
  wf_mat nc X -> length X = nr -> wf_mat nc Y -> length Y = nr ->
  fdot (conv2 m (2 * h + 1) nr nc P X) Y = fdot X (conv2 m (2 * h + 1) nr nc (flip2 P) Y).
Proof.
  intros Hm WP LP HX LX HY LY. unfold conv2.
  rewrite conv2_dot_l, conv2_dot_r by assumption.
  rewrite concat_flip2, (wsum_flip _ opp2).
  - apply wsum_ext. intros [c [a b]] _. cbn [snd]. unfold opp2. cbn [fst snd]. apply shift2_adj; try assumption. congruence.
  - rewrite (concat_length_wf (2 * h + 1) P WP), offsets2_length. f_equal. exact LP.
  - apply offsets2_rev_odd.
Qed.

Lemma conv2_shape m S nr nc P X : periodic_or_zero m -> wf_mat nc X -> length X = nr ->
  wf_mat nc (conv2 m S nr nc P X) /\ length (conv2 m S nr nc P X) = nr.
Proof. intros. unfold conv2. apply conv2_terms_shape; assumption. Qed.

(* ---------- Deconvolution2D's model ---------- *)
Lemma flip2_shape S (P : list (list Qc)) : wf_mat S P -> wf_mat S (flip2 P) /\ length (flip2 P) = length P.
Proof.
  intros H. unfold flip2. split; [|rewrite rev_length, map_length; reflexivity].
  apply Forall_rev. apply Forall_forall. intros r Hr. apply in_map_iff in Hr as (r0 & <- & Hr0).
  rewrite rev_length. unfold wf_mat in H. rewrite Forall_forall in H. apply H. exact Hr0.
Qed.

Lemma deconv2_transposes m h n P :
  periodic_or_zero m -> wf_mat (2 * h + 1) P -> length P = (2 * h + 1)%nat ->
  transposes (deconv2_model m (2 * h + 1) n P).
Proof.
  intros Hm WP LP xs ys Lx Ly. cbn [deconv2_model lm_fwd lm_adj lm_D lm_R fun_dim funval] in *.
  set (X := chunks n n xs). set (Y := chunks n n ys).
  assert (HX : wf_mat n X) by (apply chunks_wf; exact Lx).
  assert (HY : wf_mat n Y) by (apply chunks_wf; exact Ly).
  assert (LX : length X = n) by apply chunks_length.
  assert (LY : length Y = n) by apply chunks_length.
  destruct (conv2_shape m (2 * h + 1) n n P X Hm HX LX) as [CW CL].
  destruct (conv2_shape m (2 * h + 1) n n (flip2 P) Y Hm HY LY) as [DW DL].
  exists (concat (conv2 m (2 * h + 1) n n P X)), (concat (conv2 m (2 * h + 1) n n (flip2 P) Y)).
  unfold img_op. rewrite !Nat.eqb_refl. cbn [andb]. fold X Y.
  repeat split.
  - rewrite (concat_length_wf n) by exact CW. rewrite CL. reflexivity.
  - rewrite (concat_length_wf n) by exact DW. rewrite DL. reflexivity.
  - assert (EY : concat Y = ys) by (apply concat_chunks; exact Ly).
    assert (EX : concat X = xs) by (apply concat_chunks; exact Lx).
    rewrite <- EY at 1. rewrite <- EX at 1.
    rewrite !qdot_concat.
    + apply conv2_flip_adjoint; assumption.
    + apply (wf_Forall2_length n); [exact HX | exact DW | congruence].
    + apply (wf_Forall2_length n); [exact CW | exact HY | congruence].
Qed.

Theorem deconv2_adjoint m h n P :
  periodic_or_zero m -> wf_mat (2 * h + 1) P -> length P = (2 * h + 1)%nat ->
  forall x y, length x = (n * n)%nat -> length y = (n * n)%nat ->
  exists fx ay, forward (deconv2_model m (2 * h + 1) n P) (V1 x) = Some (V1 fx) /\
                adjoint (deconv2_model m (2 * h + 1) n P) (V1 y) = Some (V1 ay) /\
                length fx = (n * n)%nat /\ length ay = (n * n)%nat /\ qdot fx y = qdot x ay.
Proof.
  intros Hm WP LP x y Hx Hy.
  apply (adjoint_orthogonal (deconv2_model m (2 * h + 1) n P)); try exact I; try assumption.
  apply deconv2_transposes; assumption.
Qed.

(* refuted beyond: even PSF size, and each of the other three paddings with an odd PSF *)
Definition deconv2_fails (m : bc) (S n : nat) (P : list (list Qc)) (x y : list Qc) : Prop :=
  adjoint_fails (deconv2_model m S n P) x y.

Ltac refute_deconv2 :=
  eexists; eexists; split; [vm_compute; reflexivity|]; split; [vm_compute; reflexivity|];
  apply qc_neq_of_eqb; vm_compute; reflexivity.

Definition wx9 := zv [1; 0; 0; 0; 0; 0; 0; 0; 0]%Z.
Definition wP3 := zm [[1; 0; 2]; [0; 3; 1]; [1; 1; 0]]%Z.

Lemma deconv2_even_refuted : deconv2_fails BWrap 2 3 (zm [[1; 2]; [3; 4]]%Z) wx9 wx9.
Proof. refute_deconv2. Qed.
Lemma deconv2_even_zero_refuted : deconv2_fails BConstant 2 3 (zm [[1; 2]; [3; 4]]%Z) wx9 wx9.
Proof. refute_deconv2. Qed.
Lemma deconv2_edge_refuted : deconv2_fails BEdge 3 3 wP3 wx9 wx9.
Proof. refute_deconv2. Qed.
Lemma deconv2_symmetric_refuted : deconv2_fails BSymmetric 3 3 wP3 wx9 wx9.
Proof. refute_deconv2. Qed.
Lemma deconv2_reflect_refuted :
  deconv2_fails BReflect 3 3 (zm [[0; 1; 0]; [1; 2; 1]; [0; 1; 0]]%Z) wx9 (zv [0; 1; 0; 0; 0; 0; 0; 0; 0]%Z).
Proof. refute_deconv2. Qed.
