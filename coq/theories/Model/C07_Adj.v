(* C07 -- executable model of cuqi.model.LinearModel (forward / adjoint / get_matrix / T), of the
   geometry maps it applies (cuqi.geometry: identity-like, Image2D/Continuous2D reshapes in C or F
   order, StepExpansion with the 'mean' projection, linear expansions given by a pair of matrices,
   MappedGeometry with a scaling map) and of the convolution operators of the shipped test problems
   (scipy.ndimage.convolve1d modes of Deconvolution1D; pad + valid convolution + flipped PSF of
   Deconvolution2D).  Carrier: Qc.  No proofs here. *)
From CV Require Import Base.Tac Base.LinAlg Base.Cmp Base.QcLin.
From Coq Require Import QArith Qcanon.

Local Open Scope Qc_scope.

Definition zv (l : list Z) : list Qc := map qcz l.
Definition zm (m : list (list Z)) : list (list Qc) := map zv m.

Definition obind {A B} (x : option A) (f : A -> option B) : option B :=
  match x with Some a => f a | None => None end.

(* ------------------------------------------------------------------------------------------ *)
(* list plumbing: chunks, structural transpose                                                *)
(* ------------------------------------------------------------------------------------------ *)
Section Plumbing.
Context {A : Type}.

(* n consecutive chunks of length k *)
Fixpoint chunks (k n : nat) (l : list A) : list (list A) :=
  match n with O => [] | S n' => firstn k l :: chunks k n' (skipn k l) end.

Fixpoint zipcons (r : list A) (T : list (list A)) : list (list A) :=
  match r, T with a :: r', t :: T' => (a :: t) :: zipcons r' T' | _, _ => [] end.

(* transpose of a matrix whose rows have length n *)
Fixpoint tr (n : nat) (M : list (list A)) : list (list A) :=
  match M with [] => repeat [] n | row :: M' => zipcons row (tr n M') end.
End Plumbing.

(* ------------------------------------------------------------------------------------------ *)
(* values: numpy arrays of rank 1 and rank 2 (rank 2 stored flat in C order with its shape)   *)
(* ------------------------------------------------------------------------------------------ *)
Inductive val := V1 (l : list Qc) | V2 (r c : nat) (l : list Qc).
Definition flat (v : val) : list Qc := match v with V1 l => l | V2 _ _ l => l end.
Definition vmap (f : list Qc -> list Qc) (v : val) : val :=
  match v with V1 l => V1 (f l) | V2 r c l => V2 r c (f l) end.

(* ------------------------------------------------------------------------------------------ *)
(* geometries                                                                                 *)
(* ------------------------------------------------------------------------------------------ *)
Inductive order := OC | OF.

Inductive geom :=
| GId (n : nat)                      (* Continuous1D, Discrete, _DefaultGeometry1D, Image2D(visual_only):
                                        par2fun = fun2par = identity, no shape check *)
| GImage (r c : nat) (o : order)     (* Image2D / _DefaultGeometry2D (order C or F), Continuous2D (C) *)
| GStep (cnt : list nat)             (* StepExpansion, projection 'mean': step i owns cnt_i consecutive nodes *)
| GLin (npar nfun : nat) (G Ginv : list (list Qc))   (* linear expansion (KLExpansion): par2fun = G, fun2par = Ginv *)
| GScale (c cinv : Qc) (g : geom)    (* MappedGeometry(g, map = c*., imap = cinv*.) *)
| GStepX (mx : bool) (cnt : list nat).   (* StepExpansion, projection 'max' (true) / 'min' (false): fun2par is not linear *)

Fixpoint par_dim (g : geom) : nat :=
  match g with
  | GId n => n | GImage r c _ => r * c | GStep cnt => length cnt | GLin np _ _ _ => np
  | GScale _ _ g' => par_dim g' | GStepX _ cnt => length cnt end.

Fixpoint fun_dim (g : geom) : nat :=
  match g with
  | GId n => n | GImage r c _ => r * c | GStep cnt => fold_right Nat.add 0%nat cnt | GLin _ nf _ _ => nf
  | GScale _ _ g' => fun_dim g' | GStepX _ cnt => fold_right Nat.add 0%nat cnt end.

(* the array a function value of this geometry is: an image for GImage, a vector otherwise *)
Fixpoint funval (g : geom) (f : list Qc) : val :=
  match g with GImage r c _ => V2 r c f | GScale _ _ g' => funval g' f | _ => V1 f end.

(* F-order vector (c columns of length r) -> C-flat r x c image, and back *)
Definition unravelF (r c : nat) (p : list Qc) : list Qc := concat (tr r (chunks r c p)).
Definition ravelF (r c : nat) (f : list Qc) : list Qc := concat (tr c (chunks c r f)).

Fixpoint step_expand (cnt : list nat) (p : list Qc) : list Qc :=
  match cnt, p with k :: cnt', a :: p' => repeat a k ++ step_expand cnt' p' | _, _ => [] end.

Definition qsum (l : list Qc) : Qc := fold_right Qcplus 0 l.

Fixpoint step_mean (cnt : list nat) (f : list Qc) : list Qc :=
  match cnt with
  | [] => []
  | k :: cnt' => (qsum (firstn k f) / qcz (Z.of_nat k)) :: step_mean cnt' (skipn k f)
  end.

(* np.max / np.min of a block (Python: raises on an empty block; the callers check the sizes first) *)
Definition qcmax (a b : Qc) : Qc := if Qle_bool (this a) (this b) then b else a.
Definition qcmin (a b : Qc) : Qc := if Qle_bool (this a) (this b) then a else b.
Definition ext_of (mx : bool) (l : list Qc) : Qc :=
  match l with [] => 0 | a :: l' => fold_left (if mx then qcmax else qcmin) l' a end.
Fixpoint step_ext (mx : bool) (cnt : list nat) (f : list Qc) : list Qc :=
  match cnt with
  | [] => []
  | k :: cnt' => ext_of mx (firstn k f) :: step_ext mx cnt' (skipn k f)
  end.

(* par2fun.  None = the implementation raises.  The behaviour depends on the rank/shape of the array
   it is handed (this matters for LinearModel.T, which applies conversions to already converted values). *)
Fixpoint p2f (g : geom) (v : val) : option val :=
  match g with
  | GId _ => Some v
  | GImage r c o =>
      match v with
      | V1 l => if (length l =? r * c)%nat then Some (V2 r c (match o with OC => l | OF => unravelF r c l end)) else None
      | V2 r' c' l => if ((r' =? r) && (c' =? c))%nat then Some v else None     (* reshape to (r,c,1), squeezed: unchanged *)
      end
  | GStep cnt =>
      match v with
      | V1 l => if (length l =? length cnt)%nat then Some (V1 (step_expand cnt l)) else None   (* _reshape_par2fun_input *)
      | V2 _ _ _ => None
      end
  | GLin np nf G _ =>
      match v with
      | V1 l => if (length l =? np)%nat then Some (V1 (qmatvec G l)) else None
      | V2 _ _ _ => None
      end
  | GScale c _ g' => option_map (vmap (qvscale c)) (p2f g' v)
  | GStepX _ cnt =>
      match v with
      | V1 l => if (length l =? length cnt)%nat then Some (V1 (step_expand cnt l)) else None
      | V2 _ _ _ => None
      end
  end.

(* fun2par *)
Fixpoint f2p (g : geom) (v : val) : option val :=
  match g with
  | GId _ => Some v
  | GImage r c o =>
      match v with
      | V1 l => Some v                                             (* ravel of a vector *)
      | V2 r' c' l => Some (V1 (match o with OC => l | OF => ravelF r' c' l end))
      end
  | GStep cnt =>
      match v with
      | V1 l => if ((length l =? fold_right Nat.add 0 cnt)%nat && forallb (fun k => 0 <? k)%nat cnt)
                then Some (V1 (step_mean cnt l)) else None          (* _reshape_fun2par_input *)
      | V2 _ _ _ => None
      end
  | GLin np nf _ Ginv =>
      match v with
      | V1 l => if (length l =? nf)%nat then Some (V1 (qmatvec Ginv l)) else None
      | V2 _ _ _ => None
      end
  | GScale _ cinv g' => f2p g' (vmap (qvscale cinv) v)
  | GStepX mx cnt =>
      match v with
      | V1 l => if ((length l =? fold_right Nat.add 0 cnt)%nat && forallb (fun k => 0 <? k)%nat cnt)
                then Some (V1 (step_ext mx cnt l)) else None
      | V2 _ _ _ => None
      end
  end.

(* ------------------------------------------------------------------------------------------ *)
(* LinearModel                                                                                *)
(* ------------------------------------------------------------------------------------------ *)
Record lmodel := mkLM {
  lm_fwd : val -> option val;          (* _forward_func on function values *)
  lm_adj : val -> option val;          (* _adjoint_func on function values *)
  lm_mat : option (list (list Qc));    (* _matrix *)
  lm_D : geom;                         (* domain_geometry *)
  lm_R : geom }.                       (* range_geometry *)

(* Model._apply_func for plain arrays: _2fun, the function, _2par *)
Definition apply_func (func : val -> option val) (rg dg : geom) (x : val) : option val :=
  obind (p2f dg x) (fun fx => obind (func fx) (f2p rg)).

Definition forward (m : lmodel) (x : val) : option val := apply_func (lm_fwd m) (lm_R m) (lm_D m) x.
Definition adjoint (m : lmodel) (y : val) : option val := apply_func (lm_adj m) (lm_D m) (lm_R m) y.

(* LinearModel(matrix): forward_func = _matrix @ x, adjoint_func = _matrix.T @ y.  Applied to an image (a rank-2
   function value of an image geometry) `@` is the matrix product  A X  (numpy refuses mismatching inner dimensions) *)
Definition mmul (c : nat) (A X : list (list Qc)) : list (list Qc) := map (fun arow => qmattvec c X arow) A.
Definition mat_fwd (A : list (list Qc)) (v : val) : option val :=
  match v with
  | V1 l => Some (V1 (qmatvec A l))
  | V2 r c l => if forallb (fun row => (length row =? r)%nat) A
                then Some (V2 (length A) c (concat (mmul c A (chunks c r l)))) else None
  end.
Definition mat_adj (n : nat) (A : list (list Qc)) (v : val) : option val :=
  match v with
  | V1 l => Some (V1 (qmattvec n A l))
  | V2 r c l => if (length A =? r)%nat
                then Some (V2 n c (concat (mmul c (tr n A) (chunks c r l)))) else None
  end.
Definition mat_model (n : nat) (A : list (list Qc)) (D R : geom) : lmodel :=
  mkLM (mat_fwd A) (mat_adj n A) (Some A) D R.

(* LinearModel(forward, adjoint) with the function pair
      X |-> (M @ X.ravel()).reshape(range fun shape),   Y |-> (M.T @ Y.ravel()).reshape(domain fun shape) *)
Definition fun_model (n : nat) (M : list (list Qc)) (D R : geom) : lmodel :=
  mkLM (fun v => Some (funval R (qmatvec M (flat v))))
       (fun v => Some (funval D (qmattvec n M (flat v)))) None D R.

Definition as_vec (o : option val) : option (list Qc) :=
  match o with Some (V1 l) => Some l | _ => None end.

Fixpoint all_some {A} (l : list (option A)) : option (list A) :=
  match l with
  | [] => Some []
  | Some a :: r => option_map (cons a) (all_some r)
  | None :: _ => None
  end.

(* the columns forward(e_0) ... forward(e_{n-1}), n = domain_dim *)
Definition columns (m : lmodel) : option (list (list Qc)) :=
  all_some (map (fun i => as_vec (forward m (V1 (qunit (par_dim (lm_D m)) i)))) (seq 0 (par_dim (lm_D m)))).

(* LinearModel.get_matrix: the stored matrix if there is one, else assembled column by column *)
Definition get_matrix (m : lmodel) : option (list (list Qc)) :=
  match lm_mat m with
  | Some A => Some A
  | None => option_map (tr (par_dim (lm_R m))) (columns m)
  end.

(* ... and get_matrix stores what it assembled *)
Definition after_get_matrix (m : lmodel) : lmodel :=
  mkLM (lm_fwd m) (lm_adj m) (get_matrix m) (lm_D m) (lm_R m).

(* LinearModel.T: LinearModel(self.adjoint, self.forward, self.domain_geometry, self.range_geometry):
   the new model's callables are the *bound methods* (conversions included), geometries swapped,
   _matrix transposed when present.  ncols = number of columns of the stored matrix. *)
Definition lmT (ncols : nat) (m : lmodel) : lmodel :=
  mkLM (adjoint m) (forward m) (option_map (tr ncols) (lm_mat m)) (lm_R m) (lm_D m).

(* ------------------------------------------------------------------------------------------ *)
(* convolution operators of the test problems                                                 *)
(* ------------------------------------------------------------------------------------------ *)
Inductive bc := BConstant | BWrap | BEdge | BSymmetric | BReflect.
  (* scipy.ndimage: constant wrap nearest reflect mirror ;  numpy.pad: constant wrap edge symmetric reflect *)

(* index into the extended signal; None = zero fill *)
Definition ext (m : bc) (n : nat) (i : Z) : option nat :=
  let N := Z.of_nat n in
  if ((0 <=? i) && (i <? N))%Z then Some (Z.to_nat i) else
  match m with
  | BConstant => None
  | BWrap => Some (Z.to_nat (i mod N))
  | BEdge => Some (if (i <? 0)%Z then 0%nat else (n - 1)%nat)
  | BSymmetric => let p := (2 * N)%Z in let j := (i mod p)%Z in
                  Some (Z.to_nat (if (j <? N)%Z then j else p - 1 - j)%Z)
  | BReflect => if (n =? 1)%nat then Some 0%nat else
                let p := (2 * N - 2)%Z in let j := (i mod p)%Z in
                Some (Z.to_nat (if (j <? N)%Z then j else p - j)%Z)
  end.

Section Shift.
Context {A : Type} (zero : A).

(* cyclic and zero-filled shifts, defined structurally:  (shift d l)[i] = l_ext[i + d] *)
Definition rotl (k : nat) (l : list A) : list A := skipn k l ++ firstn k l.
Definition zshift (d : Z) (l : list A) : list A :=
  let n := length l in
  if (0 <=? d)%Z then let k := Nat.min (Z.to_nat d) n in skipn k l ++ repeat zero k
  else let k := Nat.min (Z.to_nat (- d)) n in repeat zero k ++ firstn (n - k) l.

Definition shift (m : bc) (d : Z) (l : list A) : list A :=
  let n := length l in
  match m with
  | BWrap => match n with O => [] | _ => rotl (Z.to_nat (d mod Z.of_nat n)) l end
  | BConstant => zshift d l
  | _ => map (fun i => match ext m n (Z.of_nat i + d) with Some j => nth j l zero | None => zero end) (seq 0 n)
  end.
End Shift.

(* shift offsets of a PSF of length L:  out[i] = sum_k w[k] * x_ext[i + L/2 - k]  (both parities; this is
   scipy.ndimage.convolve1d, and also pad(L/2) + 'valid' convolution + dropping the first entry for even L) *)
Definition offsets (L : nat) : list Z := map (fun k => (Z.of_nat (L / 2) - Z.of_nat k)%Z) (seq 0 L).

(* 1-d *)
Definition conv1_terms (m : bc) (w : list (Qc * Z)) (x : list Qc) : list Qc :=
  fold_right (fun cd acc => qvadd (qvscale (fst cd) (shift 0 m (snd cd) x)) acc) (qvzero (length x)) w.
Definition conv1 (m : bc) (P : list Qc) (x : list Qc) : list Qc :=
  conv1_terms m (combine P (offsets (length P))) x.

(* Deconvolution1D's matrix.  Today's code builds  A = array([Afun(e_i) for i])  whose ROWS are the images
   of the unit vectors (transposed assembly); the repaired code has them as columns. *)
Definition deconv1_rows (m : bc) (P : list Qc) (n : nat) : list (list Qc) :=
  map (fun i => conv1 m P (qunit n i)) (seq 0 n).
Definition deconv1_cols (m : bc) (P : list Qc) (n : nat) : list (list Qc) := tr n (deconv1_rows m P n).
Definition deconv1_matrix (transposed_assembly : bool) m P n :=
  if transposed_assembly then deconv1_rows m P n else deconv1_cols m P n.

(* 2-d: images as lists of rows *)
Definition madd (X Y : list (list Qc)) : list (list Qc) :=
  (fix go X Y := match X, Y with a :: X', b :: Y' => qvadd a b :: go X' Y' | _, _ => [] end) X Y.
Definition mscale (c : Qc) (X : list (list Qc)) : list (list Qc) := map (qvscale c) X.
Definition mzero (r c : nat) : list (list Qc) := repeat (qvzero c) r.
Definition shift2 (m : bc) (nc : nat) (d : Z * Z) (X : list (list Qc)) : list (list Qc) :=
  shift (qvzero nc) m (fst d) (map (shift 0 m (snd d)) X).
Definition offsets2 (L : nat) : list (Z * Z) :=
  flat_map (fun a => map (fun b => (a, b)) (offsets L)) (offsets L).
Definition conv2_terms (m : bc) (nr nc : nat) (w : list (Qc * (Z * Z))) (X : list (list Qc)) : list (list Qc) :=
  fold_right (fun cd acc => madd (mscale (fst cd) (shift2 m nc (snd cd) X)) acc) (mzero nr nc) w.
(* _proj_forward_2D(X, P, BC) for a square S x S PSF on an nr x nc image *)
Definition conv2 (m : bc) (S nr nc : nat) (P : list (list Qc)) (X : list (list Qc)) : list (list Qc) :=
  conv2_terms m nr nc (combine (concat P) (offsets2 S)) X.
(* np.flipud(np.fliplr(P)) *)
Definition flip2 (P : list (list Qc)) : list (list Qc) := rev (map (@rev Qc) P).

(* Deconvolution2D's model: function-backed, Image2D (order C) on both sides *)
Definition img_op (nr nc : nat) (f : list (list Qc) -> list (list Qc)) (v : val) : option val :=
  match v with
  | V2 r c l => if ((r =? nr) && (c =? nc))%nat then Some (V2 nr nc (concat (f (chunks nc nr l)))) else None
  | V1 _ => None
  end.
Definition deconv2_model (m : bc) (S n : nat) (P : list (list Qc)) : lmodel :=
  mkLM (img_op n n (conv2 m S n n P)) (img_op n n (conv2 m S n n (flip2 P))) None (GImage n n OC) (GImage n n OC).

(* ------------------------------------------------------------------------------------------ *)
(* repaired variants (fixes/C07_transpose_underlying_callables.diff, C07_proj_backward_even_psf.diff) *)
(* ------------------------------------------------------------------------------------------ *)
(* T built from the UNDERLYING callables (_adjoint_func, _forward_func): conversions applied once *)
Definition lmT2 (ncols : nat) (m : lmodel) : lmodel :=
  mkLM (lm_adj m) (lm_fwd m) (option_map (tr ncols) (lm_mat m)) (lm_R m) (lm_D m).
Definition lmT_gen (underlying : bool) (ncols : nat) (m : lmodel) : lmodel :=
  if underlying then lmT2 ncols m else lmT ncols m.

(* get_matrix after fixes/C07_get_matrix_parameter_map.diff: a GIVEN matrix is returned only where it is the map between
   parameters (as_is: identity geometries, or the matrix was assembled from forward); otherwise the matrix is assembled
   through forward and cached BESIDE the given one (which keeps acting on function values) *)
Definition get_matrix_gen (as_is : bool) (m : lmodel) : option (list (list Qc)) :=
  match lm_mat m with
  | Some A => if as_is then Some A else option_map (tr (par_dim (lm_R m))) (columns m)
  | None => option_map (tr (par_dim (lm_R m))) (columns m)
  end.
Definition after_get_matrix_gen (as_is : bool) (m : lmodel) : lmodel := if as_is then after_get_matrix m else m.

(* pad + 'valid' convolution dropping the LAST entry for an even PSF length:
   out[i] = sum_k w[k] * x_ext[i + (L-1)/2 - k]   (equal to `offsets` for odd L) *)
Definition offsetsT (L : nat) : list Z := map (fun k => (Z.of_nat ((L - 1) / 2) - Z.of_nat k)%Z) (seq 0 L).
Definition conv1T (m : bc) (P : list Qc) (x : list Qc) : list Qc :=
  conv1_terms m (combine P (offsetsT (length P))) x.
Definition offsets2T (L : nat) : list (Z * Z) :=
  flat_map (fun a => map (fun b => (a, b)) (offsetsT L)) (offsetsT L).
Definition conv2T (m : bc) (S nr nc : nat) (P : list (list Qc)) (X : list (list Qc)) : list (list Qc) :=
  conv2_terms m nr nc (combine (concat P) (offsets2T S)) X.
(* Deconvolution2D's model; trim_last = the repaired _proj_backward_2D *)
Definition deconv2_model_gen (trim_last : bool) (m : bc) (S n : nat) (P : list (list Qc)) : lmodel :=
  mkLM (img_op n n (conv2 m S n n P))
       (img_op n n ((if trim_last then conv2T else conv2) m S n n (flip2 P))) None (GImage n n OC) (GImage n n OC).

(* ------------------------------------------------------------------------------------------ *)
(* other representations of the input (Model._2fun / _2par / _apply_func)                      *)
(* ------------------------------------------------------------------------------------------ *)
(* how the caller hands the input over *)
Inductive rep :=
| RArrayPar      (* ndarray, is_par=True (default) *)
| RArrayFun      (* ndarray of function values, is_par=False *)
| RCuqiPar       (* CUQIarray(parameters, geometry = the function's domain geometry) *)
| RCuqiFun       (* CUQIarray(function values, is_par=False, same geometry) *)
| RCuqiOther.    (* CUQIarray carrying another geometry: treated like an ndarray of parameters *)

Definition rep_is_fun (r : rep) : bool := match r with RArrayFun | RCuqiFun => true | _ => false end.
Definition rep_wraps (r : rep) : bool := match r with RCuqiPar | RCuqiFun | RCuqiOther => true | _ => false end.

(* _apply_func on representation r: v is the parameter vector (par-like reps) or the function value (fun-like reps) *)
Definition apply_func_rep (func : val -> option val) (rg dg : geom) (r : rep) (v : val) : option val :=
  obind (if rep_is_fun r then Some v else p2f dg v) (fun fx => obind (func fx) (f2p rg)).
Definition forward_rep (m : lmodel) (r : rep) (v : val) := apply_func_rep (lm_fwd m) (lm_R m) (lm_D m) r v.
Definition adjoint_rep (m : lmodel) (r : rep) (v : val) := apply_func_rep (lm_adj m) (lm_D m) (lm_R m) r v.
(* Samples input: column by column *)
Definition forward_samples (m : lmodel) (r : rep) (cols : list val) : option (list val) := all_some (map (forward_rep m r) cols).
Definition adjoint_samples (m : lmodel) (r : rep) (cols : list val) : option (list val) := all_some (map (adjoint_rep m r) cols).

(* ------------------------------------------------------------------------------------------ *)
(* KLExpansion.par2fun / fun2par written out (scipy.fftpack dst / idst of type 2 enter as their matrices) *)
(* ------------------------------------------------------------------------------------------ *)
Fixpoint zipw {A B C} (f : A -> B -> C) (a : list A) (b : list B) : list C :=
  match a, b with x :: a', y :: b' => f x y :: zipw f a' b' | _, _ => [] end.

(* par2fun p = idst(pad_N(coefs * p / normalizer)) / 2 : the N x m matrix of that map *)
Definition kl_G (m : nat) (coefs : list Qc) (tau : Qc) (idstM : list (list Qc)) : list (list Qc) :=
  map (fun row => zipw (fun s c => s * (c / (qcz 2 * tau))) (firstn m row) coefs) idstM.
(* fun2par f = coefs^-1 * dst(2 f)[:m] * normalizer / (2 N) : the m x N matrix of that map *)
Definition kl_Ginv (N : nat) (coefs : list Qc) (tau : Qc) (dstM : list (list Qc)) : list (list Qc) :=
  zipw (fun c row => qvscale (qcz 2 * tau / (c * (qcz 2 * qcz (Z.of_nat N)))) row) coefs dstM.
Definition kl_geom (N m : nat) (coefs : list Qc) (tau : Qc) (dstM idstM : list (list Qc)) : geom :=
  GLin m N (kl_G m coefs tau idstM) (kl_Ginv N coefs tau dstM).

(* ------------------------------------------------------------------------------------------ *)
(* Model.gradient of a LinearModel: _gradient_func = fun direction wrt => _adjoint_func direction  *)
(* ------------------------------------------------------------------------------------------ *)
(* type(geometry) in _get_identity_geometries(): Continuous1D/2D, Discrete, Image2D, the default geometries *)
Definition id_type (g : geom) : bool := match g with GId _ | GImage _ _ _ => true | _ => false end.

(* gradient(direction, wrt): refused (None) unless the range geometry is of identity type and the domain geometry is of identity
   type or brings its own `gradient` method.  userg = Some c: the domain geometry is a user geometry with gradient(g, wrt) = c.g
   (the transposed Jacobian of a scaling map c.x), whose result already is a parameter vector; wrt does not enter (linear model).
   dir_is_fun: is_direction_par=False *)
Definition gradient (userg : option Qc) (dir_is_fun : bool) (m : lmodel) (d : val) : option val :=
  if negb (id_type (lm_R m)) then None else
  match userg with
  | Some c => obind (if dir_is_fun then Some d else p2f (lm_R m) d)
                (fun fd => obind (lm_adj m fd) (fun g => match g with V1 l => Some (V1 (qvscale c l)) | V2 _ _ _ => None end))
  | None => if id_type (lm_D m)
            then obind (if dir_is_fun then Some d else p2f (lm_R m) d) (fun fd => obind (lm_adj m fd) (f2p (lm_D m)))
            else None
  end.

(* ------------------------------------------------------------------------------------------ *)
(* comparison with what the implementation returned (tol = 0: exact)                          *)
(* ------------------------------------------------------------------------------------------ *)
Definition vec_ok (tol : Q) (obs : option (list Qc)) (mod_ : option val) : bool :=
  match obs, mod_ with
  | None, None => true
  | Some o, Some (V1 l) => qcl_close tol o l
  | _, _ => false
  end.
Definition mat_ok (tol : Q) (obs : option (list (list Qc))) (mod_ : option (list (list Qc))) : bool :=
  match obs, mod_ with
  | None, None => true
  | Some o, Some l => qcll_close tol o l
  | _, _ => false
  end.

Definition check_forward (tol : Q) (m : lmodel) (x : list Qc) (obs : option (list Qc)) : bool :=
  vec_ok tol obs (forward m (V1 x)).
Definition check_adjoint (tol : Q) (m : lmodel) (y : list Qc) (obs : option (list Qc)) : bool :=
  vec_ok tol obs (adjoint m (V1 y)).
Definition check_get_matrix (tol : Q) (m : lmodel) (obs : option (list (list Qc))) : bool :=
  mat_ok tol obs (get_matrix m).
Definition check_matrix (tol : Q) (A : list (list Qc)) (obs : list (list Qc)) : bool :=
  qcll_close tol obs A.

Definition check_forward_rep (tol : Q) (m : lmodel) (r : rep) (v : val) (obs : option (list Qc)) : bool :=
  vec_ok tol obs (forward_rep m r v).
Definition check_adjoint_rep (tol : Q) (m : lmodel) (r : rep) (v : val) (obs : option (list Qc)) : bool :=
  vec_ok tol obs (adjoint_rep m r v).
Definition vals_ok (tol : Q) (obs : option (list (list Qc))) (mod_ : option (list val)) : bool :=
  match obs, mod_ with
  | None, None => true
  | Some o, Some l =>
      (fix go (o : list (list Qc)) (l : list val) : bool :=
         match o, l with
         | [], [] => true
         | a :: o', b :: l' => vec_ok tol (Some a) (Some b) && go o' l'
         | _, _ => false
         end) o l
  | _, _ => false
  end.
Definition check_forward_samples tol m r cols obs := vals_ok tol obs (forward_samples m r cols).
Definition check_adjoint_samples tol m r cols obs := vals_ok tol obs (adjoint_samples m r cols).
Definition check_get_matrix_gen (tol : Q) (as_is : bool) (m : lmodel) (obs : option (list (list Qc))) : bool :=
  mat_ok tol obs (get_matrix_gen as_is m).
Definition check_gradient (tol : Q) (userg : option Qc) (dir_is_fun : bool) (m : lmodel) (d : val) (obs : option (list Qc)) : bool :=
  vec_ok tol obs (gradient userg dir_is_fun m d).
