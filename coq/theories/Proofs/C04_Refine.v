(* C04 -- proofs, part 10 (rationals only): refinement link between the executable list model and the matrix statements of
   mc/C04_Forms.v.  For the list functions the case files run (qdotq, qmv, qtr, qmm, with their Qred normalisations):
       |M d|^2  ==  d^T (M^T M) d        for every well-shaped matrix M (rows of length n) and vector d of length n,
   i.e. the quadratic form the model uses for sqrtprec = M is the quadratic form of the precision M^T M it uses for prec
   (the list-level counterpart of C04_gaussian_sqrtprec_quad). *)
From CV Require Import Base.Tac Base.Cmp Model.C04_Dens.
From Coq Require Import QArith Lqa Setoid Morphisms.
Local Open Scope Q_scope.

(* sums over an index list *)
Fixpoint sumf {A} (f : A -> Q) (l : list A) : Q := match l with [] => 0 | a :: l' => f a + sumf f l' end.

Lemma sumf_ext {A} (f g : A -> Q) l : (forall a, f a == g a) -> sumf f l == sumf g l.
Proof. intros H. induction l as [|a l IH]; cbn; [reflexivity|]. rewrite (H a), IH. reflexivity. Qed.

Lemma sumf_plus {A} (f g : A -> Q) l : sumf (fun a => f a + g a) l == sumf f l + sumf g l.
Proof. induction l as [|a l IH]; cbn; [ring|]. rewrite IH. ring. Qed.

Lemma sumf_scal_l {A} c (f : A -> Q) l : sumf (fun a => c * f a) l == c * sumf f l.
Proof. induction l as [|a l IH]; cbn; [ring|]. rewrite IH. ring. Qed.

Lemma sumf_scal_r {A} c (f : A -> Q) l : sumf (fun a => f a * c) l == sumf f l * c.
Proof. induction l as [|a l IH]; cbn; [ring|]. rewrite IH. ring. Qed.

Lemma sumf_zero {A} (l : list A) : sumf (fun _ => 0) l == 0.
Proof. induction l as [|a l IH]; cbn; [reflexivity|]. rewrite IH. ring. Qed.

(* the model's dot product on mapped lists *)
Lemma qdotq_map {A} (f g : A -> Q) (l : list A) : qdotq (map f l) (map g l) == sumf (fun a => f a * g a) l.
Proof. induction l as [|a l IH]; cbn [map qdotq sumf]; [reflexivity|]. rewrite Qred_correct, IH. reflexivity. Qed.

Lemma map_nth_seq (d : list Q) n : length d = n -> map (fun j => nth j d 0) (seq 0 n) = d.
Proof.
  intros H. subst n. induction d as [|x d IH]; [reflexivity|].
  cbn [length seq map nth]. f_equal. rewrite <- seq_shift, map_map. exact IH.
Qed.

Section Refine.
  Variable n : nat.
  Variable d : list Q.
  Hypothesis Hd : length d = n.
  Let S := seq 0 n.
  Let dn (j : nat) : Q := nth j d 0.
  Let rd (r : list Q) : Q := sumf (fun j => nth j r 0 * dn j) S.

  Lemma qdotq_row r : length r = n -> qdotq r d == rd r.
  Proof.
    intros Hr. unfold rd, S, dn.
    rewrite <- (map_nth_seq r n Hr) at 1. rewrite <- (map_nth_seq d n Hd) at 1. apply qdotq_map.
  Qed.

  Lemma lhs_spec (M : list (list Q)) : Forall (fun r => length r = n) M ->
    qdotq (qmv M d) (qmv M d) == sumf (fun r => rd r * rd r) M.
  Proof.
    intros HM. unfold qmv. rewrite qdotq_map.
    induction HM as [|r M Hr _ IH]; cbn [sumf]; [reflexivity|].
    rewrite IH, (qdotq_row r Hr). reflexivity.
  Qed.

  (* the Gram matrix as the model computes it *)
  Lemma gram_shape (M : list (list Q)) :
    qmm n (qtr n M) M = map (fun i => map (fun j => qdotq (map (fun row => nth i row 0) M) (map (fun row => nth j row 0) M)) S) S.
  Proof. unfold qmm, qtr. rewrite map_map. apply map_ext. intros i. rewrite map_map. reflexivity. Qed.

  Lemma rhs_spec (M : list (list Q)) :
    qdotq d (qmv (qmm n (qtr n M) M) d) ==
    sumf (fun i => dn i * sumf (fun j => sumf (fun r => nth i r 0 * nth j r 0) M * dn j) S) S.
  Proof.
    rewrite gram_shape. unfold qmv. rewrite map_map.
    rewrite <- (map_nth_seq d n Hd) at 1. fold S. fold dn.
    rewrite qdotq_map. apply sumf_ext. intros i.
    apply Qmult_comp; [reflexivity|].
    rewrite <- (map_nth_seq d n Hd) at 1. fold S. rewrite qdotq_map. apply sumf_ext. intros j.
    apply Qmult_comp; [|reflexivity]. apply qdotq_map.
  Qed.

  Lemma spec_equal (M : list (list Q)) :
    sumf (fun r => rd r * rd r) M ==
    sumf (fun i => dn i * sumf (fun j => sumf (fun r => nth i r 0 * nth j r 0) M * dn j) S) S.
  Proof.
    induction M as [|r M IH]; cbn [sumf].
    - symmetry. rewrite (sumf_ext _ (fun _ => 0)); [apply sumf_zero|].
      intros i. rewrite (sumf_ext _ (fun _ => 0)); [rewrite sumf_zero; ring|]. intros j. ring.
    - rewrite IH. clear IH.
      (* split the inner sums *)
      rewrite (sumf_ext (fun i => dn i * sumf (fun j => (nth i r 0 * nth j r 0 + sumf (fun r0 => nth i r0 0 * nth j r0 0) M) * dn j) S)
                        (fun i => dn i * nth i r 0 * rd r + dn i * sumf (fun j => sumf (fun r0 => nth i r0 0 * nth j r0 0) M * dn j) S)).
      + rewrite sumf_plus. apply Qplus_comp; [|reflexivity].
        rewrite sumf_scal_r. apply Qmult_comp; [|reflexivity].
        unfold rd. apply sumf_ext. intros j. ring.
      + intros i.
        rewrite (sumf_ext (fun j => (nth i r 0 * nth j r 0 + sumf (fun r0 => nth i r0 0 * nth j r0 0) M) * dn j)
                          (fun j => nth i r 0 * (nth j r 0 * dn j) + sumf (fun r0 => nth i r0 0 * nth j r0 0) M * dn j)) by (intros j; ring).
        rewrite sumf_plus, sumf_scal_l. unfold rd. ring.
  Qed.

  (* |M d|^2 == d^T (M^T M) d  in the executable model *)
  Theorem qquad_sqrtprec_is_prec (M : list (list Q)) : Forall (fun r => length r = n) M ->
    qdotq (qmv M d) (qmv M d) == qdotq d (qmv (qmm n (qtr n M) M) d).
  Proof. intros HM. rewrite (lhs_spec M HM), rhs_spec. apply spec_equal. Qed.
End Refine.
