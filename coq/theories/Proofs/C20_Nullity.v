(* C20 -- the TRUE null space of the precision of every Gaussian field (no guard by the rank rule
   of the code): explicit bases in one and two dimensions, including the bi-affine images of
   order 2 / neumann. *)
From CV Require Import Base.Tac Base.Cmp Base.LinAlg Base.QcLin Model.C20_Diff Model.C20_Spec
  Proofs.C20_Lin Proofs.C20_Stencil Proofs.C20_Null Proofs.C20_Gmrf Proofs.C20_Gmrf2d.
From Coq Require Import QArith.
Local Open Scope Z_scope.

(* ---------------- one dimension ---------------- *)
Theorem gmrf_nullity_1d dim b order g :
  gmrf_init 1 dim b order = Some g ->
  periodic_too_small (eff_order order) (eff_bc order b) dim = false ->
  null_basis (g_prec g) dim (null_basis_1d order b dim).
Proof.
  intros Hg Hs. pose proof (gmrf_null_1d dim b order g Hg Hs) as HN.
  destruct (gmrf_init_1d_inv dim b order g Hg) as [D [Ho [H1 [HD [HP [_ HR]]]]]].
  assert (Hb : b = Zero \/ b = Periodic \/ b = Neumann) by (destruct HR as [[-> _] | [[-> | ->] _]]; auto).
  assert (Hdim : forall o' b', fd_matrix o' b' dim = Some D ->
            match o', b' with
            | 1%nat, Periodic | 1%nat, Neumann => (1 <= dim)%nat
            | 2%nat, Periodic | 2%nat, Neumann => (2 <= dim)%nat
            | _, _ => True end).
  { intros o' b' H. pose proof (proj1 (fd_matrix_defined o' b' dim) (ex_intro _ D H)) as Hd.
    destruct o' as [|[|[|o']]]; destruct b'; try exact I; exact Hd. }
  specialize (Hdim _ _ HD).
  destruct order as [|[|[|o]]]; [| | |lia]; destruct Hb as [-> | [-> | ->]];
    cbn [null_basis_1d eff_order eff_bc null_cond] in *.
  all: try (apply nb_zero; exact HN).
  all: try (apply nb_const; [lia | exact HN]).
  apply nb_affine; [lia | exact HN].
Qed.

(* ---------------- images given by an entry function ---------------- *)
Definition img (N : nat) (f : nat -> nat -> Z) : list (list Z) :=
  map (fun r => map (fun c => f r c) (seq 0 N)) (seq 0 N).
Definition flat (N : nat) (f : nat -> nat -> Z) : list Z := concat (img N f).

Lemma img_image N f : image N (img N f).
Proof.
  split; [unfold img; rewrite map_length; apply seq_length|].
  apply Forall_forall. intros r Hr. unfold img in Hr. apply in_map_iff in Hr. destruct Hr as [i [<- _]].
  rewrite map_length. apply seq_length.
Qed.

Lemma img_row N f r : (r < N)%nat -> nth r (img N f) [] = map (fun c => f r c) (seq 0 N).
Proof. intros H. unfold img. apply (nth_map_seq (fun r => map (fun c => f r c) (seq 0 N))). exact H. Qed.

Lemma img_col N f c : (c < N)%nat -> col 0 (img N f) c = map (fun r => f r c) (seq 0 N).
Proof.
  intros H. unfold col, img. rewrite map_map. apply map_seq_ext. intros r Hr. apply nth_map_seq. exact H.
Qed.

Lemma nth_concat_const N (L : list (list Z)) : Forall (fun v => length v = N) L ->
  forall r c, (r < length L)%nat -> (c < N)%nat -> nth (r * N + c) (concat L) 0 = nth c (nth r L []) 0.
Proof.
  intros H; induction H as [|v L Hv HL IH]; intros r c Hr Hc; cbn [length] in Hr; [lia|].
  cbn [concat]. destruct r as [|r].
  - cbn [Nat.mul Nat.add nth]. apply app_nth1. lia.
  - cbn [Nat.mul]. rewrite app_nth2 by (rewrite Hv; generalize (r * N)%nat; intros; lia). rewrite Hv.
    replace (N + r * N + c - N)%nat with (r * N + c)%nat by (generalize (r * N)%nat; intros; lia).
    cbn [nth]. apply IH; lia.
Qed.

Lemma nth_flat N f r c : (r < N)%nat -> (c < N)%nat -> nth (r * N + c) (flat N f) 0 = f r c.
Proof.
  intros Hr Hc. unfold flat. destruct (img_image N f) as [HL HW].
  rewrite (nth_concat_const N _ HW) by (try rewrite HL; assumption).
  rewrite img_row by exact Hr. apply nth_map_seq. exact Hc.
Qed.

Lemma flat_length N f : length (flat N f) = (N * N)%nat.
Proof. unfold flat. destruct (img_image N f) as [HL HW]. rewrite (length_concat_const N _ HW), HL. reflexivity. Qed.

Lemma is_affine_map (g : nat -> Z) N a d : (forall k, (k < N)%nat -> g k = a + Z.of_nat k * d) ->
  is_affine (map g (seq 0 N)).
Proof.
  intros H k Hk. rewrite map_length, seq_length in Hk.
  destruct N as [|[|N]]; [lia| |].
  - assert (k = 0)%nat by lia. subst k. cbn. lia.
  - rewrite !nth_map_seq by lia. rewrite (H k), (H 0%nat), (H 1%nat) by lia. change (Z.of_nat 0) with 0. change (Z.of_nat 1) with 1. lia.
Qed.

(* the four bi-affine basis images *)
Definition f_one (r c : nat) : Z := 1.
Definition f_row (r c : nat) : Z := Z.of_nat r.
Definition f_col (r c : nat) : Z := Z.of_nat c.
Definition f_prod (r c : nat) : Z := Z.of_nat r * Z.of_nat c.

Lemma basis2d_as_flat N :
  null_basis_2d 2 Neumann N = [flat N f_one; flat N f_row; flat N f_col; flat N f_prod].
Proof.
  assert (E1 : ones (N * N) = flat N f_one).
  { unfold flat, img, f_one, ones. rewrite <- concat_repeat. f_equal. rewrite repeat_as_map. apply map_ext. intros _. apply repeat_as_map. }
  assert (E2 : concat (map (fun r => repeat (Z.of_nat r) N) (seq 0 N)) = flat N f_row).
  { unfold flat, img, f_row. f_equal. apply map_ext. intros r. apply repeat_as_map. }
  assert (E3 : concat (map (fun _ : nat => ramp N) (seq 0 N)) = flat N f_col).
  { unfold flat, img, f_col, ramp. reflexivity. }
  assert (E4 : concat (map (fun r => map (fun c => Z.of_nat r * c) (ramp N)) (seq 0 N)) = flat N f_prod).
  { unfold flat, img, f_prod, ramp. f_equal. apply map_ext. intros r. rewrite map_map. reflexivity. }
  cbn [null_basis_2d]. rewrite E1, E2, E3, E4. reflexivity.
Qed.

Lemma nth_lincomb4 N a b c d k (v1 v2 v3 v4 : list Z) :
  length v1 = N -> length v2 = N -> length v3 = N -> length v4 = N ->
  nth k (zlincomb N [a; b; c; d] [v1; v2; v3; v4]) 0 =
  a * nth k v1 0 + (b * nth k v2 0 + (c * nth k v3 0 + d * nth k v4 0)).
Proof.
  intros H1 H2 H3 H4. cbn [zlincomb].
  rewrite zvadd_zeros_r by (rewrite zvscale_length; exact H4).
  assert (L3 : length (zvadd (zvscale c v3) (zvscale d v4)) = N) by (rewrite zvadd_length; rewrite !zvscale_length; congruence).
  assert (L2 : length (zvadd (zvscale b v2) (zvadd (zvscale c v3) (zvscale d v4))) = N) by (rewrite zvadd_length; rewrite !zvscale_length; congruence).
  rewrite nth_zvadd by (rewrite zvscale_length; congruence).
  rewrite (nth_zvadd (zvscale b v2)) by (rewrite zvscale_length; congruence).
  rewrite (nth_zvadd (zvscale c v3)) by (rewrite !zvscale_length; congruence).
  rewrite !nth_zvscale. reflexivity.
Qed.

Lemma lincomb4_length N a b c d (v1 v2 v3 v4 : list Z) :
  length v1 = N -> length v2 = N -> length v3 = N -> length v4 = N ->
  length (zlincomb N [a; b; c; d] [v1; v2; v3; v4]) = N.
Proof.
  intros H1 H2 H3 H4. cbn [zlincomb].
  rewrite zvadd_zeros_r by (rewrite zvscale_length; exact H4).
  assert (L3 : length (zvadd (zvscale c v3) (zvscale d v4)) = N) by (rewrite zvadd_length; rewrite !zvscale_length; congruence).
  assert (L2 : length (zvadd (zvscale b v2) (zvadd (zvscale c v3) (zvscale d v4))) = N) by (rewrite zvadd_length; rewrite !zvscale_length; congruence).
  rewrite zvadd_length; rewrite zvscale_length; congruence.
Qed.

(* rows and columns affine  <->  integer combination of 1, r, c, r*c *)
Theorem nb_biaffine M N : (2 <= N)%nat ->
  (forall X, image N X ->
     (zmatvec M (concat X) = zeros (length M) <->
      Forall is_affine X /\ (forall c, (c < N)%nat -> is_affine (col 0 X c)))) ->
  null_basis M (N * N) [flat N f_one; flat N f_row; flat N f_col; flat N f_prod].
Proof.
  intros HN H. repeat split.
  - (* members *)
    assert (Hmem : forall f, (forall r, exists a d, forall c, f r c = a + Z.of_nat c * d) ->
                             (forall c, exists a d, forall r, f r c = a + Z.of_nat r * d) ->
                             length (flat N f) = (N * N)%nat /\ zmatvec M (flat N f) = zeros (length M)).
    { intros f Hr Hc. split; [apply flat_length|]. apply (H _ (img_image N f)). split.
      - apply Forall_forall. intros v Hv. unfold img in Hv. apply in_map_iff in Hv. destruct Hv as [r [<- _]].
        destruct (Hr r) as [a [d Hf]]. apply (is_affine_map _ N a d). intros k _. apply Hf.
      - intros c Hc'. rewrite img_col by exact Hc'. destruct (Hc c) as [a [d Hf]].
        apply (is_affine_map _ N a d). intros k _. apply Hf. }
    apply Forall_cons; [|apply Forall_cons; [|apply Forall_cons; [|apply Forall_cons; [|apply Forall_nil]]]];
      apply Hmem; intros k; unfold f_one, f_row, f_col, f_prod.
    + exists 1, 0. intros; lia.
    + exists 1, 0. intros; lia.
    + exists (Z.of_nat k), 0. intros; lia.
    + exists 0, 1. intros; lia.
    + exists 0, 1. intros; lia.
    + exists (Z.of_nat k), 0. intros; lia.
    + exists 0, (Z.of_nat k). intros; lia.
    + exists 0, (Z.of_nat k). intros; lia.
  - (* spanning *)
    intros x Hx H0. destruct (reshape N x Hx) as [X [HX ->]].
    destruct (proj1 (H X HX) H0) as [Hrow Hcol]. destruct HX as [HL HW].
    set (e := fun r c => nth c (nth r X []) 0).
    assert (Erow : forall r c, (r < N)%nat -> (c < N)%nat -> e r c = e r 0%nat + Z.of_nat c * (e r 1%nat - e r 0%nat)).
    { intros r c Hr Hc. rewrite Forall_forall in Hrow.
      assert (Hin : In (nth r X []) X) by (apply nth_In; rewrite HL; exact Hr).
      pose proof (Hrow _ Hin c) as A. unfold wf_mat in HW. rewrite Forall_forall in HW. rewrite (HW _ Hin) in A.
      apply A. exact Hc. }
    assert (Ecol : forall r c, (r < N)%nat -> (c < N)%nat -> e r c = e 0%nat c + Z.of_nat r * (e 1%nat c - e 0%nat c)).
    { intros r c Hr Hc. pose proof (Hcol c Hc r) as A. rewrite col_len, HL in A. specialize (A Hr).
      assert (G : forall k, (k < N)%nat -> nth k (col 0 X c) 0 = e k c).
      { intros k Hk. unfold col. rewrite (nth_indep _ 0 ((fun row : list Z => nth c row 0) [])) by (rewrite map_length, HL; exact Hk).
        rewrite (map_nth (fun row : list Z => nth c row 0)). reflexivity. }
      rewrite !G in A by lia. exact A. }
    pose (e00 := e 0%nat 0%nat). pose (e10 := e 1%nat 0%nat). pose (e01 := e 0%nat 1%nat). pose (e11 := e 1%nat 1%nat).
    exists [e00; e10 - e00; e01 - e00; e11 - e10 - e01 + e00]. split; [reflexivity|].
    apply (nth_ext _ _ 0 0).
    + rewrite lincomb4_length by apply flat_length. rewrite (length_concat_const N X HW), HL. reflexivity.
    + intros k Hk. rewrite (length_concat_const N X HW), HL in Hk.
      assert (Hr : (k / N < N)%nat) by (apply Nat.div_lt_upper_bound; lia).
      assert (Hc : (k mod N < N)%nat) by (apply Nat.mod_upper_bound; lia).
      rewrite (Nat.div_mod k N) at 1 2 by lia. rewrite (Nat.mul_comm N (k / N)).
      rewrite nth_lincomb4 by apply flat_length.
      rewrite !nth_flat by assumption. rewrite (nth_concat_const N X HW) by (try rewrite HL; assumption).
      fold (e (k / N)%nat (k mod N)%nat). unfold f_one, f_row, f_col, f_prod.
      rewrite (Erow _ _ Hr Hc). rewrite (Ecol (k / N)%nat 0%nat), (Ecol (k / N)%nat 1%nat) by lia. unfold e00, e10, e01, e11. nia.
  - (* independence *)
    intros cs Hc H0. destruct cs as [|a [|b [|c [|d [|e cs]]]]]; try discriminate.
    assert (E : forall r c', (r < N)%nat -> (c' < N)%nat ->
                  a * f_one r c' + (b * f_row r c' + (c * f_col r c' + d * f_prod r c')) = 0).
    { intros r c' Hr Hc'. pose proof (f_equal (fun v => nth (r * N + c') v 0) H0) as E. cbn beta in E.
      rewrite nth_lincomb4, nth_zeros in E by apply flat_length. rewrite !nth_flat in E by assumption. exact E. }
    pose proof (E 0 0 ltac:(lia) ltac:(lia))%nat as E00. pose proof (E 0 1 ltac:(lia) ltac:(lia))%nat as E01.
    pose proof (E 1 0 ltac:(lia) ltac:(lia))%nat as E10. pose proof (E 1 1 ltac:(lia) ltac:(lia))%nat as E11.
    unfold f_one, f_row, f_col, f_prod in *. cbn in E00, E01, E10, E11.
    unfold zeros. cbn [length repeat]. repeat (f_equal; try lia).
Qed.

(* ---------------- two dimensions, every field ---------------- *)
Theorem gmrf_nullity_2d N b order g :
  gmrf_init 2 (N * N) b order = Some g ->
  periodic_too_small (eff_order order) (eff_bc order b) N = false ->
  null_basis (g_prec g) (N * N) (null_basis_2d order b N).
Proof.
  intros Hg Hs. destruct (gmrf_init_2d_inv N b order g Hg) as [D [Ho [H1 [HD [HP [_ HR]]]]]].
  pose proof (fd_matrix_wf _ _ _ _ HD) as Hwf.
  assert (Hb : b = Zero \/ b = Periodic \/ b = Neumann) by (destruct HR as [[-> _] | [[-> | ->] _]]; auto).
  assert (R : forall r, length r = N ->
            (zmatvec D r = zeros (length D) <-> null_cond (eff_order order) (eff_bc order b) r)).
  { intros r Hr. apply (fd_null_1d _ _ _ r D HD Hs Hr). }
  assert (HG : forall x, length x = (N * N)%nat ->
            (zmatvec (g_prec g) x = zeros (length (g_prec g)) <->
             zmatvec (stack2d N D) x = zeros (length (stack2d N D)))).
  { intros x Hx. rewrite HP. apply gram_null_iff; [apply stack2d_wf; exact Hwf | exact Hx]. }
  assert (Hdim : match eff_order order, eff_bc order b with
            | 1%nat, Periodic | 1%nat, Neumann => (1 <= N)%nat
            | 2%nat, Periodic | 2%nat, Neumann => (2 <= N)%nat
            | _, _ => True end).
  { pose proof (proj1 (fd_matrix_defined _ _ N) (ex_intro _ D HD)) as Hd.
    destruct (eff_order order) as [|[|[|o']]]; destruct (eff_bc order b); try exact I; exact Hd. }
  destruct order as [|[|[|o]]]; [| | |lia]; destruct Hb as [-> | [-> | ->]];
    cbn [eff_order eff_bc null_cond] in *; try rewrite basis2d_as_flat; cbn [null_basis_2d].
  all: try (apply nb_zero; intros x Hx; rewrite (HG x Hx); apply stack2d_null_zero; assumption).
  all: try (apply nb_const; [nia|]; intros x Hx; rewrite (HG x Hx); apply stack2d_null_const; try assumption; lia).
  apply nb_biaffine; [exact Hdim|]. intros X HX.
  assert (Lx : length (concat X) = (N * N)%nat) by (destruct HX as [HL HW]; rewrite (length_concat_const N X HW), HL; reflexivity).
  rewrite (HG _ Lx). apply (gmrf_null_2d N Neumann 2 g X Hg Hs HX) || idtac.
  rewrite (stack2d_null N D X Hwf HX). split; intros [Ha Hb']; split.
  - apply Forall_forall. intros r Hr. rewrite Forall_forall in Ha. apply R; [eapply image_rows; eassumption | apply Ha; exact Hr].
  - intros c Hc. apply R; [rewrite col_len; apply HX | apply Hb'; exact Hc].
  - apply Forall_forall. intros r Hr. rewrite Forall_forall in Ha. apply R; [eapply image_rows; eassumption | apply Ha; exact Hr].
  - intros c Hc. apply R; [rewrite col_len; apply HX | apply Hb'; exact Hc].
Qed.

(* shape of the precision *)
Lemma gram_wf_z n D : wf_mat n D -> wf_mat n (gram n D).
Proof. apply (gram_wf Z 0 1 Z.add Z.mul Z.sub Z.opp Zth). Qed.

Lemma gmrf_prec_shape_1d dim b order g : gmrf_init 1 dim b order = Some g ->
  length (g_prec g) = dim /\ wf_mat dim (g_prec g).
Proof.
  intros Hg. destruct (gmrf_init_1d_inv dim b order g Hg) as [D [_ [_ [HD [HP _]]]]]. rewrite HP.
  split; [apply gram_len | apply gram_wf_z; eapply fd_matrix_wf; exact HD].
Qed.

Lemma gmrf_prec_shape_2d N b order g : gmrf_init 2 (N * N) b order = Some g ->
  length (g_prec g) = (N * N)%nat /\ wf_mat (N * N) (g_prec g).
Proof.
  intros Hg. destruct (gmrf_init_2d_inv N b order g Hg) as [D [_ [_ [HD [HP _]]]]]. rewrite HP.
  split; [apply gram_len | apply gram_wf_z; apply stack2d_wf; eapply fd_matrix_wf; exact HD].
Qed.

(* nullity as a number *)
Definition nullity_1d (order : nat) (b : bc) : nat :=
  match order, b with
  | 1%nat, Periodic | 1%nat, Neumann | 2%nat, Periodic => 1
  | 2%nat, Neumann => 2
  | _, _ => 0
  end.

Lemma null_basis_1d_length order b n : length (null_basis_1d order b n) = nullity_1d order b.
Proof. destruct order as [|[|[|o]]]; destruct b; reflexivity. Qed.

Lemma null_basis_2d_length order b N :
  length (null_basis_2d order b N) = (nullity_1d order b * nullity_1d order b)%nat.
Proof. destruct order as [|[|[|o]]]; destruct b; reflexivity. Qed.
