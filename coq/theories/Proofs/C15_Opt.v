(* C15 -- round 5 proofs: the dispatch table of the optimiser route, what the entry point makes of SciPy's answer,
   the stopping test => distance bound on the list model over Qc (every size; curvature from the checked certificate),
   and sample_posterior's selection of the direct route. *)
From CV Require Import Base.Tac Base.LinAlg Base.Cmp Base.QcLin Model.C15_MAP Model.C15_Opt Proofs.C15_Lin Proofs.C15_MAP Proofs.C15_Top.
From Coq Require Import QArith Qabs Qcanon Lqa Psatz.
Local Open Scope Qc_scope.

(* ---------------------------------------------------------------------------------------------
   1. dispatch
   --------------------------------------------------------------------------------------------- *)
Definition start_point (P : pinfo) (x0 : option qv) : qv := match x0 with Some v => v | None => repeat 1 (p_n P) end.

Lemma first_call_table P g x0 :
  (p_prior P = DCMRF /\ p_has_grad P = true -> first_call P g x0 = CLbfgsb g (negb g) (start_point P x0)) /\
  (~ (p_prior P = DCMRF /\ p_has_grad P = true) -> first_call P g x0 = CMinimize MNone g (start_point P x0)).
Proof.
  pose proof (solver_choice P g x0) as S. unfold first_call, start_point.
  unfold solve_max_point_setup in *. cbn [fst snd] in S.
  destruct (check_posterior P (Some [DCMRF]) None None None true); split; intros H.
  - reflexivity.
  - exfalso. apply H. apply S. reflexivity.
  - apply S in H. discriminate.
  - reflexivity.
Qed.

Lemma run_unpolished P g x0 a rest :
  solve_max_point_run false P g x0 (a :: rest) = Some ([first_call P g x0], fst a, answer_success a).
Proof. reflexivity. Qed.

Lemma run_polish_only_fd_failure P g x0 a rest :
  (g = true \/ answer_success a = true) ->
  solve_max_point_run true P g x0 (a :: rest) = Some ([first_call P g x0], fst a, answer_success a).
Proof. intros [-> | E]; cbn [solve_max_point_run andb negb]; [reflexivity | rewrite E, andb_false_r; reflexivity]. Qed.

(* the entry point never raises and never alters the point: whatever it returns is a point SciPy returned, with SciPy's flag *)
Lemma opt_entry_is_solver_point polish P g x0 answers o ok :
  opt_entry polish P g x0 answers = Some (o, ok) ->
  exists a, In a answers /\ o = Val (fst a) /\ ok = answer_success a.
Proof.
  unfold opt_entry, solve_max_point_run. destruct answers as [|a1 rest]; [discriminate|].
  destruct (polish && negb g && negb (answer_success a1)).
  - destruct rest as [|a2 [|a3 rest]]; try discriminate. intros H. injection H as <- <-.
    exists a3. split; [right; right; left; reflexivity | split; reflexivity].
  - intros H. injection H as <- <-. exists a1. split; [left; reflexivity | split; reflexivity].
Qed.

Lemma unconverged_point_returned :
  exists P g x0 a, answer_success a = false /\ opt_entry false P g x0 [a] = Some (Val (fst a), false).
Proof.
  exists (mk_pinfo 4 0 true 3 2 false), false, None, (qvec [0; - (1 # 64)]%Q, 2%nat). split; reflexivity.
Qed.

(* a raising gradient probe is a refusal: no SciPy call, no point *)
Lemma probe_raises_is_refusal polish P x0 answers : opt_entry_x polish P GRaises x0 answers = Some ([], ERaised).
Proof. reflexivity. Qed.

Lemma opt_entry_x_value polish P probe x0 answers cs x ok :
  opt_entry_x polish P probe x0 answers = Some (cs, ERet x ok) ->
  probe <> GRaises /\ solve_max_point_run polish P (probe_has_grad probe) x0 answers = Some (cs, x, ok) /\
  opt_entry polish P (probe_has_grad probe) x0 answers = Some (Val x, ok).
Proof.
  unfold opt_entry_x, opt_entry. destruct probe; try discriminate;
    (destruct (solve_max_point_run polish P _ x0 answers) as [[[c y] k]|]; [|discriminate]);
    intros H; injection H as <- <- <-; repeat split; discriminate.
Qed.

Lemma entry_calls_direct is_ml polish P d g x0 answers cs :
  entry_calls is_ml polish P d g x0 answers = Some (RDirect, cs) -> is_ml = false /\ map_route P d = RDirect /\ cs = [].
Proof.
  unfold entry_calls. destruct is_ml.
  - unfold ml_route. destruct (solve_max_point_run polish P g x0 answers) as [[[c x] k]|]; discriminate.
  - destruct (map_route P d) eqn:E.
    + intros H. injection H as <-. repeat split.
    + destruct (solve_max_point_run polish P g x0 answers) as [[[c x] k]|]; discriminate.
Qed.

(* ---------------------------------------------------------------------------------------------
   2. stopping test => distance, on lists over Qc
   --------------------------------------------------------------------------------------------- *)
Lemma q_normsq_nonneg v : 0 <= qdot v v.
Proof.
  induction v as [|a v IH]; [apply Qcle_refl|]. cbn [qdot dot]. change (dot 0 Qcplus Qcmult v v) with (qdot v v).
  replace 0 with (0 + 0) by ring. apply Qcplus_le_compat; [apply qc_sq_nonneg | exact IH].
Qed.

(* (a - c) - (d - e) = (a + e) - (c + d) *)
Lemma q_vec_four a c d e : length a = length c -> length c = length d -> length d = length e ->
  qvsub (qvsub a c) (qvsub d e) = qvsub (qvadd a e) (qvadd c d).
Proof.
  revert c d e; induction a as [|a0 a IH]; intros [|c0 c] [|d0 d] [|e0 e] H1 H2 H3; vsimp; try discriminate; [reflexivity|].
  f_equal; [ring | apply IH; lia].
Qed.

Lemma q_scalar_mat_wf n c : wf_mat n (qscalar_mat n c) /\ length (qscalar_mat n c) = n.
Proof.
  split.
  - unfold qscalar_mat, wf_mat. apply Forall_forall. intros r Hr. apply in_map_iff in Hr. destruct Hr as [i [<- Hi]].
    rewrite q_vscale_length. apply in_seq in Hi. clear Hi. revert i. induction n as [|n IH]; intros i; [reflexivity|].
    destruct i; cbn [qunit unit_vec length]; [rewrite q_vzero_length; reflexivity | f_equal; apply IH].
  - unfold qscalar_mat. rewrite map_length, seq_length. reflexivity.
Qed.

Lemma q_matvec_scalar_mat n c v : length v = n -> qmatvec (qscalar_mat n c) v = qvscale c v.
Proof.
  intros H. unfold qscalar_mat. change (qmatvec (map ?f ?s) v) with (map (fun row => qdot row v) (map f s)).
  rewrite map_map. transitivity (map (fun i => c * nth i v 0) (seq 0 n)).
  - apply map_ext_in. intros i Hi. apply in_seq in Hi.
    unfold qdot, qvscale. rewrite (dot_vscale_l Qc 0 1 Qcplus Qcmult Qcminus Qcopp Qcrt). f_equal.
    apply (dot_unit_vec Qc 0 1 Qcplus Qcmult Qcminus Qcopp Qcrt); lia.
  - symmetry. unfold qvscale, vscale. rewrite (list_as_nth_map v) at 1. rewrite map_map, H. reflexivity.
Qed.

Lemma qc_le_of_sub_nonneg a b : 0 <= b - a -> a <= b.
Proof. intros H. apply Qcle_minus_iff. replace (b + - a) with (b - a) by ring. exact H. Qed.

(* core: H e = g, H - mu I positive semi-definite (certificate), mu >= 0  =>  mu^2 |e|^2 <= |g|^2 *)
Lemma quad_stop_core n H mu e :
  wf_mat n H -> length H = n -> length e = n -> 0 <= mu ->
  psd_cert n (shift_mat n H mu) = true ->
  mu * mu * qdot e e <= qdot (qmatvec H e) (qmatvec H e).
Proof.
  intros WH LH Le Hmu Hc.
  pose proof (psd_cert_sound n _ Hc e Le) as P1.
  destruct (q_scalar_mat_wf n (- mu)) as [WS LS].
  unfold shift_mat in P1.
  rewrite (q_matvec_qmadd n H (qscalar_mat n (- mu)) e WH WS) in P1 by (transitivity n; [exact LH | symmetry; exact LS]).
  rewrite (q_matvec_scalar_mat n (- mu) e Le) in P1.
  assert (LHe : length (qmatvec H e) = n) by (rewrite q_matvec_length; exact LH).
  rewrite q_dot_vadd_r in P1 by (rewrite q_vscale_length; lia).
  unfold qdot, qvscale in P1. rewrite (dot_vscale_r Qc 0 1 Qcplus Qcmult Qcminus Qcopp Qcrt) in P1.
  fold qdot in P1. fold qvscale in P1.
  set (g := qmatvec H e) in *.
  pose proof (q_normsq_nonneg (qvsub g (qvscale mu e))) as P2.
  rewrite q_dot_vsub_l in P2 by (rewrite q_vscale_length; lia).
  rewrite !q_dot_vsub_r in P2 by (rewrite q_vscale_length; lia).
  unfold qdot, qvscale in P2.
  rewrite !(dot_vscale_l Qc 0 1 Qcplus Qcmult Qcminus Qcopp Qcrt) in P2.
  rewrite !(dot_vscale_r Qc 0 1 Qcplus Qcmult Qcminus Qcopp Qcrt) in P2.
  fold qdot in P2, P1. rewrite (q_dot_comm g e) in P2.
  set (G := qdot g g) in *. set (I := qdot e g) in *. set (E := qdot e e) in *.
  apply qc_le_of_sub_nonneg.
  replace (G - mu * mu * E) with ((G - mu * I - (mu * I - mu * (mu * E))) + (1 + 1) * mu * (I + - mu * E)) by ring.
  replace 0 with (0 + 0) by ring. apply Qcplus_le_compat; [exact P2|].
  apply qc_mul_nonneg; [|exact P1].
  apply qc_mul_nonneg; [|exact Hmu]. unfold Qcle. cbn. discriminate.
Qed.

(* the log-posterior gradient as the residual of the normal equations *)
Lemma post_grad_residual m n A Pe Px b x0 x :
  wf_mat n A -> length A = m -> wf_mat m Pe -> length Pe = m -> q_sym m Pe -> wf_mat n Px -> length Px = n ->
  length b = m -> length x0 = n -> length x = n ->
  post_grad n A Pe Px b x0 x = qvsub (post_rhs n A Pe Px b x0) (qmatvec (post_prec n A Pe Px) x).
Proof.
  intros HA HAm WPe SPe HS WPx SPx Hb H0 Hx.
  rewrite (post_prec_acts m n A Pe Px x HA HAm WPe SPe HS WPx SPx Hx).
  unfold post_grad, post_rhs.
  assert (L1 : length (qmatvec A x) = m) by (rewrite q_matvec_length; exact HAm).
  rewrite (q_matvec_vsub Pe b (qmatvec A x) m WPe Hb L1).
  rewrite (q_mattvec_vsub n A _ _ HA) by (rewrite !q_matvec_length; reflexivity).
  rewrite (q_matvec_vsub Px x x0 n WPx Hx H0).
  assert (La : forall u, length (qmattvec n A u) = n) by (intros u; apply q_mattvec_length; exact HA).
  assert (Lp : forall u, length (qmatvec Px u) = n) by (intros u; rewrite q_matvec_length; exact SPx).
  apply q_vec_four; rewrite ?La, ?Lp; reflexivity.
Qed.

Lemma post_prec_wf n A Pe Px : wf_mat n A -> wf_mat n Px -> length Px = n ->
  wf_mat n (post_prec n A Pe Px) /\ length (post_prec n A Pe Px) = n.
Proof. intros HA HPx LPx. apply (post_prec_shape n A Pe Px HA HPx LPx). Qed.

Lemma maxnorm_le_spec g tol : maxnorm_le g tol = true -> forall gi, In gi g -> (Qabs (this gi) <= tol)%Q.
Proof. unfold maxnorm_le. intros H gi Hi. rewrite forallb_forall in H. apply Qle_bool_iff. exact (H gi Hi). Qed.

(* what the check establishes on the instance that runs *)
Theorem opt_stop_sound m n A b x0 ce cx mu gtol x :
  opt_stop_ok m n A b x0 ce cx mu gtol x = true ->
  exists Pe Px,
    qinv (dense_of true m ce) = Some Pe /\
    match cx with Some c => qinv (dense_of true n c) = Some Px | None => Px = qzero_mat n end /\
    (forall gi, In gi (post_grad n A Pe Px b x0 x) -> (Qabs (this gi) <= gtol)%Q) /\
    forall xs, length xs = n ->
      qmatvec (post_prec n A Pe Px) xs = post_rhs n A Pe Px b x0 ->
      mu * mu * qdot (qvsub xs x) (qvsub xs x) <= qdot (post_grad n A Pe Px b x0 x) (post_grad n A Pe Px b x0 x).
Proof.
  unfold opt_stop_ok. intros H.
  apply andb_true_iff in H as [H HM]. apply andb_true_iff in H as [H Hmu]. apply andb_true_iff in H as [H Lx].
  apply andb_true_iff in H as [H L0]. apply andb_true_iff in H as [H Lb]. apply andb_true_iff in H as [SA SCe].
  destruct (qinv (dense_of true m ce)) as [Pe|] eqn:IPe; [|discriminate].
  set (PX := match cx with Some c => if shape_ok n n (dense_of true n c) then qinv (dense_of true n c) else None
                         | None => Some (qzero_mat n) end) in *.
  destruct PX as [Px|] eqn:IPx; [|discriminate].
  apply andb_true_iff in HM as [HM HG]. apply andb_true_iff in HM as [KS KC].
  destruct (shape_ok_spec _ _ _ SA) as [WA LA]. destruct (shape_ok_spec _ _ _ SCe) as [WCe LCe].
  apply Nat.eqb_eq in Lb, L0, Lx.
  destruct (qinv_shape _ _ IPe) as [WPe SPe]. rewrite LCe in WPe, SPe.
  assert (HS : q_sym m Pe) by (apply q_sym_of_transpose; [exact WPe | apply qcll_eqb_eq; exact KS]).
  assert (WPx : wf_mat n Px /\ length Px = n /\ match cx with Some c => qinv (dense_of true n c) = Some Px | None => Px = qzero_mat n end).
  { subst PX. destruct cx as [c|].
    - destruct (shape_ok n n (dense_of true n c)) eqn:SC; [|discriminate].
      destruct (shape_ok_spec _ _ _ SC) as [_ LC]. destruct (qinv_shape _ _ IPx) as [W S]. rewrite LC in W, S. repeat split; assumption.
    - injection IPx as <-. destruct (q_scalar_mat_wf n 0) as [W S]. repeat split; assumption. }
  destruct WPx as (WPx & SPx & EPx).
  exists Pe, Px. split; [reflexivity|]. split; [exact EPx|]. split; [apply maxnorm_le_spec; exact HG|].
  intros xs Lxs Exs.
  destruct (post_prec_wf n A Pe Px WA WPx SPx) as [WH LH].
  rewrite (post_grad_residual m n A Pe Px b x0 x WA LA WPe SPe HS WPx SPx Lb L0 Lx).
  rewrite <- Exs. rewrite <- (q_matvec_vsub (post_prec n A Pe Px) xs x n WH Lxs Lx).
  apply (quad_stop_core n); try assumption.
  - rewrite q_vsub_length; congruence.
  - apply negb_true_iff in Hmu. unfold Qcle. cbn [this Q2Qc].
    destruct (Qlt_le_dec 0 (this mu)) as [L|L]; [apply Qlt_le_weak; exact L|].
    apply Qle_bool_iff in L. rewrite L in Hmu. discriminate.
Qed.

(* with the specification's posterior mean as xs *)
Theorem opt_stop_distance_to_posterior_mean m n A b x0 ce cx mu gtol x xs :
  opt_stop_ok m n A b x0 ce (Some cx) mu gtol x = true ->
  post_mean_exact m n A b x0 ce cx = Some xs -> length xs = n ->
  exists Pe Px, qinv (dense_of true m ce) = Some Pe /\ qinv (dense_of true n cx) = Some Px /\
    (forall gi, In gi (post_grad n A Pe Px b x0 x) -> (Qabs (this gi) <= gtol)%Q) /\
    mu * mu * qdot (qvsub xs x) (qvsub xs x) <= qdot (post_grad n A Pe Px b x0 x) (post_grad n A Pe Px b x0 x).
Proof.
  intros H HM Lxs. destruct (opt_stop_sound _ _ _ _ _ _ _ _ _ _ H) as (Pe & Px & IPe & IPx & HG & HD).
  destruct (post_mean_exact_spec m n A b x0 ce cx xs HM) as (Pe' & Px' & I1 & I2 & E).
  rewrite IPe in I1. injection I1 as <-. rewrite IPx in I2. injection I2 as <-.
  exists Pe, Px. repeat split; try assumption. apply HD; assumption.
Qed.

(* ML: no prior term.  With Px = 0 the normal equations are those of weighted least squares, so ml_exact is an xs *)
Lemma q_vscale_zero v : qvscale 0 v = qvzero (length v).
Proof. induction v as [|a v IH]; [reflexivity|]. cbn [qvscale vscale map length qvzero vzero repeat]. f_equal; [ring | exact IH]. Qed.

Lemma q_vadd_vzero_r x n : length x = n -> qvadd x (qvzero n) = x.
Proof. apply (vadd_vzero_r Qc 0 1 Qcplus Qcmult Qcminus Qcopp Qcrt). Qed.

Lemma post_prec_zero_acts n A Pe v : wf_mat n A -> length v = n ->
  qmatvec (post_prec n A Pe (qzero_mat n)) v = qmatvec (atpa n A Pe) v.
Proof.
  intros WA Lv. destruct (atpa_wf n A Pe WA) as [W1 W2]. destruct (q_scalar_mat_wf n 0) as [WS LS].
  unfold post_prec, qzero_mat.
  rewrite (q_matvec_qmadd n (atpa n A Pe) (qscalar_mat n 0) v W1 WS) by (transitivity n; [exact W2 | symmetry; exact LS]).
  rewrite (q_matvec_scalar_mat n 0 v Lv), q_vscale_zero, Lv.
  apply q_vadd_vzero_r. rewrite q_matvec_length. exact W2.
Qed.

Theorem opt_stop_distance_to_ml m n A b x0 ce mu gtol x xs :
  opt_stop_ok m n A b x0 ce None mu gtol x = true ->
  ml_exact m n A b ce = Some xs -> length xs = n ->
  exists Pe, qinv (dense_of true m ce) = Some Pe /\
    (forall gi, In gi (post_grad n A Pe (qzero_mat n) b x0 x) -> (Qabs (this gi) <= gtol)%Q) /\
    mu * mu * qdot (qvsub xs x) (qvsub xs x) <=
      qdot (post_grad n A Pe (qzero_mat n) b x0 x) (post_grad n A Pe (qzero_mat n) b x0 x).
Proof.
  intros H HM Lxs. pose proof H as H'. destruct (opt_stop_sound _ _ _ _ _ _ _ _ _ _ H) as (Pe & Px & IPe & -> & HG & HD).
  exists Pe. split; [exact IPe|]. split; [exact HG|]. apply HD; [exact Lxs|].
  unfold opt_stop_ok in H'. apply andb_true_iff in H' as [H' _]. apply andb_true_iff in H' as [H' _]. apply andb_true_iff in H' as [H' _].
  apply andb_true_iff in H' as [H' L0]. apply andb_true_iff in H' as [H' _]. apply andb_true_iff in H' as [SA _].
  destruct (shape_ok_spec _ _ _ SA) as [WA LA]. apply Nat.eqb_eq in L0.
  unfold ml_exact in HM. rewrite IPe in HM. apply qsolve_sound in HM as [HM _].
  rewrite (post_prec_zero_acts n A Pe xs WA Lxs). rewrite HM.
  unfold post_rhs, qzero_mat. rewrite (q_matvec_scalar_mat n 0 x0 L0), q_vscale_zero, L0.
  symmetry. apply q_vadd_vzero_r. apply q_mattvec_length. exact WA.
Qed.

(* ---- the evaluated distance bound is a theorem ---- *)
Lemma this_plus (a b : Qc) : (this (a + b) == this a + this b)%Q.
Proof. unfold Qcplus, Q2Qc. cbn [this]. apply Qred_correct. Qed.
Lemma this_mult (a b : Qc) : (this (a * b) == this a * this b)%Q.
Proof. unfold Qcmult, Q2Qc. cbn [this]. apply Qred_correct. Qed.

Lemma q_sq_le_of_abs (a tol : Q) : (Qabs a <= tol)%Q -> (a * a <= tol * tol)%Q.
Proof.
  intros H. assert (T : (0 <= tol)%Q) by (eapply Qle_trans; [apply Qabs_nonneg | exact H]).
  apply Qabs_Qle_condition in H. destruct H as [H1 H2]. nra.
Qed.

Lemma maxnorm_sq g tol : maxnorm_le g tol = true ->
  (this (qdot g g) <= inject_Z (Z.of_nat (length g)) * tol * tol)%Q.
Proof.
  induction g as [|a g IH]; intros H.
  - cbn [qdot dot length Z.of_nat]. change (this 0) with 0%Q. change (inject_Z 0) with 0%Q. lra.
  - unfold maxnorm_le in H. cbn [forallb] in H. apply andb_true_iff in H as [Ha Hg].
    apply Qle_bool_iff in Ha. specialize (IH Hg).
    cbn [qdot dot length]. change (dot 0 Qcplus Qcmult g g) with (qdot g g).
    rewrite this_plus, this_mult. rewrite Nat2Z.inj_succ. unfold Z.succ. rewrite inject_Z_plus.
    pose proof (q_sq_le_of_abs _ _ Ha) as S. change (inject_Z 1) with 1%Q. nra.
Qed.

Lemma opt_stop_grad_length m n A b x0 ce cx mu gtol x Pe Px :
  opt_stop_ok m n A b x0 ce (Some cx) mu gtol x = true ->
  qinv (dense_of true n cx) = Some Px ->
  length (post_grad n A Pe Px b x0 x) = n.
Proof.
  unfold opt_stop_ok. intros H IPx.
  apply andb_true_iff in H as [H HM]. apply andb_true_iff in H as [H _]. apply andb_true_iff in H as [H _].
  apply andb_true_iff in H as [H _]. apply andb_true_iff in H as [H _]. apply andb_true_iff in H as [SA _].
  destruct (shape_ok_spec _ _ _ SA) as [WA LA].
  destruct (qinv (dense_of true m ce)) as [Pe'|]; [|discriminate].
  destruct (shape_ok n n (dense_of true n cx)) eqn:SC; [|discriminate].
  destruct (shape_ok_spec _ _ _ SC) as [_ LC]. destruct (qinv_shape _ _ IPx) as [_ S]. rewrite LC in S.
  unfold post_grad. rewrite q_vsub_length; rewrite q_mattvec_length by exact WA; [reflexivity|].
  rewrite q_matvec_length. symmetry. exact S.
Qed.

(* the distance bound the model also evaluates is a THEOREM: mu^2 |xs - x|^2 <= n gtol^2 *)
Theorem opt_stop_within m n A b x0 ce cx mu gtol x xs :
  opt_stop_ok m n A b x0 ce (Some cx) mu gtol x = true ->
  post_mean_exact m n A b x0 ce cx = Some xs -> length xs = n ->
  dist_within n mu gtol x xs = true.
Proof.
  intros H HM Lxs.
  destruct (opt_stop_distance_to_posterior_mean m n A b x0 ce cx mu gtol x xs H HM Lxs) as (Pe & Px & IPe & IPx & HG & HD).
  pose proof (opt_stop_grad_length m n A b x0 ce cx mu gtol x Pe Px H IPx) as LG.
  assert (MG : maxnorm_le (post_grad n A Pe Px b x0 x) gtol = true).
  { unfold maxnorm_le. apply forallb_forall. intros gi Hi. apply Qle_bool_iff. exact (HG gi Hi). }
  pose proof (maxnorm_sq _ _ MG) as S. rewrite LG in S.
  unfold dist_within. apply Qle_bool_iff. unfold Qcle in HD. eapply Qle_trans; [exact HD | exact S].
Qed.

Example opt_stop_example :
  opt_stop_ok 2 2 (qmat [[1; 0]; [0; 2]]%Q) (qvec [1; 2]%Q) (qvec [0; 0]%Q) (CScalar 1) (Some (CScalar 1)) (Q2Qc (1 # 2)) (1 # 100000)
              (qvec [1 # 2; 4 # 5]%Q) = true /\
  post_mean_exact 2 2 (qmat [[1; 0]; [0; 2]]%Q) (qvec [1; 2]%Q) (qvec [0; 0]%Q) (CScalar 1) (CScalar 1) = Some (qvec [1 # 2; 4 # 5]%Q).
Proof. split; vm_compute; reflexivity. Qed.

(* the curvature hypothesis (over Qc) from the certificate: mu |v|^2 <= (A v)^T Pe (A v) for every v *)
Theorem curvature_sound m n A ce mu :
  curvature_ok m n A ce mu = true ->
  exists Pe, qinv (dense_of true m ce) = Some Pe /\ q_sym m Pe /\ 0 <= mu /\
    forall v, length v = n -> mu * qdot v v <= qdot (qmatvec A v) (qmatvec Pe (qmatvec A v)).
Proof.
  unfold curvature_ok. intros H.
  apply andb_true_iff in H as [H HM]. apply andb_true_iff in H as [H Hmu]. apply andb_true_iff in H as [SA SCe].
  destruct (qinv (dense_of true m ce)) as [Pe|] eqn:IPe; [|discriminate].
  apply andb_true_iff in HM as [KS KC].
  destruct (shape_ok_spec _ _ _ SA) as [WA LA]. destruct (shape_ok_spec _ _ _ SCe) as [WCe LCe].
  destruct (qinv_shape _ _ IPe) as [WPe SPe]. rewrite LCe in WPe, SPe.
  assert (HS : q_sym m Pe) by (apply q_sym_of_transpose; [exact WPe | apply qcll_eqb_eq; exact KS]).
  assert (M0 : 0 <= mu).
  { apply negb_true_iff in Hmu. unfold Qcle. cbn [this Q2Qc].
    destruct (Qlt_le_dec 0 (this mu)) as [L|L]; [apply Qlt_le_weak; exact L|].
    apply Qle_bool_iff in L. rewrite L in Hmu. discriminate. }
  exists Pe. split; [reflexivity|]. split; [exact HS|]. split; [exact M0|].
  intros v Lv. pose proof (psd_cert_sound n _ KC v Lv) as P1.
  destruct (q_scalar_mat_wf n (- mu)) as [WS LS]. destruct (atpa_wf n A Pe WA) as [W1 W2].
  unfold shift_mat in P1.
  rewrite (q_matvec_qmadd n (atpa n A Pe) (qscalar_mat n (- mu)) v W1 WS) in P1 by (transitivity n; [exact W2 | symmetry; exact LS]).
  rewrite (q_matvec_scalar_mat n (- mu) v Lv) in P1.
  rewrite (q_atpa_matvec m n A Pe v WA LA WPe SPe HS Lv) in P1.
  rewrite q_dot_vadd_r in P1 by (rewrite q_vscale_length, q_mattvec_length by exact WA; lia).
  unfold qdot at 2 in P1. unfold qvscale in P1. rewrite (dot_vscale_r Qc 0 1 Qcplus Qcmult Qcminus Qcopp Qcrt) in P1. fold qdot in P1.
  rewrite <- (q_adjoint n A v _ WA Lv) in P1.
  apply qc_le_of_sub_nonneg.
  replace (qdot (qmatvec A v) (qmatvec Pe (qmatvec A v)) - mu * qdot v v)
    with (qdot (qmatvec A v) (qmatvec Pe (qmatvec A v)) + - mu * qdot v v) by ring.
  exact P1.
Qed.

Example curvature_example : curvature_ok 3 2 (qmat [[1; 0]; [0; 1]; [1; 1]]%Q) (CScalar (Q2Qc (1 # 2))) (Q2Qc (3 # 2)) = true.
Proof. vm_compute. reflexivity. Qed.

(* ---------------------------------------------------------------------------------------------
   3. sample_posterior: the direct route exactly for linear-Gaussian problems
   --------------------------------------------------------------------------------------------- *)
Lemma is_linear_gaussian_spec P :
  is_linear_gaussian P = true <-> p_prior P = DGaussian /\ p_lik P = DGaussian /\ p_model P = MLinear.
Proof.
  unfold is_linear_gaussian. destruct (p_prior P), (p_lik P), (p_model P); cbn; split; try discriminate; try tauto;
    intros (H1 & H2 & H3); discriminate.
Qed.

Lemma map_route_direct_bool P d : map_route P d = RDirect <-> is_linear_gaussian P && within_dims P d = true.
Proof.
  rewrite (map_route_direct_iff P d). rewrite andb_true_iff, is_linear_gaussian_spec. unfold within_dims.
  rewrite andb_true_iff, !Nat.leb_le. tauto.
Qed.

Theorem sample_entry_direct_iff fixed joint P s q d ex nb A b x0 ce cx :
  let r := sample_posterior_entry fixed joint P s q d ex nb A b x0 ce cx in
  ((exists law, r = SEDirect law) <-> joint = false /\ is_linear_gaussian P = true /\ within_dims P d = true) /\
  (forall law, r = SEDirect law -> law = sample_direct fixed (p_m P) (p_n P) A b x0 ce cx) /\
  (forall c, r = SEOther c -> c = sample_route joint P s q d /\ c <> SMapCholesky).
Proof.
  cbv zeta. unfold sample_posterior_entry.
  pose proof (cascade_spec joint P s q d) as C. cbv zeta in C. destruct C as (_ & CM & _).
  rewrite map_route_direct_bool, andb_true_iff in CM.
  destruct (sample_route joint P s q d) eqn:E;
    (split; [split; [intros HX | intros HX] | split; [intros law HL | intros c Hc]]).
  all: try solve [destruct HX as [law HL]; discriminate HL].
  all: try solve [destruct CM as [CM1 _]; destruct (CM1 eq_refl) as (J & L & W); repeat split; assumption].
  all: try solve [eexists; reflexivity].
  all: try solve [destruct HX as (J & L & W); destruct CM as [_ CM2]; discriminate (CM2 (conj J (conj L W)))].
  all: try solve [discriminate HL].
  all: try solve [injection HL as <-; reflexivity].
  all: try solve [discriminate Hc].
  all: try solve [injection Hc as <-; split; [reflexivity | discriminate]].
Qed.

(* the optional arguments Nb / experimental do not enter on the direct route *)
Lemma sample_entry_ignores_options fixed joint P s q d ex nb ex' nb' A b x0 ce cx :
  sample_posterior_entry fixed joint P s q d ex nb A b x0 ce cx = sample_posterior_entry fixed joint P s q d ex' nb' A b x0 ce cx.
Proof. reflexivity. Qed.
