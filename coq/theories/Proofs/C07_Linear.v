(* C07 -- every geometry map of the model is linear (orthogonal or not), hence forward/adjoint of a
   function-backed model are linear parameter-to-parameter maps for EVERY domain and range geometry, and
   get_matrix (assembled from forward(e_i)) reproduces forward.  All sizes. *)
From CV Require Import Base.Tac Base.LinAlg Base.Cmp Base.QcLin Model.C07_Adj
  Proofs.C07_Lists Proofs.C07_Geom Proofs.C07_Model Proofs.C07_Conv Proofs.C07_Deconv1.
From Coq Require Import QArith Qcanon.

Local Open Scope Qc_scope.

(* ---------- the maps, as total functions on flat vectors ---------- *)
Fixpoint pmap (g : geom) (p : list Qc) : list Qc :=
  match g with
  | GId _ => p
  | GImage r c OC => p
  | GImage r c OF => unravelF r c p
  | GStep cnt => step_expand cnt p
  | GLin _ _ G _ => qmatvec G p
  | GScale c _ g' => qvscale c (pmap g' p)
  | GStepX _ cnt => step_expand cnt p
  end.

Fixpoint fmap (g : geom) (f : list Qc) : list Qc :=
  match g with
  | GId _ => f
  | GImage r c OC => f
  | GImage r c OF => ravelF r c f
  | GStep cnt => step_mean cnt f
  | GLin _ _ _ Gi => qmatvec Gi f
  | GScale _ ci g' => fmap g' (qvscale ci f)
  | GStepX mx cnt => step_ext mx cnt f
  end.

(* well-formed: what the constructors of the implementation guarantee *)
Fixpoint wf_geom (g : geom) : Prop :=
  match g with
  | GId _ => True
  | GImage _ _ _ => True
  | GStep cnt => Forall (fun k => (0 < k)%nat) cnt
  | GLin np nf G Gi => wf_mat np G /\ length G = nf /\ wf_mat nf Gi /\ length Gi = np
  | GScale _ _ g' => wf_geom g'
  | GStepX _ cnt => Forall (fun k => k = 1%nat) cnt      (* max/min projections are linear only over one-node steps *)
  end.

(* ---------- linear maps compose ---------- *)
Lemma linear_map_comp n m k f g : linear_map n m f -> linear_map m k g -> linear_map n k (fun x => g (f x)).
Proof.
  intros (Fa & Fs & Fl) (Ga & Gs & Gl). repeat split.
  - intros x y Hx Hy. rewrite Fa by assumption. apply Ga; apply Fl; assumption.
  - intros c x Hx. rewrite Fs by assumption. apply Gs. apply Fl. exact Hx.
  - intros x Hx. apply Gl. apply Fl. exact Hx.
Qed.

Lemma linear_map_id n : linear_map n n (fun x => x).
Proof. repeat split; auto. Qed.

Lemma linear_map_scale n c : linear_map n n (qvscale c).
Proof.
  repeat split.
  - intros x y _ _. apply qvscale_qvadd.
  - intros k x _. apply qvscale_qvscale.
  - intros x Hx. rewrite qvscale_length. exact Hx.
Qed.

(* ---------- plumbing commutes with pointwise sums and with map ---------- *)
Lemma chunks_qvadd k n x y : chunks k n (qvadd x y) = madd (chunks k n x) (chunks k n y).
Proof.
  revert x y; induction n as [|n IH]; intros x y; [reflexivity|].
  cbn [chunks]. rewrite madd_cons, firstn_qvadd, skipn_qvadd, IH. reflexivity.
Qed.

Lemma chunks_map {A B} (f : A -> B) k n l : chunks k n (map f l) = map (map f) (chunks k n l).
Proof.
  revert l; induction n as [|n IH]; intros l; [reflexivity|].
  cbn [chunks map]. rewrite firstn_map, skipn_map, IH. reflexivity.
Qed.

Lemma zipcons_madd r r' T T' :
  zipcons (qvadd r r') (madd T T') = madd (zipcons r T) (zipcons r' T').
Proof.
  revert r' T T'; induction r as [|a r IH]; intros r' T T'; [reflexivity|].
  destruct r' as [|a' r']; [destruct T; reflexivity|].
  destruct T as [|t T]; [reflexivity|].
  destruct T' as [|t' T']; [rewrite qvadd_cons; cbn [zipcons]; destruct (zipcons r T); reflexivity|].
  rewrite qvadd_cons, madd_cons. cbn [zipcons]. rewrite madd_cons, IH. reflexivity.
Qed.

Lemma madd_repeat_nil n : madd (repeat [] n) (repeat [] n) = repeat [] n.
Proof. induction n as [|n IH]; [reflexivity|]. cbn [repeat]. rewrite madd_cons, IH. reflexivity. Qed.

Lemma tr_madd n M N : length M = length N -> tr n (madd M N) = madd (tr n M) (tr n N).
Proof.
  revert N; induction M as [|r M IH]; intros [|r' N] H; simpl in H; try discriminate.
  - cbn [tr]. rewrite madd_nil_l. cbn [tr]. symmetry. apply madd_repeat_nil.
  - rewrite madd_cons. cbn [tr]. rewrite IH by lia. apply zipcons_madd.
Qed.

Lemma zipcons_map {A B} (f : A -> B) r T : zipcons (map f r) (map (map f) T) = map (map f) (zipcons r T).
Proof.
  revert T; induction r as [|a r IH]; intros [|t T]; try reflexivity.
  cbn [map zipcons]. rewrite IH. reflexivity.
Qed.

Lemma tr_map {A B} (f : A -> B) n M : tr n (map (map f) M) = map (map f) (tr n M).
Proof.
  induction M as [|r M IH]; cbn [tr map].
  - rewrite map_repeat'. reflexivity.
  - rewrite IH. apply zipcons_map.
Qed.

Lemma concat_madd c M N : wf_mat c M -> wf_mat c N -> concat (madd M N) = qvadd (concat M) (concat N).
Proof.
  intros HM; revert N; induction HM as [|r M Hr HM IH]; intros N HN.
  - rewrite madd_nil_l. reflexivity.
  - destruct N as [|r' N]; [cbn [concat]; rewrite qvadd_nil_r; reflexivity|].
    pose proof (Forall_inv HN) as Hr'. pose proof (Forall_inv_tail HN) as HN'.
    rewrite madd_cons. cbn [concat]. rewrite IH by exact HN'. symmetry. apply qvadd_app. congruence.
Qed.

Lemma madd_shape' c M N : wf_mat c M -> wf_mat c N -> length M = length N -> wf_mat c (madd M N).
Proof. intros HM HN HL. apply (madd_shape c M N HM HN HL). Qed.

(* ---------- F-order reshapes are linear ---------- *)
Lemma unravelF_linear r c : linear_map (r * c) (r * c) (unravelF r c).
Proof.
  repeat split.
  - intros x y Hx Hy. unfold unravelF. rewrite chunks_qvadd, tr_madd by (rewrite !chunks_length; reflexivity).
    apply (concat_madd c).
    + pose proof (tr_rows r (chunks r c x)) as H. rewrite chunks_length in H. exact H.
    + pose proof (tr_rows r (chunks r c y)) as H. rewrite chunks_length in H. exact H.
  - intros k x Hx. unfold unravelF, qvscale, vscale. rewrite chunks_map, tr_map, concat_map. reflexivity.
  - intros x Hx. apply unravelF_length. exact Hx.
Qed.

Lemma ravelF_linear r c : linear_map (r * c) (r * c) (ravelF r c).
Proof.
  repeat split.
  - intros x y Hx Hy. unfold ravelF. rewrite chunks_qvadd, tr_madd by (rewrite !chunks_length; reflexivity).
    apply (concat_madd r).
    + pose proof (tr_rows c (chunks c r x)) as H. rewrite chunks_length in H. exact H.
    + pose proof (tr_rows c (chunks c r y)) as H. rewrite chunks_length in H. exact H.
  - intros k x Hx. unfold ravelF, qvscale, vscale. rewrite chunks_map, tr_map, concat_map. reflexivity.
  - intros x Hx. apply ravelF_length. exact Hx.
Qed.

(* ---------- step expansion and its mean projection are linear ---------- *)
Lemma qvadd_repeat a b k : qvadd (repeat a k) (repeat b k) = repeat (a + b) k.
Proof. induction k as [|k IH]; [reflexivity|]. cbn [repeat]. rewrite qvadd_cons, IH. reflexivity. Qed.

Lemma qvscale_repeat c a k : qvscale c (repeat a k) = repeat (c * a) k.
Proof. unfold qvscale, vscale. apply map_repeat'. Qed.

Lemma step_expand_length cnt p : length p = length cnt -> length (step_expand cnt p) = fold_right Nat.add 0%nat cnt.
Proof.
  revert p; induction cnt as [|k cnt IH]; intros [|a p] H; simpl in H; try discriminate; [reflexivity|].
  cbn [step_expand fold_right]. rewrite app_length, repeat_length, IH by lia. reflexivity.
Qed.

Lemma step_expand_linear cnt : linear_map (length cnt) (fold_right Nat.add 0%nat cnt) (step_expand cnt).
Proof.
  repeat split.
  - induction cnt as [|k cnt IH]; intros [|a x] [|b y] Hx Hy; simpl in Hx, Hy; try discriminate; [reflexivity|].
    rewrite qvadd_cons. cbn [step_expand]. rewrite IH by lia. rewrite qvadd_app by (rewrite !repeat_length; reflexivity).
    rewrite qvadd_repeat. reflexivity.
  - intros c. induction cnt as [|k cnt IH]; intros [|a x] Hx; simpl in Hx; try discriminate; [reflexivity|].
    rewrite qvscale_cons. cbn [step_expand]. rewrite IH by lia. rewrite qvscale_app, qvscale_repeat. reflexivity.
  - intros x Hx. apply step_expand_length. exact Hx.
Qed.

Lemma qsum_qvadd x y : length x = length y -> qsum (qvadd x y) = qsum x + qsum y.
Proof.
  revert y; induction x as [|a x IH]; intros [|b y] H; simpl in H; try discriminate.
  - cbn. ring.
  - rewrite qvadd_cons. unfold qsum in *. cbn [fold_right]. rewrite IH by lia. ring.
Qed.

Lemma qsum_qvscale c x : qsum (qvscale c x) = c * qsum x.
Proof.
  induction x as [|a x IH]; [cbn; ring|].
  rewrite qvscale_cons. unfold qsum in *. cbn [fold_right]. rewrite IH. ring.
Qed.

Lemma step_mean_length cnt f : length (step_mean cnt f) = length cnt.
Proof. revert f; induction cnt as [|k cnt IH]; intros f; [reflexivity|]. cbn [step_mean length]. rewrite IH. reflexivity. Qed.

Lemma step_mean_qvadd cnt x y : length x = length y ->
  step_mean cnt (qvadd x y) = qvadd (step_mean cnt x) (step_mean cnt y).
Proof.
  revert x y; induction cnt as [|k cnt IH]; intros x y H; [reflexivity|].
  cbn [step_mean]. rewrite qvadd_cons, skipn_qvadd, firstn_qvadd, IH by (rewrite !skipn_length; lia).
  rewrite qsum_qvadd by (rewrite !firstn_length; lia). f_equal. unfold Qcdiv. ring.
Qed.

Lemma step_mean_qvscale cnt c x : step_mean cnt (qvscale c x) = qvscale c (step_mean cnt x).
Proof.
  revert x; induction cnt as [|k cnt IH]; intros x; [reflexivity|].
  cbn [step_mean]. rewrite qvscale_cons, qvscale_skipn, qvscale_firstn, IH, qsum_qvscale. f_equal. unfold Qcdiv. ring.
Qed.

Lemma step_mean_linear cnt : linear_map (fold_right Nat.add 0%nat cnt) (length cnt) (step_mean cnt).
Proof.
  repeat split.
  - intros x y Hx Hy. apply step_mean_qvadd. congruence.
  - intros c x _. apply step_mean_qvscale.
  - intros x _. apply step_mean_length.
Qed.

(* ---------- every geometry: the conversions are these linear maps ---------- *)
Lemma pmap_linear g : wf_geom g -> linear_map (par_dim g) (fun_dim g) (pmap g).
Proof.
  induction g as [n | r c o | cnt | np nf G Gi | c ci g IH | mx cnt]; cbn [wf_geom par_dim fun_dim pmap]; intros W.
  - apply linear_map_id.
  - destruct o; [apply linear_map_id | apply unravelF_linear].
  - apply step_expand_linear.
  - destruct W as (WG & LG & _). rewrite <- LG. apply qmatvec_linear. exact WG.
  - apply (linear_map_comp _ (fun_dim g) _ (pmap g) (qvscale c)); [apply IH; exact W | apply linear_map_scale].
  - apply step_expand_linear.
Qed.

Lemma fmap_linear g : wf_geom g -> linear_map (fun_dim g) (par_dim g) (fmap g).
Proof.
  induction g as [n | r c o | cnt | np nf G Gi | c ci g IH | mx cnt]; cbn [wf_geom par_dim fun_dim fmap]; intros W.
  - apply linear_map_id.
  - destruct o; [apply linear_map_id | apply ravelF_linear].
  - apply step_mean_linear.
  - destruct W as (_ & _ & WGi & LGi). rewrite <- LGi. apply qmatvec_linear. exact WGi.
  - apply (linear_map_comp _ (fun_dim g) _ (qvscale ci) (fmap g)); [apply linear_map_scale | apply IH; exact W].
  - rewrite (ones_sum cnt W). apply (linear_map_ext (length cnt) (length cnt) (fun x => x)); [|apply linear_map_id].
    intros x Hx. symmetry. apply step_ext_ones; assumption.
Qed.

Lemma p2f_pmap g p : length p = par_dim g -> p2f g (V1 p) = Some (funval g (pmap g p)).
Proof.
  induction g as [n | r c o | cnt | np nf G Gi | c ci g IH | mx cnt]; cbn [par_dim p2f funval pmap]; intros H.
  - reflexivity.
  - rewrite H, Nat.eqb_refl. destruct o; reflexivity.
  - rewrite H, Nat.eqb_refl. reflexivity.
  - rewrite H, Nat.eqb_refl. reflexivity.
  - rewrite (IH H). cbn [option_map]. rewrite vmap_funval. reflexivity.
  - rewrite H, Nat.eqb_refl. reflexivity.
Qed.

Lemma f2p_fmap g f : wf_geom g -> length f = fun_dim g -> f2p g (funval g f) = Some (V1 (fmap g f)).
Proof.
  revert f; induction g as [n | r c o | cnt | np nf G Gi | c ci g IH | mx cnt]; cbn [wf_geom fun_dim f2p funval fmap]; intros f W H.
  - reflexivity.
  - destruct o; reflexivity.
  - rewrite H, Nat.eqb_refl. cbn [andb].
    replace (forallb (fun k => (0 <? k)%nat) cnt) with true; [reflexivity|].
    symmetry. apply forallb_forall. intros k Hk. unfold wf_mat in W. rewrite Forall_forall in W.
    apply Nat.ltb_lt. apply W. exact Hk.
  - rewrite H, Nat.eqb_refl. reflexivity.
  - rewrite vmap_funval. apply IH; [exact W | rewrite qvscale_length; exact H].
  - rewrite H, Nat.eqb_refl. cbn [andb]. rewrite (ones_positive cnt W). reflexivity.
Qed.

(* ---------- function-backed models: forward/adjoint are linear for every geometry pair ---------- *)
Definition fm_forward (M : list (list Qc)) (D R : geom) (x : list Qc) : list Qc := fmap R (qmatvec M (pmap D x)).
Definition fm_adjoint (n : nat) (M : list (list Qc)) (D R : geom) (y : list Qc) : list Qc := fmap D (qmattvec n M (pmap R y)).

Lemma fun_model_forward n M D R x : wf_geom D -> wf_geom R -> wf_mat n M -> n = fun_dim D -> length M = fun_dim R ->
  length x = par_dim D -> forward (fun_model n M D R) (V1 x) = Some (V1 (fm_forward M D R x)).
Proof.
  intros WD WR WM Hn HL Hx. unfold forward, apply_func, fm_forward. cbn [fun_model lm_fwd lm_D lm_R].
  rewrite (p2f_pmap D x Hx). cbn [obind]. rewrite flat_funval. apply f2p_fmap; [exact WR|].
  rewrite qmatvec_length. exact HL.
Qed.

Lemma fun_model_adjoint n M D R y : wf_geom D -> wf_geom R -> wf_mat n M -> n = fun_dim D -> length M = fun_dim R ->
  length y = par_dim R -> adjoint (fun_model n M D R) (V1 y) = Some (V1 (fm_adjoint n M D R y)).
Proof.
  intros WD WR WM Hn HL Hy. unfold adjoint, apply_func, fm_adjoint. cbn [fun_model lm_adj lm_D lm_R].
  rewrite (p2f_pmap R y Hy). cbn [obind]. rewrite flat_funval. apply f2p_fmap; [exact WD|].
  rewrite qmattvec_length by exact WM. exact Hn.
Qed.

Lemma fm_forward_linear n M D R : wf_geom D -> wf_geom R -> wf_mat n M -> n = fun_dim D -> length M = fun_dim R ->
  linear_map (par_dim D) (par_dim R) (fm_forward M D R).
Proof.
  intros WD WR WM Hn HL. unfold fm_forward.
  apply (linear_map_comp _ (fun_dim R) _ (fun x => qmatvec M (pmap D x)) (fmap R)); [|apply fmap_linear; exact WR].
  apply (linear_map_comp _ (fun_dim D) _ (pmap D) (qmatvec M)); [apply pmap_linear; exact WD|].
  rewrite <- HL, <- Hn. apply qmatvec_linear. exact WM.
Qed.

Lemma fm_adjoint_linear n M D R : wf_geom D -> wf_geom R -> wf_mat n M -> n = fun_dim D -> length M = fun_dim R ->
  linear_map (par_dim R) (par_dim D) (fm_adjoint n M D R).
Proof.
  intros WD WR WM Hn HL. unfold fm_adjoint.
  apply (linear_map_comp _ (fun_dim D) _ (fun y => qmattvec n M (pmap R y)) (fmap D)); [|apply fmap_linear; exact WD].
  apply (linear_map_comp _ (fun_dim R) _ (pmap R) (qmattvec n M)); [apply pmap_linear; exact WR|].
  rewrite <- HL. rewrite <- Hn. apply qmattvec_linear. exact WM.
Qed.

(* get_matrix of a function-backed model reproduces forward, whatever the geometries *)
Theorem function_model_get_matrix n M D R :
  wf_geom D -> wf_geom R -> wf_mat n M -> n = fun_dim D -> length M = fun_dim R ->
  exists G, get_matrix (fun_model n M D R) = Some G /\ wf_mat (par_dim D) G /\ length G = par_dim R /\
    (forall x, length x = par_dim D -> forward (fun_model n M D R) (V1 x) = Some (V1 (qmatvec G x))) /\
    (forall j, (j < par_dim D)%nat ->
       forward (fun_model n M D R) (V1 (qunit (par_dim D) j)) = Some (V1 (col 0 G j))).
Proof.
  intros WD WR WM Hn HL.
  destruct (get_matrix_columns (fun_model n M D R) (fm_forward M D R)) as (G & EG & WG & LG & HG & HC).
  - reflexivity.
  - intros x Hx. apply fun_model_forward; assumption.
  - apply (fm_forward_linear n); assumption.
  - cbn [fun_model lm_D lm_R] in *. exists G. repeat split; try assumption.
    + intros x Hx. rewrite (HG x Hx). apply fun_model_forward; assumption.
    + intros j Hj. rewrite (HC j Hj). apply fun_model_forward; try assumption. apply qunit_length.
Qed.

(* the same for the matrix get_matrix assembles after T on identity-like geometries is covered by
   transpose_get_matrix; here: the adjoint of a function-backed model is linear too, so ITS column
   assembly (what T.get_matrix does when conversions are idempotent) reproduces adjoint *)
Theorem function_model_adjoint_columns n M D R :
  wf_geom D -> wf_geom R -> wf_mat n M -> n = fun_dim D -> length M = fun_dim R ->
  forall y, length y = par_dim R ->
    adjoint (fun_model n M D R) (V1 y) =
    Some (V1 (qmattvec (par_dim D) (map (fun i => fm_adjoint n M D R (qunit (par_dim R) i)) (seq 0 (par_dim R))) y)).
Proof.
  intros WD WR WM Hn HL y Hy. rewrite (fun_model_adjoint n M D R y) by assumption. do 2 f_equal.
  apply linear_columns; [apply fm_adjoint_linear; assumption | exact Hy].
Qed.
