(* C08 -- cache consistency through the life cycle of the sampler object *)
From CV Require Import Base.Tac Base.Ext Base.QcLin Model.C08_NUTS Model.C08_Life.
From CV Require Import Proofs.C08_Prog Proofs.C08_Tree Proofs.C08_Top.
From Coq Require Import QArith Qcanon.

Lemma reinitialize_cache_ok : forall s, sm_cache_ok (sm_reinitialize s).
Proof. intros s. reflexivity. Qed.

Lemma restart_on_spec : forall t' s,
  sm_cache_ok (sm_restart_on t' s) /\ sm_target (sm_restart_on t' s) = t' /\
  ps_x (sm_state (sm_restart_on t' s)) = ps_x (sm_state s).
Proof. intros t' s. repeat split. Qed.

Lemma reinitialize_twice : forall s, sm_state (sm_reinitialize (sm_reinitialize s)) = sm_state (sm_reinitialize s).
Proof. intros s. reflexivity. Qed.

Lemma set_get_state_cache_ok : forall s s', sm_cache_ok s -> sm_target s' = sm_target s ->
  sm_cache_ok (sm_set_state (sm_get_state s) s').
Proof. intros s s' H E. unfold sm_cache_ok in *. cbn. rewrite E. exact H. Qed.

Lemma transition_cache_from : forall (t : target) (guard : bool) (max_depth : nat) (heps : Qc) (x z : list Qc) (e : Q),
  all_out (fun tp => ps_g (p_cur tp) = t_grad t (ps_x (p_cur tp))) (c_transition t guard max_depth heps x z e).
Proof.
  intros t guard md heps x z e. unfold c_transition.
  eapply all_out_impl; [| apply (transition_states cstate (c_leap t heps) (c_ham t) (c_lgd t) c_uturn_ok (fun _ => 0)
      (ext_sub (c_ham t (c_init t x z)) (Fin e)) (fun s => ps_g s = t_grad t (ps_x s)))].
  - intros tp (Hc & _). exact Hc.
  - intros v s _. reflexivity.
  - reflexivity.
Qed.

Lemma restart_then_transition : forall t' s guard max_depth heps z e,
  sm_cache_ok (sm_restart_on t' s) /\
  c_init t' (ps_x (sm_state s)) z = mkPS (ps_x (sm_state (sm_restart_on t' s))) z (ps_g (sm_state (sm_restart_on t' s))) /\
  all_out (fun tp => ps_g (p_cur tp) = t_grad t' (ps_x (p_cur tp)))
          (c_transition t' guard max_depth heps (ps_x (sm_state (sm_restart_on t' s))) z e).
Proof.
  intros t' s guard md heps z e. split; [reflexivity|]. split; [reflexivity|].
  apply transition_cache_from.
Qed.

(* the target setter alone does NOT keep the caches (documented in HybridGibbs: "instead of simply changing the target
   of the sampler, we reinitialize it"): N(0,1) replaced by N(0,1/2) at x = 1 *)
Lemma retarget_alone_stale :
  exists t t' x, sm_cache_ok (sm_new t x) /\ ~ sm_cache_ok (sm_retarget t' (sm_new t x)).
Proof.
  exists (TGauss (qc 1 :: nil)), (TGauss (qc 2 :: nil)), (qc 1 :: nil). split; [reflexivity|].
  unfold sm_cache_ok. intro H. vm_compute in H. discriminate H.
Qed.
