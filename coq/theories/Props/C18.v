(* C18 -- PDE models solve the discretised equations given and observe them consistently.
   Property theorems only: each is closed by `exact <lemma>` and followed by Print Assumptions.
   The model (Model/C18_PDE.v) is over exact rationals; the linear solver (any function of the call number, the
   operator and the right-hand side, returning the solution alone or a tuple with extra values), scipy's interpolation
   routines, the observation map and the PDE form (any function of parameter and time) are universally quantified. *)
From CV Require Import Base.Tac Base.LinAlg Base.Cmp Base.QcLin Model.C18_Spline Model.C18_PDE Proofs.C18_Alg Proofs.C18_PDE Proofs.C18_Linear Proofs.C18_Spline Proofs.C18_Observe.
From Coq Require Import QArith Qcanon.
Local Open Scope Qc_scope.

(* Steady state: after assemble(p) -- from any earlier state of the object -- solve() returns the solver's answer for
   the system assembled for p and, apart, its extra return values; if the answer obeys the solver's law A x = b the
   returned solution satisfies A(p) u = b(p). *)
Theorem C18_steady_residual :
  forall (P I : Type) (solver : nat -> qm -> qv -> sret I) (sform : P -> qm * qv) (s : sstate) (p : P),
  let A := fst (sform p) in let b := snd (sform p) in
  exists u info,
    ss_solve I solver (ss_assemble P sform s p) = Ok (u, info) /\
    u = sret_sol (solver 0%nat A b) /\
    info = snd (split_ret (solver 0%nat A b)) /\
    (qmatvec A (sret_sol (solver 0%nat A b)) = b -> qmatvec A u = b).
Proof. exact ss_residual. Qed.
Print Assumptions C18_steady_residual.

(* Forward Euler, any time grid (uniform or not), any PDE form: one level per time step, level 0 is the initial
   condition assembled at t_0, and u_{k+1} = u_k + (t_{k+1} - t_k) (A(p,t_k) u_k + b(p,t_k)) with operator and source
   assembled at the OLD time t_k; no info.  fbn = the source as numpy broadcasts it against n nodes (a scalar or
   one-element source term is repeated). *)
Theorem C18_forward_euler :
  forall (P I : Type) (solver : nat -> qm -> qv -> sret I) (form : P -> Qc -> qm * qv * qv) (Q : quirks)
         (p : P) (times : qv) (levels : list qv) (info : option (list I)),
  td_solve P I solver form Q MFwd (Some p) times = Ok (levels, info) ->
  info = None /\ length levels = length times /\
  nth 0 levels [] = fic P form p (nth 0 times 0) /\
  forall k, (S k < length times)%nat ->
    length (nth k levels []) = length (nth 0 levels []) /\
    nth (S k) levels [] =
      euler_fwd (fA P form p (nth k times 0)) (fbn P form p (nth k times 0) (length (nth 0 levels []))) (nth k levels [])
                (nth (S k) times 0 - nth k times 0).
Proof. exact forward_euler. Qed.
Print Assumptions C18_forward_euler.

(* ... and it is defined on every non-empty time grid when the assembled systems have the size of the initial condition *)
Theorem C18_forward_euler_defined :
  forall (P I : Type) (solver : nat -> qm -> qv -> sret I) (form : P -> Qc -> qm * qv * qv) (Q : quirks)
         (p : P) (t0 : Qc) (rest : qv),
  (forall s, wf_sys (length (fic P form p t0)) (fA P form p s) (fbn P form p s (length (fic P form p t0))) = true) ->
  exists levels, td_solve P I solver form Q MFwd (Some p) (t0 :: rest) = Ok (levels, None).
Proof. exact forward_euler_defined. Qed.
Print Assumptions C18_forward_euler_defined.

(* the assembled explicit step (dt*A + I) u + dt*b is the documented one *)
Theorem C18_forward_step :
  forall (A : qm) (b u : qv) (dt : Qc), wf_sys (length u) A b = true ->
  fe_step A b u dt = euler_fwd A b u dt /\ length (fe_step A b u dt) = length u.
Proof. exact fe_step_spec. Qed.
Print Assumptions C18_forward_step.

(* Backward Euler, any time grid: level 0 is the initial condition; level k+1 is the answer of the k-th solver call
   to the system M x = r with M = I - dt A(p,t_{k+1}), r = u_k + dt b(p,t_{k+1}), dt = t_{k+1} - t_k -- operator and
   source assembled at the NEW time --; `info` is the extra return values of the last call; and whenever the answer
   obeys the solver's law, u_{k+1} - dt A(p,t_{k+1}) u_{k+1} = u_k + dt b(p,t_{k+1}). *)
Theorem C18_backward_euler :
  forall (P I : Type) (solver : nat -> qm -> qv -> sret I) (form : P -> Qc -> qm * qv * qv) (Q : quirks)
         (p : P) (times : qv) (levels : list qv) (info : option (list I)),
  td_solve P I solver form Q MBwd (Some p) times = Ok (levels, info) ->
  length levels = length times /\
  nth 0 levels [] = fic P form p (nth 0 times 0) /\
  forall k, (S k < length times)%nat ->
    let tk := nth k times 0 in let tk1 := nth (S k) times 0 in let dt := tk1 - tk in
    let uk := nth k levels [] in let uk1 := nth (S k) levels [] in
    let M := be_M P form p tk1 uk dt in let r := be_r P form p tk1 uk dt in
    let n := length (nth 0 levels []) in
    length uk = n /\ length uk1 = n /\ wf_sys n (fA P form p tk1) (fbn P form p tk1 n) = true /\
    uk1 = sret_sol (solver k M r) /\
    (S (S k) = length times -> info = snd (split_ret (solver k M r))) /\
    (qmatvec M (sret_sol (solver k M r)) = r ->
       qvsub uk1 (qvscale dt (qmatvec (fA P form p tk1) uk1)) = qvadd uk (qvscale dt (fbn P form p tk1 n))).
Proof. exact backward_euler. Qed.
Print Assumptions C18_backward_euler.

(* corollary: if the solver's answers obey its law on the calls this run makes (be_law_on_calls; satisfiable whenever the
   step operators are invertible, see C18_example_backward_hypotheses), every level satisfies the implicit recurrence *)
Theorem C18_backward_euler_exact_solver :
  forall (P I : Type) (solver : nat -> qm -> qv -> sret I) (form : P -> Qc -> qm * qv * qv)
         (Q : quirks) (p : P) (times : qv) (levels : list qv) (info : option (list I)),
  td_solve P I solver form Q MBwd (Some p) times = Ok (levels, info) ->
  be_law_on_calls P I solver form p times levels ->
  forall k, (S k < length times)%nat ->
    let dt := (nth (S k) times 0 - nth k times 0)%Qc in
    qvsub (nth (S k) levels []) (qvscale dt (qmatvec (fA P form p (nth (S k) times 0)) (nth (S k) levels [])))
      = qvadd (nth k levels []) (qvscale dt (fbn P form p (nth (S k) times 0) (length (nth 0 levels [])))).
Proof. exact backward_euler_exact_solver. Qed.
Print Assumptions C18_backward_euler_exact_solver.

(* uniqueness: law on the calls made + step operators I - dt A injective on vectors of n nodes => the stored levels are
   THE sequence satisfying the implicit recurrence from the initial condition *)
Theorem C18_backward_euler_unique :
  forall (P I : Type) (solver : nat -> qm -> qv -> sret I) (form : P -> Qc -> qm * qv * qv)
         (Q : quirks) (p : P) (times : qv) (levels : list qv) (info : option (list I)) (levels' : list qv),
  td_solve P I solver form Q MBwd (Some p) times = Ok (levels, info) ->
  be_law_on_calls P I solver form p times levels ->
  be_invertible P form p times (length (nth 0 levels [])) ->
  length levels' = length times ->
  nth 0 levels' [] = fic P form p (nth 0 times 0) ->
  (forall k, (S k < length times)%nat ->
     length (nth (S k) levels' []) = length (nth 0 levels []) /\
     imp_op (fA P form p (nth (S k) times 0)) (nth (S k) times 0 - nth k times 0) (nth (S k) levels' [])
       = qvadd (nth k levels' []) (qvscale (nth (S k) times 0 - nth k times 0)
                                          (fbn P form p (nth (S k) times 0) (length (nth 0 levels []))))) ->
  levels' = levels.
Proof. exact backward_euler_unique. Qed.
Print Assumptions C18_backward_euler_unique.

(* linearity in the data (mirror of C18_forward_euler_linear_in_data): parameter-independent operator, invertible step
   operators, answers obeying the solver law on the calls made (three possibly different solvers) => the solution for the
   difference of sources and initial conditions is the difference of the solutions *)
Theorem C18_backward_euler_linear_in_data :
  forall (P I : Type) (solver : nat -> qm -> qv -> sret I) (form : P -> Qc -> qm * qv * qv)
         (Pd : Type) (formd : Pd -> Qc -> qm * qv * qv) (solver1 solver2 : nat -> qm -> qv -> sret I)
         (Q : quirks) (p1 p2 : P) (pd : Pd) (times : qv) (l1 l2 ld : list qv) (i1 i2 id : option (list I)),
  (forall t n, fA P form p1 t = fA P form p2 t /\ fA Pd formd pd t = fA P form p1 t /\
               fbn Pd formd pd t n = qvsub (fbn P form p1 t n) (fbn P form p2 t n) /\
               fic Pd formd pd t = qvsub (fic P form p1 t) (fic P form p2 t)) ->
  length (fic P form p1 (nth 0 times 0)) = length (fic P form p2 (nth 0 times 0)) ->
  td_solve P I solver1 form Q MBwd (Some p1) times = Ok (l1, i1) ->
  td_solve P I solver2 form Q MBwd (Some p2) times = Ok (l2, i2) ->
  td_solve Pd I solver formd Q MBwd (Some pd) times = Ok (ld, id) ->
  be_law_on_calls P I solver1 form p1 times l1 -> be_law_on_calls P I solver2 form p2 times l2 ->
  be_law_on_calls Pd I solver formd pd times ld ->
  (forall k, (S k < length times)%nat ->
     inj_on (length (fic P form p1 (nth 0 times 0))) (fA P form p1 (nth (S k) times 0)) (nth (S k) times 0 - nth k times 0)) ->
  ld = map2 qvsub l1 l2.
Proof. exact backward_euler_difference. Qed.
Print Assumptions C18_backward_euler_linear_in_data.

(* backward Euler returns on every time grid with at least two levels whenever every assembled system has the size of the
   initial condition and the solver returns vectors of that size *)
Theorem C18_backward_euler_defined :
  forall (P I : Type) (solver : nat -> qm -> qv -> sret I) (form : P -> Qc -> qm * qv * qv) (Q : quirks)
         (p : P) (t0 t1 : Qc) (rest : qv),
  (forall s, wf_sys (length (fic P form p t0)) (fA P form p s) (fbn P form p s (length (fic P form p t0))) = true) ->
  (forall k M r, length r = length (fic P form p t0) -> length (sret_sol (solver k M r)) = length (fic P form p t0)) ->
  exists levels info, td_solve P I solver form Q MBwd (Some p) (t0 :: t1 :: rest) = Ok (levels, info).
Proof. exact backward_euler_defined. Qed.
Print Assumptions C18_backward_euler_defined.

(* the assembled implicit operator applied to x is x - dt A x; the right-hand side is u + dt b *)
Theorem C18_backward_system :
  forall (A : qm) (b u : qv) (dt : Qc) (x : qv), wf_sys (length u) A b = true -> length x = length u ->
  qmatvec (fst (be_system A b u dt)) x = qvsub x (qvscale dt (qmatvec A x)) /\
  snd (be_system A b u dt) = qvadd u (qvscale dt b).
Proof. exact be_system_spec. Qed.
Print Assumptions C18_backward_system.

(* Both methods, as far as the constructor's own validation promises them: GUARDED by the repaired comparison
   (q_method_case = false): a case variant of a method name runs the loop of that method.  Today's code: _refuted below. *)
Theorem C18_method_dispatch :
  forall (P I : Type) (solver : nat -> qm -> qv -> sret I) (form : P -> Qc -> qm * qv * qv) (Q : quirks)
         (par : option P) (times : qv),
  td_init MBad times TOFinal = Er EValue /\
  (q_method_case Q = false ->
     td_solve P I solver form Q MCaseFwd par times = td_solve P I solver form Q MFwd par times /\
     td_solve P I solver form Q MCaseBwd par times = td_solve P I solver form Q MBwd par times).
Proof. exact method_dispatch. Qed.
Print Assumptions C18_method_dispatch.

Theorem C18_method_case_refuted :
  forall (P I : Type) (solver : nat -> qm -> qv -> sret I) (form : P -> Qc -> qm * qv * qv) (p : P) (t0 : Qc) (rest : qv),
  td_solve P I solver form quirks_code MCaseFwd (Some p) (t0 :: rest) = Er EUnbound /\
  td_solve P I solver form quirks_code MCaseBwd (Some p) (t0 :: rest) = Er EUnbound.
Proof. exact method_case_refuted. Qed.
Print Assumptions C18_method_case_refuted.

(* one-level time grid: forward Euler returns the initial condition; backward Euler raises in today's code and
   returns it after the repair *)
Theorem C18_be_single_level_refuted :
  forall (P I : Type) (solver : nat -> qm -> qv -> sret I) (form : P -> Qc -> qm * qv * qv) (p : P) (t0 : Qc),
  td_solve P I solver form quirks_code MBwd (Some p) [t0] = Er EUnbound /\
  td_solve P I solver form quirks_fixed MBwd (Some p) [t0] = Ok ([fic P form p t0], None) /\
  (forall Q, td_solve P I solver form Q MFwd (Some p) [t0] = Ok ([fic P form p t0], None)).
Proof. exact be_single_level_refuted. Qed.
Print Assumptions C18_be_single_level_refuted.

(* time_obs: 'final' is the last time step, 'all' the whole time grid, an array is taken as is, None and other
   strings are refused *)
Theorem C18_time_obs_parse :
  forall (m : method) (times : qv), m <> MBad ->
  td_init m times TOFinal = Ok (last1 times) /\
  td_init m times TOAll = Ok times /\
  (forall l, td_init m times (TOArr l) = Ok l) /\
  td_init m times TONone = Er EValue /\ td_init m times TOBadStr = Er EValue.
Proof. exact time_obs_parse. Qed.
Print Assumptions C18_time_obs_parse.

(* Observation, equal grids and the final time: the last stored level itself -- no interpolation --, then the
   observation map; no axis is dropped (one observed node stays a 1-vector; /repo 64a5926 and its follow-up). *)
Theorem C18_observe_restriction :
  forall (Q : quirks) (obsmap : option (arr -> res arr)) (interp2 : qv -> qv -> list qv -> qv -> qv -> res qm)
         (G : grids) (times : qv) (T : Qc) (levels : list qv) (u : qv),
  g_eq G = true -> last_opt times = Some T -> last_opt levels = Some u ->
  td_observe Q obsmap interp2 G times [T] levels =
    match apply_obsmap obsmap (A1 u) with Ok b => Ok (false, b) | Er e => Er e end.
Proof. exact observe_restriction. Qed.
Print Assumptions C18_observe_restriction.

(* which requests are restricted directly: GUARDED by the repaired final-time test: exactly (equal grids, time_obs = [T]) *)
Theorem C18_observe_branch :
  forall (Q : quirks) (G : grids) (times tobs : qv) (T : Qc),
  q_tobs_all Q = false -> last_opt times = Some T ->
  (g_eq G && time_test Q times tobs = true <-> g_eq G = true /\ tobs = [T]).
Proof. exact observe_branch_fixed. Qed.
Print Assumptions C18_observe_branch.

(* today's code: every time_obs whose entries all equal T (also [T;T] and []) *)
Theorem C18_observe_branch_code :
  forall (Q : quirks) (G : grids) (times tobs : qv) (T : Qc),
  q_tobs_all Q = true -> last_opt times = Some T ->
  (g_eq G && time_test Q times tobs = true <-> g_eq G = true /\ Forall (fun t => t = T) tobs).
Proof. exact observe_branch_code. Qed.
Print Assumptions C18_observe_branch_code.

Theorem C18_observe_final_twice_refuted :
  exists G times tobs levels,
    g_eq G = true /\ last_opt times = Some (qc (1 # 1)) /\ tobs = [qc (1 # 1); qc (1 # 1)] /\
    td_observe quirks_code None const_interp2 G times tobs levels = Ok (false, A1 [qc (5 # 1); qc (7 # 1)]) /\
    td_observe quirks_fixed None const_interp2 G times tobs levels
      = Ok (true, A2 [[qc (5 # 1); qc (5 # 1)]; [qc (7 # 1); qc (7 # 1)]]).
Proof. exact observe_final_twice_refuted. Qed.
Print Assumptions C18_observe_final_twice_refuted.

(* Otherwise -- unless the repaired code restricts a fully coinciding request (coincide_restriction = None; always so for
   the code as it is, q_spline_route = true) --: the interpolation routine on (grid_sol, time_steps, solution) at
   (grid_obs, time_obs), then the observation map, squeezed only for a single observation time. *)
Theorem C18_observe_interp :
  forall (Q : quirks) (obsmap : option (arr -> res arr)) (interp2 : qv -> qv -> list qv -> qv -> qv -> res qm)
         (G : grids) (gs go times tobs : qv) (levels : list qv),
  g_eq G && time_test Q times tobs = false -> coincide_restriction Q G times tobs levels = None ->
  g_sol G = Some gs -> g_obs G = Some go ->
  td_observe Q obsmap interp2 G times tobs levels =
    match interp2 gs times levels go tobs with
    | Er e => Er e
    | Ok m => match apply_obsmap obsmap (A2 m) with
              | Er e => Er e
              | Ok b => Ok (true, if (length tobs =? 1)%nat then squeeze b else b)
              end
    end.
Proof. exact observe_interp_general. Qed.
Print Assumptions C18_observe_interp.

Theorem C18_observe_interp_code :
  forall (Q : quirks) (G : grids) (times tobs : qv) (levels : list qv),
  q_spline_route Q = true -> coincide_restriction Q G times tobs levels = None.
Proof. exact coincide_none_code. Qed.
Print Assumptions C18_observe_interp_code.

(* "exactly at coinciding nodes and times", FULL for the repaired route (fixes/C18_observe_restrict_coinciding.diff,
   q_spline_route = false): a request all of whose nodes and times are stored ones is answered without the
   interpolation routine, by the stored values ... *)
Theorem C18_observe_coinciding :
  forall (Q : quirks) (obsmap : option (arr -> res arr)) (interp2 : qv -> qv -> list qv -> qv -> qv -> res qm)
         (G : grids) (times tobs : qv) (levels : list qv) (m : qm),
  g_eq G && time_test Q times tobs = false -> coincide_restriction Q G times tobs levels = Some m ->
  td_observe Q obsmap interp2 G times tobs levels =
    match apply_obsmap obsmap (A2 m) with
    | Er e => Er e
    | Ok b => Ok (false, if (length tobs =? 1)%nat then squeeze b else b)
    end.
Proof. exact observe_coinciding. Qed.
Print Assumptions C18_observe_coinciding.

(* ... entry (i, j) being the stored value of the node a with grid_sol[a] = grid_obs[i] at the level b with
   time_steps[b] = time_obs[j] ... *)
Theorem C18_coinciding_entries :
  forall (Q : quirks) (G : grids) (gs go times tobs : qv) (levels : list qv) (m : qm),
  g_eq G = false -> g_sol G = Some gs -> g_obs G = Some go ->
  coincide_restriction Q G times tobs levels = Some m ->
  length m = length go /\
  forall i j x t, nth_error go i = Some x -> nth_error tobs j = Some t ->
    exists a b, nth_error gs a = Some x /\ nth_error times b = Some t /\
                nth j (nth i m []) 0 = nth a (nth b levels []) 0.
Proof. exact coinciding_entries. Qed.
Print Assumptions C18_coinciding_entries.

(* ... and that route is taken whenever every observation node is a solution node and every observation time a time step *)
Theorem C18_coinciding_defined :
  forall (Q : quirks) (G : grids) (gs go times tobs : qv) (levels : list qv),
  q_spline_route Q = false -> q_subgrid_route Q = false -> g_eq G = false -> g_sol G = Some gs -> g_obs G = Some go ->
  (forall x, In x go -> In x gs) -> (forall t, In t tobs -> In t times) ->
  exists m, coincide_restriction Q G times tobs levels = Some m.
Proof. exact coinciding_defined. Qed.
Print Assumptions C18_coinciding_defined.

(* the minimal repair (fixes/C18_observe_restrict_minimal.diff: equal grids and every requested time a stored level) already
   gives, on equal grids: all nodes, and at every requested time the stored level; taken whenever every time is found *)
Theorem C18_coinciding_equal_grids :
  forall (Q : quirks) (G : grids) (times tobs : qv) (levels : list qv) (m : qm),
  g_eq G = true -> coincide_restriction Q G times tobs levels = Some m ->
  length m = length (hd [] levels) /\
  forall a j t, (a < length (hd [] levels))%nat -> nth_error tobs j = Some t ->
    exists b, nth_error times b = Some t /\ nth j (nth a m []) 0 = nth a (nth b levels []) 0.
Proof. exact coinciding_entries_equal. Qed.
Print Assumptions C18_coinciding_equal_grids.

Theorem C18_coinciding_equal_grids_defined :
  forall (Q : quirks) (G : grids) (times tobs : qv) (levels : list qv),
  q_spline_route Q = false -> g_eq G = true -> (forall t, In t tobs -> In t times) ->
  exists m, coincide_restriction Q G times tobs levels = Some m.
Proof. exact coinciding_defined_equal. Qed.
Print Assumptions C18_coinciding_equal_grids_defined.

(* The law assumed of RectBivariateSpline(grid_sol, time_steps, solution)(grid_obs, time_obs): a tensor product of two
   one-dimensional interpolants, each exact at its nodes (exact1).  Consequences: a coinciding space node => the row is the
   time interpolation of that node's stored series; a coinciding time => the column is the space interpolation of that
   stored level; both => the stored value. *)
Theorem C18_tensor_interp_nodes :
  forall (ix it : qv -> qv -> qv -> qv) (gs ts : qv) (sol : list qv) (go to : qv),
  exact1 ix -> exact1 it -> length sol = length ts -> Forall (fun level => length level = length gs) sol ->
  let m := tensor_interp ix it gs ts sol go to in
  length m = length go /\
  (forall i a x, nth_error go i = Some x -> nth_error gs a = Some x ->
     nth i m [] = it ts (map (fun level => nth a level 0) sol) to) /\
  (forall i j b t, (i < length go)%nat -> nth_error to j = Some t -> nth_error ts b = Some t ->
     nth j (nth i m []) 0 = nth i (ix gs (nth b sol []) go) 0) /\
  (forall i j a b x t, nth_error go i = Some x -> nth_error gs a = Some x ->
     nth_error to j = Some t -> nth_error ts b = Some t ->
     nth j (nth i m []) 0 = nth a (nth b sol []) 0).
Proof. exact tensor_interp_nodes. Qed.
Print Assumptions C18_tensor_interp_nodes.

(* with an interpolant that is exact at the nodes (as the tensor law gives: C18_tensor_exact_at_nodes), entries at
   coinciding nodes and times are the stored values.  PARTIAL w.r.t. the property text for the code as it is: this needs the
   interpolation call to succeed; see C18_observe_coinciding_refuted. *)
Theorem C18_observe_interp_nodes_partial :
  forall (Q : quirks) (interp2 : qv -> qv -> list qv -> qv -> qv -> res qm) (G : grids) (gs go times tobs : qv)
         (levels : list qv) (m : qm),
  exact_at_nodes interp2 ->
  g_eq G && time_test Q times tobs = false -> coincide_restriction Q G times tobs levels = None ->
  g_sol G = Some gs -> g_obs G = Some go ->
  interp2 gs times levels go tobs = Ok m -> (length tobs <> 1)%nat ->
  td_observe Q None interp2 G times tobs levels = Ok (true, A2 m) /\
  forall i j a b, nth_error go i = nth_error gs a -> nth_error go i <> None ->
                  nth_error tobs j = nth_error times b -> nth_error tobs j <> None ->
                  nth j (nth i m []) 0 = nth a (nth b levels []) 0.
Proof. exact observe_interp_nodes. Qed.
Print Assumptions C18_observe_interp_nodes_partial.

Theorem C18_tensor_exact_at_nodes :
  forall (ix it : qv -> qv -> qv -> qv), exact1 ix -> exact1 it ->
  forall gs ts sol go to, length sol = length ts -> Forall (fun level => length level = length gs) sol ->
  forall i j a b, nth_error go i = nth_error gs a -> nth_error go i <> None ->
                  nth_error to j = nth_error ts b -> nth_error to j <> None ->
                  nth j (nth i (tensor_interp ix it gs ts sol go to) []) 0 = nth a (nth b sol []) 0.
Proof. exact tensor_exact_at_nodes. Qed.
Print Assumptions C18_tensor_exact_at_nodes.

(* the code as it is (q_spline_route = true): all nodes and times coincide (time_obs = the whole 3-level time grid, grid_obs
   defaulted to grid_sol), yet the request is handed to the interpolation routine, which (scipy) refuses fewer than 4 points *)
Theorem C18_observe_coinciding_refuted :
  forall (Q : quirks) (interp2 : qv -> qv -> list qv -> qv -> qv -> res qm) (g : qv) (t0 t1 t2 : Qc) (levels : list qv),
  q_spline_route Q = true ->
  (forall gs ts sol go to, (length ts < 4)%nat -> interp2 gs ts sol go to = Er EOther) ->
  t0 <> t2 \/ t1 <> t2 ->
  td_observe Q None interp2 (init_grids (Some g) None) [t0; t1; t2] [t0; t1; t2] levels = Er EOther.
Proof. exact observe_coinciding_refuted. Qed.
Print Assumptions C18_observe_coinciding_refuted.

(* a single observation time on the interpolation route: the (n_obs, 1) array becomes the vector of length n_obs *)
Theorem C18_squeeze_single_time :
  forall v : qv, (2 <= length v)%nat -> squeeze (A2 (map (fun x => [x]) v)) = A1 v.
Proof. exact squeeze_single_time. Qed.
Print Assumptions C18_squeeze_single_time.

(* steady state: equal grids => the solution itself; otherwise the 1-d interpolation; then the observation map *)
Theorem C18_steady_observe :
  forall (obsmap : option (arr -> res arr)) (interp1 : qv -> qv -> qv -> res qv) (G : grids) (sol : qv),
  (g_eq G = true ->
     ss_observe obsmap interp1 G sol = match apply_obsmap obsmap (A1 sol) with Ok a => Ok (false, a) | Er e => Er e end) /\
  (forall gs go, g_eq G = false -> g_sol G = Some gs -> g_obs G = Some go ->
     ss_observe obsmap interp1 G sol =
       match interp1 gs sol go with
       | Er e => Er e
       | Ok v => match apply_obsmap obsmap (A1 v) with Ok a => Ok (true, a) | Er e => Er e end
       end).
Proof. exact ss_observe_both. Qed.
Print Assumptions C18_steady_observe.

(* grids_equal is, after __init__ and after ANY sequence of grid_sol / grid_obs assignments, the comparison of the two
   grids the object holds at that moment; grid_obs=None means the solution grid *)
Theorem C18_grids_invariant :
  forall (gs go : grid) (ops : list grid_op),
  let G := fold_left grid_step ops (init_grids gs go) in g_eq G = compare_grid (g_sol G) (g_obs G).
Proof. exact grids_invariant. Qed.
Print Assumptions C18_grids_invariant.

Theorem C18_grid_obs_default :
  forall gs : grid, g_obs (init_grids gs None) = gs /\ g_eq (init_grids gs None) = true.
Proof. exact grid_obs_default. Qed.
Print Assumptions C18_grid_obs_default.

(* PDEModel._forward_func is observe o solve o assemble, and the parameter an earlier call left in the object plays no
   role (time-dependent and steady) *)
Theorem C18_pipeline :
  forall (P I : Type) (solver : nat -> qm -> qv -> sret I) (form : P -> Qc -> qm * qv * qv) (Q : quirks)
         (obsmap : option (arr -> res arr)) (interp2 : qv -> qv -> list qv -> qv -> qv -> res qm) (G : grids)
         (m : method) (times tobs : qv) (prev : option P) (p : P),
  td_forward P I solver form Q obsmap interp2 G m times tobs prev p =
    match td_solve P I solver form Q m (Some p) times with
    | Er e => Er e
    | Ok (levels, _) => match td_observe Q obsmap interp2 G times tobs levels with Er e => Er e | Ok (_, a) => Ok a end
    end
  /\ td_forward P I solver form Q obsmap interp2 G m times tobs prev p =
     td_forward P I solver form Q obsmap interp2 G m times tobs None p.
Proof. exact td_pipeline. Qed.
Print Assumptions C18_pipeline.

Theorem C18_pipeline_steady :
  forall (P I : Type) (solver : nat -> qm -> qv -> sret I) (sform : P -> qm * qv) (obsmap : option (arr -> res arr))
         (interp1 : qv -> qv -> qv -> res qv) (G : grids) (s : sstate) (p : P),
  ss_forward P I solver sform obsmap interp1 G s p =
    match ss_observe obsmap interp1 G (sret_sol (solver 0%nat (fst (sform p)) (snd (sform p)))) with
    | Er e => Er e | Ok (_, a) => Ok a end.
Proof. exact ss_pipeline. Qed.
Print Assumptions C18_pipeline_steady.

(* the PDE-based model is affine in the parameter when the parameter enters only through source and initial condition
   (forward Euler, equal grids, final time, no observation map; any number of nodes -- a single observed node included, since the repaired observe() no longer squeezes it to a 0-d value): forward(p1) - forward(p2) is the forward
   value of the difference problem -- what a constant Jacobian of such a model has to reproduce *)
Theorem C18_forward_pipeline_linear_in_data :
  forall (P Pd I : Type) (solver : nat -> qm -> qv -> sret I) (form : P -> Qc -> qm * qv * qv)
         (formd : Pd -> Qc -> qm * qv * qv) (Q : quirks) (interp2 : qv -> qv -> list qv -> qv -> qv -> res qm) (G : grids)
         (times : qv) (T : Qc) (p1 p2 : P) (pd : Pd) (prev1 prev2 : option P) (prevd : option Pd) (o1 o2 : qv),
  g_eq G = true -> last_opt times = Some T ->
  (forall t n, fA P form p1 t = fA P form p2 t /\ fA Pd formd pd t = fA P form p1 t /\
               fbn Pd formd pd t n = qvsub (fbn P form p1 t n) (fbn P form p2 t n) /\
               fic Pd formd pd t = qvsub (fic P form p1 t) (fic P form p2 t)) ->
  length (fic P form p1 (nth 0 times 0)) = length (fic P form p2 (nth 0 times 0)) ->
  td_forward P I solver form Q None interp2 G MFwd times [T] prev1 p1 = Ok (A1 o1) ->
  td_forward P I solver form Q None interp2 G MFwd times [T] prev2 p2 = Ok (A1 o2) ->
  td_forward Pd I solver formd Q None interp2 G MFwd times [T] prevd pd = Ok (A1 (qvsub o1 o2)).
Proof. exact forward_pipeline_difference. Qed.
Print Assumptions C18_forward_pipeline_linear_in_data.

(* PDEModel._gradient_func: the PDE's own gradient_wrt_parameter if it has one, else direction @ jacobian_wrt_parameter,
   else refused; and direction @ J is the vector-Jacobian product *)
Theorem C18_gradient_dispatch :
  forall (P : Type) (gwp : option (qv -> P -> qv)) (jwp : option (P -> qm)) (npar : nat) (d : qv) (w : P),
  (forall g, gwp = Some g -> gradient_func P gwp jwp npar d w = Ok (g d w)) /\
  (forall J, gwp = None -> jwp = Some J -> gradient_func P gwp jwp npar d w = Ok (qmattvec npar (J w) d)) /\
  (gwp = None -> jwp = None -> gradient_func P gwp jwp npar d w = Er ENotImpl).
Proof. exact gradient_dispatch. Qed.
Print Assumptions C18_gradient_dispatch.

Theorem C18_gradient_is_vjp :
  forall (J : qm) (npar : nat) (d v : qv), wf_mat npar J -> length v = npar ->
  qdot (qmattvec npar J d) v = qdot d (qmatvec J v).
Proof. exact gradient_is_vjp. Qed.
Print Assumptions C18_gradient_is_vjp.

(* the stored forward-Euler levels are THE solution of the recurrence from the initial condition *)
Theorem C18_forward_euler_unique :
  forall (P I : Type) (solver : nat -> qm -> qv -> sret I) (form : P -> Qc -> qm * qv * qv) (Q : quirks)
         (p : P) (times : qv) (levels : list qv) (info : option (list I)) (levels' : list qv),
  td_solve P I solver form Q MFwd (Some p) times = Ok (levels, info) ->
  length levels' = length times ->
  nth 0 levels' [] = fic P form p (nth 0 times 0) ->
  (forall k, (S k < length times)%nat ->
     nth (S k) levels' [] = euler_fwd (fA P form p (nth k times 0)) (fbn P form p (nth k times 0) (length (nth 0 levels' [])))
                                      (nth k levels' []) (nth (S k) times 0 - nth k times 0)) ->
  levels' = levels.
Proof. exact forward_euler_unique. Qed.
Print Assumptions C18_forward_euler_unique.

(* tier 2: with a parameter-independent operator the forward-Euler solution is linear in the data: the difference of the
   solutions for two parameters is the solution for the differences of source and initial condition (level by level) *)
Theorem C18_forward_euler_linear_in_data :
  forall (P I : Type) (solver : nat -> qm -> qv -> sret I) (form : P -> Qc -> qm * qv * qv)
         (Pd : Type) (formd : Pd -> Qc -> qm * qv * qv) (Q : quirks) (p1 p2 : P) (pd : Pd) (times : qv)
         (l1 l2 : list qv) (i1 i2 : option (list I)),
  (forall t n, fA P form p1 t = fA P form p2 t /\ fA Pd formd pd t = fA P form p1 t /\
             fbn Pd formd pd t n = qvsub (fbn P form p1 t n) (fbn P form p2 t n) /\
             fic Pd formd pd t = qvsub (fic P form p1 t) (fic P form p2 t)) ->
  length (fic P form p1 (nth 0 times 0)) = length (fic P form p2 (nth 0 times 0)) ->
  td_solve P I solver form Q MFwd (Some p1) times = Ok (l1, i1) ->
  td_solve P I solver form Q MFwd (Some p2) times = Ok (l2, i2) ->
  td_solve Pd I solver formd Q MFwd (Some pd) times = Ok (map2 qvsub l1 l2, None).
Proof. exact forward_euler_difference. Qed.
Print Assumptions C18_forward_euler_linear_in_data.

(* non-vacuity of the hypotheses of C18_backward_euler_unique / _linear_in_data / _exact_solver: a scalar decay problem with
   time-dependent source on a non-uniform grid and the exact solver x = r / m *)
Example C18_example_backward_hypotheses :
  let times := [qc (0 # 1); qc (1 # 4); qc (3 # 4)] in
  let p := [qc (3 # 1)] in
  exists levels, td_solve qv Z ex1_solver ex1_form quirks_fixed MBwd (Some p) times = Ok (levels, None) /\
    be_law_on_calls qv Z ex1_solver ex1_form p times levels /\
    be_invertible qv ex1_form p times (length (nth 0 levels [])).
Proof. exact ex_be_hypotheses. Qed.

(* non-vacuity of the hypotheses of C18_forward_pipeline_linear_in_data *)
Example C18_example_pipeline_hypotheses :
  let times := [qc (0 # 1); qc (1 # 4); qc (3 # 4)] in
  let p1 := [qc (4 # 1); qc (8 # 1)] in let p2 := [qc (1 # 1); qc (-2 # 1)] in
  let G := init_grids None None in
  (forall t n, fA qv ex_form p1 t = fA qv ex_form p2 t /\ fA qv exd_form (qvsub p1 p2) t = fA qv ex_form p1 t /\
               fbn qv exd_form (qvsub p1 p2) t n = qvsub (fbn qv ex_form p1 t n) (fbn qv ex_form p2 t n) /\
               fic qv exd_form (qvsub p1 p2) t = qvsub (fic qv ex_form p1 t) (fic qv ex_form p2 t)) /\
  g_eq G = true /\ last_opt times = Some (qc (3 # 4)) /\
  exists o1 o2, td_forward qv Z ex_solver ex_form quirks_fixed None const_interp2 G MFwd times [qc (3 # 4)] None p1 = Ok (A1 o1) /\
                td_forward qv Z ex_solver ex_form quirks_fixed None const_interp2 G MFwd times [qc (3 # 4)] None p2 = Ok (A1 o2).
Proof. exact ex_pipeline_hypotheses. Qed.

(* non-vacuity: a concrete 2-node problem with time-dependent source on a non-uniform grid; forward Euler levels
   computed; backward Euler with an exact 2x2 solver returning (x, call number): the solver law holds on every call *)
Example C18_example :
  let times := [qc (0 # 1); qc (1 # 4); qc (3 # 4)] in
  let p := [qc (4 # 1); qc (8 # 1)] in
  (exists levels, td_solve qv Z ex_solver ex_form quirks_code MFwd (Some p) times = Ok (levels, None) /\
     levels = [[qc (4 # 1); qc (8 # 1)]; [qc (4 # 1); qc (5 # 1)]; [qc (21 # 8); qc (2 # 1)]]) /\
  exists levels, td_solve qv Z ex_solver ex_form quirks_code MBwd (Some p) times = Ok (levels, Some [1%Z]) /\
    forall k, (k < 2)%nat ->
      let dt := (nth (S k) times 0 - nth k times 0)%Qc in
      let M := fst (be_system (fst (fst (ex_form p (nth (S k) times 0)))) (snd (fst (ex_form p (nth (S k) times 0)))) (nth k levels []) dt) in
      let r := snd (be_system (fst (fst (ex_form p (nth (S k) times 0)))) (snd (fst (ex_form p (nth (S k) times 0)))) (nth k levels []) dt) in
      qmatvec M (sret_sol (ex_solver k M r)) = r.
Proof. exact ex_heat. Qed.

(* ======================= third deepening round: the interpolation routines INSIDE the model ======================= *)
(* interp1_quad (Model/C18_PDE.v, Model/C18_Spline.v) is scipy's interp1d(kind='quadratic') -- the interpolating C^1 piecewise
   quadratic whose break points are the interior midpoints of the sorted nodes --, computed in exact arithmetic; it is what
   ss_run evaluates in the correspondence.  Whenever it answers:
   (a) an observation node that is a solution node gets the solution value there, whatever the order of either grid; *)
Theorem C18_interp1_quad_nodes :
  forall (gs sol go out : qv), interp1_quad gs sol go = Ok out ->
  length out = length go /\
  forall i a x, nth_error go i = Some x -> nth_error gs a = Some x -> nth i out 0 = nth a sol 0.
Proof. exact interp1_quad_nodes. Qed.
Print Assumptions C18_interp1_quad_nodes.

(* (b) every polynomial of degree <= 2 on the solution nodes is reproduced exactly at EVERY observation point; *)
Theorem C18_interp1_quad_reproduces_quadratics :
  forall (gs go : qv) (a b c : Qc) (out : qv),
  interp1_quad gs (map (fun x => a + b * x + c * x * x) gs) go = Ok out ->
  out = map (fun x => a + b * x + c * x * x) go.
Proof. exact interp1_quad_reproduces_quadratics. Qed.
Print Assumptions C18_interp1_quad_reproduces_quadratics.

(* (c) it is THE element of the spline space through the data: any coefficient vector d (truncated-power basis 1, x, x^2,
   (x - m_j)_+^2) whose spline takes the solution values at the nodes gives exactly the returned values. *)
Theorem C18_interp1_quad_unique :
  forall (gs sol go out d : qv), interp1_quad gs sol go = Ok out -> length d = length gs ->
  map (spl_eval 2 (quad_knots gs) d) gs = sol -> out = map (spl_eval 2 (quad_knots gs) d) go.
Proof. exact interp1_quad_unique. Qed.
Print Assumptions C18_interp1_quad_unique.

(* the same two facts for the interpolating spline of any degree k over any interior knots (quadratic: interp1d; cubic: each
   variable of RectBivariateSpline) *)
Theorem C18_spline_nodes :
  forall (k : nat) (knots gs sol go out : qv), spl_interp k knots gs sol go = SplOk out ->
  length out = length go /\
  forall i a x, nth_error go i = Some x -> nth_error gs a = Some x -> nth i out 0 = nth a sol 0.
Proof. exact spl_interp_nodes. Qed.
Print Assumptions C18_spline_nodes.

Theorem C18_spline_reproduces_polynomials :
  forall (k : nat) (knots gs go pc out : qv), length pc = S k -> gs <> [] ->
  spl_interp k knots gs (map (peval k pc) gs) go = SplOk out -> out = map (peval k pc) go.
Proof. exact spl_interp_poly. Qed.
Print Assumptions C18_spline_reproduces_polynomials.

(* tied to SteadyStateLinearPDE.observe with the routine that runs (unequal grids, no observation map) *)
Theorem C18_steady_observe_quad_nodes :
  forall (G : grids) (gs go sol : qv), g_eq G = false -> g_sol G = Some gs -> g_obs G = Some go ->
  forall out, ss_observe None interp1_quad G sol = Ok (true, A1 out) ->
  length out = length go /\
  forall i a x, nth_error go i = Some x -> nth_error gs a = Some x -> nth i out 0 = nth a sol 0.
Proof. exact ss_observe_quad_nodes. Qed.
Print Assumptions C18_steady_observe_quad_nodes.

Theorem C18_steady_observe_quad_polynomials :
  forall (G : grids) (gs go : qv) (a b c : Qc), g_eq G = false -> g_sol G = Some gs -> g_obs G = Some go ->
  forall r, ss_observe None interp1_quad G (map (fun x => a + b * x + c * x * x) gs) = Ok r ->
  r = (true, A1 (map (fun x => a + b * x + c * x * x) go)).
Proof. exact ss_observe_quad_poly. Qed.
Print Assumptions C18_steady_observe_quad_polynomials.

(* interp2_cubic is RectBivariateSpline(grid_sol, time_steps, solution)(grid_obs, time_obs) (tensor product of interpolating
   cubic not-a-knot splines, points outside the rectangle evaluated at the nearest boundary) in exact arithmetic; it is what
   td_run evaluates.  Shape of its answer, and "exactly at coinciding nodes and times" for the spline route -- the hypothesis
   of C18_observe_interp_nodes_partial proved for the routine that runs.  What stays PARTIAL for the code as it is: the call
   must answer (>= 4 nodes and >= 4 levels, increasing), see C18_observe_coinciding_refuted. *)
Theorem C18_interp2_cubic_shape :
  forall (gs ts : qv) (sol : list qv) (go to : qv) (m : qm), interp2_cubic gs ts sol go to = Ok m ->
  length m = length go /\ Forall (fun row => length row = length to) m.
Proof. exact interp2_cubic_shape. Qed.
Print Assumptions C18_interp2_cubic_shape.

Theorem C18_interp2_cubic_exact_at_nodes : exact_at_nodes interp2_cubic.
Proof. exact interp2_cubic_exact_at_nodes. Qed.
Print Assumptions C18_interp2_cubic_exact_at_nodes.

Theorem C18_observe_cubic_nodes :
  forall (Q : quirks) (G : grids) (gs go times tobs : qv) (levels : list qv) (m : qm),
  g_eq G && time_test Q times tobs = false -> coincide_restriction Q G times tobs levels = None ->
  g_sol G = Some gs -> g_obs G = Some go ->
  interp2_cubic gs times levels go tobs = Ok m -> (length tobs <> 1)%nat ->
  td_observe Q None interp2_cubic G times tobs levels = Ok (true, A2 m) /\
  forall i j a b, nth_error go i = nth_error gs a -> nth_error go i <> None ->
                  nth_error tobs j = nth_error times b -> nth_error tobs j <> None ->
                  nth j (nth i m []) 0 = nth a (nth b levels []) 0.
Proof. exact td_observe_cubic_nodes. Qed.
Print Assumptions C18_observe_cubic_nodes.

(* samples of a polynomial of degree <= 3 in x and in t (bipoly 3 A x t = sum_ij A_ij x^i t^j) are observed as that polynomial
   at EVERY observation node and time; points outside the data rectangle at the nearest boundary point (fitpack) *)
Theorem C18_interp2_cubic_reproduces_bicubics :
  forall (A : qm) (gs ts go to : qv) (m : qm), wf_mat 4 A -> length A = 4%nat ->
  interp2_cubic gs ts (map (fun t => map (fun x => bipoly 3 A x t) gs) ts) go to = Ok m ->
  m = map (fun x => map (fun t => bipoly 3 A (clamp_range gs x) (clamp_range ts t)) to) go.
Proof. exact interp2_cubic_reproduces_bicubics. Qed.
Print Assumptions C18_interp2_cubic_reproduces_bicubics.

Example C18_example_interp2_cubic :
  let gs := qvec [0 # 1; 1 # 1; 2 # 1; 4 # 1] in let ts := qvec [0 # 1; 1 # 2; 1 # 1; 3 # 1; 4 # 1] in
  let A := qmat [[1 # 1; 0 # 1; 2 # 1; 0 # 1]; [0 # 1; 1 # 1; 0 # 1; 0 # 1]; [0 # 1; 0 # 1; 0 # 1; 1 # 1]; [1 # 2; 0 # 1; 0 # 1; 0 # 1]] in
  wf_mat 4 A /\ length A = 4%nat /\
  exists m, interp2_cubic gs ts (map (fun t => map (fun x => bipoly 3 A x t) gs) ts) (qvec [1 # 2; 3 # 1]) (qvec [1 # 4; 2 # 1; 5 # 1]) = Ok m.
Proof. exact ex_interp2_cubic. Qed.

(* "the PDE-based model's output is that of the assemble-solve-observe pipeline", with the interpolation routines that run.
   Steady, unequal grids, no observation map: at an observation node that is a solution node the model returns the solver's
   value there; a solver vector that is a quadratic on grid_sol comes back as that quadratic on the whole observation grid *)
Theorem C18_pipeline_steady_quad :
  forall (P I : Type) (solver : nat -> qm -> qv -> sret I) (sform : P -> qm * qv) (G : grids) (s : sstate) (p : P)
         (gs go out : qv),
  g_eq G = false -> g_sol G = Some gs -> g_obs G = Some go ->
  ss_forward P I solver sform None interp1_quad G s p = Ok (A1 out) ->
  let u := sret_sol (solver 0%nat (fst (sform p)) (snd (sform p))) in
  length out = length go /\
  (forall i a x, nth_error go i = Some x -> nth_error gs a = Some x -> nth i out 0 = nth a u 0) /\
  (forall a b c, u = map (fun x => a + b * x + c * x * x) gs -> out = map (fun x => a + b * x + c * x * x) go).
Proof. exact ss_forward_quad_nodes. Qed.
Print Assumptions C18_pipeline_steady_quad.

(* time-dependent, spline route, several observation times, no observation map, either Euler method: the model's output has one
   row per observation node and one column per observation time, and at a coinciding node and time it is the stored level value *)
Theorem C18_pipeline_cubic_nodes :
  forall (P I : Type) (solver : nat -> qm -> qv -> sret I) (form : P -> Qc -> qm * qv * qv) (Q : quirks)
         (G : grids) (m : method) (times tobs : qv) (prev : option P) (p : P) (gs go : qv) (levels : list qv)
         (info : option (list I)) (M : qm),
  td_solve P I solver form Q m (Some p) times = Ok (levels, info) ->
  g_eq G && time_test Q times tobs = false -> coincide_restriction Q G times tobs levels = None ->
  g_sol G = Some gs -> g_obs G = Some go -> (length tobs <> 1)%nat ->
  td_forward P I solver form Q None interp2_cubic G m times tobs prev p = Ok (A2 M) ->
  length M = length go /\ Forall (fun row => length row = length tobs) M /\
  forall i j a b, nth_error go i = nth_error gs a -> nth_error go i <> None ->
                  nth_error tobs j = nth_error times b -> nth_error tobs j <> None ->
                  nth j (nth i M []) 0 = nth a (nth b levels []) 0.
Proof. exact td_forward_cubic_nodes. Qed.
Print Assumptions C18_pipeline_cubic_nodes.

(* ======================= the repaired squeeze ======================= *)
(* it never changes the VALUES (C-order flattening of the result) ... *)
Theorem C18_squeeze_values : forall a : arr, arr_flat (squeeze a) = arr_flat a.
Proof. exact squeeze_values. Qed.
Print Assumptions C18_squeeze_values.

(* ... its guard on a 2-d array of shape (r, c): with at least one row, the last axis is dropped exactly when c = 1 (the code's
   `ndim > 1 and shape[-1] == 1`); rank-0 and rank-1 results are never touched ... *)
Theorem C18_squeeze_guard :
  forall (r c : nat) (m : qm), rect r c m ->
  squeeze (A2 m) = if ((c =? 1)%nat || (r =? 0)%nat) then A1 (map (fun row => hd 0 row) m) else A2 m.
Proof. exact squeeze_guard. Qed.
Print Assumptions C18_squeeze_guard.

Theorem C18_squeeze_low_rank : (forall x, squeeze (A0 x) = A0 x) /\ (forall v, squeeze (A1 v) = A1 v).
Proof. exact squeeze_low_rank. Qed.
Print Assumptions C18_squeeze_low_rank.

(* ... every modelled observation map keeps the trailing (time) axis of a 2-d array, or (u[0]) returns a rank-1 row ... *)
Theorem C18_omap_keeps_time_axis :
  forall (code : omap_code) (r c : nat) (m : qm) (b : arr),
  rect r c m -> (1 <= r)%nat -> apply_obsmap (omap_fun code) (A2 m) = Ok b ->
  (exists r' m', b = A2 m' /\ rect r' c m') \/ (exists v, b = A1 v /\ length v = c).
Proof. exact omap_keeps_time_axis. Qed.
Print Assumptions C18_omap_keeps_time_axis.

(* ... hence for ONE observation time and every modelled observation map the guard is decided as the code decides it: a 2-d
   result has trailing axis 1 and loses exactly that axis, a rank-1 result is left alone; values unchanged *)
Theorem C18_squeeze_decided_as_code :
  forall (code : omap_code) (r : nat) (m : qm) (b : arr),
  rect r 1 m -> (1 <= r)%nat -> apply_obsmap (omap_fun code) (A2 m) = Ok b ->
  ((exists r' m', b = A2 m' /\ rect r' 1 m' /\ squeeze b = A1 (map (fun row => hd 0 row) m')) \/
   (exists v, b = A1 v /\ length v = 1%nat /\ squeeze b = b))
  /\ arr_flat (squeeze b) = arr_flat b.
Proof. exact squeeze_decided_as_code. Qed.
Print Assumptions C18_squeeze_decided_as_code.

Theorem C18_squeeze_keeps_several_times :
  forall (r c : nat) (m : qm), rect r c m -> (1 <= r)%nat -> c <> 1%nat -> squeeze (A2 m) = A2 m.
Proof. exact squeeze_keeps_several_times. Qed.
Print Assumptions C18_squeeze_keeps_several_times.

(* tied to td_observe as it runs, ONE observation time, no observation map.  Spline route: the (n_obs, 1) answer loses exactly
   its time axis -- one entry per observation node, also for a single node --; entries at coinciding nodes/times are stored values *)
Theorem C18_observe_cubic_single_time :
  forall (Q : quirks) (G : grids) (gs go times : qv) (t : Qc) (levels : list qv) (m : qm),
  g_eq G && time_test Q times [t] = false -> coincide_restriction Q G times [t] levels = None ->
  g_sol G = Some gs -> g_obs G = Some go ->
  interp2_cubic gs times levels go [t] = Ok m ->
  let v := map (fun row => hd 0 row) m in
  td_observe Q None interp2_cubic G times [t] levels = Ok (true, A1 v) /\
  length v = length go /\
  forall i a b, nth_error go i = nth_error gs a -> nth_error go i <> None -> nth_error times b = Some t ->
                nth i v 0 = nth a (nth b levels []) 0.
Proof. exact td_observe_cubic_single_time. Qed.
Print Assumptions C18_observe_cubic_single_time.

(* restriction at coinciding nodes and times, one observation time: the same shape rule *)
Theorem C18_observe_coinciding_single_time :
  forall (Q : quirks) (interp2 : qv -> qv -> list qv -> qv -> qv -> res qm) (G : grids) (times : qv) (t : Qc)
         (levels : list qv) (m : qm),
  g_eq G && time_test Q times [t] = false -> coincide_restriction Q G times [t] levels = Some m ->
  td_observe Q None interp2 G times [t] levels = Ok (false, A1 (map (fun row => hd 0 row) m)).
Proof. exact td_observe_coinciding_single_time. Qed.
Print Assumptions C18_observe_coinciding_single_time.

(* ======================= every return convention of linalg_solve the code accepts ======================= *)
(* `isinstance(returned_values, tuple)`: a value alone -> (value, None); a tuple, a 1-tuple or a tuple subclass (x, v1, ..)
   -> (x, (v1, ..)); these are the only two shapes, and in both the returned solution satisfies the assembled system whenever
   the solver's vector does.  (An EMPTY tuple is not an accepted convention: `returned_values[0]` raises IndexError; the
   harness cell ss/solver-empty-tuple pins that.) *)
Theorem C18_steady_solve_conventions :
  forall (P I : Type) (solver : nat -> qm -> qv -> sret I) (sform : P -> qm * qv) (s : sstate) (p : P),
  let A := fst (sform p) in let b := snd (sform p) in
  (forall x, solver 0%nat A b = SPlain x ->
     ss_solve I solver (ss_assemble P sform s p) = Ok (x, None)) /\
  (forall x extra, solver 0%nat A b = STuple x extra ->
     ss_solve I solver (ss_assemble P sform s p) = Ok (x, Some extra)) /\
  (forall u info, ss_solve I solver (ss_assemble P sform s p) = Ok (u, info) ->
     (exists x, solver 0%nat A b = SPlain x /\ u = x /\ info = None) \/
     (exists x extra, solver 0%nat A b = STuple x extra /\ u = x /\ info = Some extra)) /\
  (forall u info, ss_solve I solver (ss_assemble P sform s p) = Ok (u, info) ->
     qmatvec A (sret_sol (solver 0%nat A b)) = b -> qmatvec A u = b).
Proof. exact ss_solve_conventions. Qed.
Print Assumptions C18_steady_solve_conventions.

(* ======================= solutions with two (or three) space axes ======================= *)
(* time levels are matrices; equal grids and the final time: the last stored level *)
Theorem C18_observe_2dspace_final :
  forall (Q : quirks) (G : grids) (times : qv) (T : Qc) (levels : list qm) (u : qm),
  g_eq G = true -> last_opt times = Some T -> last_opt levels = Some u ->
  td_observe_2dspace Q G times [T] levels = Ok [u].
Proof. exact observe_2dspace_final. Qed.
Print Assumptions C18_observe_2dspace_final.

(* equal grids, every requested time a stored one: one stored level -- all space axes untouched -- per requested time, in the
   order requested (the first level whose time equals the requested time) *)
Theorem C18_observe_2dspace_coinciding :
  forall (Q : quirks) (G : grids) (times tobs : qv) (levels : list qm) (out : list qm),
  q_spline_route Q = false -> g_eq G = true -> time_test Q times tobs = false ->
  td_observe_2dspace Q G times tobs levels = Ok out ->
  length out = length tobs /\
  forall j t, nth_error tobs j = Some t ->
    exists b, index_of t times = Some b /\ nth_error times b = Some t /\ nth j out [] = nth b levels [].
Proof. exact observe_2dspace_coinciding. Qed.
Print Assumptions C18_observe_2dspace_coinciding.

Theorem C18_observe_2dspace_coinciding_defined :
  forall (Q : quirks) (G : grids) (times tobs : qv) (levels : list qm),
  q_spline_route Q = false -> g_eq G = true -> time_test Q times tobs = false ->
  (forall t, In t tobs -> In t times) ->
  exists out, td_observe_2dspace Q G times tobs levels = Ok out.
Proof. exact observe_2dspace_coinciding_defined. Qed.
Print Assumptions C18_observe_2dspace_coinciding_defined.

(* anything else is refused, never interpolated *)
Theorem C18_observe_2dspace_refused :
  forall (Q : quirks) (G : grids) (times tobs : qv) (levels : list qm),
  g_eq G && time_test Q times tobs = false ->
  (g_eq G = false \/ (exists t, In t tobs /\ ~ In t times) \/ q_spline_route Q = true) ->
  td_observe_2dspace Q G times tobs levels = Er EValue.
Proof. exact observe_2dspace_refused. Qed.
Print Assumptions C18_observe_2dspace_refused.

(* non-vacuity of the new hypotheses *)
Example C18_example_interp1_quad :
  let gs := qvec [0 # 1; 2 # 1; 1 # 1; 4 # 1] in
  interp1_quad gs (qvec [1 # 1; 5 # 1; 2 # 1; 3 # 1]) (qvec [1 # 2; 3 # 1; 2 # 1; 0 # 1])
    = Ok (qvec [22 # 19; 106 # 19; 5 # 1; 1 # 1]) /\
  interp1_quad gs (map (fun x => qc (3 # 1) + qc (-1 # 1) * x + qc (2 # 1) * x * x) gs) (qvec [1 # 2; 7 # 2])
    = Ok (qvec [3 # 1; 24 # 1]).
Proof. exact ex_interp1_quad. Qed.

Example C18_example_2dspace :
  let l0 := [[qc (1 # 1); qc (2 # 1)]; [qc (3 # 1); qc (4 # 1)]] in
  let l1 := [[qc (5 # 1); qc (6 # 1)]; [qc (7 # 1); qc (8 # 1)]] in
  let l2 := [[qc (9 # 1); qc (0 # 1)]; [qc (1 # 2); qc (3 # 2)]] in
  let times := [qc (0 # 1); qc (1 # 2); qc (2 # 1)] in
  td_observe_2dspace quirks_minimal (init_grids None None) times [qc (2 # 1); qc (0 # 1)] [l0; l1; l2] = Ok [l2; l0] /\
  td_observe_2dspace quirks_minimal (init_grids None None) times [qc (2 # 1)] [l0; l1; l2] = Ok [l2] /\
  td_observe_2dspace quirks_minimal (init_grids None None) times [qc (1 # 1)] [l0; l1; l2] = Er EValue.
Proof. exact ex_2dspace. Qed.

Example C18_example_squeeze :
  let m := [[qc (1 # 1)]; [qc (2 # 1)]; [qc (3 # 1)]] in
  rect 3 1 m /\
  apply_obsmap (omap_fun (OMScale (qc (2 # 1)))) (A2 m) = Ok (A2 [[qc (2 # 1)]; [qc (4 # 1)]; [qc (6 # 1)]]) /\
  squeeze (A2 [[qc (2 # 1)]; [qc (4 # 1)]; [qc (6 # 1)]]) = A1 [qc (2 # 1); qc (4 # 1); qc (6 # 1)] /\
  apply_obsmap (omap_fun OMFirst) (A2 m) = Ok (A1 [qc (1 # 1)]).
Proof. exact ex_squeeze. Qed.

(* ======================= what the in-model interpolation routines refuse ======================= *)
Theorem C18_interp1_quad_refuses :
  forall (gs sol go : qv),
  ((length gs < 3)%nat \/ length sol <> length gs \/ exists x, In x go /\ in_range gs x = false) ->
  interp1_quad gs sol go = Er EValue.
Proof. exact interp1_quad_refuses. Qed.
Print Assumptions C18_interp1_quad_refuses.

Theorem C18_interp2_cubic_refuses :
  forall (gs ts : qv) (sol : list qv) (go to : qv),
  ((strictly_inc gs = false \/ strictly_inc ts = false) -> interp2_cubic gs ts sol go to = Er EValue) /\
  (strictly_inc gs = true -> strictly_inc ts = true ->
   length sol = length ts -> Forall (fun lv => length lv = length gs) sol ->
   ((length gs < 4)%nat \/ (length ts < 4)%nat) -> interp2_cubic gs ts sol go to = Er EOther).
Proof. exact interp2_cubic_refuses. Qed.
Print Assumptions C18_interp2_cubic_refuses.

(* THE OPEN FINDING (TimeDependentLinearPDE.observe|coinciding-subgrid-nodes:spline-route-raises) as a theorem about the routine
   that runs -- in C18_observe_coinciding_refuted the refusal of the spline was a hypothesis --: on today's tree
   (q_subgrid_route = true) an observation grid that differs from the solution grid, also one whose nodes are all solution nodes
   at times that are all time steps, is refused with fewer than 4 nodes or 4 time levels.  The repaired route answers it
   (C18_example_subgrid_refused, C18_observe_coinciding). *)
Theorem C18_observe_subgrid_refuted :
  forall (Q : quirks) (G : grids) (gs go times tobs : qv) (levels : list qv),
  q_subgrid_route Q = true -> g_eq G = false -> g_sol G = Some gs -> g_obs G = Some go ->
  strictly_inc gs = true -> strictly_inc times = true ->
  length levels = length times -> Forall (fun lv => length lv = length gs) levels ->
  ((length gs < 4)%nat \/ (length times < 4)%nat) ->
  td_observe Q None interp2_cubic G times tobs levels = Er EOther.
Proof. exact observe_subgrid_refused_cubic. Qed.
Print Assumptions C18_observe_subgrid_refuted.

Example C18_example_subgrid_refused :
  let gs := qvec [0 # 1; 1 # 2; 1 # 1; 3 # 2] in let go := qvec [1 # 2; 1 # 1] in
  let times := qvec [0 # 1; 1 # 4; 1 # 2] in
  let levels := [qvec [1 # 1; 2 # 1; 3 # 1; 4 # 1]; qvec [2 # 1; 3 # 1; 4 # 1; 5 # 1]; qvec [3 # 1; 5 # 1; 7 # 1; 9 # 1]] in
  let G := init_grids (Some gs) (Some go) in
  g_eq G = false /\ strictly_inc gs = true /\ strictly_inc times = true /\
  td_observe quirks_minimal None interp2_cubic G times (qvec [1 # 2]) levels = Er EOther /\
  td_observe quirks_repaired None interp2_cubic G times (qvec [1 # 2]) levels = Ok (false, A1 (qvec [5 # 1; 7 # 1])).
Proof. exact ex_subgrid_refused. Qed.

(* non-vacuity of the hypotheses of C18_pipeline_steady_quad and C18_pipeline_cubic_nodes *)
Example C18_example_pipeline_interp :
  let G := init_grids (Some (qvec [0 # 1; 1 # 1; 2 # 1; 4 # 1])) (Some (qvec [1 # 2; 2 # 1])) in
  g_eq G = false /\
  ss_forward qv Z exi_solver exi_sform None interp1_quad G (mkSS None) (qvec [1 # 1; 2 # 1; 5 # 1; 17 # 1])
    = Ok (A1 (qvec [5 # 4; 5 # 1])) /\
  let times := qvec [0 # 1; 1 # 1; 2 # 1; 3 # 1] in let tobs := qvec [1 # 2; 2 # 1] in
  let G2 := init_grids (Some (qvec [0 # 1; 1 # 1; 2 # 1; 3 # 1])) (Some (qvec [1 # 2; 2 # 1])) in
  let p := qvec [1 # 1; 0 # 1; 4 # 1; 2 # 1] in
  exists levels M,
    td_solve qv Z exi_solver exi_form quirks_minimal MFwd (Some p) times = Ok (levels, None) /\
    g_eq G2 && time_test quirks_minimal times tobs = false /\
    coincide_restriction quirks_minimal G2 times tobs levels = None /\
    td_forward qv Z exi_solver exi_form quirks_minimal None interp2_cubic G2 MFwd times tobs None p = Ok (A2 M) /\
    nth 1 (nth 1 M []) 0 = nth 2 (nth 2 levels []) 0.
Proof. exact ex_pipeline_interp. Qed.
