(* C14 -- (a) checkpoints taken while warm-up calls are still to come: the footprint of `tune` joins that of `step`;
   (b) batches written to disk by Sampler.sample(Ns, batch_size).  No proofs. *)
From CV Require Import Base.Tac Base.Cmp Model.C14_Chain.

(* the facts of the combined transition system whose operations are transitions AND tune calls.  `scr`: attributes
   that every transition re-binds before tune can read them (scratch between step and tune, e.g. NUTS'
   _current_alpha_ratio) -- an assertion checked behaviourally by the harness (poisoning them before resuming) *)
Definition with_tune (scr : list string) (f : facts) : facts :=
  mkFacts (f_state f) (f_hist f) (f_step_r f ++ f_tune_r f) (f_step_w f ++ f_tune_w f) (f_step_wfirst f ++ scr)
          (f_step_append f) (f_step_inplace f) (f_step_argmut f) (f_tune_r f) (f_tune_w f) (f_init_r f) (f_init_w f)
          (f_hidden_random f).

(* a state saved between warm-up calls can be continued with further warm-up in a fresh sampler: everything step OR tune
   read is saved state or is never modified by a run, and is not a randomised initialisation result (ex: excused) *)
Definition warm_resume_ok (ex scr : list string) (f : facts) : bool := footprint_ok ex (with_tune scr f).

(* correspondence: whenever the extracted facts promise resumability during warm-up, the differential run
   [warmup a; checkpoint; warmup b; sample n] must reproduce [warmup a; warmup b; sample n] bit for bit *)
Definition check_warm (static_ok observed_same : bool) : bool := implb static_ok observed_same.

(* ------------------------------------------------------------------------------------------ *)
(* batches: _BatchHandler collects the samples of one sample() call and writes every full group of `k`;
   the remainder is written only if finalize() is called (finalized = the extracted fact) *)
Fixpoint chunks_aux {A} (fuel k : nat) (l : list A) : list (list A) :=
  match fuel with
  | O => []
  | S f => match l with [] => [] | _ => firstn k l :: chunks_aux f k (skipn k l) end
  end.
Definition chunks {A} (k : nat) (l : list A) : list (list A) := chunks_aux (length l) k l.
Definition batches {A} (finalized : bool) (k : nat) (l : list A) : list (list A) :=
  if finalized then chunks k l else filter (fun b => (length b =? k)%nat) (chunks k l).

(* files batch_0000, batch_0001, ... of one call of sample(N, batch_size = k): obs = their contents in order *)
Definition check_batches (finalized : bool) (k : nat) (chain : list Z) (obs : list (list Z)) : bool :=
  zll_eqb (batches finalized k chain) obs.

(* stateless interface, sample_adapt(N, Nb): the adaptation interval is Na = int(0.1 N); the allocation divides by it,
   so the call is refused (ZeroDivisionError) exactly when N < 10 *)
Definition adapt_interval (n : nat) : nat := (n / 10)%nat.
Definition adapt_defined (n : nat) : bool := negb (adapt_interval n =? 0)%nat.
(* a ZeroDivisionError is only acceptable where the model says the call is undefined *)
Definition check_adapt_refusal (n : nat) (raised : bool) : bool := implb raised (negb (adapt_defined n)).

(* several batched calls into the same directory: every call numbers its files from 0 again, so its files replace the
   files of earlier calls with the same number; files with larger numbers survive *)
Definition overlay {A} (newer older : list A) : list A := newer ++ skipn (length newer) older.
Fixpoint batch_files {A} (finalized : bool) (k : nat) (calls : list (list A)) (files : list (list A)) : list (list A) :=
  match calls with
  | [] => files
  | c :: r => batch_files finalized k r (overlay (batches finalized k c) files)
  end.
(* calls = the chains recorded by the successive sample(N_i, batch_size = k) calls; obs = the files at the end, in order *)
Definition check_batch_files (finalized : bool) (k : nat) (calls : list (list Z)) (obs : list (list Z)) : bool :=
  zll_eqb (batch_files finalized k calls []) obs.
