(* C09 -- legacy Gibbs with modelled LinearRTO draws: the fresh sampler object of every update builds its stacked system from
   the blocks already updated in this sweep (new) and the previous values of the rest. *)
From CV Require Import Base.Tac Base.Cmp Base.QcLin Model.C09_Rto Model.C09_Nnls Model.C09_Gibbs Model.C09_Gibbs2 Model.C09_Legacy2 Proofs.C09_Legacy.
From Coq Require Import QArith Qcanon.
Local Open Scope nat_scope.

Theorem legacy_ls_draw_current tol (jt : list vec -> Q) ks floors (rs : nat -> nat -> rnd) (cur : list vec) e :
  In e (snd (lsweep (cond (jt2 jt)) (cltrans2 tol ks floors) rs cur)) ->
  let i := e_blk e in
  let new := fst (lsweep (cond (jt2 jt)) (cltrans2 tol ks floors) rs cur) in
  i < length cur /\
  e_cur e = firstn i new ++ skipn i cur /\
  forall sb, nth i ks L2Opq = L2Ls sb ->
    nth_error new i = Some (match ls_draw tol sb i (firstn i new ++ e_s e :: skipn (S i) cur) (length (e_s e)) (rs i 0) with
                            | Some m => adoptv (nth i floors 0%Q) m (firstn (length (e_s e)) (r_vec (rs i 0)))
                            | None => [1; 1; 1; 1; 1; 1; 1]%Q
                            end).
Proof.
  intros He i new.
  destruct (@legacy_sweep_spec vec tgt2 rnd (cond (jt2 jt)) (jt2 jt) (fun _ _ _ _ _ => eq_refl) (cltrans2 tol ks floors) rs cur e He)
    as (Hi & _ & Hcur & Htgt & _ & Hnew & _).
  split; [exact Hi | ]. split; [exact Hcur | ].
  intros sb Hsb. fold i in Hnew. fold new in Hnew. rewrite Hnew. f_equal.
  unfold cltrans2. fold i. rewrite Hsb. rewrite (Htgt (e_s e)). reflexivity.
Qed.
