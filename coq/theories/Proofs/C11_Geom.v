(* C11 -- geometry inside the denotation (den_g / norm_obj / ext_g) and the write footprint of evaluation operations
   (geometry getter, mutable-variables cache, Lognormal re-synchronisation). *)
From CV Require Import Base.Tac Model.C11_Heap Proofs.C11_Heap.
From Coq Require String.
Import String.StringSyntax.
Open Scope string_scope.
Open Scope list_scope.

Definition ext_g (h h' : heap) : Prop :=
  length h <= length h' /\
  forall l o, get h l = Some o -> exists o', get h' l = Some o' /\ norm_obj h' o' = norm_obj h o.

Lemma ext_g_refl h : ext_g h h.
Proof. split; [lia | intros l o H; exists o; auto]. Qed.

Lemma ext_g_trans h1 h2 h3 : ext_g h1 h2 -> ext_g h2 h3 -> ext_g h1 h3.
Proof.
  intros [L1 E1] [L2 E2]. split; [lia|]. intros l o H.
  destruct (E1 l o H) as [o2 [G2 S2]]. destruct (E2 l o2 G2) as [o3 [G3 S3]]. exists o3. split; congruence.
Qed.

Lemma norm_in_sem h o fv : In fv (norm_obj h o) -> In fv (sem_obj o).
Proof. unfold norm_obj. destruct (droppable h o); auto. intros H. apply filter_In in H. tauto. Qed.

Lemma den_g_ext : forall k h h', closed h -> ext_g h h' -> forall l, l < length h -> den_g k h' l = den_g k h l.
Proof.
  induction k as [|k IH]; intros h h' Hc He l Hl; simpl; auto.
  destruct (get h l) as [o|] eqn:G.
  2:{ apply get_none in G. lia. }
  destruct He as [L E]. destruct (E l o G) as [o' [G' S]]. rewrite G', S.
  f_equal. apply map_ext_in. intros [f v] Hin. cbn [fst snd]. f_equal.
  apply norm_in_sem in Hin.
  destruct v; auto.
  - apply IH; auto; [split; assumption|]. eapply (Hc l o G (f, VRef l0) Hin). simpl. auto.
  - f_equal. apply map_ext_in. intros r Hr. apply IH; auto; [split; assumption|].
    eapply (Hc l o G (f, VList ls) Hin). simpl. assumption.
Qed.

Fixpoint chain_g (h : heap) (hs : list heap) : Prop :=
  match hs with [] => True | h' :: r => ext_g h h' /\ chain_g h' r end.

Lemma chain_g_ext : forall hs h, chain_g h hs -> ext_g h (last hs h).
Proof.
  induction hs as [|h1 hs IH]; intros h H.
  - apply ext_g_refl.
  - destruct H as [E C]. destruct hs as [|h2 hs'].
    + assumption.
    + eapply ext_g_trans; [exact E|]. rewrite (last_default (h2 :: hs') h1 h h1).
      change (ext_g h1 (last (h2 :: hs') h1)). apply (IH h1 C).
Qed.

Lemma history_g hs h k l : closed h -> chain_g h hs -> l < length h -> den_g k (last hs h) l = den_g k h l.
Proof. intros Hc Hch Hl. apply den_g_ext; auto. apply chain_g_ext. assumption. Qed.

(* ---------- norm_obj depends on the heap only through the classes of the objects ---------- *)
Lemma norm_obj_classes h1 h2 o :
  (forall g, getf o "_geometry" = Some (VRef g) -> class_at h1 g = class_at h2 g) -> norm_obj h1 o = norm_obj h2 o.
Proof.
  intros H. unfold norm_obj, droppable. destruct (getf o "_geometry") as [[| | | | |g| | |]|]; auto.
  unfold default_geom_at. rewrite (H g eq_refl). reflexivity.
Qed.

Lemma getf_filter_noncache o f : is_cache f = false ->
  getf (filter (fun fv : string * value => negb (is_cache (fst fv))) o) f = getf o f.
Proof.
  intros Hf. induction o as [|[k w] o IH]; [reflexivity|]. cbn [filter fst].
  destruct (is_cache k) eqn:Ek; cbn [negb getf].
  - destruct (str_eqb f k) eqn:E; [|exact IH]. apply str_eqb_eq in E. subst k. congruence.
  - destruct (str_eqb f k); [reflexivity | exact IH].
Qed.

Lemma plain_filter o : plain o = forallb plain_field (filter (fun fv : string * value => negb (is_cache (fst fv))) o).
Proof.
  unfold plain. induction o as [|[k w] o IH]; [reflexivity|]. cbn [forallb filter fst].
  destruct (is_cache k) eqn:Ek; cbn [negb forallb].
  - unfold plain_field at 1. cbn [fst]. rewrite Ek. cbn [orb andb]. exact IH.
  - rewrite IH. reflexivity.
Qed.

Lemma droppable_sem h o :
  droppable h o = negb (is_scratch o) && forallb plain_field (sem_obj o) &&
                  match getf (sem_obj o) "_geometry" with Some (VRef g) => default_geom_at h g | _ => false end.
Proof.
  unfold droppable. destruct (is_scratch o) eqn:S; [reflexivity|].
  unfold sem_obj. rewrite S. rewrite <- plain_filter. rewrite getf_filter_noncache by reflexivity. reflexivity.
Qed.

Lemma is_scratch_sem o o' : sem_obj o' = sem_obj o -> is_scratch o' = is_scratch o.
Proof. intros H. unfold is_scratch. rewrite (class_of_sem _ _ H). reflexivity. Qed.

Lemma geometry_ref_in_sem o g : is_scratch o = false -> getf o "_geometry" = Some (VRef g) -> In ("_geometry", VRef g) (sem_obj o).
Proof.
  intros S H. unfold sem_obj. rewrite S. apply filter_In. split; [|reflexivity].
  clear S. induction o as [|[k w] o IH]; [discriminate|]. cbn [getf] in H.
  destruct (str_eqb "_geometry" k) eqn:E.
  - apply str_eqb_eq in E. subst k. inversion H; subst. left. reflexivity.
  - right. apply IH. assumption.
Qed.

Lemma ext_ext_g h h' : closed h -> ext h h' -> ext_g h h'.
Proof.
  intros C [L E]. split; [assumption|]. intros l o G. destruct (E l o G) as [o' [G' S]]. exists o'. split; auto.
  unfold norm_obj. rewrite S. rewrite (droppable_sem h' o'), (droppable_sem h o), S, (is_scratch_sem _ _ S).
  destruct (is_scratch o) eqn:Sc; [reflexivity|].
  destruct (getf (sem_obj o) "_geometry") as [[| | | | |g| | |]|] eqn:Gg; auto.
  assert (Hg : g < length h).
  { apply (C l o G ("_geometry", VRef g)); [|simpl; auto].
    unfold sem_obj in *. rewrite Sc in *. rewrite getf_filter_noncache in Gg by reflexivity.
    pose proof (geometry_ref_in_sem o g Sc Gg) as X. unfold sem_obj in X. rewrite Sc in X. exact X. }
  destruct (get h g) as [og|] eqn:Go; [|apply get_none in Go; lia].
  unfold default_geom_at. rewrite (class_at_ext h h' g og); [reflexivity | split; assumption | assumption].
Qed.

(* ---------- soundness of the strict executable check ---------- *)
Lemma frame_objs_g_sound h h' : forall hh hh', frame_objs_g false h h' hh hh' = true ->
  length hh <= length hh' /\
  forall l o, nth_error hh l = Some o -> exists o', nth_error hh' l = Some o' /\ norm_obj h' o' = norm_obj h o.
Proof.
  induction hh as [|o hh IH]; intros hh' H.
  - split; [simpl; lia | intros l x G; destruct l; discriminate].
  - destruct hh' as [|o' hh']; simpl in H; try discriminate.
    apply andb_true_iff in H as [H1 H2]. apply obj_eqb_upto_false_eq in H1.
    destruct (IH hh' H2) as [L E]. split; [simpl; lia|].
    intros [|l] x G; simpl in G.
    + inversion G; subst x. exists o'. split; auto.
    + apply (E l x G).
Qed.

Lemma check_frame_g_sound h h' : check_frame_g false h h' = true ->
  ext_g h h' /\ closed h /\ closed h' /\ forall k l, l < length h -> den_g k h' l = den_g k h l.
Proof.
  unfold check_frame_g. intros H. apply andb_true_iff in H as [H12 H3]. apply andb_true_iff in H12 as [H1 H2].
  assert (E : ext_g h h') by (apply frame_objs_g_sound in H1; exact H1).
  assert (C : closed h) by (apply closed_b_sound; exact H2).
  repeat split; auto; try (apply closed_b_sound; assumption); try apply E.
  intros k l Hl. apply den_g_ext; auto.
Qed.

(* ---------- getter effects ---------- *)
Lemma class_at_app_old h x g : g < length h -> class_at (h ++ [x]) g = class_at h g.
Proof. intros H. unfold class_at. rewrite get_app_l by assumption. reflexivity. Qed.

Lemma ext_g_setattr_cache h0 h l f v : is_cache f = true -> ext_g h0 h -> ext_g h0 (setattr h l f v).
Proof.
  intros Hc [L E]. split; [rewrite setattr_length; lia|]. intros l' x H.
  destruct (E l' x H) as [o' [G S]].
  assert (N : forall y, norm_obj (setattr h l f v) y = norm_obj h y).
  { intros y. apply norm_obj_classes. intros g _. apply class_at_setattr. apply is_cache_not_class. assumption. }
  destruct (Nat.eq_dec l l') as [->|Hne].
  - exists (setf o' f v). split; [apply get_setattr_same; assumption|]. rewrite N, <- S.
    unfold norm_obj. rewrite sem_setf_cache by assumption.
    replace (droppable h (setf o' f v)) with (droppable h o'); [reflexivity|].
    rewrite !droppable_sem, sem_setf_cache by assumption. unfold is_scratch.
    rewrite class_of_setf by (apply is_cache_not_class; assumption). reflexivity.
  - exists o'. split; [rewrite get_setattr_other; auto|]. rewrite N. assumption.
Qed.

Lemma filter_setf_drop (p : string -> bool) o f v : p f = false ->
  filter (fun fv : string * value => p (fst fv)) (setf o f v) = filter (fun fv : string * value => p (fst fv)) o.
Proof.
  intros Hp. induction o as [|[k w] o IH]; cbn [setf filter fst].
  - rewrite Hp. reflexivity.
  - destruct (str_eqb f k) eqn:E; cbn [filter fst].
    + apply str_eqb_eq in E. subst k. rewrite Hp. reflexivity.
    + rewrite IH. reflexivity.
Qed.

Lemma filter_filter {A} (p q : A -> bool) l : filter q (filter p l) = filter (fun x => p x && q x) l.
Proof.
  induction l as [|x l IH]; [reflexivity|]. cbn [filter]. destruct (p x); cbn [filter andb]; [destruct (q x)|]; rewrite IH; reflexivity.
Qed.

Lemma sem_nogeom_setf o v : is_scratch o = false ->
  filter not_geometry (sem_obj (setf o "_geometry" v)) = filter not_geometry (sem_obj o).
Proof.
  intros S. unfold sem_obj, is_scratch in *. rewrite class_of_setf by (intros X; discriminate). rewrite S.
  rewrite !filter_filter.
  apply (filter_setf_drop (fun f => negb (is_cache f) && negb (str_eqb f "_geometry")) o "_geometry" v). reflexivity.
Qed.

Lemma plain_setf_ref o g : plain o = true -> plain (setf o "_geometry" (VRef g)) = true.
Proof.
  unfold plain. induction o as [|[k w] o IH]; intros H; cbn [setf forallb] in *.
  - reflexivity.
  - apply andb_true_iff in H as [H1 H2]. destruct (str_eqb "_geometry" k) eqn:E; cbn [forallb].
    + apply str_eqb_eq in E. subst k. rewrite H2. reflexivity.
    + rewrite H1, (IH H2). reflexivity.
Qed.

Lemma getf_setf_same o f v : getf (setf o f v) f = Some v.
Proof.
  induction o as [|[k w] o IH]; cbn [setf getf].
  - rewrite String.eqb_refl. reflexivity.
  - destruct (str_eqb f k) eqn:E; cbn [getf]; rewrite E; auto.
Qed.

Lemma unset_default h g : unset_geom_at h g = true -> default_geom_at h g = true.
Proof. unfold unset_geom_at. intros H. apply andb_true_iff in H. tauto. Qed.

(* the lazy step on a plain object *)
Lemma lazy_step_ext_g h l o g d :
  closed h -> get h l = Some o -> getf o "_geometry" = Some (VRef g) -> default_geom_at h g = true ->
  is_scratch o = false -> plain o = true ->
  ext_g h (setattr (h ++ [[("__class__", VStr "_DefaultGeometry1D"); ("_grid", d); ("axis_labels", VNone)]]) l "_geometry" (VRef (length h))).
Proof.
  intros C G Gg Dg Sc Pl. set (ng := [("__class__", VStr "_DefaultGeometry1D"); ("_grid", d); ("axis_labels", VNone)]).
  set (hA := setattr (h ++ [ng]) l "_geometry" (VRef (length h))).
  assert (Ll : l < length h) by (eapply get_lt; eassumption).
  assert (CL : forall g2, g2 < length h -> class_at hA g2 = class_at h g2).
  { intros g2 H2. unfold hA. rewrite class_at_setattr by (intros X; discriminate). apply class_at_app_old. assumption. }
  assert (CN : default_geom_at hA (length h) = true).
  { unfold default_geom_at, hA. rewrite class_at_setattr by (intros X; discriminate).
    unfold class_at, get. rewrite nth_error_app2 by lia. rewrite Nat.sub_diag. reflexivity. }
  split; [unfold hA; rewrite setattr_length, app_length; simpl; lia|].
  intros l' x H. destruct (Nat.eq_dec l l') as [<-|Hne].
  - rewrite G in H. inversion H; subst x. exists (setf o "_geometry" (VRef (length h))).
    split; [unfold hA; apply get_setattr_same; apply get_app_old; assumption|].
    unfold norm_obj.
    assert (D1 : droppable hA (setf o "_geometry" (VRef (length h))) = true).
    { unfold droppable. rewrite getf_setf_same, CN, plain_setf_ref by assumption.
      unfold is_scratch in *. rewrite class_of_setf by (intros X; discriminate). rewrite Sc. reflexivity. }
    assert (D2 : droppable h o = true).
    { unfold droppable. rewrite Gg, Dg, Pl, Sc. reflexivity. }
    rewrite D1, D2. apply sem_nogeom_setf. assumption.
  - exists x. split; [unfold hA; rewrite get_setattr_other by assumption; apply get_app_old; assumption|].
    destruct (is_scratch x) eqn:Sx.
    + unfold norm_obj, droppable. rewrite Sx. reflexivity.
    + apply norm_obj_classes. intros g2 Hg2. apply CL.
      apply (C l' x H ("_geometry", VRef g2)); [apply geometry_ref_in_sem; assumption | simpl; auto].
Qed.

(* Distribution.geometry getter *)
Lemma geometry_getter_frame h l dim : closed h -> touch_ok h (TGeom l dim) = true -> ext_g h (geometry_getter h l dim).
Proof.
  intros C Ok. unfold geometry_getter. destruct (get h l) as [o|] eqn:G; [|apply ext_g_refl].
  destruct (getf o "_geometry") as [[| | | | |g| | |]|] eqn:Gg; try apply ext_g_refl.
  assert (NameStep : forall h1 g1, ext_g h h1 ->
            ext_g h match getf o "_name" with Some (VStr s) => setattr h1 g1 "_variable_name" (VStr s) | _ => h1 end).
  { intros h1 g1 E. destruct (getf o "_name") as [[| |s| | | | | |]|]; auto. apply ext_g_setattr_cache; [reflexivity | assumption]. }
  destruct dim as [d|]; [|apply NameStep, ext_g_refl].
  destruct (unset_geom_at h g) eqn:U; [|apply NameStep, ext_g_refl].
  cbn [touch_ok] in Ok. rewrite G, Gg, U in Ok. cbn [negb orb] in Ok. apply andb_true_iff in Ok as [Sc Pl].
  apply negb_true_iff in Sc. unfold alloc. apply NameStep.
  eapply lazy_step_ext_g; eauto. apply unset_default. assumption.
Qed.

Lemma mutable_vars_getter_frame h l vs : closed h -> ext_g h (mutable_vars_getter h l vs).
Proof.
  intros C. unfold mutable_vars_getter. destruct (getattr h l "_mutable_vars"); [apply ext_g_refl|].
  apply ext_g_setattr_cache; [reflexivity | apply ext_g_refl].
Qed.

Lemma setattr_missing h l f v : get h l = None -> setattr h l f v = h.
Proof. unfold setattr. intros H. rewrite H. reflexivity. Qed.

Lemma lognormal_sync_frame_g h l : closed h -> touch_ok h (TSync l) = true -> ext_g h (lognormal_sync h l).
Proof.
  intros C Ok. cbn [touch_ok] in Ok. destruct (get h l) as [o|] eqn:G.
  2:{ unfold lognormal_sync. rewrite G. apply ext_g_refl. }
  destruct (getf o "_Gaussian") as [[| | | | |g| | |]|] eqn:Gf;
    try (unfold lognormal_sync; rewrite G, Gf; apply ext_g_refl).
  destruct (get h g) as [og|] eqn:Gg.
  - apply ext_ext_g; auto. eapply lognormal_sync_frame; eauto.
  - (* dangling scratch reference: every write is a no-op *)
    unfold lognormal_sync. rewrite G, Gf. unfold getattr. rewrite Gg.
    destruct (getf o "mean") as [m|]; destruct (getf o "cov") as [c|];
      repeat (first [rewrite (setattr_missing h g _ _ Gg) | rewrite Gg]); apply ext_g_refl.
Qed.

Lemma touch1_frame h t : closed h -> touch_ok h t = true -> ext_g h (touch1 h t).
Proof.
  intros C Ok. destruct t as [l d|l vs|l]; cbn [touch1].
  - apply geometry_getter_frame; assumption.
  - apply mutable_vars_getter_frame; assumption.
  - apply lognormal_sync_frame_g; assumption.
Qed.

(* Model.forward(distribution): reads the distribution's geometry (getter effect), then copies and renames the model *)
Lemma model_apply_frame_g h m d h1 r :
  closed h -> touch_ok h (TGeom d (Some wild)) = true -> closed (geometry_getter h d (Some wild)) ->
  model_apply h m d = Some (h1, r) -> ext_g h h1 /\ length h <= r.
Proof.
  intros C Ok C2 H. destruct (model_apply_spec _ _ _ _ _ H) as [E L]. split.
  - eapply ext_g_trans; [apply geometry_getter_frame; eassumption | apply ext_ext_g; assumption].
  - pose proof (geometry_getter_length h d (Some wild)). lia.
Qed.

(* a whole evaluation: any sequence of getter effects, each meeting its side condition on a closed heap *)
Fixpoint touch_all_ok (h : heap) (ts : list touch_op) : bool :=
  match ts with
  | [] => true
  | t :: r => touch_ok h t && closed_b (touch1 h t) && touch_all_ok (touch1 h t) r
  end.

Lemma touch_frame : forall ts h, closed h -> touch_all_ok h ts = true -> ext_g h (touch h ts).
Proof.
  induction ts as [|t ts IH]; intros h C Ok; cbn [touch fold_left].
  - apply ext_g_refl.
  - cbn [touch_all_ok] in Ok. apply andb_true_iff in Ok as [Ok12 Ok3]. apply andb_true_iff in Ok12 as [Ok1 Ok2].
    apply (ext_g_trans h (touch1 h t)); [apply touch1_frame; assumption|].
    change (ext_g (touch1 h t) (touch (touch1 h t) ts)).
    apply (IH (touch1 h t)); [apply closed_b_sound; assumption | assumption].
Qed.

(* ---------- the excluded class: the lazy step on an object with unresolved parameters ---------- *)
Definition geom_witness : heap :=
  [ [("__class__", VStr "Gamma"); ("_constant", VNum 0); ("_geometry", VRef 1); ("_name", VStr "g"); ("_original_density", VNone);
     ("_rate", VTok 2); ("_shape", VClo ["s"] 1)];
    [("__class__", VStr "_DefaultGeometry1D"); ("_grid", VNone); ("axis_labels", VNone)] ].

Lemma geometry_getter_refuted :
  exists h l d, closed h /\ touch_ok h (TGeom l (Some d)) = false /\ l < length h /\
                den_g 3 (geometry_getter h l (Some d)) l <> den_g 3 h l.
Proof.
  exists geom_witness, 0, (VTok 9). split; [apply closed_b_sound; vm_compute; reflexivity|].
  split; [vm_compute; reflexivity|]. split; [vm_compute; lia|]. vm_compute. intros X. discriminate.
Qed.

(* the same step on the plain version of the object (shape resolved) is invisible *)
Definition geom_witness_plain : heap :=
  [ [("__class__", VStr "Gamma"); ("_constant", VNum 0); ("_geometry", VRef 1); ("_name", VStr "g"); ("_original_density", VNone);
     ("_rate", VTok 2); ("_shape", VTok 1)];
    [("__class__", VStr "_DefaultGeometry1D"); ("_grid", VNone); ("axis_labels", VNone)] ].

Lemma geometry_getter_example :
  closed geom_witness_plain /\ touch_all_ok geom_witness_plain [TGeom 0 (Some (VTok 9)); TVars 0 ["shape"; "rate"]] = true /\
  den_g 3 (touch geom_witness_plain [TGeom 0 (Some (VTok 9)); TVars 0 ["shape"; "rate"]]) 0 = den_g 3 geom_witness_plain 0 /\
  length (touch geom_witness_plain [TGeom 0 (Some (VTok 9))]) = 3.
Proof. split; [apply closed_b_sound; vm_compute; reflexivity|]. vm_compute. repeat split; reflexivity. Qed.

(* ---------- Lognormal: after the re-synchronisation the inner Gaussian carries exactly self.mean / self.cov ---------- *)
Lemma getattr_setattr_other h l f v l' f' : (l <> l' \/ f <> f') -> getattr (setattr h l f v) l' f' = getattr h l' f'.
Proof.
  intros H. unfold getattr. destruct (Nat.eq_dec l l') as [<-|Hne].
  - destruct H as [H|H]; [congruence|]. destruct (get h l) as [o|] eqn:G.
    + rewrite (get_setattr_same _ _ _ _ _ G). apply getf_setf_other. assumption.
    + rewrite setattr_missing by assumption. rewrite G. reflexivity.
  - rewrite get_setattr_other by assumption. reflexivity.
Qed.

Lemma getattr_setattr_same h l f v o : get h l = Some o -> getattr (setattr h l f v) l f = Some v.
Proof. intros G. unfold getattr. rewrite (get_setattr_same _ _ _ _ _ G). apply getf_setf_same. Qed.

Lemma get_setattr_some h l f v l' o : get h l' = Some o -> exists o', get (setattr h l f v) l' = Some o'.
Proof.
  intros G. destruct (Nat.eq_dec l l') as [->|Hne].
  - exists (setf o f v). apply get_setattr_same. assumption.
  - exists o. rewrite get_setattr_other; assumption.
Qed.

Lemma lognormal_sync_reads h self o g og m c :
  get h self = Some o -> getf o "_Gaussian" = Some (VRef g) -> get h g = Some og ->
  getf o "mean" = Some m -> getf o "cov" = Some c ->
  getattr (lognormal_sync h self) g "_mean" = Some m /\ getattr (lognormal_sync h self) g "_cov" = Some c.
Proof.
  intros G Gf Gg Gm Gc. unfold lognormal_sync. rewrite G, Gf, Gm, Gc.
  set (h1 := match getattr h g "_mean" with
             | Some gm => if value_eqb m gm then h else setattr h g "_mean" m
             | None => setattr h g "_mean" m end).
  assert (M1 : getattr h1 g "_mean" = Some m /\ exists o1, get h1 g = Some o1).
  { unfold h1. destruct (getattr h g "_mean") as [gm|] eqn:E.
    - destruct (value_eqb m gm) eqn:V.
      + apply value_eqb_eq in V. subst gm. split; [assumption | eauto].
      + split; [eapply getattr_setattr_same; eassumption | eapply get_setattr_some; eassumption].
    - split; [eapply getattr_setattr_same; eassumption | eapply get_setattr_some; eassumption]. }
  destruct M1 as [M1 [o1 G1]].
  destruct (getattr h1 g "_cov") as [gc|] eqn:E.
  - destruct (value_eqb c gc) eqn:V.
    + apply value_eqb_eq in V. subst gc. split; assumption.
    + cbn [fold_left]. split.
      * rewrite !getattr_setattr_other by (right; intros X; discriminate). assumption.
      * rewrite !getattr_setattr_other by (right; intros X; discriminate). eapply getattr_setattr_same; eassumption.
  - split; [rewrite getattr_setattr_other by (right; intros X; discriminate); assumption
           | eapply getattr_setattr_same; eassumption].
Qed.
