(* C13 -- bit-exact binary64 model (Coq primitive floats = IEEE 754 round-to-nearest-even) of
   np.linspace and of the interval membership tests of StepExpansion.__init__.  No proofs here. *)
From CV Require Import Base.Tac Base.Cmp Model.C13_Geom.
From Coq Require Import PrimFloat Uint63.

Definition f_nat (n : nat) : float := of_uint63 (Uint63.of_Z (Z.of_nat n)).

(* the very definition the rational model uses, at binary64 *)
Definition step_indices_F : list float -> nat -> list (list nat) :=
  @step_indices float PrimFloat.add PrimFloat.sub PrimFloat.mul PrimFloat.div PrimFloat.leb PrimFloat.ltb f_nat.

(* np.linspace(start, stop, num) (endpoint=True), numpy 1.26:
     step = (stop-start)/(num-1);  y_k = k*step + start  (or (k/(num-1))*(stop-start) + start when
     step == 0);  y[-1] = stop;   num = 1 gives [0*(stop-start) + start] *)
Definition linspace (start stop : float) (num : nat) : list float :=
  let delta := PrimFloat.sub stop start in
  match num with
  | O => []
  | S O => [PrimFloat.add (PrimFloat.mul (f_nat 0) delta) start]
  | S div =>
      let step := PrimFloat.div delta (f_nat div) in
      let y k := if PrimFloat.eqb step 0%float
                 then PrimFloat.add (PrimFloat.mul (PrimFloat.div (f_nat k) (f_nat div)) delta) start
                 else PrimFloat.add (PrimFloat.mul (f_nat k) step) start in
      map y (seq 0 div) ++ [stop]
  end.

(* identical bit patterns for the values that occur here (no NaN): IEEE equality + same class (sign of 0) *)
Definition f_same (a b : float) : bool :=
  PrimFloat.eqb a b &&
  match PrimFloat.classify a, PrimFloat.classify b with
  | FloatClass.PZero, FloatClass.PZero | FloatClass.NZero, FloatClass.NZero => true
  | FloatClass.PZero, _ | FloatClass.NZero, _ | _, FloatClass.PZero | _, FloatClass.NZero => false
  | _, _ => true
  end.

Definition check_linspace (start stop : float) (num : nat) (observed : list float) : bool :=
  list_eqb f_same (linspace start stop num) observed.

(* _indices of StepExpansion(grid, n_steps), compared index for index *)
Definition check_step_init_F (grid : list float) (n : nat) (observed : list (list nat)) : bool :=
  natll_eqb observed (step_indices_F grid n).

(* every node in exactly one step and no step empty (what the documentation promises) *)
Definition count_in (t : nat) (idx : list (list nat)) : nat := length (filter (memb t) idx).
Definition is_partition (N : nat) (idx : list (list nat)) : bool :=
  forallb (fun t => (count_in t idx =? 1)%nat) (seq 0 N).
Definition no_empty_step (idx : list (list nat)) : bool :=
  forallb (fun ids => negb (length ids =? 0)%nat) idx.

(* StepExpansion.__init__ after the minimal repair fixes/C13_step_partition_minimal.diff: the same loop and the same
   binary64 arithmetic, run on the node NUMBERS 0.0, 1.0, ..., N-1.0 instead of the node coordinates *)
Definition step_indices_nodes (N n : nat) : list (list nat) := step_indices_F (map f_nat (seq 0 N)) n.
(* a repaired tree (either patch): the node-number partition, and the float loop on node numbers gives it *)
Definition check_step_init_fixed (N n : nat) (observed : list (list nat)) : bool :=
  natll_eqb observed (step_indices_ideal N n) && natll_eqb observed (step_indices_nodes N n).

(* a grid whose node coordinates are x0 + k*h computed in binary64 (exact when x0, h are dyadic with few bits) *)
Definition fgrid (x0 h : float) (N : nat) : list float := map (fun k => PrimFloat.add x0 (PrimFloat.mul (f_nat k) h)) (seq 0 N).
(* offsets x spacings with short binary expansions: (x0, h) in {0, -4, 3/8, 1, -5/8, 1024+1/8} x {1, 1/2, 1/4, 2, 3, 3/8} *)
Definition dyadic_family : list (float * float) :=
  flat_map (fun x0 => map (fun h => (x0, h)) [1%float; 0.5%float; 0.25%float; 2%float; 3%float; 0.375%float])
           [0%float; (-4)%float; 0.375%float; 1%float; (-0.625)%float; 1024.125%float].
